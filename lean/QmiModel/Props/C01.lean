import QmiModel.Lemmas.C01Progress
import QmiModel.Lemmas.C01ProgressL
import QmiModel.Lemmas.C01Measure
import QmiModel.Lemmas.C01Own
import QmiModel.Lemmas.C01Locked
/-!
# C01 — every RPC call completes exactly once: result, exception or delivery error

Property theorems about the transition system of `Model/Rpc.lean` (one object, one peer connection, unboundedly
many calls and callers, all interleavings, stop/removal/connection-loss/serialisation faults at any point).

* `at_most_once`, `own_outcome` — safety, for **every** configuration (pinned tree included).
* `calls_complete`, `no_loss`, `lost_only_when_client_stopped` — the full statement for the configuration `Cfg.sound`:
  at rest every call has its outcome except those in the ghost set `lost`, and `lost` is empty unless the caller's own
  context was stopped.  `calls_complete_partial`, `no_loss_partial`, `object_survives_partial` are the corollaries under
  `aStop = false` (kept under their names of the first round).  Since the repairs 5177c53 (force_unlock on an unlocked object) and dc3d515 (serialisation failures)
  `Cfg.sound` *is* the configuration of the source: the harness probes the three bits on every run and reports a
  violation (not a known finding) if one of them is set again.
* `client_stop_loses_request`, `client_stop_drops_queued_request` — for the plain system `Reach` (router without the
  send/stop lock, i.e. the source before de03010) the hypothesis `aStop = false` cannot be dropped: a call issued while
  the caller's own context is being stopped can be lost (replayed on the real code by the harness before the repair).
* `nothing_lost_locked`, `calls_complete_locked`, `no_loss_locked` — the **current source** (de03010: `send_message`
  and `stop` of the router share a lock) is the sub-system `ReachL`; there `lost = []` always and EVERY call completes,
  whenever and however either context is stopped.  `client_stop_histories_excluded_by_lock`: the two loss histories are
  not executions of `ReachL`.  The harness reads the lock structure from the AST on every run (cfg bit `sendLocked`).
* `pinned_*_hangs` — historical: the same statement was false of `Cfg.pinned`, the configuration of the tree before
  those repairs; kept as kernel-checked witnesses that each `Cfg` bit matters (`sound_completes_those`).
-/
namespace QmiModel.Rpc

variable (cfg : Cfg) (attr : ReqId → Attr)

theorem reach_sinv {s : State} (h : Reach cfg attr s) : SInv cfg s := by
  induction h with
  | init => exact sinv_init cfg
  | step _ hs ih => exact sinv_step cfg attr ih hs

theorem reach_oinv {s : State} (h : Reach cfg attr s) : OInv s := by
  induction h with
  | init => exact oinv_init
  | step _ hs ih => exact oinv_step cfg attr ih hs

theorem reach_cinv {s : State} (h : Reach Cfg.sound attr s) : CInv attr s := by
  induction h with
  | init => exact cinv_init attr
  | step hr hs ih => exact cinv_step attr (reach_sinv _ attr hr) ih hs

theorem reach_of_run {s s' : State} (as : List Act) (hs : Reach cfg attr s) (h : run cfg attr s as = some s') :
    Reach cfg attr s' := by
  induction as generalizing s with
  | nil => simp [run] at h; subst h; exact hs
  | cons a as ih =>
    simp only [run] at h
    split at h
    · next t ht => exact ih (Reach.step hs ht) h
    · simp at h

/-! ## Safety (every configuration) -/

/-- **a call never completes twice**: once a future holds an outcome no action changes it -/
theorem at_most_once {s s' : State} {a : Act} (h : step cfg attr s a = some s') (r : ReqId) (o : Outcome)
    (hr : s.result r = some o) : s'.result r = some o :=
  result_stable attr cfg h r o hr

theorem at_most_once_run {s s' : State} (as : List Act) (h : run cfg attr s as = some s') (r : ReqId) (o : Outcome)
    (hr : s.result r = some o) : s'.result r = some o := by
  induction as generalizing s with
  | nil => simp [run] at h; subst h; exact hr
  | cons a as ih =>
    simp only [run] at h
    split at h
    · next t ht => exact ih h (at_most_once cfg attr ht r o hr)
    · simp at h

/-- **a call never receives another call's outcome**: a value / exception / locked outcome in the future of
    `r` was produced by the worker executing `r` itself; anything else is a delivery error -/
theorem own_outcome {s : State} (h : Reach cfg attr s) (r : ReqId) (o : Outcome) (hr : s.result r = some o) :
    o = .deliveryErr ∨ (r, o) ∈ s.executed :=
  (reach_oinv cfg attr h).res r o hr

/-! ## No loss, completion (repaired configuration; client context not stopped) -/

/-- every issued call without outcome has a live carrier (request or reply in a queue, on a wire, being executed,
    or an entry of the pending table of a connection that will be closed) -/
theorem no_loss_partial {s : State} (h : Reach Cfg.sound attr s) (hA : s.aStop = false) (r : ReqId)
    (hr : r ∈ s.issued) (hn : s.result r = none) : Good attr s r :=
  reach_cinv attr h hA r hr hn

/-- the system's own activity always comes to rest: at most `mu s` internal steps (every configuration) -/
theorem activity_terminates {s s' : State} (as : List Act) (hall : ∀ a ∈ as, Internal a = true)
    (h : run cfg attr s as = some s') : as.length ≤ mu s := by
  have := internal_run_bounded cfg attr as hall s s' h; omega

/-- **a call never waits for ever** (`_partial`: repaired configuration, client context not stopped):
    whenever the system has come to rest, every issued call has its outcome.  Together with
    `activity_terminates` this gives completion of every call without any fairness assumption beyond
    "threads that can run eventually do". -/
theorem calls_complete_partial {s : State} (h : Reach Cfg.sound attr s) (hA : s.aStop = false)
    (hq : Quiescent Cfg.sound attr s) (r : ReqId) (hr : r ∈ s.issued) : ∃ o, s.result r = some o := by
  have := stuck_implies_done attr (reach_sinv _ attr h) (reach_cinv attr h) hA hq r hr
  cases hv : s.result r with
  | none => exact absurd hv this
  | some o => exact ⟨o, rfl⟩

theorem reach_ainv {s : State} (h : Reach cfg attr s) : AInv s := by
  induction h with
  | init => exact ainv_init
  | step hr hs ih => exact ainv_step cfg attr (reach_sinv cfg attr hr) ih hs

theorem reach_cinvl {s : State} (h : Reach Cfg.sound attr s) : CInvL attr s := by
  induction h with
  | init => exact cinvl_init attr
  | step hr hs ih => exact cinvl_step attr (reach_sinv _ attr hr) (reach_ainv _ attr hr) ih hs

/-- **a call never waits for ever — full statement** (configuration of the current source, no hypothesis on the
    client context): whenever the system has come to rest, every issued call has its outcome, *except* the calls
    recorded in the ghost set `lost`: requests the caller's own context dropped while it was being stopped
    (`enq` on a finished loop thread, callbacks left in the queue when the loop exits). -/
theorem calls_complete {s : State} (h : Reach Cfg.sound attr s) (hq : Quiescent Cfg.sound attr s) (r : ReqId)
    (hr : r ∈ s.issued) : (∃ o, s.result r = some o) ∨ r ∈ s.lost := by
  rcases stuck_implies_done_or_lost attr (reach_sinv _ attr h) (reach_ainv _ attr h) (reach_cinvl attr h) hq r hr with h1 | h1
  · cases hv : s.result r with
    | none => exact absurd hv h1
    | some o => exact Or.inl ⟨o, rfl⟩
  · exact Or.inr h1

/-- ... and nothing is ever lost unless the client context itself was stopped (every configuration) -/
theorem lost_only_when_client_stopped {s : State} (h : Reach cfg attr s) (hA : s.aStop = false) : s.lost = [] :=
  (reach_ainv cfg attr h).lost_stop hA

/-- no loss, full statement: an issued call without outcome has a live carrier or is in `lost` -/
theorem no_loss {s : State} (h : Reach Cfg.sound attr s) (r : ReqId) (hr : r ∈ s.issued) (hn : s.result r = none) :
    r ∈ s.lost ∨ Good attr s r :=
  reach_cinvl attr h r hr hn

/-! ### The repaired router (send/stop lock): the sub-system `ReachL`

`MessageRouter.send_message` holds `_send_lock` from its checks until the message is queued in the socket-manager
thread and `MessageRouter.stop` queues `close_all` / marks the router inactive under the same lock.  In the model this
is `ReachL`: `stopA` only fires while `checked = []`.  The harness reads the lock structure from the AST of the current
source on every run and explores the model accordingly; without the lock the plain `Reach` theorems (with `lost`) apply. -/

/-- with the send/stop lock nothing is ever dropped by the caller's own stopping context (every configuration) -/
theorem nothing_lost_locked {s : State} (h : ReachL cfg attr s) : s.lost = [] :=
  (linv_reach cfg attr h).lost

/-- **a call never waits for ever — full statement for the current source** (all loss paths repaired, send/stop lock):
    whenever the system has come to rest, EVERY issued call has its outcome — also when the caller's own context is
    stopped at any point. -/
theorem calls_complete_locked {s : State} (h : ReachL Cfg.sound attr s) (hq : Quiescent Cfg.sound attr s) (r : ReqId)
    (hr : r ∈ s.issued) : ∃ o, s.result r = some o := by
  rcases calls_complete attr h.toReach hq r hr with h1 | h1
  · exact h1
  · rw [nothing_lost_locked _ attr h] at h1; cases h1

/-- no loss, current source: an issued call without outcome always has a live carrier -/
theorem no_loss_locked {s : State} (h : ReachL Cfg.sound attr s) (r : ReqId) (hr : r ∈ s.issued) (hn : s.result r = none) :
    Good attr s r := by
  rcases no_loss attr h.toReach r hr hn with h1 | h1
  · rw [nothing_lost_locked _ attr h] at h1; cases h1
  · exact h1

/-- executable form of `ReachL` for traces: `run` that refuses `stopA` while a sender is between check and hand-over -/
def runL (s : State) : List Act → Option State
  | [] => some s
  | a :: as =>
    if a = .stopA ∧ s.checked ≠ [] then none else
    match step cfg attr s a with
    | some s' => runL s' as
    | none => none

theorem runL_reach {s t : State} (hs : ReachL cfg attr s) : ∀ {as : List Act}, runL cfg attr s as = some t → ReachL cfg attr t := by
  intro as
  induction as generalizing s with
  | nil => intro h; simp [runL] at h; subst h; exact hs
  | cons a as ih =>
    intro h
    simp only [runL] at h
    split at h
    · cases h
    · next hc =>
      split at h
      · next s' hst =>
        refine ih (ReachL.step hs hst ?_) h
        intro ha
        by_cases hk : s.checked = []
        · exact hk
        · exact absurd ⟨ha, hk⟩ hc
      · cases h

/-- **a target object that still exists keeps serving**: the worker never dies (repaired configuration) -/
theorem object_survives_partial {s : State} (h : Reach Cfg.sound attr s) : s.phase ≠ .crashed :=
  (reach_sinv _ attr h).crash rfl

/-- ... and as long as it is neither stopped nor removed, a delivered request is queued for execution -/
theorem object_accepts {s : State} (r : ReqId) (hu : r ∈ s.unsent) (hl : (attr r).place = .loc)
    (hreg : s.registered = true) (hrun : s.running = true) :
    ∃ s', step cfg attr s (.send r) = some s' ∧ r ∈ s'.fifo := by
  refine ⟨{ s with unsent := s.unsent.erase r, fifo := s.fifo ++ [r] }, ?_, by simp⟩
  simp [step, hu, hl, hreg, hrun]

/-! ## The full-strength statement is false of the pinned tree: witnesses

`calls_complete` without the two hypotheses would read: for every configuration, reachable quiescent state and
issued call, the call has an outcome.  Each theorem below exhibits a reachable quiescent state of the faithful
model in which call `0` has none.  The harness replays the same histories on the real code (observed: deadlock). -/

def attrLocCrash : ReqId → Attr := fun _ => ⟨.loc, true, true, false, true⟩
def attrRemBadArgs : ReqId → Attr := fun _ => ⟨.rem, false, true, false, false⟩
def attrRemBadRes : ReqId → Attr := fun _ => ⟨.rem, true, false, false, false⟩
def attrRemBigRes : ReqId → Attr := fun _ => ⟨.rem, true, true, true, false⟩
def attrRemOk : ReqId → Attr := fun _ => ⟨.rem, true, true, false, false⟩

/-- a decidable sufficient condition for `Quiescent` -/
def quietB (s : State) : Bool :=
  s.unsent.isEmpty && s.checked.isEmpty &&
  (s.aSock == .down || s.aQ.isEmpty) && (s.aSock != .stopping) &&
  (s.aSock == .down || !s.connA || s.wireBA.isEmpty) &&
  !(s.aSock != .down && s.connA && !s.connB && s.wireBA.isEmpty) &&
  (s.bSock == .down || s.bQ.isEmpty) && (s.bSock != .stopping) &&
  (s.bSock == .down || !s.connB || s.wireAB.isEmpty) &&
  !(s.bSock != .down && s.connB && !s.connA && s.wireAB.isEmpty) &&
  (match s.phase with
   | .idle => (s.fifo.isEmpty || s.shutdown) && !s.shutdown
   | .busy _ => false
   | .drained => true
   | .crashed => true)

theorem quiet_sound {s : State} (h : quietB s = true) : Quiescent cfg attr s := by
  simp only [quietB, Bool.and_eq_true, Bool.or_eq_true, beq_iff_eq, bne_iff_ne,
    List.isEmpty_iff, Bool.not_eq_eq_eq_not, Bool.not_true, Bool.and_eq_false_imp] at h
  obtain ⟨⟨⟨⟨⟨⟨⟨⟨⟨⟨h1, h2⟩, h3⟩, h4⟩, h5⟩, h6⟩, h7⟩, h8⟩, h9⟩, h10⟩, h11⟩ := h
  intro a ha
  cases a <;> simp only [Internal] at ha <;> simp only [step]
  case send r => simp [h1]
  case enq r => simp [h2]
  case loopA =>
    rcases h3 with h3 | h3
    · simp [h3]
    · simp [h3]
  case loopExitA => simp [h4]
  case recvA =>
    rcases h5 with (h5 | h5) | h5
    · simp [h5]
    · simp [h5]
    · simp [h5]
  case eofA =>
    split
    · next hc =>
      have := h6 ⟨⟨hc.1, hc.2.1⟩, by simpa using hc.2.2.1⟩
      simp [hc.2.2.2] at this
    · rfl
  case loopB =>
    rcases h7 with h7 | h7
    · simp [h7]
    · simp [h7]
  case loopExitB => simp [h8]
  case recvB =>
    rcases h9 with (h9 | h9) | h9
    · simp [h9]
    · simp [h9]
    · simp [h9]
  case eofB =>
    split
    · next hc =>
      have := h10 ⟨⟨hc.1, hc.2.1⟩, by simpa using hc.2.2.1⟩
      simp [hc.2.2.2] at this
    · rfl
  case pop =>
    cases hp : s.phase <;> simp only [hp] at h11 ⊢
    · simp only [Bool.and_eq_true, Bool.or_eq_true, List.isEmpty_iff, Bool.not_eq_true'] at h11
      rcases h11.1 with h | h
      · simp [h]
      · simp [h] at h11
  case finish o =>
    cases hp : s.phase <;> simp only [hp] at h11 ⊢
    simp at h11
  case drain =>
    cases hp : s.phase <;> simp only [hp] at h11 ⊢
    · simp only [Bool.and_eq_true, Bool.not_eq_true'] at h11
      simp [h11.2]
  all_goals cases ha

/-- the decidable form of a hang witness: run the history, check quiescence, check call 0 has no outcome -/
def hangB (cfg : Cfg) (attr : ReqId → Attr) (as : List Act) (clientStopped : Bool) : Bool :=
  match run cfg attr init as with
  | some s => quietB s && (s.aStop == clientStopped) && s.issued.contains 0 && (s.result 0).isNone
  | none => false

/-- a hang: reachable, quiescent, client stopped or not, call 0 issued and without outcome -/
def Hang (cfg : Cfg) (attr : ReqId → Attr) (clientStopped : Bool) : Prop :=
  ∃ s, Reach cfg attr s ∧ Quiescent cfg attr s ∧ s.aStop = clientStopped ∧ 0 ∈ s.issued ∧ s.result 0 = none

theorem hang_of_hangB {as : List Act} {cs : Bool} (h : hangB cfg attr as cs = true) : Hang cfg attr cs := by
  unfold hangB at h
  split at h
  · next s hs =>
    simp only [Bool.and_eq_true, beq_iff_eq, List.contains_iff_mem, Option.isNone_iff_eq_none] at h
    exact ⟨s, reach_of_run cfg attr as Reach.init hs, quiet_sound cfg attr h.1.1.1, h.1.1.2, h.1.2, h.2⟩
  · simp at h

/-- defect (a): a lock request whose handler raises (FORCE_RELEASE on an unlocked object) kills the worker -/
theorem pinned_lock_crash_hangs :
    Hang Cfg.pinned attrLocCrash false :=
  hang_of_hangB _ _ (as := [.issue 0, .send 0, .pop, .finish .value]) (by decide)

/-- defect (b): arguments that cannot be pickled: the exception escapes in the caller's socket thread -/
theorem pinned_unpicklable_args_hang :
    Hang Cfg.pinned attrRemBadArgs false :=
  hang_of_hangB _ _ (as := [.issue 0, .send 0, .enq 0, .loopA]) (by decide)

/-- defect (b'): a result that cannot be pickled: the reply is dropped in the server's socket thread -/
theorem pinned_unpicklable_result_hangs :
    Hang Cfg.pinned attrRemBadRes false :=
  hang_of_hangB _ _ (as := [.issue 0, .send 0, .enq 0, .loopA, .recvB, .pop, .finish .value, .loopB]) (by decide)

/-- defect (b''): a result larger than MAX_MESSAGE_SIZE: logged, no error reply -/
theorem pinned_oversize_result_hangs :
    Hang Cfg.pinned attrRemBigRes false :=
  hang_of_hangB _ _ (as := [.issue 0, .send 0, .enq 0, .loopA, .recvB, .pop, .finish .value, .loopB]) (by decide)

/-- defect (c): the caller's own context is stopped between the router check and the hand-over to its event loop:
    the request is dropped silently — in every configuration, also the repaired one -/
theorem client_stop_loses_request :
    Hang Cfg.sound attrRemOk true :=
  hang_of_hangB _ _ (as := [.issue 0, .send 0, .stopA, .loopA, .loopA, .loopExitA, .enq 0, .eofB]) (by decide)

/-- ... or after the loop has been told to stop: the queued callback is dropped when the loop exits -/
theorem client_stop_drops_queued_request :
    Hang Cfg.sound attrRemOk true :=
  hang_of_hangB _ _ (as := [.issue 0, .send 0, .stopA, .enq 0, .loopA, .loopA, .loopExitA, .eofB]) (by decide)

/-- the two loss histories above need `stopA` while a sender is between check and hand-over: with the send/stop lock
    (`runL`) they are not executions of the system any more; the lock makes the sender finish first -/
theorem client_stop_histories_excluded_by_lock :
    runL Cfg.sound attrRemOk init [.issue 0, .send 0, .stopA] = none ∧
    (match runL Cfg.sound attrRemOk init [.issue 0, .send 0, .enq 0, .stopA, .loopA, .loopA, .loopA, .loopExitA] with
     | some s => s.result 0 == some .deliveryErr && s.lost.isEmpty && s.aSock == .down
     | none => false) = true := by
  decide

/-- the same histories complete in the repaired configuration (the witnesses really depend on the defects) -/
theorem sound_completes_those :
    hangB Cfg.sound attrLocCrash [.issue 0, .send 0, .pop, .finish .value] false = false ∧
    hangB Cfg.sound attrRemBadArgs [.issue 0, .send 0, .enq 0, .loopA] false = false ∧
    hangB Cfg.sound attrRemBadRes [.issue 0, .send 0, .enq 0, .loopA, .recvB, .pop, .finish .value, .loopB, .recvA] false = false := by
  decide

/-! ## Non-vacuity of the hypotheses of the `_partial` theorems: a non-trivial reachable state of the repaired
configuration with a remote call in flight and the object being removed -/

example : (match run Cfg.sound attrRemOk init [.issue 0, .issue 1, .send 0, .enq 0, .loopA, .recvB, .pop, .unregister, .stop1,
      .send 1, .enq 1, .loopA, .recvB, .stop2] with
    | some s => s.aStop == false && s.phase == .busy 0 && s.pendA == [0, 1] && s.wireBA == [.rep 1 .deliveryErr]
        && !quietB s && (s.result 0).isNone && (s.result 1).isNone
    | none => false) = true := by decide

end QmiModel.Rpc
