import QmiModel.Model.WakeSys
import QmiModel.Model.WakeEnc
import QmiModel.Gen.WakeCert
/-!
# C11 — chunk obligations of the larger systems (a task waiting on two receivers in sequence, one stop request, a publisher serving both — part 1 of 2)

The reachable set of `sysRecv2` is not computed by the kernel: `Gen/WakeCert.lean` holds it as a table of packed states
(written by the compiled driver on every run); each theorem below re-checks one chunk of the table — every entry satisfies
the state obligations and all its successors are in the table again (`chunkOk`, see `Model/WakeEnc.lean`).  Glued in
`Props/C11.lean` by `cert_chunks_sound`.
-/
namespace QmiModel.C11
open QmiModel.Wake QmiModel.Wake.Systems QmiModel.Gen.WakeCert

set_option maxRecDepth 200000 in
theorem recv2_init : initOk sysRecv2 certRecv2 nbkRecv2 = true := by decide +kernel

set_option maxRecDepth 200000 in
theorem recv2_chunk_0 : chunkOk sysRecv2 (goodWaiter sysRecv2) certRecv2 nbkRecv2 0 = true := by decide +kernel

set_option maxRecDepth 200000 in
theorem recv2_chunk_1 : chunkOk sysRecv2 (goodWaiter sysRecv2) certRecv2 nbkRecv2 1 = true := by decide +kernel

set_option maxRecDepth 200000 in
theorem recv2_chunk_2 : chunkOk sysRecv2 (goodWaiter sysRecv2) certRecv2 nbkRecv2 2 = true := by decide +kernel

set_option maxRecDepth 200000 in
theorem recv2_chunk_3 : chunkOk sysRecv2 (goodWaiter sysRecv2) certRecv2 nbkRecv2 3 = true := by decide +kernel

set_option maxRecDepth 200000 in
theorem recv2_chunk_4 : chunkOk sysRecv2 (goodWaiter sysRecv2) certRecv2 nbkRecv2 4 = true := by decide +kernel

end QmiModel.C11
