import QmiModel.Lemmas.C08Steps
import QmiModel.Lemmas.C07Unsub
import QmiModel.Lemmas.C08Quiet
import QmiModel.Lemmas.C08Live
/-!
# C08 — subscription state stays consistent through removal and disconnects

Property theorems only, over `QmiModel.PubSub.step` (all interleavings; unbounded contexts, connections, receivers).
-/
namespace QmiModel.PubSub

/-! ## Failed subscriptions leave nothing behind -/

/-- local publisher missing: `_subscribe_local` raises before touching any table -/
theorem failed_local_subscribe_changes_nothing {s s' : State} {th : Th} {ch ch2 : Nat} {k : Key} {r : Rcv} {rest : List MOp} {o : Out}
    (hmiss : (s.ctx th.ctx).objs k.ob ≠ .present)
    (hs : microStep s th ch ch2 (.chkObj1 k r) rest = some (s', o)) :
    s'.ctx = s.ctx ∧ s'.conn = s.conn ∧ s'.prog th = [.raise .subscription (progTag rest)] := by
  simp only [microStep, hmiss, if_false, Option.some.injEq, Prod.mk.injEq] at hs
  obtain ⟨rfl, -⟩ := hs
  refine ⟨?_, rfl, by simp⟩
  funext c
  simp only [setProg_ctx, setCtx_ctx]
  split
  · rename_i e; rw [e]
  · rfl

/-- an error reply (or a local send failure) to a request never adds a subscription, and removes the request from both
pending tables; a pending *subscribe* is marked failed, which makes every waiting `subscribe` call raise -/
theorem failed_reply_leaves_nothing {cs cs' : CtxSt} {id : ReqId} {more : List MOp} {o : Out}
    (h : PendOk cs) (hs : handleReplyStep cs id false = some (cs', more, o)) :
    cs'.lsubs = cs.lsubs ∧ cs'.rsubs = cs.rsubs ∧ cs'.byId id = none ∧
    ∀ pid po, cs.byId id = some pid → cs.pobj pid = some po →
      (po.sub = true → cs'.byKey po.key = none ∧ cs'.pobj pid = some { po with done := some false } ∧ more = []) := by
  have hr := (handleReplyStep_rsubs hs).1
  have a4 := h.fresh
  unfold handleReplyStep at hs
  split at hs
  · rename_i hnone
    simp only [Option.some.injEq, Prod.mk.injEq] at hs; obtain ⟨rfl, rfl, rfl⟩ := hs
    exact ⟨rfl, rfl, hnone, fun pid po h1 => by rw [hnone] at h1; simp at h1⟩
  · rename_i pid hpid
    split at hs
    · rename_i hnone
      exact absurd hnone (h.byId_some id pid hpid)
    · rename_i po hpo
      have hlt : id < cs.nextReq := by
        rcases Nat.lt_or_ge id cs.nextReq with hlt | hge
        · exact hlt
        · have := (a4 id hge).1; rw [hpid] at this; simp at this
      split at hs
      · rename_i hsub
        simp only [Option.some.injEq, Prod.mk.injEq] at hs
        obtain ⟨rfl, rfl, -⟩ := hs
        refine ⟨?_, hr, by simp [upd], ?_⟩
        · funext k; simp only [upd]; split
          · rename_i e; rw [e]; simp
          · rfl
        · intro pid' po' h1 h2 _
          rw [hpid] at h1; simp only [Option.some.injEq] at h1; subst h1
          rw [hpo] at h2; simp only [Option.some.injEq] at h2; subst h2
          simp [upd]
      · rename_i hsub
        split at hs
        · simp only [Option.some.injEq, Prod.mk.injEq] at hs
          obtain ⟨rfl, rfl, -⟩ := hs
          refine ⟨rfl, hr, ?_, ?_⟩
          · have : id ≠ cs.nextReq := Nat.ne_of_lt hlt
            simp [upd, this]
          · intro pid' po' h1 h2 h3
            rw [hpid] at h1; simp only [Option.some.injEq] at h1; subst h1
            rw [hpo] at h2; simp only [Option.some.injEq] at h2; subst h2
            exact absurd h3 hsub
        · simp only [Option.some.injEq, Prod.mk.injEq] at hs
          obtain ⟨rfl, rfl, -⟩ := hs
          refine ⟨rfl, hr, by simp [upd], ?_⟩
          intro pid' po' h1 h2 h3
          rw [hpid] at h1; simp only [Option.some.injEq] at h1; subst h1
          rw [hpo] at h2; simp only [Option.some.injEq] at h2; subst h2
          exact absurd h3 hsub

/-- **failed subscribe leaves nothing**: when a `subscribe` call learns that it failed (`pending_request.wait()` returns
`False`), the step changes no table, the call raises the subscription error, and its pending request object is no longer
registered under any request id or key — in every reachable state, whatever caused the failure (unknown publisher,
unknown or lost peer, connection closed while the request was outstanding). -/
theorem failed_subscribe_leaves_nothing {s s' : State} {th : Th} {ch ch2 : Nat} {pid : ReqId} {rest : List MOp} {o : Out} {po : PObj}
    (hreach : Reach s) (hpo : (s.ctx th.ctx).pobj pid = some po) (hfail : po.done = some false)
    (hs : microStep s th ch ch2 (.wait pid) rest = some (s', o)) :
    s'.ctx = s.ctx ∧ s'.conn = s.conn ∧ s'.prog th = [.raise .subscription (progTag rest)] ∧
    (∀ id, (s.ctx th.ctx).byId id ≠ some pid) ∧ (∀ k, (s.ctx th.ctx).byKey k ≠ some pid) := by
  have hp := pendInv_reach hreach th.ctx
  simp only [microStep, hpo, hfail, Option.some.injEq, Prod.mk.injEq] at hs
  obtain ⟨rfl, -⟩ := hs
  refine ⟨?_, rfl, by simp, ?_, ?_⟩
  · funext c
    simp only [setProg_ctx, setCtx_ctx]
    split
    · rename_i e; rw [e]
    · rfl
  · intro id hid
    have h1 := hp.byId_key id pid po hid hpo
    have h2 := (hp.byKey_obj _ pid po h1 hpo).2
    rw [hfail] at h2; simp at h2
  · intro k hk
    have h2 := (hp.byKey_obj k pid po hk hpo).2
    rw [hfail] at h2; simp at h2

/-- publisher side of a rejected request: when the double-check of `_handle_subscription_request` fails, the remote
subscriber that was just added is taken out again before the failure reply is sent -/
theorem rejected_request_leaves_no_remote_subscriber {s s' : State} {th : Th} {ch ch2 : Nat} {src : Peer} {ob : Obj} {sg : Sg}
    {rest : List MOp} {o : Out} (hs : microStep s th ch ch2 (.removeRemote src ob sg) rest = some (s', o)) :
    src ∉ (s'.ctx th.ctx).rsubs ⟨ob, sg⟩ := by
  simp only [microStep, Option.some.injEq, Prod.mk.injEq] at hs
  obtain ⟨rfl, -⟩ := hs
  simp [upd]

/-! ## Removing a publisher ends the subscriptions on it at both ends -/

/-- publisher side: the lock section of `handle_object_removed` empties the local and the remote table for every signal
of the object, and schedules one removal notice for every remote subscriber of every signal of the object -/
theorem removal_ends_publisher_side {s s' : State} {th : Th} {ch ch2 : Nat} {ob : Obj} {rest : List MOp} {o : Out}
    (hreach : Reach s) (hs : microStep s th ch ch2 (.objRemoved ob) rest = some (s', o)) :
    (∀ sg, (s'.ctx th.ctx).rsubs ⟨ob, sg⟩ = [] ∧ (s'.ctx th.ctx).lsubs ⟨.name th.ctx, ob, sg⟩ = []) ∧
    (∀ sg d, d ∈ (s.ctx th.ctx).rsubs ⟨ob, sg⟩ →
        ∃ ns, s'.prog th = .notify ns ob :: rest ∧ (sg, d) ∈ ns) := by
  have hdom := rdomInv_reach hreach th.ctx
  simp only [microStep, Option.some.injEq, Prod.mk.injEq] at hs
  obtain ⟨rfl, -⟩ := hs
  refine ⟨fun sg => by simp, ?_⟩
  intro sg d hd
  have hmem : (sg, d) ∈ notifyList (s.ctx th.ctx) ob := by
    simp only [notifyList, List.mem_flatMap, List.mem_filter, List.mem_map, decide_eq_true_eq]
    refine ⟨⟨ob, sg⟩, ⟨hdom ⟨ob, sg⟩ (by intro e; rw [e] at hd; simp at hd), rfl⟩, d, hd, rfl⟩
  refine ⟨notifyList (s.ctx th.ctx) ob, ?_, hmem⟩
  simp only [setProg_prog, if_true]
  split
  · rename_i e; rw [e] at hmem; simp at hmem
  · rfl

/-- every scheduled notice is handed to the event loop (unless the context itself is stopping, or its peer is no longer connected — then
`handle_peer_context_removed` deals with that peer, see `disconnect_ends_this_side`) -/
theorem removal_notice_is_sent {s s' : State} {th : Th} {sg : Sg} {d : Peer} {ns : List (Sg × Peer)} {ob : Obj} {rest : List MOp} {o : Out}
    (hmem : (sg, d) ∈ ns) (hs : microStep s th sg (peerCode d) (.notify ns ob) rest = some (s', o)) :
    ∃ x ∈ ns, x.1 = sg ∧ peerCode x.2 = peerCode d ∧
      (((s.ctx th.ctx).peers x.2).isSome = true → (s.passed th || !(s.ctx th.ctx).routerDown) = true →
        ∃ tail, s'.prog th = .enq x.2 (.removed ob x.1) :: tail) := by
  simp only [microStep] at hs
  split at hs
  · rename_i hf
    have := List.find?_eq_none.1 hf (sg, d) hmem
    simp at this
  · rename_i x hf
    have hx := List.find?_some hf
    have hxm := List.mem_of_find?_eq_some hf
    simp only [decide_eq_true_eq] at hx
    refine ⟨x, hxm, hx.1, hx.2, ?_⟩
    intro hp hrd
    simp only [hp, hrd, Bool.and_self, if_true, Option.some.injEq, Prod.mk.injEq] at hs
    obtain ⟨rfl, -⟩ := hs
    exact ⟨_, by simp; rfl⟩

/-- subscriber side: processing the removal notice empties the table entry of that signal -/
theorem removal_notice_ends_subscriber_side {s s' : State} {th : Th} {ch ch2 : Nat} {k : Key} {rest : List MOp} {o : Out}
    (hs : microStep s th ch ch2 (.sigRemoved k) rest = some (s', o)) : (s'.ctx th.ctx).lsubs k = [] := by
  simp only [microStep, Option.some.injEq, Prod.mk.injEq] at hs
  obtain ⟨rfl, -⟩ := hs
  simp [upd]

/-! ## Losing the connection ends the subscriptions at both ends -/

/-- at either end: `handle_peer_context_removed(n)` drops `n` from every remote-subscriber set and empties every local
entry whose publisher context is `n` -/
theorem disconnect_ends_this_side {s s' : State} {th : Th} {ch ch2 : Nat} {n : Peer} {rest : List MOp} {o : Out}
    (hs : microStep s th ch ch2 (.peerRemoved n) rest = some (s', o)) :
    (∀ κ, n ∉ (s'.ctx th.ctx).rsubs κ) ∧ (∀ k, k.pc = n → (s'.ctx th.ctx).lsubs k = []) := by
  simp only [microStep, Option.some.injEq, Prod.mk.injEq] at hs
  obtain ⟨rfl, -⟩ := hs
  exact ⟨fun κ => by simp [peerRemovedStep], fun k hk => by simp [peerRemovedStep, hk]⟩

/-- both ways a connection end is torn down (explicit `disconnect_from_peer`, end-of-stream from the other side) run
exactly: unregister the peer, `handle_peer_context_removed`, close the socket — so the cleanup above always happens,
and closing makes the other end see end-of-stream (`Act.eof` becomes enabled there once it has read what was sent) -/
theorem disconnect_runs_cleanup {s s' : State} {cn : ConnId} {cli : Bool} {o : Out}
    (hs : step s (.eof cn cli) = some (s', o)) :
    s'.prog (.sock ((s.conn cn).half cli).owner) =
      [.popPeer (srcName s cn cli), .peerRemoved (srcName s cn cli), .closeConn cn cli] := by
  simp only [step] at hs
  split at hs
  · simp only [Option.some.injEq, Prod.mk.injEq] at hs
    obtain ⟨rfl, -⟩ := hs
    simp
  · simp at hs

theorem close_is_seen_by_other_end {s s' : State} {th : Th} {ch ch2 : Nat} {cn : ConnId} {cli : Bool} {rest : List MOp} {o : Out}
    (hs : microStep s th ch ch2 (.closeConn cn cli) rest = some (s', o)) :
    ((s'.conn cn).half cli).isOpen = false ∧ ((s'.conn cn).half cli).pend = [] ∧
    s'.prog th = (((s.conn cn).half cli).pend.map fun id => MOp.handleReply id false) ++ rest := by
  simp only [microStep, Option.some.injEq, Prod.mk.injEq] at hs
  obtain ⟨rfl, -⟩ := hs
  cases cli <;> simp [Conn.half, Conn.setHalf, upd]


/-- **removal ends both ends** (per step; the notice travels through the FIFO event loop and connection, whose
composition is the unmechanised network layer): the publisher's lock section empties both of its tables for the object
and schedules a notice for every remote subscriber; each notice is handed to the event loop while the peer is connected;
the subscriber's handler empties its entry. -/
theorem removal_ends_both_ends :
    (∀ (s s' : State) (th : Th) (ch ch2 : Nat) (ob : Obj) (rest : List MOp) (o : Out), Reach s →
        microStep s th ch ch2 (.objRemoved ob) rest = some (s', o) →
        (∀ sg, (s'.ctx th.ctx).rsubs ⟨ob, sg⟩ = [] ∧ (s'.ctx th.ctx).lsubs ⟨.name th.ctx, ob, sg⟩ = []) ∧
        (∀ sg d, d ∈ (s.ctx th.ctx).rsubs ⟨ob, sg⟩ → ∃ ns, s'.prog th = .notify ns ob :: rest ∧ (sg, d) ∈ ns)) ∧
    (∀ (s s' : State) (th : Th) (ch ch2 : Nat) (k : Key) (rest : List MOp) (o : Out),
        microStep s th ch ch2 (.sigRemoved k) rest = some (s', o) → (s'.ctx th.ctx).lsubs k = []) :=
  ⟨fun _ _ _ _ _ _ _ _ hr hs => removal_ends_publisher_side hr hs,
   fun _ _ _ _ _ _ _ _ hs => removal_notice_ends_subscriber_side hs⟩

/-- **disconnect ends both ends** (per step): whichever way an end of a connection goes down — `disconnect_from_peer`
or end-of-stream caused by the other side's close / stop — its socket thread unregisters the peer, runs
`handle_peer_context_removed` (which drops the peer from every remote-subscriber set and empties every local entry
published by it), and closes its end, which in turn is what the other end sees as end-of-stream. -/
theorem disconnect_ends_both_ends :
    (∀ (s s' : State) (cn : ConnId) (cli : Bool) (o : Out), step s (.eof cn cli) = some (s', o) →
        s'.prog (.sock ((s.conn cn).half cli).owner) =
          [.popPeer (srcName s cn cli), .peerRemoved (srcName s cn cli), .closeConn cn cli]) ∧
    (∀ (s s' : State) (th : Th) (ch ch2 : Nat) (n : Peer) (rest : List MOp) (o : Out),
        microStep s th ch ch2 (.peerRemoved n) rest = some (s', o) →
        (∀ κ, n ∉ (s'.ctx th.ctx).rsubs κ) ∧ (∀ k, k.pc = n → (s'.ctx th.ctx).lsubs k = [])) ∧
    (∀ (s s' : State) (th : Th) (ch ch2 : Nat) (cn : ConnId) (cli : Bool) (rest : List MOp) (o : Out),
        microStep s th ch ch2 (.closeConn cn cli) rest = some (s', o) → ((s'.conn cn).half cli).isOpen = false) :=
  ⟨fun _ _ _ _ _ hs => disconnect_runs_cleanup hs,
   fun _ _ _ _ _ _ _ _ hs => disconnect_ends_this_side hs,
   fun _ _ _ _ _ _ _ _ _ hs => (close_is_seen_by_other_end hs).1⟩

/-! ## Quiescent consistency

`Quiescent s`: nothing in flight (Lemmas/C08Quiet).  `Consistent s`: for live contexts `a`, `p` with a registered
connection `cn` from `a` to `p`, and every (publisher, signal): `p` has `a` as remote subscriber ⇔ `a` has a receiver. -/

/-- the full-strength statement of the property (not proved: it needs the request / reply / notice pipeline invariant,
see the module documentation of Lemmas/C08Carrier) -/
def QuiescentConsistency : Prop := ∀ s, Reach s → Quiescent s → Consistent s

/-- Historical example (DESIGN §7 l, repaired in /repo by the commit "a removal notice that overtakes the reply to a
pending subscribe no longer leaves a dead subscription"): context 1 subscribes receiver 5 to object 0 / signal 0 of
context 0 while context 0 removes object 0; the socket thread of context 0 has passed the double-check of
`_handle_subscription_request` when the removing thread enqueues the removal notice, and only then enqueues its success
reply.  On the pinned tree this schedule ended with the subscriber holding receiver 5 while the publisher had no
remote subscriber.  With the repair the notice marks the pending request, the overtaken success reply counts as a
failure, the subscribe call raises, and both tables are empty. -/
def raceTrace : List Act := [
  .begin 0 0 (.makeObj 0), .micro (.user 0 0) 0 0, .micro (.user 0 0) 0 0, .micro (.user 0 0) 0 0,
  .connect 1 0,
  .begin 1 0 (.subscribe 0 0 0 5),
  .micro (.user 1 0) 0 0,            -- _subscribe_remote lock section: request 0 created
  .micro (.user 1 0) 0 0,            -- has_peer_context
  .micro (.user 1 0) 0 0,            -- enqueue on the event loop of context 1
  .cb 1 true,                        -- request sent
  .arrive 0 false,                   -- context 0 reads the request
  .micro (.sock 0) 0 0,              -- check: publisher exists
  .micro (.sock 0) 0 0,              -- _add_remote_subscriber
  .micro (.sock 0) 0 0,              -- double-check: publisher still exists
  .begin 0 1 (.removeObj 0),
  .micro (.user 0 1) 0 0,            -- mark
  .micro (.user 0 1) 0 0,            -- handle_object_removed lock section
  .micro (.user 0 1) 0 1,            -- has_peer_context for the notice (signal 0, peer alias 0)
  .micro (.user 0 1) 0 0,            -- notice enqueued
  .micro (.user 0 1) 0 0,            -- delete name
  .micro (.user 0 1) 0 0,            -- return
  .micro (.sock 0) 0 0,              -- has_peer_context for the reply
  .micro (.sock 0) 0 0,              -- reply enqueued: *behind* the notice
  .cb 0 true, .cb 0 true,            -- notice, then reply, written to the connection
  .arrive 0 true, .micro (.sock 1) 0 0,     -- notice processed: the pending subscribe request is marked
  .arrive 0 true, .micro (.sock 1) 0 0,     -- overtaken success reply processed as a failure
  .micro (.user 1 0) 0 0, .micro (.user 1 0) 0 0]   -- subscribe raises QMI_SignalSubscriptionException

/-- regression example: the racing schedule now ends consistent (kernel evaluation of the model) -/
theorem raceTrace_ends_consistent :
    (run State.init raceTrace).map (fun s =>
      ((s.ctx 0).rsubs ⟨0, 0⟩, (s.ctx 1).lsubs ⟨.name 0, 0, 0⟩, (s.ctx 1).byId 0, (s.ctx 1).byKey ⟨.name 0, 0, 0⟩)) =
      some ([], [], none, none) ∧
    (run State.init raceTrace).map (fun s =>
      ((s.prog (.user 1 0)).isEmpty, (s.ctx 0).loopQ.isEmpty, (s.ctx 1).loopQ.isEmpty)) = some (true, true, true) := by
  constructor <;> decide

/-- … and the subscribe call of that schedule ends with the subscription error -/
theorem raceTrace_subscribe_raises :
    ((run State.init raceTrace.dropLast).bind fun s => (step s (.micro (.user 1 0) 0 0)).map Prod.snd) =
    some (.exc .subscription (.sub ⟨.name 0, 0, 0⟩ 5)) := by decide

/-! ## No subscribe / unsubscribe call blocks for ever (local layer)

`unsubscribe` never waits (its program contains no `wait`).  A `subscribe` call waits in `wait pid` until the pending
request object `pid` is completed.  The three ways in which an outstanding request is answered are shown below to
release the waiters; that *every* outstanding request does reach one of them (carrier invariant over event loop,
connection and the peer's socket thread, as for C01) is not mechanised — on the implementation side it is observed as
"the deterministic scheduler never reports a deadlock" (clause `blocks-forever`). -/

/-- (1) a reply — success, failure, or the error reply generated for a closed connection — to a *subscribe* request
completes the pending object, after which `wait` is enabled and returns the reply's verdict (a success that was
overtaken by the removal notice of its publisher counts as a failure) -/
theorem reply_releases_waiters {s : State} {th th' : Th} {id pid : ReqId} {ok : Bool} {po : PObj} {rest rest' : List MOp}
    (hc : th'.ctx = th.ctx)
    (hid : (s.ctx th.ctx).byId id = some pid) (hpo : (s.ctx th.ctx).pobj pid = some po) (hsub : po.sub = true) :
    ∃ s' o, microStep s th 0 0 (.handleReply id ok) rest = some (s', o) ∧
      (s'.ctx th.ctx).pobj pid = some { po with done := some (ok && !po.cancelled) } ∧
      (microStep s' th' 0 0 (.wait pid) rest').isSome = true := by
  simp only [microStep, handleReplyStep, hid, hpo, hsub, if_true]
  refine ⟨_, _, rfl, by simp [upd], ?_⟩
  simp only [setProg_ctx, setCtx_ctx, hc, if_true, upd]
  cases (ok && !po.cancelled) <;> simp

/-- (2) a request whose local send fails (peer unknown, or `sendall` raises in the socket thread) is answered at once by
an error reply handled in the same thread -/
theorem send_failure_answers_request (id : ReqId) (ob : Obj) (sg : Sg) (b : Bool) :
    onSendFail (.subReq id ob sg b) = [.handleReply id false] := rfl

/-- (3) closing a connection end answers every request registered on it (`_clear_pending_requests`) -/
theorem closing_answers_registered_requests {s s' : State} {th : Th} {ch ch2 : Nat} {cn : ConnId} {cli : Bool}
    {rest : List MOp} {o : Out} (hs : microStep s th ch ch2 (.closeConn cn cli) rest = some (s', o)) :
    ∀ id ∈ ((s.conn cn).half cli).pend, MOp.handleReply id false ∈ s'.prog th := by
  intro id hid
  rw [(close_is_seen_by_other_end hs).2.2]
  exact List.mem_append_left _ (List.mem_map.2 ⟨id, hid, rfl⟩)

/-- a request is registered on the connection in the very step that writes it to the connection -/
theorem sent_request_is_registered {s s1 : State} {c : Ctx} {d : Peer} {id : ReqId} {ob : Obj} {sg : Sg} {b : Bool}
    {cn : ConnId} {pr : List MOp} (hp : (s.ctx c).peers d = some cn)
    (hs : smSendStep s c d (.subReq id ob sg b) true = some (s1, pr)) :
    id ∈ ((s1.conn cn).half d.isName).pend := by
  simp only [smSendStep, hp, if_true, Msg.reqId?, Option.some.injEq, Prod.mk.injEq] at hs
  obtain ⟨rfl, -⟩ := hs
  cases hd : d.isName <;> (simp only [upd, if_true]; split) <;> simp [Conn.half, Conn.setHalf]

/-! ### the carrier invariant and the "stuck ⇒ nobody waits" argument -/

/-- **no request is ever lost inside its own context** (carrier invariant, local layer, full strength): in every
reachable state every outstanding request of a live context is carried by a pending operation of one of its threads
(the send that is about to happen, or the reply / error reply about to be handled), by a callback in its event-loop
queue, or by the pending-request table of one of its connection ends (`_pending_requests`, from which
`_clear_pending_requests` answers it when the connection goes down). -/
theorem no_request_is_lost {s : State} (h : Reach s) {c : Ctx} {id : ReqId}
    (hal : (s.ctx c).alive = true) (hid : (s.ctx c).byId id ≠ none) : Carrier s c id :=
  carrierInv_reach h c id hal hid

/-- **only the two waits can block**: the head operation of every thread other than `pending_request.wait()` and the
`future.wait()` of `disconnect_from_peer` is enabled in every reachable state (for a suitable iteration order); in
particular a reply or error reply is always processed, and a lock section never deadlocks in the model. -/
theorem only_waits_block {s : State} (h : Reach s) {th : Th} {op : MOp} {rest : List MOp}
    (hp : s.prog th = op :: rest) (hw : op.isWait = false) :
    ∃ ch ch2, (microStep s th ch ch2 op rest).isSome = true :=
  micro_enabled h hp hw

/-- a waiting `subscribe` call is waiting for something: its pending object exists, and is completed (then the call
continues) or still registered under its current request id (then `no_request_is_lost` applies to that request) -/
theorem waiting_call_has_outstanding_request {s : State} (h : Reach s) {th : Th} {pid : ReqId} (hm : .wait pid ∈ s.prog th) :
    ∃ po, (s.ctx th.ctx).pobj pid = some po ∧ (po.done ≠ none ∨ (s.ctx th.ctx).byId po.cur = some pid) := by
  have hw := waitInv_reach h th pid hm
  have hpk := pendInv_reach h th.ctx
  cases hpo : (s.ctx th.ctx).pobj pid with
  | none => exact absurd hpo hw.ex
  | some po =>
    refine ⟨po, rfl, ?_⟩
    rcases (hw.live po hpo).2 with h1 | h1
    · exact Or.inl h1
    · exact Or.inr (hpk.byKey_cur _ pid po h1 hpo)

/-- **subscribe terminates — partial.**  If no internal action is enabled (`Stuck`: no thread can continue, no socket
thread has a callback, a message or an end-of-stream to process), then no live context has an outstanding request and
no thread of a live context is inside a `subscribe` / `unsubscribe` call.  Missing hypothesis, spelled out as
`NetLive`: a request registered on a connection end (`_pending_requests`) always has an enabled internal action — its
request message in the peer's inbox, the peer's handler, the reply in the peer's queue or in our inbox, or the
end-of-stream / teardown of the connection (the peer-side half of the carrier invariant).  Termination of the internal
activity itself (a measure decreasing along internal actions) is not mechanised either; on the implementation both
are observed as "the deterministic scheduler never reports a deadlock" (oracle clause `blocks-forever`). -/
theorem subscribe_terminates_partial {s : State} (h : Reach s) (hst : Stuck s) (hnet : NetLive s) :
    (∀ c id, (s.ctx c).alive = true → (s.ctx c).byId id = none) ∧
    (∀ th, (s.ctx th.ctx).alive = true → s.prog th = [] ∨ ∃ rest, s.prog th = .waitFut :: rest) :=
  stuck_implies_answered h hst hnet

end QmiModel.PubSub
