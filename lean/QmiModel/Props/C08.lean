import QmiModel.Lemmas.C08Steps
import QmiModel.Lemmas.C07Unsub
import QmiModel.Lemmas.C08Quiet
import QmiModel.Lemmas.C08Live
import QmiModel.Lemmas.C08NetLive
import QmiModel.Lemmas.C08NetTok
import QmiModel.Lemmas.C08Sim10
import QmiModel.Lemmas.C08Term4
/-!
# C08 — subscription state stays consistent through removal and disconnects

Property theorems only, over `QmiModel.PubSub.step` (all interleavings; unbounded contexts, connections, receivers).
-/
namespace QmiModel.PubSub

/-! ## Failed subscriptions leave nothing behind -/

/-- local publisher missing: `_subscribe_local` raises before touching any table -/
theorem failed_local_subscribe_changes_nothing {s s' : State} {th : Th} {ch ch2 : Nat} {k : Key} {r : Rcv} {rest : List MOp} {o : Out}
    (hmiss : (s.ctx th.ctx).objs k.ob ≠ .present)
    (hs : microStep s th ch ch2 (.chkObj1 k r) rest = some (s', o)) :
    s'.ctx = s.ctx ∧ s'.conn = s.conn ∧ s'.prog th = [.raise .subscription (progTag rest)] := by
  simp only [microStep, hmiss, if_false, Option.some.injEq, Prod.mk.injEq] at hs
  obtain ⟨rfl, -⟩ := hs
  refine ⟨?_, rfl, by simp⟩
  funext c
  simp only [setProg_ctx, setCtx_ctx]
  split
  · rename_i e; rw [e]
  · rfl

/-- an error reply (or a local send failure) to a request never adds a subscription, and removes the request from both
pending tables; a pending *subscribe* is marked failed, which makes every waiting `subscribe` call raise -/
theorem failed_reply_leaves_nothing {cs cs' : CtxSt} {id : ReqId} {more : List MOp} {o : Out}
    (h : PendOk cs) (hs : handleReplyStep cs id false = some (cs', more, o)) :
    cs'.lsubs = cs.lsubs ∧ cs'.rsubs = cs.rsubs ∧ cs'.byId id = none ∧
    ∀ pid po, cs.byId id = some pid → cs.pobj pid = some po →
      (po.sub = true → cs'.byKey po.key = none ∧ cs'.pobj pid = some { po with done := some false } ∧ more = []) := by
  have hr := (handleReplyStep_rsubs hs).1
  have a4 := h.fresh
  unfold handleReplyStep at hs
  split at hs
  · rename_i hnone
    simp only [Option.some.injEq, Prod.mk.injEq] at hs; obtain ⟨rfl, rfl, rfl⟩ := hs
    exact ⟨rfl, rfl, hnone, fun pid po h1 => by rw [hnone] at h1; simp at h1⟩
  · rename_i pid hpid
    split at hs
    · rename_i hnone
      exact absurd hnone (h.byId_some id pid hpid)
    · rename_i po hpo
      have hlt : id < cs.nextReq := by
        rcases Nat.lt_or_ge id cs.nextReq with hlt | hge
        · exact hlt
        · have := (a4 id hge).1; rw [hpid] at this; simp at this
      split at hs
      · rename_i hsub
        simp only [Option.some.injEq, Prod.mk.injEq] at hs
        obtain ⟨rfl, rfl, -⟩ := hs
        refine ⟨?_, hr, by simp [upd], ?_⟩
        · funext k; simp only [upd]; split
          · rename_i e; rw [e]; simp
          · rfl
        · intro pid' po' h1 h2 _
          rw [hpid] at h1; simp only [Option.some.injEq] at h1; subst h1
          rw [hpo] at h2; simp only [Option.some.injEq] at h2; subst h2
          simp [upd]
      · rename_i hsub
        split at hs
        · simp only [Option.some.injEq, Prod.mk.injEq] at hs
          obtain ⟨rfl, rfl, -⟩ := hs
          refine ⟨rfl, hr, ?_, ?_⟩
          · have : id ≠ cs.nextReq := Nat.ne_of_lt hlt
            simp [upd, this]
          · intro pid' po' h1 h2 h3
            rw [hpid] at h1; simp only [Option.some.injEq] at h1; subst h1
            rw [hpo] at h2; simp only [Option.some.injEq] at h2; subst h2
            exact absurd ⟨h3, by simp⟩ hsub
        · simp only [Option.some.injEq, Prod.mk.injEq] at hs
          obtain ⟨rfl, rfl, -⟩ := hs
          refine ⟨rfl, hr, by simp [upd], ?_⟩
          intro pid' po' h1 h2 h3
          rw [hpid] at h1; simp only [Option.some.injEq] at h1; subst h1
          rw [hpo] at h2; simp only [Option.some.injEq] at h2; subst h2
          exact absurd ⟨h3, by simp⟩ hsub

/-- **failed subscribe leaves nothing**: when a `subscribe` call learns that it failed (`pending_request.wait()` returns
`False`), the step changes no table, the call raises the subscription error, and its pending request object is no longer
registered under any request id or key — in every reachable state, whatever caused the failure (unknown publisher,
unknown or lost peer, connection closed while the request was outstanding). -/
theorem failed_subscribe_leaves_nothing {s s' : State} {th : Th} {ch ch2 : Nat} {pid : ReqId} {rest : List MOp} {o : Out} {po : PObj}
    (hreach : Reach s) (hpo : (s.ctx th.ctx).pobj pid = some po) (hfail : po.done = some false)
    (hs : microStep s th ch ch2 (.wait pid) rest = some (s', o)) :
    s'.ctx = s.ctx ∧ s'.conn = s.conn ∧ s'.prog th = [.raise .subscription (progTag rest)] ∧
    (∀ id, (s.ctx th.ctx).byId id ≠ some pid) ∧ (∀ k, (s.ctx th.ctx).byKey k ≠ some pid) := by
  have hp := pendInv_reach hreach th.ctx
  simp only [microStep, hpo, hfail, Option.some.injEq, Prod.mk.injEq] at hs
  obtain ⟨rfl, -⟩ := hs
  refine ⟨?_, rfl, by simp, ?_, ?_⟩
  · funext c
    simp only [setProg_ctx, setCtx_ctx]
    split
    · rename_i e; rw [e]
    · rfl
  · intro id hid
    have h1 := hp.byId_key id pid po hid hpo
    have h2 := (hp.byKey_obj _ pid po h1 hpo).2
    rw [hfail] at h2; simp at h2
  · intro k hk
    have h2 := (hp.byKey_obj k pid po hk hpo).2
    rw [hfail] at h2; simp at h2

/-- publisher side of a rejected request: when the double-check of `_handle_subscription_request` fails, the remote
subscriber that was just added is taken out again before the failure reply is sent -/
theorem rejected_request_leaves_no_remote_subscriber {s s' : State} {th : Th} {ch ch2 : Nat} {src : Peer} {ob : Obj} {sg : Sg}
    {rest : List MOp} {o : Out} (hs : microStep s th ch ch2 (.removeRemote src ob sg) rest = some (s', o)) :
    src ∉ (s'.ctx th.ctx).rsubs ⟨ob, sg⟩ := by
  simp only [microStep, Option.some.injEq, Prod.mk.injEq] at hs
  obtain ⟨rfl, -⟩ := hs
  simp [upd]

/-! ## Removing a publisher ends the subscriptions on it at both ends -/

/-- publisher side: the lock section of `handle_object_removed` empties the local and the remote table for every signal
of the object, and schedules one removal notice for every remote subscriber of every signal of the object -/
theorem removal_ends_publisher_side {s s' : State} {th : Th} {ch ch2 : Nat} {ob : Obj} {rest : List MOp} {o : Out}
    (hreach : Reach s) (hs : microStep s th ch ch2 (.objRemoved ob) rest = some (s', o)) :
    (∀ sg, (s'.ctx th.ctx).rsubs ⟨ob, sg⟩ = [] ∧ (s'.ctx th.ctx).lsubs ⟨.name th.ctx, ob, sg⟩ = []) ∧
    (∀ sg d, d ∈ (s.ctx th.ctx).rsubs ⟨ob, sg⟩ →
        ∃ ns, s'.prog th = .notify ns ob :: rest ∧ (sg, d) ∈ ns) := by
  have hdom := rdomInv_reach hreach th.ctx
  simp only [microStep, Option.some.injEq, Prod.mk.injEq] at hs
  obtain ⟨rfl, -⟩ := hs
  refine ⟨fun sg => by simp, ?_⟩
  intro sg d hd
  have hmem : (sg, d) ∈ notifyList (s.ctx th.ctx) ob := by
    simp only [notifyList, List.mem_flatMap, List.mem_filter, List.mem_map, decide_eq_true_eq]
    refine ⟨⟨ob, sg⟩, ⟨hdom ⟨ob, sg⟩ (by intro e; rw [e] at hd; simp at hd), rfl⟩, d, hd, rfl⟩
  refine ⟨notifyList (s.ctx th.ctx) ob, ?_, hmem⟩
  simp only [setProg_prog, if_true]
  split
  · rename_i e; rw [e] at hmem; simp at hmem
  · rfl

/-- every scheduled notice is handed to the event loop (unless the context itself is stopping, or its peer is no longer connected — then
`handle_peer_context_removed` deals with that peer, see `disconnect_ends_this_side`) -/
theorem removal_notice_is_sent {s s' : State} {th : Th} {sg : Sg} {d : Peer} {ns : List (Sg × Peer)} {ob : Obj} {rest : List MOp} {o : Out}
    (hmem : (sg, d) ∈ ns) (hs : microStep s th sg (peerCode d) (.notify ns ob) rest = some (s', o)) :
    ∃ x ∈ ns, x.1 = sg ∧ peerCode x.2 = peerCode d ∧
      (((s.ctx th.ctx).peers x.2).isSome = true → (s.passed th || !(s.ctx th.ctx).routerDown) = true →
        ∃ tail, s'.prog th = .enq x.2 (.removed ob x.1) :: tail) := by
  simp only [microStep] at hs
  split at hs
  · rename_i hf
    have := List.find?_eq_none.1 hf (sg, d) hmem
    simp at this
  · rename_i x hf
    have hx := List.find?_some hf
    have hxm := List.mem_of_find?_eq_some hf
    simp only [decide_eq_true_eq] at hx
    refine ⟨x, hxm, hx.1, hx.2, ?_⟩
    intro hp hrd
    simp only [hp, hrd, Bool.and_self, if_true, Option.some.injEq, Prod.mk.injEq] at hs
    obtain ⟨rfl, -⟩ := hs
    exact ⟨_, by simp; rfl⟩

/-- subscriber side: processing the removal notice empties the table entry of that signal -/
theorem removal_notice_ends_subscriber_side {s s' : State} {th : Th} {ch ch2 : Nat} {k : Key} {rest : List MOp} {o : Out}
    (hs : microStep s th ch ch2 (.sigRemoved k) rest = some (s', o)) : (s'.ctx th.ctx).lsubs k = [] := by
  simp only [microStep, Option.some.injEq, Prod.mk.injEq] at hs
  obtain ⟨rfl, -⟩ := hs
  simp [upd]

/-! ## Losing the connection ends the subscriptions at both ends -/

/-- at either end: `handle_peer_context_removed(n)` drops `n` from every remote-subscriber set and empties every local
entry whose publisher context is `n` -/
theorem disconnect_ends_this_side {s s' : State} {th : Th} {ch ch2 : Nat} {n : Peer} {rest : List MOp} {o : Out}
    (hs : microStep s th ch ch2 (.peerRemoved n) rest = some (s', o)) :
    (∀ κ, n ∉ (s'.ctx th.ctx).rsubs κ) ∧ (∀ k, k.pc = n → (s'.ctx th.ctx).lsubs k = []) := by
  simp only [microStep, Option.some.injEq, Prod.mk.injEq] at hs
  obtain ⟨rfl, -⟩ := hs
  exact ⟨fun κ => by simp [peerRemovedStep], fun k hk => by simp [peerRemovedStep, hk]⟩

/-- both ways a connection end is torn down (explicit `disconnect_from_peer`, end-of-stream from the other side) run
exactly: unregister the peer, `handle_peer_context_removed`, close the socket — so the cleanup above always happens,
and closing makes the other end see end-of-stream (`Act.eof` becomes enabled there once it has read what was sent) -/
theorem disconnect_runs_cleanup {s s' : State} {cn : ConnId} {cli : Bool} {o : Out}
    (hs : step s (.eof cn cli) = some (s', o)) :
    s'.prog (.sock ((s.conn cn).half cli).owner) =
      [.popPeer (srcName s cn cli), .peerRemoved (srcName s cn cli), .closeConn cn cli] := by
  simp only [step] at hs
  split at hs
  · simp only [Option.some.injEq, Prod.mk.injEq] at hs
    obtain ⟨rfl, -⟩ := hs
    simp
  · simp at hs

theorem close_is_seen_by_other_end {s s' : State} {th : Th} {ch ch2 : Nat} {cn : ConnId} {cli : Bool} {rest : List MOp} {o : Out}
    (hs : microStep s th ch ch2 (.closeConn cn cli) rest = some (s', o)) :
    ((s'.conn cn).half cli).isOpen = false ∧ ((s'.conn cn).half cli).pend = [] ∧
    s'.prog th = (((s.conn cn).half cli).pend.map fun id => MOp.handleReply id false) ++ rest := by
  simp only [microStep, Option.some.injEq, Prod.mk.injEq] at hs
  obtain ⟨rfl, -⟩ := hs
  cases cli <;> simp [Conn.half, Conn.setHalf, upd]


/-- **removal ends both ends** (per step; the notice travels through the FIFO event loop and connection, whose
composition is the unmechanised network layer): the publisher's lock section empties both of its tables for the object
and schedules a notice for every remote subscriber; each notice is handed to the event loop while the peer is connected;
the subscriber's handler empties its entry. -/
theorem removal_ends_both_ends :
    (∀ (s s' : State) (th : Th) (ch ch2 : Nat) (ob : Obj) (rest : List MOp) (o : Out), Reach s →
        microStep s th ch ch2 (.objRemoved ob) rest = some (s', o) →
        (∀ sg, (s'.ctx th.ctx).rsubs ⟨ob, sg⟩ = [] ∧ (s'.ctx th.ctx).lsubs ⟨.name th.ctx, ob, sg⟩ = []) ∧
        (∀ sg d, d ∈ (s.ctx th.ctx).rsubs ⟨ob, sg⟩ → ∃ ns, s'.prog th = .notify ns ob :: rest ∧ (sg, d) ∈ ns)) ∧
    (∀ (s s' : State) (th : Th) (ch ch2 : Nat) (k : Key) (rest : List MOp) (o : Out),
        microStep s th ch ch2 (.sigRemoved k) rest = some (s', o) → (s'.ctx th.ctx).lsubs k = []) :=
  ⟨fun _ _ _ _ _ _ _ _ hr hs => removal_ends_publisher_side hr hs,
   fun _ _ _ _ _ _ _ _ hs => removal_notice_ends_subscriber_side hs⟩

/-- **disconnect ends both ends** (per step): whichever way an end of a connection goes down — `disconnect_from_peer`
or end-of-stream caused by the other side's close / stop — its socket thread unregisters the peer, runs
`handle_peer_context_removed` (which drops the peer from every remote-subscriber set and empties every local entry
published by it), and closes its end, which in turn is what the other end sees as end-of-stream. -/
theorem disconnect_ends_both_ends :
    (∀ (s s' : State) (cn : ConnId) (cli : Bool) (o : Out), step s (.eof cn cli) = some (s', o) →
        s'.prog (.sock ((s.conn cn).half cli).owner) =
          [.popPeer (srcName s cn cli), .peerRemoved (srcName s cn cli), .closeConn cn cli]) ∧
    (∀ (s s' : State) (th : Th) (ch ch2 : Nat) (n : Peer) (rest : List MOp) (o : Out),
        microStep s th ch ch2 (.peerRemoved n) rest = some (s', o) →
        (∀ κ, n ∉ (s'.ctx th.ctx).rsubs κ) ∧ (∀ k, k.pc = n → (s'.ctx th.ctx).lsubs k = [])) ∧
    (∀ (s s' : State) (th : Th) (ch ch2 : Nat) (cn : ConnId) (cli : Bool) (rest : List MOp) (o : Out),
        microStep s th ch ch2 (.closeConn cn cli) rest = some (s', o) → ((s'.conn cn).half cli).isOpen = false) :=
  ⟨fun _ _ _ _ _ hs => disconnect_runs_cleanup hs,
   fun _ _ _ _ _ _ _ _ hs => disconnect_ends_this_side hs,
   fun _ _ _ _ _ _ _ _ _ hs => (close_is_seen_by_other_end hs).1⟩

/-! ## Quiescent consistency

`Quiescent s`: nothing in flight (Lemmas/C08Quiet).  `Consistent s`: for live contexts `a`, `p` with a registered
connection `cn` from `a` to `p`, and every (publisher, signal): `p` has `a` as remote subscriber ⇔ `a` has a receiver. -/

/-- the literal statement: every reachable quiescent state is consistent.  It is **false of the model** as it stands
(`quiescent_consistency_needs_stop_completion` below): `Quiescent` does not look at the router flag, and a context whose
`MessageRouter.stop` has begun (`Act.stopReq`: router marked inactive, `close_all` not yet run) drops every message it
sends — also the removal notices of `handle_object_removed`. -/
def QuiescentConsistency : Prop := ∀ s, Reach s → Quiescent s → Consistent s

/-- the statement of the property: once nothing is in flight — and no context is half-way through its stop, which is an
enabled continuation (`Act.stop`), i.e. something still in flight — the two tables agree.  It was false of the model of the
tree with 3b40385 only (stale removal notice, `staleTrace` below; repaired by a22664f).  Proved for the current source as
`quiescent_consistency` below. -/
def QuiescentConsistencySettled : Prop := ∀ s, Reach s → Quiescent s → NoStopPending s → Consistent s

/-- **quiescent consistency**: in every reachable state in which nothing is in flight (every thread of a live context
idle, event loops empty, no pending request, every open connection end of a live context has read everything and its other
end is open) and no live context is half-way through its stop, a context has a connected peer as remote subscriber of a
signal **exactly when** that peer has a receiver for it.

Proof (Lemmas/C08Proto … C08Sim10): the model is simulated, per (connection, publisher object, signal), by a finite-state
abstraction of the subscription protocol (`Proto.AS`: the two table bits, the object-map state, the phase of the thread that
removes the object, the pending request of the subscriber with its `publisher_removed` mark, the position of the one
outstanding request — subscriber side / handler stage / reply being sent / in the channel / reply handler —, the content
of the FIFO channel publisher → subscriber, the pending removal-notice handler and a left-over cleanup of an earlier
connection).  `sim_step`: every step of the model is a step of `Proto.next` or invisible (`sim_micro_a`, `sim_micro_p`,
`sim_micro_foreign`, `sim_nstep`); `sim_init`: a new connection starts in `Proto.inits`; the 1145 reachable abstract states
are closed under `next` and their settled states have both bits equal (`reach_closed`, `reach_safe`: kernel evaluation).
Supporting invariants: request tokens are neither lost nor duplicated (`TokInv`, `SrvInv`), requests are typed by the
pending tables wherever they are (`CtInv`), handler / remover / cleanup programs have their shape (`DspInv`, `RemInv`,
`TdInv`, `TdLink`), a reserved object name is held by exactly one thread, receivers for a peer's signal exist only while
connected to it (`LsubInv`). -/
theorem quiescent_consistency : QuiescentConsistencySettled :=
  fun _ hr hq hns => quiescent_consistent hr hq hns

/-- the simulation behind `quiescent_consistency`: in a reachable state, the abstraction of every connection that is
registered at both ends between two running contexts, for every object and signal, is a reachable state of the abstract
protocol -/
theorem protocol_simulation {s : State} (hr : Reach s) (cn : ConnId) (ob : Obj) (sg : Sg) (hl : Live s cn) :
    ∃ x, Sim s cn ob sg x ∧ Proto.memB x = true := sim_reach hr cn ob sg hl

/-- Context 1 subscribes receiver 5 to object 0 / signal 0 of context 0 (handshake completes); context 0 begins to stop
(router marked inactive); one of its threads removes object 0: `handle_object_removed` empties the remote-subscriber
table, the removal notice is refused by the inactive router.  Nothing is in flight any more, context 0 has not run
`close_all` yet: the subscriber still holds receiver 5. -/
def stopTrace : List Act := [
  .begin 0 0 (.makeObj 0), .micro (.user 0 0) 0 0, .micro (.user 0 0) 0 0, .micro (.user 0 0) 0 0,
  .connect 1 0,
  .begin 1 0 (.subscribe 0 0 0 5),
  .micro (.user 1 0) 0 0, .micro (.user 1 0) 0 0, .micro (.user 1 0) 0 0,
  .cb 1 true, .arrive 0 false,
  .micro (.sock 0) 0 0, .micro (.sock 0) 0 0, .micro (.sock 0) 0 0, .micro (.sock 0) 0 0, .micro (.sock 0) 0 0,
  .cb 0 true, .arrive 0 true, .micro (.sock 1) 0 0,
  .micro (.user 1 0) 0 0, .micro (.user 1 0) 0 0,
  .stopReq 0,
  .begin 0 1 (.removeObj 0),
  .micro (.user 0 1) 0 0, .micro (.user 0 1) 0 0, .micro (.user 0 1) 0 1, .micro (.user 0 1) 0 0, .micro (.user 0 1) 0 0]

private theorem stopTrace_below : ∀ a ∈ stopTrace, a.below 2 2 := by
  intro a ha
  simp only [stopTrace, List.mem_cons, List.not_mem_nil, or_false] at ha
  rcases ha with rfl | rfl | rfl | rfl | rfl | rfl | rfl | rfl | rfl | rfl | rfl | rfl | rfl | rfl | rfl | rfl | rfl | rfl |
    rfl | rfl | rfl | rfl | rfl | rfl | rfl | rfl | rfl | rfl <;> simp [Act.below, Th.below]

/-- **the literal statement is false of the model; the hypothesis `NoStopPending` of `QuiescentConsistencySettled` is
necessary**: the final state of `stopTrace` is reachable and quiescent, context 0 is live but stopping, and the tables
disagree.  (Not a defect of the code: there `MessageRouter.stop` is one call that goes on to `close_all`, after which the
subscriber sees end-of-stream and `handle_peer_context_removed` empties its table.) -/
theorem quiescent_consistency_needs_stop_completion : ¬ QuiescentConsistency := by
  intro hq
  have hrun : (run State.init stopTrace).isSome = true := by decide
  obtain ⟨s, hs⟩ := Option.isSome_iff_exists.1 hrun
  have hreach : Reach s := reach_run Reach.init hs
  have hown : OwnersBelow State.init 2 := by intro cn cli; cases cli <;> simp [State.init, Conn.half, Half.init]
  obtain ⟨hctx, hprog⟩ := run_bounded (B := 2) (T := 2) (by decide) stopTrace hs stopTrace_below hown
  have ev1 : (run State.init stopTrace).map (fun s =>
      ((s.ctx 0).alive, (s.ctx 1).alive, (s.ctx 0).loopQ, (s.ctx 1).loopQ)) = some (true, true, [], []) := by decide
  have ev2 : (run State.init stopTrace).map (fun s =>
      ((s.prog (.user 0 0)).isEmpty, (s.prog (.user 0 1)).isEmpty, (s.prog (.user 1 0)).isEmpty, (s.prog (.user 1 1)).isEmpty,
       (s.prog (.sock 0)).isEmpty, (s.prog (.sock 1)).isEmpty)) = some (true, true, true, true, true, true) := by decide
  have ev3 : (run State.init stopTrace).map (fun s =>
      ((s.ctx 1).peers (.name 0), (s.ctx 0).rsubs ⟨0, 0⟩, (s.ctx 1).lsubs ⟨.name 0, 0, 0⟩)) = some (some 0, [], [5]) := by decide
  have ev4 : (run State.init stopTrace).map (fun s =>
      ((s.ctx 0).nextReq, (s.ctx 1).nextReq, (s.ctx 1).byId 0, s.nextConn)) = some (0, 1, none, 1) := by decide
  have ev5 : (run State.init stopTrace).map (fun s =>
      ((s.conn 0).cli.inbox, (s.conn 0).srv.inbox, (s.conn 0).cli.isOpen, (s.conn 0).srv.isOpen)) = some ([], [], true, true) := by decide
  rw [hs] at ev1 ev2 ev3 ev4 ev5
  simp only [Option.map_some, Option.some.injEq, Prod.mk.injEq] at ev1 ev2 ev3 ev4 ev5
  obtain ⟨e1, e2, e3, e4⟩ := ev1
  simp only [List.isEmpty_iff] at ev2
  obtain ⟨e5, e6, e7, e8, e9, e10⟩ := ev2
  obtain ⟨e11, e12, e13⟩ := ev3
  obtain ⟨e14, e15, e16, e17⟩ := ev4
  obtain ⟨e18, e19, e20, e21⟩ := ev5
  have lt_two : ∀ {n : Nat}, n < 2 → n = 0 ∨ n = 1 := by intro n h; omega
  have lt_one : ∀ {n : Nat}, n < 1 → n = 0 := by intro n h; omega
  have hcons := hq s hreach ?_
  · have := (hcons 1 0 0 0 0 e2 e1 e11).2 (by rw [e13]; simp)
    rw [e12] at this; simp at this
  · have hpendInv := pendInv_reach hreach
    have hcases : ∀ c : Nat, c = 0 ∨ c = 1 ∨ 2 ≤ c := by intro c; omega
    have hinit : ∀ c, 2 ≤ c → s.ctx c = CtxSt.init := fun c hc => by rw [hctx c hc]; rfl
    constructor
    · intro th _
      by_cases hb : th.below 2 2
      · cases th with
        | user c t =>
          simp only [Th.below] at hb
          have hc : c = 0 ∨ c = 1 := lt_two hb.1
          have ht : t = 0 ∨ t = 1 := lt_two hb.2
          rcases hc with rfl | rfl <;> rcases ht with rfl | rfl <;> assumption
        | sock c =>
          simp only [Th.below] at hb
          have hc : c = 0 ∨ c = 1 := lt_two hb
          rcases hc with rfl | rfl <;> assumption
      · rw [hprog th hb]; rfl
    · intro c _
      rcases hcases c with rfl | rfl | hc
      · exact e3
      · exact e4
      · rw [hinit c hc]; rfl
    · intro c id _
      rcases hcases c with rfl | rfl | hc
      · rcases Nat.lt_or_ge id (s.ctx 0).nextReq with h | h
        · rw [e14] at h; exact absurd h (Nat.not_lt_zero _)
        · exact ((hpendInv 0).fresh id h).1
      · rcases Nat.lt_or_ge id (s.ctx 1).nextReq with h | h
        · rw [e15] at h
          have : id = 0 := lt_one h
          subst this; exact e16
        · exact ((hpendInv 1).fresh id h).1
      · rw [hinit c hc]; rfl
    · intro cn cli hlt hopen _
      rw [e17] at hlt
      have : cn = 0 := lt_one hlt
      subst this
      cases cli <;> simp only [Conn.half, Bool.not_true, Bool.not_false] at hopen ⊢
      · exact ⟨e19, e20⟩
      · exact ⟨e18, e21⟩

/-- **Stale removal notice** (found while mechanising the agreement invariant; repaired in /repo by the completion of
3b40385).  Context 1 is subscribed (receiver 5) to object 0 / signal 0 of context 0.  A thread of context 0 removes
object 0 and is pre-empted between the lock section of `handle_object_removed` (remote-subscriber table emptied, notice for
context 1 computed) and `send_message`.  Context 1 unsubscribes (complete round trip).  The removing thread goes on
(notice handed to the event loop, name released), the object is created again, context 1 subscribes again: the notice —
about a subscription it has already given up — reaches it while the new request is pending and marks it; the publisher
accepts the request and registers context 1.  On the tree with 3b40385 only, the success reply was handled as a failure
("the remote side has already dropped us" — it had not): the subscribe call raised and the publisher kept transmitting to a
context without receiver.  Now the marked success makes the subscriber ask again; the second reply is a success and both
tables agree. -/
def staleTrace : List Act := [
  .begin 0 0 (.makeObj 0), .micro (.user 0 0) 0 0, .micro (.user 0 0) 0 0, .micro (.user 0 0) 0 0,
  .connect 1 0,
  .begin 1 0 (.subscribe 0 0 0 5),
  .micro (.user 1 0) 0 0, .micro (.user 1 0) 0 0, .micro (.user 1 0) 0 0,
  .cb 1 true, .arrive 0 false,
  .micro (.sock 0) 0 0, .micro (.sock 0) 0 0, .micro (.sock 0) 0 0, .micro (.sock 0) 0 0, .micro (.sock 0) 0 0,
  .cb 0 true, .arrive 0 true, .micro (.sock 1) 0 0,
  .micro (.user 1 0) 0 0, .micro (.user 1 0) 0 0,
  -- context 0 removes the publisher; the removing thread is pre-empted after the lock section of handle_object_removed
  .begin 0 1 (.removeObj 0), .micro (.user 0 1) 0 0, .micro (.user 0 1) 0 0,
  -- context 1 unsubscribes (complete round trip)
  .begin 1 0 (.unsubscribe 0 0 0 5), .micro (.user 1 0) 0 0, .micro (.user 1 0) 0 0, .micro (.user 1 0) 0 0, .micro (.user 1 0) 0 0,
  .cb 1 true, .arrive 0 false, .micro (.sock 0) 0 0, .micro (.sock 0) 0 0, .micro (.sock 0) 0 0,
  .cb 0 true, .arrive 0 true, .micro (.sock 1) 0 0,
  -- the removing thread goes on: notice handed to the event loop, name released; the publisher is created again
  .micro (.user 0 1) 0 1, .micro (.user 0 1) 0 0, .micro (.user 0 1) 0 0, .micro (.user 0 1) 0 0,
  .begin 0 0 (.makeObj 0), .micro (.user 0 0) 0 0, .micro (.user 0 0) 0 0, .micro (.user 0 0) 0 0,
  -- context 1 subscribes again; the stale notice arrives while the request is pending
  .begin 1 0 (.subscribe 0 0 0 5), .micro (.user 1 0) 0 0, .micro (.user 1 0) 0 0, .micro (.user 1 0) 0 0,
  .cb 0 true, .arrive 0 true, .micro (.sock 1) 0 0,
  .cb 1 true, .arrive 0 false,
  .micro (.sock 0) 0 0, .micro (.sock 0) 0 0, .micro (.sock 0) 0 0, .micro (.sock 0) 0 0, .micro (.sock 0) 0 0,
  .cb 0 true, .arrive 0 true, .micro (.sock 1) 0 0,      -- marked success reply: ask again
  .micro (.sock 1) 0 0, .micro (.sock 1) 0 0, .cb 1 true, .arrive 0 false,
  .micro (.sock 0) 0 0, .micro (.sock 0) 0 0, .micro (.sock 0) 0 0, .micro (.sock 0) 0 0, .micro (.sock 0) 0 0,
  .cb 0 true, .arrive 0 true, .micro (.sock 1) 0 0,      -- second reply: success
  .micro (.user 1 0) 0 0, .micro (.user 1 0) 0 0]

/-- regression example: the history of the stale removal notice now ends with both tables in agreement and nothing in flight -/
theorem staleTrace_ends_consistent :
    (run State.init staleTrace).map (fun s =>
      ((s.ctx 0).rsubs ⟨0, 0⟩, (s.ctx 1).lsubs ⟨.name 0, 0, 0⟩, (s.ctx 1).byKey ⟨.name 0, 0, 0⟩)) =
      some ([.alias 0], [5], none) ∧
    (run State.init staleTrace).map (fun s =>
      ((s.prog (.user 1 0)).isEmpty, (s.prog (.sock 0)).isEmpty, (s.prog (.sock 1)).isEmpty, (s.ctx 0).loopQ.isEmpty,
       (s.ctx 1).loopQ.isEmpty)) = some (true, true, true, true, true) := by
  constructor <;> decide

/-- … and the re-subscribe of that history returns normally -/
theorem staleTrace_subscribe_returns :
    ((run State.init staleTrace.dropLast).bind fun s => (step s (.micro (.user 1 0) 0 0)).map Prod.snd) =
    some (.ret (.sub ⟨.name 0, 0, 0⟩ 5)) := by decide

/-- Historical example (DESIGN §7 l, repaired in /repo by the commit "a removal notice that overtakes the reply to a
pending subscribe no longer leaves a dead subscription"): context 1 subscribes receiver 5 to object 0 / signal 0 of
context 0 while context 0 removes object 0; the socket thread of context 0 has passed the double-check of
`_handle_subscription_request` when the removing thread enqueues the removal notice, and only then enqueues its success
reply.  On the pinned tree this schedule ended with the subscriber holding receiver 5 while the publisher had no
remote subscriber.  With the repair the notice marks the pending request, the overtaken success reply counts as a
failure, the subscribe call raises, and both tables are empty. -/
def raceTrace : List Act := [
  .begin 0 0 (.makeObj 0), .micro (.user 0 0) 0 0, .micro (.user 0 0) 0 0, .micro (.user 0 0) 0 0,
  .connect 1 0,
  .begin 1 0 (.subscribe 0 0 0 5),
  .micro (.user 1 0) 0 0,            -- _subscribe_remote lock section: request 0 created
  .micro (.user 1 0) 0 0,            -- has_peer_context
  .micro (.user 1 0) 0 0,            -- enqueue on the event loop of context 1
  .cb 1 true,                        -- request sent
  .arrive 0 false,                   -- context 0 reads the request
  .micro (.sock 0) 0 0,              -- check: publisher exists
  .micro (.sock 0) 0 0,              -- _add_remote_subscriber
  .micro (.sock 0) 0 0,              -- double-check: publisher still exists
  .begin 0 1 (.removeObj 0),
  .micro (.user 0 1) 0 0,            -- mark
  .micro (.user 0 1) 0 0,            -- handle_object_removed lock section
  .micro (.user 0 1) 0 1,            -- has_peer_context for the notice (signal 0, peer alias 0)
  .micro (.user 0 1) 0 0,            -- notice enqueued
  .micro (.user 0 1) 0 0,            -- delete name
  .micro (.user 0 1) 0 0,            -- return
  .micro (.sock 0) 0 0,              -- has_peer_context for the reply
  .micro (.sock 0) 0 0,              -- reply enqueued: *behind* the notice
  .cb 0 true, .cb 0 true,            -- notice, then reply, written to the connection
  .arrive 0 true, .micro (.sock 1) 0 0,     -- notice processed: the pending subscribe request is marked
  .arrive 0 true, .micro (.sock 1) 0 0,     -- marked success reply: mark cleared, the request is sent once more
  .micro (.sock 1) 0 0, .micro (.sock 1) 0 0, .cb 1 true, .arrive 0 false,
  .micro (.sock 0) 0 0, .micro (.sock 0) 0 0, .micro (.sock 0) 0 0,   -- the publisher is gone: failure reply
  .cb 0 true, .arrive 0 true, .micro (.sock 1) 0 0,
  .micro (.user 1 0) 0 0, .micro (.user 1 0) 0 0]   -- subscribe raises QMI_SignalSubscriptionException

/-- regression example: the racing schedule now ends consistent (kernel evaluation of the model) -/
theorem raceTrace_ends_consistent :
    (run State.init raceTrace).map (fun s =>
      ((s.ctx 0).rsubs ⟨0, 0⟩, (s.ctx 1).lsubs ⟨.name 0, 0, 0⟩, (s.ctx 1).byId 0, (s.ctx 1).byKey ⟨.name 0, 0, 0⟩)) =
      some ([], [], none, none) ∧
    (run State.init raceTrace).map (fun s =>
      ((s.prog (.user 1 0)).isEmpty, (s.ctx 0).loopQ.isEmpty, (s.ctx 1).loopQ.isEmpty)) = some (true, true, true) := by
  constructor <;> decide

/-- … and the subscribe call of that schedule ends with the subscription error -/
theorem raceTrace_subscribe_raises :
    ((run State.init raceTrace.dropLast).bind fun s => (step s (.micro (.user 1 0) 0 0)).map Prod.snd) =
    some (.exc .subscription (.sub ⟨.name 0, 0, 0⟩ 5)) := by decide

/-! ## No subscribe / unsubscribe call blocks for ever (local layer)

`unsubscribe` never waits (its program contains no `wait`).  A `subscribe` call waits in `wait pid` until the pending
request object `pid` is completed.  The three ways in which an outstanding request is answered are shown below to
release the waiters; that *every* outstanding request does reach one of them (carrier invariant over event loop,
connection and the peer's socket thread, as for C01) is not mechanised — on the implementation side it is observed as
"the deterministic scheduler never reports a deadlock" (clause `blocks-forever`). -/

/-- (1) a reply — success, failure, or the error reply generated for a closed connection — to a *subscribe* request that
has not been marked by a removal notice completes the pending object, after which `wait` is enabled and returns the
reply's verdict -/
theorem reply_releases_waiters {s : State} {th th' : Th} {id pid : ReqId} {ok : Bool} {po : PObj} {rest rest' : List MOp}
    (hc : th'.ctx = th.ctx)
    (hid : (s.ctx th.ctx).byId id = some pid) (hpo : (s.ctx th.ctx).pobj pid = some po) (hsub : po.sub = true)
    (hnm : ¬ (ok = true ∧ po.cancelled = true)) :
    ∃ s' o, microStep s th 0 0 (.handleReply id ok) rest = some (s', o) ∧
      (s'.ctx th.ctx).pobj pid = some { po with done := some ok } ∧
      (microStep s' th' 0 0 (.wait pid) rest').isSome = true := by
  have hok : (ok && !po.cancelled) = ok := by
    cases ok <;> cases hcn : po.cancelled <;> simp_all
  simp only [microStep, handleReplyStep, hid, hpo, hsub, hnm, true_and, not_false_eq_true, if_true, hok]
  refine ⟨_, _, rfl, by simp [upd], ?_⟩
  simp only [setProg_ctx, setCtx_ctx, hc, if_true, upd]
  cases ok <;> simp

/-- (1') a success reply to a subscribe request that was marked by a removal notice while it was pending is not taken as
the verdict (the notice may have overtaken the reply, or belong to a subscription already given up): the mark is cleared
and the request is sent once more under a fresh id; the next reply decides.  A re-send therefore needs a removal notice
to have arrived since the previous (re-)send: it cannot repeat by itself. -/
theorem marked_success_is_resent {s : State} {th : Th} {id pid : ReqId} {po : PObj} {rest : List MOp}
    (hid : (s.ctx th.ctx).byId id = some pid) (hpo : (s.ctx th.ctx).pobj pid = some po) (hsub : po.sub = true)
    (hm : po.cancelled = true) :
    ∃ s' o, microStep s th 0 0 (.handleReply id true) rest = some (s', o) ∧
      (s'.ctx th.ctx).pobj pid = some { po with sub := true, cancelled := false, cur := (s.ctx th.ctx).nextReq } ∧
      (s'.ctx th.ctx).byId (s.ctx th.ctx).nextReq = some pid ∧
      s'.prog th = .sendChk po.key.pc (.subReq (s.ctx th.ctx).nextReq po.key.ob po.key.sg true) :: rest := by
  simp only [microStep, handleReplyStep, hid, hpo, hsub, hm, and_self, not_true_eq_false, and_false, if_false, true_or, if_true]
  exact ⟨_, _, rfl, by simp [upd], by simp [upd], by simp⟩

/-- (2) a request whose local send fails (peer unknown, or `sendall` raises in the socket thread) is answered at once by
an error reply handled in the same thread -/
theorem send_failure_answers_request (id : ReqId) (ob : Obj) (sg : Sg) (b : Bool) :
    onSendFail (.subReq id ob sg b) = [.handleReply id false] := rfl

/-- (3) closing a connection end answers every request registered on it (`_clear_pending_requests`) -/
theorem closing_answers_registered_requests {s s' : State} {th : Th} {ch ch2 : Nat} {cn : ConnId} {cli : Bool}
    {rest : List MOp} {o : Out} (hs : microStep s th ch ch2 (.closeConn cn cli) rest = some (s', o)) :
    ∀ id ∈ ((s.conn cn).half cli).pend, MOp.handleReply id false ∈ s'.prog th := by
  intro id hid
  rw [(close_is_seen_by_other_end hs).2.2]
  exact List.mem_append_left _ (List.mem_map.2 ⟨id, hid, rfl⟩)

/-- a request is registered on the connection in the very step that writes it to the connection -/
theorem sent_request_is_registered {s s1 : State} {c : Ctx} {d : Peer} {id : ReqId} {ob : Obj} {sg : Sg} {b : Bool}
    {cn : ConnId} {pr : List MOp} (hp : (s.ctx c).peers d = some cn)
    (hs : smSendStep s c d (.subReq id ob sg b) true = some (s1, pr)) :
    id ∈ ((s1.conn cn).half d.isName).pend := by
  simp only [smSendStep, hp, if_true, Msg.reqId?, Option.some.injEq, Prod.mk.injEq] at hs
  obtain ⟨rfl, -⟩ := hs
  cases hd : d.isName <;> (simp only [upd, if_true]; split) <;> simp [Conn.half, Conn.setHalf]

/-! ### the carrier invariant and the "stuck ⇒ nobody waits" argument -/

/-- **no request is ever lost inside its own context** (carrier invariant, local layer, full strength): in every
reachable state every outstanding request of a live context is carried by a pending operation of one of its threads
(the send that is about to happen, or the reply / error reply about to be handled), by a callback in its event-loop
queue, or by the pending-request table of one of its connection ends (`_pending_requests`, from which
`_clear_pending_requests` answers it when the connection goes down). -/
theorem no_request_is_lost {s : State} (h : Reach s) {c : Ctx} {id : ReqId}
    (hal : (s.ctx c).alive = true) (hid : (s.ctx c).byId id ≠ none) : Carrier s c id :=
  carrierInv_reach h c id hal hid

/-- **no request is duplicated** (client side, Lemmas/C08NetTok): in every reachable state the request ids carried by
the programs of a context's threads (a send about to happen, a reply or error reply about to be handled), by its event-loop
queue and by the pending tables of its connection ends are pairwise distinct — together with `no_request_is_lost`: every
outstanding request has exactly one carrier. -/
theorem no_request_is_duplicated {s : State} (h : Reach s) : TokInv s := tokInv_reach h

/-- **the server side invents nothing** (Lemmas/C08NetTok): the requests of a connection that are with the server — replies
in the client's inbox, replies in the server's event-loop queue, the server's handler, requests in the server's inbox, in
this (pipeline) order — form a subsequence of the pending table of the open client end: every reply answers a registered
request, at most once, and replies come back in the order of the requests. -/
theorem server_side_requests_are_registered {s : State} (h : Reach s) (n : ConnId)
    (hopen : ((s.conn n).half true).isOpen = true) : (srvPipe s n).Sublist ((s.conn n).half true).pend :=
  (srvInv_reach h).pipe n hopen

/-- **only the two waits can block**: the head operation of every thread other than `pending_request.wait()` and the
`future.wait()` of `disconnect_from_peer` is enabled in every reachable state (for a suitable iteration order); in
particular a reply or error reply is always processed, and a lock section never deadlocks in the model. -/
theorem only_waits_block {s : State} (h : Reach s) {th : Th} {op : MOp} {rest : List MOp}
    (hp : s.prog th = op :: rest) (hw : op.isWait = false) :
    ∃ ch ch2, (microStep s th ch ch2 op rest).isSome = true :=
  micro_enabled h hp hw

/-- a waiting `subscribe` call is waiting for something: its pending object exists, and is completed (then the call
continues) or still registered under its current request id (then `no_request_is_lost` applies to that request) -/
theorem waiting_call_has_outstanding_request {s : State} (h : Reach s) {th : Th} {pid : ReqId} (hm : .wait pid ∈ s.prog th) :
    ∃ po, (s.ctx th.ctx).pobj pid = some po ∧ (po.done ≠ none ∨ (s.ctx th.ctx).byId po.cur = some pid) := by
  have hw := waitInv_reach h th pid hm
  have hpk := pendInv_reach h th.ctx
  cases hpo : (s.ctx th.ctx).pobj pid with
  | none => exact absurd hpo hw.ex
  | some po =>
    refine ⟨po, rfl, ?_⟩
    rcases (hw.live po hpo).2 with h1 | h1
    · exact Or.inl h1
    · exact Or.inr (hpk.byKey_cur _ pid po h1 hpo)

/-- **the peer-side half of the carrier invariant** (Lemmas/C08NetOpen, C08NetId, C08NetLive): in every reachable state in
which no context is half-way through `MessageRouter.stop`, an outstanding request that is registered on a connection end
of a live context has an enabled internal action.  (`ReqInv`: the request is in the server's inbox, with the server's
handler, as a reply in the server's queue or in the client's inbox, in the client's reply handler — or the server end is
closed, and then end-of-stream or the teardown answers it.) -/
theorem net_live_outstanding {s : State} (h : Reach s) (hns : NoStopPending s) : NetLiveOut s := net_live h hns

/-- **subscribe terminates (full strength).**  In every reachable state in which no internal action is enabled (`Stuck`:
no thread can continue, no socket thread has a callback, a message or an end-of-stream to process) and no context is
half-way through its stop (then `Act.stop` is an enabled continuation), no live context has an outstanding request and no
thread of a live context is inside a `subscribe` / `unsubscribe` call — also when the peer disappeared while the request
was outstanding.  The hypothesis about the stop is necessary: see `waitTrace_subscribe_waits_for_stopping_peer`. -/
theorem subscribe_terminates {s : State} (h : Reach s) (hst : Stuck s) (hns : NoStopPending s) :
    (∀ c id, (s.ctx c).alive = true → (s.ctx c).byId id = none) ∧
    (∀ th, (s.ctx th.ctx).alive = true → s.prog th = [] ∨ ∃ rest, s.prog th = .waitFut :: rest) :=
  stuck_implies_answered_full h hst hns

/-! ### the internal activity terminates (Lemmas/C08Term1–4)

`IntStep` is one internal action (a thread continues, a socket thread runs a queued callback, reads a message or sees an
end-of-stream); the environment actions are `begin`, `connect`, `routerOk`, `stopReq`, `stop`.  The measure `mu B T` is
a triple ordered lexicographically (`Lt3`): `mu0` counts the table snapshots still to take (`snapRemote`, `objRemoved`:
what they cause depends on the table) and the connection ends that are open and not yet being closed; `mu1` gives every
operation, queued callback, message in transit and request registered on a connection end a fixed weight that pays for
everything it may cause; `mu2` counts the deliveries still to make.  The re-send of a22664f is the only place where a
handler starts a new round trip: it is paid for by the potential `Wcyc` of the pending request — carried by a pending
*unsubscribe* request (new subscribers may be waiting) and by a pending subscribe request that is *marked*
(`publisher_removed`).  A mark is set only by `_handle_remote_signal_removed`, which is paid for by the removal notice
in transit, which is paid for by `handle_object_removed` of a `remove_rpc_object` call — an action of the environment.
The re-send clears the mark (`handleReplyStep`: `cancelled := false`), so one notice pays for one re-send. -/

/-- **every internal step lowers the measure** (in a reachable state whose active contexts and threads lie below `B`,
`T`; every reachable state has such bounds: `reach_bounded`, and internal steps keep them) -/
theorem activity_measure_decreases {B T : Nat} {s s' : State} (hr : Reach s) (hb : Bnd B T s) (h : IntStep s s') :
    Lt3 (mu B T s') (mu B T s) := (intStep_decr hr hb h).1

/-- **a re-send consumes the mark**: whatever `_handle_subscription_reply` sends is covered by the fall of the potential
of the pending-request table (a marked subscribe request or an unsubscribe request becomes an unmarked subscribe
request) -/
theorem resend_consumes_mark {cs cs' : CtxSt} {id : ReqId} {ok : Bool} {more : List MOp} {o : Out} (hp : PendOk cs)
    (h : handleReplyStep cs id ok = some (cs', more, o)) : W1 more + potPend cs' ≤ potPend cs :=
  (handleReplyStep_pot hp h).1

/-- **activity terminates**: the converse of `IntStep` is well-founded below every reachable state — every run of
internal actions from a reachable state is finite -/
theorem activity_terminates {s : State} (h : Reach s) : Acc (fun s2 s1 => IntStep s1 s2) s := intStep_acc h

theorem activity_has_no_infinite_run {s : State} (h : Reach s) :
    ¬ ∃ f : Nat → State, f 0 = s ∧ ∀ i, IntStep (f i) (f (i + 1)) := no_infinite_run h

/-- **subscribe terminates, along runs**: from a reachable state in which no context is half-way through its stop, every
run of internal actions is finite, it can be continued to a state in which no internal action is enabled, and in every
such state no live context has an outstanding request and no thread of a live context is inside a `subscribe` /
`unsubscribe` call.  (`subscribe_terminates` is the last part alone.) -/
theorem subscribe_terminates_along_runs {s : State} (h : Reach s) (hns : NoStopPending s) :
    (¬ ∃ f : Nat → State, f 0 = s ∧ ∀ i, IntStep (f i) (f (i + 1))) ∧
    (∃ s', IntRun s s' ∧ Stuck s') ∧
    ∀ s', IntRun s s' → Stuck s' →
      (∀ c id, (s'.ctx c).alive = true → (s'.ctx c).byId id = none) ∧
      (∀ th, (s'.ctx th.ctx).alive = true → s'.prog th = [] ∨ ∃ rest, s'.prog th = .waitFut :: rest) :=
  ⟨no_infinite_run h, run_to_stuck h, fun _ hrun hst =>
    stuck_implies_answered_full (intRun_reach hrun h) hst (intRun_noStop hrun hns)⟩

/-- why `NoStopPending` is needed: context 0 has begun to stop (router inactive, `close_all` not yet run) when the
subscription request of context 1 arrives; its handler registers the subscriber, the reply is refused by the inactive
router.  Nothing is queued or in transit anywhere, the request is still registered on the open connection and the
`subscribe` call waits — until `Act.stop 0` (the continuation of the stop) closes the connection. -/
def waitTrace : List Act := [
  .begin 0 0 (.makeObj 0), .micro (.user 0 0) 0 0, .micro (.user 0 0) 0 0, .micro (.user 0 0) 0 0,
  .connect 1 0,
  .stopReq 0,
  .begin 1 0 (.subscribe 0 0 0 5),
  .micro (.user 1 0) 0 0, .micro (.user 1 0) 0 0, .micro (.user 1 0) 0 0,
  .cb 1 true, .arrive 0 false,
  .micro (.sock 0) 0 0, .micro (.sock 0) 0 0, .micro (.sock 0) 0 0, .micro (.sock 0) 0 0]

theorem waitTrace_subscribe_waits_for_stopping_peer :
    (run State.init waitTrace).map (fun s =>
      (s.prog (.user 1 0), (s.prog (.sock 0)).isEmpty, (s.prog (.sock 1)).isEmpty, (s.ctx 0).loopQ.isEmpty, (s.ctx 1).loopQ.isEmpty)) =
      some ([.wait 0, .ret (.sub ⟨.name 0, 0, 0⟩ 5)], true, true, true, true) ∧
    (run State.init waitTrace).map (fun s =>
      ((s.conn 0).cli.pend, (s.conn 0).cli.inbox.isEmpty, (s.conn 0).srv.inbox.isEmpty, (s.conn 0).cli.isOpen, (s.conn 0).srv.isOpen)) =
      some ([0], true, true, true, true) ∧
    (run State.init waitTrace).map (fun s => ((s.ctx 0).routerDown, (s.ctx 0).alive, (s.ctx 1).byId 0)) = some (true, true, some 0) ∧
    ((run State.init (waitTrace ++ [.stop 0, .eof 0 true, .micro (.sock 1) 0 0, .micro (.sock 1) 0 0, .micro (.sock 1) 0 0,
        .micro (.sock 1) 0 0, .micro (.user 1 0) 0 0])).bind fun s => (step s (.micro (.user 1 0) 0 0)).map Prod.snd) =
      some (.exc .subscription (.sub ⟨.name 0, 0, 0⟩ 5)) := by
  refine ⟨by decide, by decide, by decide, by decide⟩

/-- **subscribe terminates — conditional form** (kept: the interface between the local layer and the network layer).
`NetLive` quantifies over *all* registered request ids, `net_live_outstanding` over the outstanding ones, which is what
the argument uses. -/
theorem subscribe_terminates_partial {s : State} (h : Reach s) (hst : Stuck s) (hnet : NetLive s) :
    (∀ c id, (s.ctx c).alive = true → (s.ctx c).byId id = none) ∧
    (∀ th, (s.ctx th.ctx).alive = true → s.prog th = [] ∨ ∃ rest, s.prog th = .waitFut :: rest) :=
  stuck_implies_answered h hst hnet

end QmiModel.PubSub
