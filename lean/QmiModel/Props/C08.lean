import QmiModel.Model.PubSub
/-!
# C08 — subscription state stays consistent through removal and disconnects

Property theorems only, over `QmiModel.PubSub.step`.
-/
namespace QmiModel.PubSub

/-- placeholder while the invariants are being built: the initial state has no subscriptions -/
theorem init_no_subscriptions (c : Ctx) (k : Key) : (State.init.ctx c).lsubs k = [] := rfl

end QmiModel.PubSub
