import QmiModel.Model.WakeSys
import QmiModel.Model.WakeEnc
import QmiModel.Gen.WakeCert
/-!
# C11 — chunk obligations of the larger systems (two stop requests against get_next_signal(None))

The reachable set of `sysTwo` is not computed by the kernel: `Gen/WakeCert.lean` holds it as a table of packed states
(written by the compiled driver on every run); each theorem below re-checks one chunk of the table — every entry satisfies
the state obligations and all its successors are in the table again (`chunkOk`, see `Model/WakeEnc.lean`).  Glued in
`Props/C11.lean` by `cert_chunks_sound`.
-/
namespace QmiModel.C11
open QmiModel.Wake QmiModel.Wake.Systems QmiModel.Gen.WakeCert

set_option maxRecDepth 200000 in
theorem two_init : initOk sysTwo certTwo nbkTwo = true := by decide +kernel

set_option maxRecDepth 200000 in
theorem two_chunk_0 : chunkOk sysTwo (goodWaiter sysTwo) certTwo nbkTwo 0 = true := by decide +kernel

set_option maxRecDepth 200000 in
theorem two_chunk_1 : chunkOk sysTwo (goodWaiter sysTwo) certTwo nbkTwo 1 = true := by decide +kernel

set_option maxRecDepth 200000 in
theorem two_chunk_2 : chunkOk sysTwo (goodWaiter sysTwo) certTwo nbkTwo 2 = true := by decide +kernel

set_option maxRecDepth 200000 in
theorem two_chunk_3 : chunkOk sysTwo (goodWaiter sysTwo) certTwo nbkTwo 3 = true := by decide +kernel

end QmiModel.C11
