import QmiModel.Lemmas.C09Acct
import QmiModel.Gen.RecvProg
set_option linter.unusedSimpArgs false
/-!
# C09 — the receiver under every interleaving of deliverer and reader threads

`Model/RecvConc.lean` runs `_receive_signal`, `get_next_signal`, `discard_all`, `get_queue_length`, `has_signal_ready`
statement by statement for any number of threads (thread ids are unbounded), with readers that are plain threads or task
threads (stop flag, `_TaskThread.wait_for_condition`), timeouts `None` / `0` / `> 0`, and arbitrary stop requests,
timer expiries and wake-ups.  The statement lists are generated from the ASTs of pubsub.py / task.py
(`Gen/RecvProg.lean`); the obligations `gen_*` tie them to the programs `P0` all theorems are about.

All statements quantify over every capacity `≥ 1`, both policies and every schedule (`List Act`), by induction with the
invariant `FInv` (Lemmas/C09Step, C09Lock, C09Lin, C09Wait, C09Acct).
-/
namespace QmiModel.RecvConc
open QmiModel.RecvQueue

/-- the state reached from a fresh receiver by a schedule -/
abbrev reach (cap : Nat) (pol : Policy) (sched : List Act) : St := crun P0 (St.init cap pol) sched

/-! ## Obligations on the generated programs -/

/-- OBLIGATION: the generated statement lists are the programs the theorems below are about -/
theorem gen_progs : Gen.RecvProg.progs = P0 := by decide

/-- OBLIGATION: in `_receive_signal` the sequence number is read and advanced, the queue tested, the signal appended
and the readers notified, all inside `with self._queue_cond:` -/
theorem gen_seq_assigned_under_lock :
    ∀ p ∈ lockedFlags (· == RI.acquire) (· == RI.release) Gen.RecvProg.recv false,
      p.1 ∈ [RI.mkSig, RI.incSeq, RI.takeSeq, RI.dropIfFullNew, RI.append, RI.notifyAll] → p.2 = true := by decide

/-- OBLIGATION: every arrival reads the counter and advances it, exactly once each, in that order -/
theorem gen_one_number_per_arrival :
    Gen.RecvProg.recv.filter (fun x => x == RI.mkSig || x == RI.incSeq || x == RI.takeSeq) = [RI.mkSig, RI.incSeq] := by decide

/-- OBLIGATION: `get_next_signal` tests the queue, under the lock, before it calls the wait helper, and skips the
helper when a signal is queued -/
theorem gen_get_checks_queue_first : Gen.RecvProg.get.take 4 = [GI.acquire, GI.skipIfNonEmpty 1, GI.wait, GI.pop] := by decide

/-- OBLIGATION: queue test, wait and `popleft` of `get_next_signal` are inside `with self._queue_cond:` -/
theorem gen_get_under_lock :
    ∀ p ∈ lockedFlags (· == GI.acquire) (· == GI.release) Gen.RecvProg.get false, p.1 ≠ GI.acquire → p.2 = true := by decide

/-- OBLIGATION: the capacity the full-queue test of `_receive_signal` compares with (`self._max_queue_length`) is the
same quantity as the bound of the deque (`deque(maxlen=…)`): one expression of the constructor, re-bound nowhere — the
model's single `cap` stands for both -/
theorem gen_full_check_is_maxlen : Gen.RecvProg.capTied = true := by decide

/-- OBLIGATION: the receiver's lock is re-entrant (`Condition()` wraps an `RLock`), so a callback reached from inside the
`with` block (a logging handler) may call back into the same receiver on the same thread.  No call out of the receiver
code sits where the state is inconsistent: in `_receive_signal` between reading the counter and the append / the drop,
in `get_next_signal` between the queue test and `popleft` -/
theorem gen_no_callout_inside_window : Gen.RecvProg.callouts.all (fun c => !exposes Gen.RecvProg.progs c) = true := by decide

/-- OBLIGATION (the code as it is): in a task thread the helper waits for `predicate or stop flag` and then gives the stop
flag priority over the result; in a plain thread it is `cond.wait_for(predicate, timeout)` -/
theorem gen_wait_helpers :
    Gen.RecvProg.taskWait = [WI.waitFor true, WI.raiseIfStop, WI.retRet] ∧ Gen.RecvProg.plainWait = [WI.waitFor false, WI.retRet] := by
  decide

/-! ## The concurrent receiver is the sequential one on its linearisation -/

/-- **refinement**: in every reachable state the shared state (an arrival whose number is taken but which is not yet
queued or dropped counted as not yet happened) equals the sequential model run over the calls in the order they took
effect -/
theorem lin_refines (cap : Nat) (pol : Policy) (hcap : 1 ≤ cap) (sched : List Act) :
    absV (reach cap pol sched).g (holdOf (reach cap pol sched)) = grun (ginit cap pol) (reach cap pol sched).lin :=
  (FInv_reachable cap pol hcap sched).c.lin.abs_eq

theorem absV_q (g : Ghost) (h : Option Hold) : (absV g h).r.q = g.r.q := by unfold absV; split <;> rfl
theorem absV_cap (g : Ghost) (h : Option Hold) : (absV g h).r.cap = g.r.cap := by unfold absV; split <;> rfl
theorem absV_delivered (g : Ghost) (h : Option Hold) : (absV g h).delivered = g.delivered := by unfold absV; split <;> rfl
theorem absV_dropped (g : Ghost) (h : Option Hold) : (absV g h).dropped = g.dropped := by unfold absV; split <;> rfl
theorem absV_discarded (g : Ghost) (h : Option Hold) : (absV g h).discarded = g.discarded := by unfold absV; split <;> rfl
theorem absV_next (g : Ghost) (h : Option Hold) : (absV g h).r.next = g.r.next - (if midH h then 1 else 0) := by
  unfold absV; split <;> simp [setNext]

/-- the sequential invariant holds of the shared state under every interleaving -/
theorem conc_seq_inv (cap : Nat) (pol : Policy) (hcap : 1 ≤ cap) (sched : List Act) :
    Inv (absV (reach cap pol sched).g (holdOf (reach cap pol sched))) :=
  seqInv_of_RInv hcap (FInv_reachable cap pol hcap sched).c.lin

/-- mutual exclusion: two threads inside their `with self._queue_cond:` blocks (and not parked in `wait`) are the same -/
theorem critical_sections_exclusive (cap : Nat) (pol : Policy) (hcap : 1 ≤ cap) (sched : List Act) (i j : Nat)
    (hi : inside ((reach cap pol sched).thr i) = true) (hj : inside ((reach cap pol sched).thr j) = true) : i = j := by
  have h := (FInv_reachable cap pol hcap sched).c.lk
  have a := (h.holder i).1 hi
  have b := (h.holder j).1 hj
  rw [a] at b; cases b; rfl

/-! ## The property, for all interleavings -/

/-- sequence numbers in the queue strictly increase from head to tail -/
theorem conc_queue_sorted (cap : Nat) (pol : Policy) (hcap : 1 ≤ cap) (sched : List Act) :
    ((reach cap pol sched).g.r.q.map Sig.seq).Pairwise (· < ·) := by
  have := (conc_seq_inv cap pol hcap sched).q_sorted
  rwa [absV_q] at this

/-- never more than the configured maximum -/
theorem conc_len_le_cap (cap : Nat) (pol : Policy) (hcap : 1 ≤ cap) (sched : List Act) :
    (reach cap pol sched).g.r.q.length ≤ cap := by
  have h := (conc_seq_inv cap pol hcap sched).len_le
  have e := (FInv_reachable cap pol hcap sched).c.lin.abs_eq
  rw [absV_q] at h
  have : (absV (reach cap pol sched).g (holdOf (reach cap pol sched))).r.cap = cap := by rw [e, cap_grun]; rfl
  rw [this] at h; exact h

/-- the numbers handed out strictly increase in hand-out order, over all readers together -/
theorem conc_handout_sorted (cap : Nat) (pol : Policy) (hcap : 1 ≤ cap) (sched : List Act) :
    (reach cap pol sched).g.delivered.Pairwise (· < ·) := by
  have := (conc_seq_inv cap pol hcap sched).d_sorted
  rwa [absV_delivered] at this

/-- the numbers one reader sees strictly increase, and they are among the numbers handed out -/
theorem conc_reader_sorted (cap : Nat) (pol : Policy) (hcap : 1 ≤ cap) (sched : List Act) (i : Nat) :
    ((reach cap pol sched).thr i).got.Pairwise (· < ·) ∧
      ∀ x ∈ ((reach cap pol sched).thr i).got, x ∈ (reach cap pol sched).g.delivered :=
  ⟨((FInv_reachable cap pol hcap sched).g i).sorted, ((FInv_reachable cap pol hcap sched).g i).sub⟩

/-- everything handed out is older than everything still queued: readers get the oldest first -/
theorem conc_oldest_first (cap : Nat) (pol : Policy) (hcap : 1 ≤ cap) (sched : List Act) :
    ∀ d ∈ (reach cap pol sched).g.delivered, ∀ x ∈ (reach cap pol sched).g.r.q, d < x.seq := by
  have := (conc_seq_inv cap pol hcap sched).d_lt_q
  rwa [absV_delivered, absV_q] at this

/-- every number consumed so far is in exactly one of handed out / dropped / discarded / still queued (an arrival that
has taken its number but is not yet queued or dropped is not counted yet) -/
theorem conc_accounting (cap : Nat) (pol : Policy) (hcap : 1 ≤ cap) (sched : List Act) :
    let s := reach cap pol sched
    (s.g.delivered ++ s.g.dropped ++ s.g.discarded ++ s.g.r.q.map Sig.seq).Perm
      (List.range (s.g.r.next - (if midH (holdOf s) then 1 else 0))) := by
  have := (conc_seq_inv cap pol hcap sched).account
  rwa [absV_delivered, absV_dropped, absV_discarded, absV_q, absV_next] at this

/-- **every arrival consumes exactly one number**: the counter equals the number of completed `_receive_signal` calls,
plus one while a deliverer is past `self._receiver_seqnr += 1` in its critical section -/
theorem conc_one_number_per_arrival (cap : Nat) (pol : Policy) (hcap : 1 ≤ cap) (sched : List Act) :
    (reach cap pol sched).g.r.next =
      (reach cap pol sched).doneRecv + (if consumedH (holdOf (reach cap pol sched)) then 1 else 0) :=
  (FInv_reachable cap pol hcap sched).n

/-- with the lock free: numbers consumed = arrivals completed = handed out + dropped + discarded + still queued -/
theorem conc_arrivals_accounted (cap : Nat) (pol : Policy) (hcap : 1 ≤ cap) (sched : List Act)
    (hfree : (reach cap pol sched).lock = none) :
    let s := reach cap pol sched
    s.g.r.next = s.doneRecv ∧
      s.doneRecv = s.g.delivered.length + s.g.dropped.length + s.g.discarded.length + s.g.r.q.length := by
  have h1 := conc_one_number_per_arrival cap pol hcap sched
  have h2 := (conc_accounting cap pol hcap sched).length_eq
  simp only [holdOf, hfree, Option.map_none, consumedH, midH] at h1 h2
  simp only [List.length_append, List.length_map, List.length_range] at h2
  simp at h1 h2
  exact ⟨h1, by omega⟩

/-- **each gap equals the number of signals lost**: between two numbers `a`, `b` handed out consecutively there are
exactly `b - a - 1` numbers, every one of them dropped by the policy or discarded, each once -/
theorem conc_gap_count (cap : Nat) (pol : Policy) (hcap : 1 ≤ cap) (sched : List Act) (pre post : List Nat) (a b : Nat)
    (hd : (reach cap pol sched).g.delivered = pre ++ a :: b :: post) :
    (((reach cap pol sched).g.dropped ++ (reach cap pol sched).g.discarded).filter
        (fun n => decide (a < n) && decide (n < b))).length = b - a - 1 := by
  have e := (FInv_reachable cap pol hcap sched).c.lin.abs_eq
  have hd' : (grun (ginit cap pol) (reach cap pol sched).lin).delivered = pre ++ a :: b :: post := by
    rw [← e, absV_delivered]; exact hd
  have := gap_count cap pol hcap (reach cap pol sched).lin pre post a b hd'
  rwa [← e, absV_dropped, absV_discarded] at this

/-! ## Asking for the next signal -/

/-- **a get that finds a signal queued returns it at once, whatever the thread kind, the stop flag and the timeout**:
from the moment reader `i` holds the lock with `x` the oldest queued signal, its next two statements end the call with
`x` — whatever other threads, stop requests (`Act.stop i` included), timer expiries and wake-ups happen in between -/
theorem get_nonempty_returns_head (cap : Nat) (pol : Policy) (hcap : 1 ≤ cap) (sched : List Act) (i : Nat)
    (task : Bool) (tmo : Tmo) (x : Sig) (rest : List Sig)
    (h : HeldBy (reach cap pol sched) i (.get task tmo) 1 none (x :: rest))
    (as1 as2 : List Act) (h1 : NoStep i as1) (h2 : NoStep i as2) :
    let s' := crun P0 (reach cap pol sched) (as1 ++ [.step i] ++ as2 ++ [.step i])
    (s'.thr i).res = some (.sig x) ∧ (s'.thr i).call = .idle ∧ s'.g.r.q = rest ∧ s'.lock = none := by
  have hne : Call.get task tmo ≠ .idle := by simp
  have hF := FInv_reachable cap pol hcap sched
  -- others move, then `i` tests the queue
  have hl1 := LInv_crun as1 _ hF.c.lk
  have hb1 := HeldBy_others hne as1 h1 _ hF.c.lk h
  generalize hs1 : crun P0 (reach cap pol sched) as1 = s1 at hl1 hb1
  have hstep1 : HeldBy (cstep P0 s1 (.step i)) i (.get task tmo) 3 none (x :: rest) := by
    obtain ⟨a1, a2, a3, a4, a5, a6⟩ := hb1
    simp only [cstep, stepThr_P0 s1 hl1 i, next0, a2, a3, a6]
    exact ⟨a1, by simp [a2], by simp, by simp [a4], by simp [a5], a6⟩
  have hl2 := LInv_cstep hl1 (.step i)
  have hb2 := HeldBy_others hne as2 h2 _ hl2 hstep1
  have hl3 := LInv_crun as2 _ hl2
  generalize hs3 : crun P0 (cstep P0 s1 (.step i)) as2 = s3 at hl3 hb2
  obtain ⟨a1, a2, a3, a4, a5, a6⟩ := hb2
  have hfin : cstep P0 s3 (.step i) =
      finish { s3 with g := { setQ s3.g rest with delivered := s3.g.delivered ++ [x.seq] }, lin := s3.lin ++ [.get],
                       thr := upd s3.thr i { (s3.thr i) with got := (s3.thr i).got ++ [x.seq] } } i (.sig x) := by
    simp only [cstep, stepThr_P0 s3 hl3 i, next0, a2, a3, a6]
  intro s'
  have e : s' = cstep P0 s3 (.step i) := by
    simp only [s', crun_append, hs1]
    show cstep P0 (crun P0 (cstep P0 s1 (.step i)) as2) (.step i) = _
    rw [hs3]
  rw [e, hfin]
  exact ⟨by simp [finish_thr_same], by simp [finish_thr_same], by simp [setQ], by simp [unlock, a1]⟩


/-- non-vacuity of `get_nonempty_returns_head`: a task reader that was asked to stop, with timeout 0, holding the lock in
front of a queue with one signal -/
example : HeldBy (reach 2 .old ([.call 0 (.recv 7)] ++ steps 0 7 ++ [.call 1 (.get true .zero), .stop 1, .step 1])) 1
    (.get true .zero) 1 none [⟨0, 7⟩] := by
  constructor <;> decide

/-- how a `get_next_signal` call can end: the four `return` / `raise` statements -/
theorem get_end_cases (s : St) (hl : LInv s) (i : Nat) (task : Bool) (tmo : Tmo) (hc : (s.thr i).call = .get task tmo)
    (hidle : ((cstep P0 s (.step i)).thr i).call = .idle) :
    ((s.thr i).wpc = some (if task then 2 else 1) ∧ (s.thr i).ret = false ∧ cstep P0 s (.step i) = finish s i .timeout) ∨
    (task = true ∧ (s.thr i).wpc = some 1 ∧ (s.thr i).stop = true ∧ (s.thr i).pc = 2 ∧ cstep P0 s (.step i) = finish s i .taskStop) ∨
    ((s.thr i).pc = 3 ∧ s.g.r.q = [] ∧ cstep P0 s (.step i) = finish s i .indexErr) ∨
    (∃ x rest, s.g.r.q = x :: rest ∧ ((cstep P0 s (.step i)).thr i).res = some (.sig x) ∧ (cstep P0 s (.step i)).g.r.q = rest) := by
  have hs := next0_Step0 s hl i
  simp only [cstep, stepThr_P0 s hl i] at hidle ⊢
  generalize next0 s i = s' at hs hidle
  cases hs
  case same => rw [hc] at hidle; cases hidle
  case retFalse task' tmo' hc' hpc hw hp hlk hret =>
    rw [hc] at hc'; cases hc'; exact Or.inl ⟨hw, hret, rfl⟩
  case taskStop tmo' hc' hpc hw hp hlk hstop =>
    rw [hc] at hc'; cases hc'; exact Or.inr (Or.inl ⟨rfl, hw, hstop, hpc, rfl⟩)
  case popEmpty task' tmo' hc' hpc hlk hw hq => exact Or.inr (Or.inr (Or.inl ⟨hpc, hq, rfl⟩))
  case pop task' tmo' x rest hc' hpc hlk hw hq =>
    exact Or.inr (Or.inr (Or.inr ⟨x, rest, hq, by simp [finish_thr_same], by simp [setQ]⟩))
  all_goals (simp_all [upd_same, finish_thr_same, isGet])

/-- **otherwise it raises a timeout error**: a call ends with QMI_TimeoutException only if the caller gave a finite
timeout, the call found the queue empty when it first tested it, and the queue is empty at the moment of the `raise` -/
theorem timeout_only_on_empty_queue (cap : Nat) (pol : Policy) (hcap : 1 ≤ cap) (sched : List Act) (i : Nat)
    (task : Bool) (tmo : Tmo) (hc : ((reach cap pol sched).thr i).call = .get task tmo)
    (hend : ((cstep P0 (reach cap pol sched) (.step i)).thr i).call = .idle)
    (hres : ((cstep P0 (reach cap pol sched) (.step i)).thr i).res = some .timeout) :
    (reach cap pol sched).g.r.q = [] ∧ tmo ≠ .none ∧ ((reach cap pol sched).thr i).sawEmpty = true := by
  have hF : FInv cap pol (reach cap pol sched) := FInv_reachable cap pol hcap sched
  generalize reach cap pol sched = s at *
  have hwg := hF.c.lk.wpc_get i
  rcases get_end_cases s hF.c.lk i task tmo hc hend with ⟨hw, hr, _⟩ | ⟨_, _, _, _, e⟩ | ⟨_, _, e⟩ | ⟨x, rest, _, e, _⟩
  · have h1 : 1 ≤ (if task then 2 else 1) := by cases task <;> simp
    refine ⟨(hF.c.wt i).ret_f _ hw h1 hr, ?_, (hF.c.out i).saw (by simp [hc, isGet]) (hwg _ hw).2.1⟩
    intro htm; subst htm
    exact (hF.c.out i).retf_tmo _ hw h1 hr task hc
  · rw [e] at hres; simp [finish_thr_same] at hres
  · rw [e] at hres; simp [finish_thr_same] at hres
  · rw [e] at hres; cases hres

/-- a call ends with QMI_TaskStopException only in a task thread whose stop flag is set, and only if the call found the
queue empty when it first tested it (the wait helper then gives the stop request priority, see `stop_during_wait_has_priority`) -/
theorem taskstop_only_after_stop_request_on_empty_queue (cap : Nat) (pol : Policy) (hcap : 1 ≤ cap) (sched : List Act) (i : Nat)
    (task : Bool) (tmo : Tmo) (hc : ((reach cap pol sched).thr i).call = .get task tmo)
    (hend : ((cstep P0 (reach cap pol sched) (.step i)).thr i).call = .idle)
    (hres : ((cstep P0 (reach cap pol sched) (.step i)).thr i).res = some .taskStop) :
    task = true ∧ ((reach cap pol sched).thr i).stop = true ∧ ((reach cap pol sched).thr i).sawEmpty = true := by
  have hF : FInv cap pol (reach cap pol sched) := FInv_reachable cap pol hcap sched
  generalize reach cap pol sched = s at *
  rcases get_end_cases s hF.c.lk i task tmo hc hend with ⟨_, _, e⟩ | ⟨ht, _, hst, hpc, _⟩ | ⟨_, _, e⟩ | ⟨x, rest, _, e, _⟩
  · rw [e] at hres; simp [finish_thr_same] at hres
  · exact ⟨ht, hst, (hF.c.out i).saw (by simp [hc, isGet]) hpc⟩
  · rw [e] at hres; simp [finish_thr_same] at hres
  · rw [e] at hres; cases hres

/-- a call that ends with a signal returns the oldest queued one and removes exactly it -/
theorem returned_signal_is_oldest (cap : Nat) (pol : Policy) (hcap : 1 ≤ cap) (sched : List Act) (i : Nat)
    (task : Bool) (tmo : Tmo) (x : Sig) (hc : ((reach cap pol sched).thr i).call = .get task tmo)
    (hend : ((cstep P0 (reach cap pol sched) (.step i)).thr i).call = .idle)
    (hres : ((cstep P0 (reach cap pol sched) (.step i)).thr i).res = some (.sig x)) :
    ∃ rest, (reach cap pol sched).g.r.q = x :: rest ∧ (cstep P0 (reach cap pol sched) (.step i)).g.r.q = rest := by
  have hF : FInv cap pol (reach cap pol sched) := FInv_reachable cap pol hcap sched
  generalize reach cap pol sched = s at *
  rcases get_end_cases s hF.c.lk i task tmo hc hend with ⟨_, _, e⟩ | ⟨_, _, _, _, e⟩ | ⟨_, _, e⟩ | ⟨y, rest, hq, e, hq'⟩
  · rw [e] at hres; simp [finish_thr_same] at hres
  · rw [e] at hres; simp [finish_thr_same] at hres
  · rw [e] at hres; simp [finish_thr_same] at hres
  · rw [e] at hres; cases hres; exact ⟨rest, hq, hq'⟩

/-- `popleft` never meets an empty queue: no call ever ends with `IndexError` -/
theorem popleft_never_on_empty_queue (cap : Nat) (pol : Policy) (hcap : 1 ≤ cap) (sched : List Act) (i : Nat) :
    ((reach cap pol sched).thr i).res ≠ some .indexErr :=
  ((FInv_reachable cap pol hcap sched).c.out i).res_noerr

/-- **no lost wake-up**: whenever the lock is free and a signal is queued, every reader parked in `cond.wait` has been
notified … -/
theorem no_lost_wakeup (cap : Nat) (pol : Policy) (hcap : 1 ≤ cap) (sched : List Act) (i : Nat)
    (hfree : (reach cap pol sched).lock = none) (hp : ((reach cap pol sched).thr i).parked = true)
    (hq : (reach cap pol sched).g.r.q ≠ []) : ((reach cap pol sched).thr i).notified = true := by
  have h := ((FInv_reachable cap pol hcap sched).c.wt i).nlw hp
  cases hn : ((reach cap pol sched).thr i).notified with
  | true => rfl
  | false =>
    rcases h hn with h1 | h1
    · exact absurd h1 hq
    · simp [holdOf, hfree, at5] at h1

/-- … and is therefore runnable: its next step re-acquires the lock and leaves `cond.wait` -/
theorem parked_reader_wakes (cap : Nat) (pol : Policy) (hcap : 1 ≤ cap) (sched : List Act) (i : Nat)
    (hfree : (reach cap pol sched).lock = none) (hp : ((reach cap pol sched).thr i).parked = true)
    (hq : (reach cap pol sched).g.r.q ≠ []) :
    (cstep P0 (reach cap pol sched) (.step i)).lock = some i ∧ ((cstep P0 (reach cap pol sched) (.step i)).thr i).parked = false ∧
      (cstep P0 (reach cap pol sched) (.step i)).g.r.q = (reach cap pol sched).g.r.q := by
  have hn := no_lost_wakeup cap pol hcap sched i hfree hp hq
  have hF : FInv cap pol (reach cap pol sched) := FInv_reachable cap pol hcap sched
  generalize reach cap pol sched = s at *
  have hw := hF.c.lk.parked_w i hp
  obtain ⟨hg, hpc, _⟩ := hF.c.lk.wpc_get i 0 hw
  cases hc : (s.thr i).call with
  | get task tmo =>
    simp only [cstep, stepThr_P0 s hF.c.lk i, next0, hc, hpc, hw, hp, hn, hfree]
    simp
  | _ => simp [hc, isGet] at hg

/-- a plain-thread reader that has left `cond.wait` with a signal queued returns the oldest signal with its next three
statements, whatever happens in between -/
theorem woken_plain_reader_returns_head (cap : Nat) (pol : Policy) (hcap : 1 ≤ cap) (sched : List Act) (i : Nat)
    (tmo : Tmo) (x : Sig) (rest : List Sig)
    (h : HeldBy (reach cap pol sched) i (.get false tmo) 2 (some 0) (x :: rest))
    (as1 as2 as3 : List Act) (h1 : NoStep i as1) (h2 : NoStep i as2) (h3 : NoStep i as3) :
    let s' := crun P0 (reach cap pol sched) (as1 ++ [.step i] ++ as2 ++ [.step i] ++ as3 ++ [.step i])
    (s'.thr i).res = some (.sig x) ∧ (s'.thr i).call = .idle ∧ s'.g.r.q = rest := by
  have hne : Call.get false tmo ≠ .idle := by simp
  have hF := FInv_reachable cap pol hcap sched
  have hl1 := LInv_crun as1 _ hF.c.lk
  have hb1 := HeldBy_others hne as1 h1 _ hF.c.lk h
  have hC1' := CInv_crun as1 _ hF.c
  generalize hs1 : crun P0 (reach cap pol sched) as1 = s1 at hl1 hb1 hC1'
  have hC1 : CInv cap pol s1 := hC1'
  have hst1 : HeldBy (cstep P0 s1 (.step i)) i (.get false tmo) 2 (some 1) (x :: rest) := by
    obtain ⟨a1, a2, a3, a4, a5, a6⟩ := hb1
    simp only [cstep, stepThr_P0 s1 hl1 i, next0, a2, a3, a4, a5, a6]
    simp
    exact ⟨a1, by simp [a2], by simp [a3], by simp, by simp [a5], a6⟩
  have hC2 := CInv_cstep hC1 (.step i)
  have hb2 := HeldBy_others hne as2 h2 _ hC2.lk hst1
  have hC3 := CInv_crun as2 _ hC2
  generalize hs3 : crun P0 (cstep P0 s1 (.step i)) as2 = s3 at hb2 hC3
  have hret : (s3.thr i).ret = true := by
    cases hr : (s3.thr i).ret with
    | true => rfl
    | false => have := (hC3.wt i).ret_f 1 hb2.wpc (by omega) hr; rw [hb2.q] at this; cases this
  have hst3 : HeldBy (cstep P0 s3 (.step i)) i (.get false tmo) 3 none (x :: rest) := by
    obtain ⟨a1, a2, a3, a4, a5, a6⟩ := hb2
    simp only [cstep, stepThr_P0 s3 hC3.lk i, next0, a2, a3, a4, hret]
    simp
    exact ⟨a1, by simp [a2], by simp, by simp, by simp [a5], a6⟩
  have hC4 := CInv_cstep hC3 (.step i)
  have hb4 := HeldBy_others hne as3 h3 _ hC4.lk hst3
  have hC5 := CInv_crun as3 _ hC4
  generalize hs5 : crun P0 (cstep P0 s3 (.step i)) as3 = s5 at hb4 hC5
  obtain ⟨a1, a2, a3, a4, a5, a6⟩ := hb4
  have hfin : cstep P0 s5 (.step i) =
      finish { s5 with g := { setQ s5.g rest with delivered := s5.g.delivered ++ [x.seq] }, lin := s5.lin ++ [.get],
                       thr := upd s5.thr i { (s5.thr i) with got := (s5.thr i).got ++ [x.seq] } } i (.sig x) := by
    simp only [cstep, stepThr_P0 s5 hC5.lk i, next0, a2, a3, a6]
  intro s'
  have e : s' = cstep P0 s5 (.step i) := by
    simp only [s', crun_append, hs1]
    show cstep P0 (crun P0 (cstep P0 (crun P0 (cstep P0 s1 (.step i)) as2) (.step i)) as3) (.step i) = _
    rw [hs3, hs5]
  rw [e, hfin]
  exact ⟨by simp [finish_thr_same], by simp [finish_thr_same], by simp [setQ]⟩

/-! ## Non-vacuity and why the obligations matter -/

/-- a reader (plain thread, timeout `None`) parks on the empty queue, a deliverer queues a signal and notifies, the reader
wakes: the hypotheses of `no_lost_wakeup` / `parked_reader_wakes` / `woken_plain_reader_returns_head` are reachable -/
def wakeSched : List Act := [.call 2 (.get false .none)] ++ steps 2 4 ++ [.call 0 (.recv 7)] ++ steps 0 7

example : (reach 4 .old wakeSched).lock = none ∧ ((reach 4 .old wakeSched).thr 2).parked = true ∧
    (reach 4 .old wakeSched).g.r.q = [⟨0, 7⟩] ∧ ((reach 4 .old wakeSched).thr 2).notified = true := by decide

example : HeldBy (reach 4 .old (wakeSched ++ [.step 2])) 2 (.get false .none) 2 (some 0) [⟨0, 7⟩] := by
  constructor <;> decide

/-- non-vacuity of the three "how a call ends" theorems: a plain reader with timeout 0 on an empty queue is one statement
away from the timeout; a task reader that was asked to stop, on an empty queue, one statement away from the stop
exception; a reader in front of a queued signal one statement away from getting it -/
example :
    let s := reach 2 .old ([.call 1 (.get false .zero)] ++ steps 1 4)
    (s.thr 1).call = .get false .zero ∧ ((cstep P0 s (.step 1)).thr 1).call = .idle ∧
      ((cstep P0 s (.step 1)).thr 1).res = some .timeout := by decide

example :
    let s := reach 2 .old ([.call 1 (.get true .none), .stop 1] ++ steps 1 4)
    (s.thr 1).call = .get true .none ∧ ((cstep P0 s (.step 1)).thr 1).call = .idle ∧
      ((cstep P0 s (.step 1)).thr 1).res = some .taskStop := by decide

example :
    let s := reach 2 .old ([.call 0 (.recv 7)] ++ steps 0 7 ++ [.call 1 (.get true .pos), .stop 1] ++ steps 1 2)
    (s.thr 1).call = .get true .pos ∧ ((cstep P0 s (.step 1)).thr 1).call = .idle ∧
      ((cstep P0 s (.step 1)).thr 1).res = some (.sig ⟨0, 7⟩) := by decide

/-- non-vacuity of `conc_gap_count`: two deliverers and a discard between two reads — numbers 0 and 2 handed out, 1 lost -/
example :
    (reach 2 .old ([.call 0 (.recv 7)] ++ steps 0 7 ++ [.call 1 (.get false .zero)] ++ steps 1 3 ++ [.call 0 (.recv 8)] ++ steps 0 7 ++
        [.call 2 .discard] ++ steps 2 3 ++ [.call 0 (.recv 9)] ++ steps 0 7 ++ [.call 1 (.get false .zero)] ++ steps 1 3)).g.delivered
      = [] ++ 0 :: 2 :: [] := by decide

/-- three deliverers interleaved statement by statement overrun a queue of length 1 (DISCARD_OLD) while a reader with a
finite timeout waits: numbers 0, 1, 2 consumed, the reader is handed one of them, the rest is dropped or queued -/
example :
    let s := reach 1 .old ([.call 3 (.get false .pos)] ++ steps 3 4 ++
      [.call 0 (.recv 7), .call 1 (.recv 8), .call 2 (.recv 9)] ++ (List.range 60).map (fun k => .step (k % 3)) ++ steps 3 4)
    s.g.r.next = 3 ∧ s.doneRecv = 3 ∧ (s.thr 3).got = [2] ∧ s.g.dropped = [0, 1] ∧ s.g.r.q = [] := by decide +kernel

/-- why `gen_seq_assigned_under_lock` matters (a constant, not the source): with the number taken before the `with`
block two deliverers can leave the queue as [1, 0] -/
def unlockedSeqProgs : Progs := { P0 with recv := [.takeSeq, .acquire, .dropIfFullNew, .append, .notifyAll, .release] }

theorem unlocked_seq_breaks_order :
    (crun unlockedSeqProgs (St.init 4 .old)
      ([.call 0 (.recv 7), .call 1 (.recv 8), .step 0] ++ steps 1 6 ++ steps 0 5)).g.r.q.map Sig.seq = [1, 0] := by decide

/-- why `gen_no_callout_inside_window` matters (a constant, not the source): if another arrival can run between
`self._receiver_seqnr += 1` and the append — here by giving the lock away in between, in the code by a re-entrant call
on the same thread — the queue ends as [1, 0] -/
def exposedWindowProgs : Progs :=
  { P0 with recv := [.acquire, .mkSig, .incSeq, .dropIfFullNew, .release, .acquire, .append, .notifyAll, .release] }

theorem exposed_window_breaks_order :
    (crun exposedWindowProgs (St.init 4 .old)
      ([.call 0 (.recv 7), .call 1 (.recv 8)] ++ steps 0 5 ++ steps 1 9 ++ steps 0 4)).g.r.q.map Sig.seq = [1, 0] := by decide

/-- the call-out of the seeded kind (after the full-queue test, lock held) is inside the window; one before the counter
is read or after the append is not -/
example : exposes P0 ⟨.recv, 4, true⟩ = true ∧ exposes P0 ⟨.recv, 1, true⟩ = false ∧ exposes P0 ⟨.recv, 5, true⟩ = false ∧
    exposes P0 ⟨.get, 3, true⟩ = true ∧ exposes P0 ⟨.get, 1, true⟩ = false ∧ exposes P0 ⟨.recv, 4, false⟩ = false := by decide

/-- why `gen_get_checks_queue_first` matters (a constant, not the source): without the test before the wait helper a task
that was asked to stop gets QMI_TaskStopException although a signal is queued -/
def noPrecheckProgs : Progs := { P0 with get := [.acquire, .wait, .pop, .release] }

theorem no_precheck_stop_hides_queued_signal :
    ((crun noPrecheckProgs (St.init 4 .old)
        ([.call 0 (.recv 7)] ++ steps 0 7 ++ [.call 2 (.get true .zero), .stop 2] ++ steps 2 4)).thr 2).res = some .taskStop ∧
    (crun noPrecheckProgs (St.init 4 .old)
        ([.call 0 (.recv 7)] ++ steps 0 7 ++ [.call 2 (.get true .zero), .stop 2] ++ steps 2 4)).g.r.q.map Sig.seq = [0] := by
  decide

/-- the code as it is (`gen_wait_helpers`): a task reader sleeps on the empty queue, a signal is queued, then the stop
request arrives before the reader runs again — the helper gives the stop request priority, the call ends with
QMI_TaskStopException and the signal stays queued (accepted: see `taskstop_only_after_stop_request_on_empty_queue`) -/
theorem stop_during_wait_has_priority :
    ((reach 4 .old ([.call 2 (.get true .none)] ++ steps 2 4 ++ [.call 0 (.recv 7)] ++ steps 0 7 ++ [.stop 2] ++ steps 2 3)).thr 2).res
      = some .taskStop ∧
    (reach 4 .old ([.call 2 (.get true .none)] ++ steps 2 4 ++ [.call 0 (.recv 7)] ++ steps 0 7 ++ [.stop 2] ++ steps 2 3)).g.r.q.map Sig.seq
      = [0] := by decide

end QmiModel.RecvConc
