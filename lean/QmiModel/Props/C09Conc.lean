import QmiModel.Gen.RecvProg
/-!
# C09 — the receiver under every interleaving of deliverer and reader threads (work in progress)
-/
namespace QmiModel.RecvConc
open QmiModel.RecvQueue

/-- OBLIGATION on the generated programs: they are the programs the theorems below are about -/
theorem gen_progs : Gen.RecvProg.progs = P0 := by decide

end QmiModel.RecvConc
