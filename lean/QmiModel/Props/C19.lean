import QmiModel.Model.OpenProg

/-!
# C19 — instrument drivers keep `open` consistent with the device link

Generic theorems about the abstract `open()`/`close()` programs of `Model/OpenProg.lean`.
The per-class obligations (`ok_<Driver>` / `bad_<Driver>` …) are generated into
`Gen/OpenProgsObligations.lean` and are closed with the lemmas of this file + `decide +kernel`.
-/
namespace QmiModel.C19
open QmiModel.OpenProg

/-- `is_open()` is true exactly when the driver holds its device link(s):
    marked open ⇒ every link open; marked closed ⇒ no link held. -/
def Consistent (n : Nat) (s : St) : Prop :=
  (s.instrOpen = true → ∀ t, t < n → linkOpen s t = true) ∧
  (s.instrOpen = false → ∀ t, linkOpen s t = false)

def FullyClosed (s : St) : Prop := s.instrOpen = false ∧ s.links = []
def FullyOpen (n : Nat) (s : St) : Prop := s.instrOpen = true ∧ ∀ t, t < n → linkOpen s t = true

/-! ## Boolean checkers agree with the propositions -/

private theorem links_nil_of_no_link {l : List Nat} (h : ∀ t, l.contains t = false) : l = [] := by
  cases l with
  | nil => rfl
  | cons a r =>
    have := h a
    simp at this

theorem consistentB_iff (n : Nat) (s : St) : consistentB n s = true ↔ Consistent n s := by
  unfold consistentB Consistent linkOpen
  cases hflag : s.instrOpen
  · simp only [Bool.false_eq_true, if_false, false_implies, true_and, forall_const]
    constructor
    · intro h t
      have : s.links = [] := by simpa [List.isEmpty_iff] using h
      simp [this]
    · intro h
      have := links_nil_of_no_link h
      simp [this]
  · simp only [if_true, forall_const, Bool.true_eq_false, false_implies, and_true]
    rw [List.all_eq_true]
    constructor
    · intro h t ht
      exact h t (List.mem_range.mpr ht)
    · intro h t ht
      exact h t (List.mem_range.mp ht)

theorem fullyClosedB_iff (s : St) : fullyClosedB s = true ↔ FullyClosed s := by
  unfold fullyClosedB FullyClosed
  cases s.instrOpen <;> simp [List.isEmpty_iff]

/-- non-vacuity: both a fully closed and a fully open state are consistent, a half-open one is not -/
example : Consistent 1 init := (consistentB_iff 1 init).mp (by decide)
example : Consistent 2 ⟨true, [1, 0], [], [], 2⟩ := (consistentB_iff 2 _).mp (by decide)
example : ¬ Consistent 1 ⟨false, [0], [], [], 1⟩ := fun h => by
  have := (consistentB_iff 1 _).mpr h
  revert this; decide

/-! ## Plans that agree on the fault points a run passes -/

/-- the two plans prescribe the same at every fault index `< c` -/
def Agree (P P' : Plan) (c : Nat) : Prop := ∀ i, i < c → P' i = P i

theorem Agree.mono {P P' : Plan} {c c' : Nat} (h : Agree P P' c) (hle : c' ≤ c) : Agree P P' c' :=
  fun i hi => h i (Nat.lt_of_lt_of_le hi hle)

private theorem fault_eq_of_agree {P P' : Plan} {s : St} (h : Agree P P' (s.cnt + 1)) : fault P' s = fault P s :=
  h s.cnt (Nat.lt_succ_self _)

/-! ## The fault counter only grows -/

theorem stepAtom_cnt_le (P : Plan) (id : Nat) (a : Atom) (s : St) : s.cnt ≤ (stepAtom P id a s).1.cnt := by
  unfold stepAtom
  cases a <;> simp only
  all_goals (repeat' split) <;> simp only [Nat.le_refl, Nat.le_succ]
  all_goals omega

theorem andThen_cnt_le {r : St × Res} {k : St → St × Res} (hk : ∀ s, s.cnt ≤ (k s).1.cnt) :
    r.1.cnt ≤ (andThen r k).1.cnt := by
  unfold andThen
  split
  · exact hk _
  · exact Nat.le_refl _

theorem handleRes_cnt_le {cs : List Kind} {ex : Exit} {r1 : St × Res} {runH : St → St × Res}
    (hH : ∀ s, s.cnt ≤ (runH s).1.cnt) : r1.1.cnt ≤ (handleRes cs ex r1 runH).1.cnt := by
  unfold handleRes
  split
  · split
    · simp only
      split
      · exact hH _
      · exact hH _
    · exact Nat.le_refl _
  · exact Nat.le_refl _

theorem exec_cnt_le (P : Plan) : ∀ (f : Nat) (p : Prog) (s : St), s.cnt ≤ (exec P f p s).1.cnt := by
  intro f
  induction f with
  | zero => intro p s; simp [exec]
  | succ f ih =>
    intro p s
    cases p with
    | nil => simp [exec]
    | cons st rest =>
      cases st with
      | atom id a =>
        simp only [exec]
        exact Nat.le_trans (stepAtom_cnt_le P id a s) (andThen_cnt_le (ih rest))
      | try_ body cs h ex =>
        simp only [exec]
        refine Nat.le_trans (ih body s) (Nat.le_trans (handleRes_cnt_le (ih h)) (andThen_cnt_le (ih rest)))

/-! ## Only the plan entries below the number of fault points passed matter -/

private theorem fault_trace (P : Plan) (s : St) (tr : List Nat) : fault P { s with trace := tr } = fault P s := rfl

private theorem stepAtom_io_cnt (P : Plan) (id : Nat) (s : St) : (stepAtom P id .io s).1.cnt = s.cnt + 1 := by
  unfold stepAtom
  simp only
  split <;> rfl

private theorem stepAtom_tOpen_cnt (P : Plan) (id t : Nat) (s : St) (hc : s.links.contains t = false) :
    (stepAtom P id (.tOpen t) s).1.cnt = s.cnt + 1 := by
  unfold stepAtom
  simp only [hc, Bool.false_eq_true, if_false]
  split <;> rfl

private theorem stepAtom_tClose_cnt (P : Plan) (id t : Nat) (s : St) (hc : s.links.contains t = true) :
    (stepAtom P id (.tClose t) s).1.cnt = s.cnt + 1 := by
  unfold stepAtom
  simp only [hc, if_true]
  split <;> rfl

theorem stepAtom_plan_irrel {P P' : Plan} {id : Nat} {a : Atom} {s : St}
    (h : Agree P P' (stepAtom P id a s).1.cnt) : stepAtom P' id a s = stepAtom P id a s := by
  cases a with
  | pure => rfl
  | checkClosed => rfl
  | checkOpen => rfl
  | superOpen => rfl
  | superClose => rfl
  | tClose t =>
    cases hc : s.links.contains t
    · simp only [stepAtom, hc, Bool.false_eq_true, if_false]
    · rw [stepAtom_tClose_cnt P id t s hc] at h
      have e := fault_eq_of_agree h
      simp only [stepAtom, hc, if_true, fault_trace, e]
  | tOpen t =>
    cases hc : s.links.contains t
    · rw [stepAtom_tOpen_cnt P id t s hc] at h
      have e := fault_eq_of_agree h
      simp only [stepAtom, hc, Bool.false_eq_true, if_false, fault_trace, e]
    · simp only [stepAtom, hc, if_true]
  | io =>
    rw [stepAtom_io_cnt P id s] at h
    have e := fault_eq_of_agree h
    simp only [stepAtom, fault_trace, e]

theorem andThen_ok {r : St × Res} {k : St → St × Res} (h : r.2 = .ok) : andThen r k = k r.1 := by
  unfold andThen; rw [h]

theorem andThen_not_ok {r : St × Res} {k : St → St × Res} (h : r.2 ≠ .ok) : andThen r k = r := by
  unfold andThen
  split
  · next h2 => exact absurd h2 h
  · rfl

theorem exec_plan_irrel {P P' : Plan} : ∀ (f : Nat) (p : Prog) (s : St),
    Agree P P' (exec P f p s).1.cnt → exec P' f p s = exec P f p s := by
  intro f
  induction f with
  | zero => intro p s _; simp [exec]
  | succ f ih =>
    intro p s h
    cases p with
    | nil => simp [exec]
    | cons st rest =>
      cases st with
      | atom id a =>
        simp only [exec] at h ⊢
        have hle : (stepAtom P id a s).1.cnt ≤ (andThen (stepAtom P id a s) (exec P f rest)).1.cnt :=
          andThen_cnt_le (exec_cnt_le P f rest)
        have hA : stepAtom P' id a s = stepAtom P id a s := stepAtom_plan_irrel (h.mono hle)
        rw [hA]
        by_cases hok : (stepAtom P id a s).2 = .ok
        · rw [andThen_ok hok] at h
          rw [andThen_ok hok, andThen_ok hok]
          exact ih rest _ h
        · rw [andThen_not_ok hok, andThen_not_ok hok]
      | try_ body cs hd ex =>
        simp only [exec] at h ⊢
        have hH : ∀ Q : Plan, ∀ s, s.cnt ≤ (exec Q f hd s).1.cnt := fun Q => exec_cnt_le Q f hd
        have hle2 : (handleRes cs ex (exec P f body s) (exec P f hd)).1.cnt ≤
            (andThen (handleRes cs ex (exec P f body s) (exec P f hd)) (exec P f rest)).1.cnt :=
          andThen_cnt_le (exec_cnt_le P f rest)
        have hle1 : (exec P f body s).1.cnt ≤ (handleRes cs ex (exec P f body s) (exec P f hd)).1.cnt :=
          handleRes_cnt_le (hH P)
        have hB : exec P' f body s = exec P f body s :=
          ih body s (h.mono (Nat.le_trans hle1 hle2))
        have hT : handleRes cs ex (exec P' f body s) (exec P' f hd) = handleRes cs ex (exec P f body s) (exec P f hd) := by
          rw [hB]
          have hN := h.mono hle2
          unfold handleRes at hN ⊢
          split
          · next κ hκ =>
            simp only [hκ] at hN
            split
            · next hc =>
              simp only [hc, if_true] at hN
              have hHd : exec P' f hd (exec P f body s).1 = exec P f hd (exec P f body s).1 := by
                apply ih hd
                revert hN; split <;> exact id
              simp only [hHd]
            · rfl
          · rfl
        rw [hT]
        by_cases hok : (handleRes cs ex (exec P f body s) (exec P f hd)).2 = .ok
        · rw [andThen_ok hok] at h
          rw [andThen_ok hok, andThen_ok hok]
          exact ih rest _ h
        · rw [andThen_not_ok hok, andThen_not_ok hok]

private theorem agree_single {k c : Nat} (κ : Kind) (h : c ≤ k) : Agree noFault (single k κ) c := by
  intro i hi
  have : ¬ i = k := by omega
  simp [single, noFault, this]

/-- **fault_beyond_end.** A plan whose index is at least the number of fault points passed by the fault-free
    run behaves like "no fault"; so "for every k" reduces to the finite table `k < freeCount d` × κ. -/
theorem fault_beyond_end (d : Driver) (k : Nat) (κ : Kind) (h : freeCount d ≤ k) :
    runOpen d (single k κ) = runOpen d noFault := by
  unfold runOpen
  exact exec_plan_irrel (P := noFault) (P' := single k κ) fuel0 d.openP init (agree_single κ h)

/-- non-vacuity: a K10CR1-shaped driver passes 3 fault points; plan index 7 lies beyond the end -/
private def demo : Driver :=
  { name := "demo", nlinks := 1,
    openP := [.atom 1 .checkClosed, .atom 2 (.tOpen 0),
              .try_ [.atom 4 .io, .atom 5 .io] allKinds [.atom 6 (.tClose 0)] .reraise, .atom 8 .superOpen],
    closeP := [.atom 1 .superClose, .atom 2 (.tClose 0)] }
example : freeCount demo = 3 := by decide
example : runOpen demo (single 7 .os) = runOpen demo noFault := fault_beyond_end demo 7 .os (by decide)
example : (runOpen demo (single 2 .os)).2 = .raised .os ∧ (runOpen demo noFault).2 = .ok := by decide

/-- the same for any program, fuel and start state; and in general: two plans that agree below the number of
    fault points the run passes give the same run (`exec_plan_irrel`) -/
theorem fault_beyond_end_exec (f : Nat) (p : Prog) (s : St) (k : Nat) (κ : Kind)
    (h : (exec noFault f p s).1.cnt ≤ k) : exec (single k κ) f p s = exec noFault f p s :=
  exec_plan_irrel (P := noFault) (P' := single k κ) f p s (agree_single κ h)

/-! ## From the finite table to all single-fault plans -/

private theorem rowOK_spec {d : Driver} {P : Plan} (h : rowOK d P = true) :
    Consistent d.nlinks (runOpen d P).1 ∧ (runOpen d P).2 ≠ .outOfFuel := by
  unfold rowOK at h
  simp only [Bool.and_eq_true, bne_iff_ne, ne_eq] at h
  exact ⟨(consistentB_iff _ _).mp h.1, h.2⟩

/-- the run is consistent and complete -/
def GoodRun (d : Driver) (P : Plan) : Prop :=
  Consistent d.nlinks (runOpen d P).1 ∧ (runOpen d P).2 ≠ .outOfFuel

/-- the table covers the fault-free run and every plan of the property statement
    ("the k-th device I/O of open() fails with κ", every k, every κ) -/
theorem all_plans_of_table (d : Driver) (h : checkAll d = true) :
    GoodRun d noFault ∧ ∀ k κ, GoodRun d (single k κ) := by
  unfold checkAll at h
  rw [Bool.and_eq_true] at h
  obtain ⟨h0, htab⟩ := h
  refine ⟨rowOK_spec h0, fun k κ => ?_⟩
  by_cases hk : k < freeCount d
  · rw [List.all_eq_true] at htab
    have h1 := htab k (List.mem_range.mpr hk)
    rw [List.all_eq_true] at h1
    exact rowOK_spec (h1 κ (mem_allKinds κ))
  · unfold GoodRun
    rw [fault_beyond_end d k κ (Nat.le_of_not_lt hk)]
    exact rowOK_spec h0

example : GoodRun demo noFault ∧ ∀ k κ, GoodRun demo (single k κ) := all_plans_of_table demo (by decide)

/-- per-class theorem `exact_<Driver>`: every single-fault plan is consistent except the listed ones -/
theorem all_plans_except_of_table (d : Driver) (bad : List (Nat × Kind)) (h : checkAllExcept d bad = true) :
    ∀ k κ, Consistent d.nlinks (runOpen d (single k κ)).1 ∨ (k, κ) ∈ bad := by
  unfold checkAllExcept at h
  rw [Bool.and_eq_true] at h
  obtain ⟨h0, htab⟩ := h
  intro k κ
  by_cases hk : k < freeCount d
  · rw [List.all_eq_true] at htab
    have h1 := htab k (List.mem_range.mpr hk)
    rw [List.all_eq_true] at h1
    have h2 := h1 κ (mem_allKinds κ)
    rw [Bool.or_eq_true] at h2
    cases h2 with
    | inl hb => exact Or.inr (by simpa using hb)
    | inr hr => exact Or.inl (rowOK_spec hr).1
  · rw [fault_beyond_end d k κ (Nat.le_of_not_lt hk)]
    exact Or.inl (rowOK_spec h0).1

/-- per-class theorem `bad_<Driver>`: the negation witness -/
theorem not_consistent_of_table (d : Driver) (plan : Plan)
    (h : consistentB d.nlinks (runOpen d plan).1 = false) : ¬ Consistent d.nlinks (runOpen d plan).1 := by
  intro hc
  rw [(consistentB_iff _ _).mpr hc] at h
  exact Bool.noConfusion h

theorem not_consistent_of_b (n : Nat) (s : St) (h : consistentB n s = false) : ¬ Consistent n s := by
  intro hc
  rw [(consistentB_iff _ _).mpr hc] at h
  exact Bool.noConfusion h

/-! ## Invariants carried through a whole program -/

/-- every atom of the program (at any nesting depth) satisfies `A` -/
inductive AllAtoms (A : Atom → Prop) : Prog → Prop
  | nil : AllAtoms A []
  | atom {id : Nat} {a : Atom} {rest : Prog} : A a → AllAtoms A rest → AllAtoms A (.atom id a :: rest)
  | try_ {body : Prog} {cs : List Kind} {h : Prog} {ex : Exit} {rest : Prog} :
      AllAtoms A body → AllAtoms A h → AllAtoms A rest → AllAtoms A (.try_ body cs h ex :: rest)

theorem andThen_inv {I : St → Prop} {r : St × Res} {k : St → St × Res}
    (hr : I r.1) (hk : ∀ s, I s → I (k s).1) : I (andThen r k).1 := by
  unfold andThen
  split
  · exact hk _ hr
  · exact hr

theorem handleRes_inv {I : St → Prop} {cs : List Kind} {ex : Exit} {r1 : St × Res} {runH : St → St × Res}
    (hr : I r1.1) (hH : ∀ s, I s → I (runH s).1) : I (handleRes cs ex r1 runH).1 := by
  unfold handleRes
  split
  · split
    · simp only
      split
      · exact hH _ hr
      · exact hH _ hr
    · exact hr
  · exact hr

/-- an invariant preserved by every (allowed) atom is preserved by the whole program, whatever the plan,
    the fuel, the handlers taken -/
theorem exec_inv {P : Plan} {I : St → Prop} {A : Atom → Prop}
    (hatom : ∀ id a s, A a → I s → I (stepAtom P id a s).1) :
    ∀ (f : Nat) (p : Prog) (s : St), AllAtoms A p → I s → I (exec P f p s).1 := by
  intro f
  induction f with
  | zero => intro p s _ hs; simpa [exec] using hs
  | succ f ih =>
    intro p s hp hs
    cases hp with
    | nil => simpa [exec] using hs
    | atom ha hrest =>
      simp only [exec]
      exact andThen_inv (hatom _ _ _ ha hs) (fun s' hs' => ih _ s' hrest hs')
    | try_ hb hh hrest =>
      simp only [exec]
      exact andThen_inv (handleRes_inv (ih _ s hb hs) (fun s' hs' => ih _ s' hh hs')) (fun s' hs' => ih _ s' hrest hs')


/-! ## A closed instrument performs no device I/O -/

/-- atoms an arbitrary RPC method other than `open()` may consist of: anything but opening a link / setting the flag -/
def NotOpening (a : Atom) : Prop := (∀ t, a ≠ .tOpen t) ∧ a ≠ .superOpen

private theorem stepAtom_closed {P : Plan} {L : List Nat} (id : Nat) (a : Atom) (s : St) (ha : NotOpening a)
    (hs : s.instrOpen = false ∧ s.links = [] ∧ s.ioLog = L) :
    (stepAtom P id a s).1.instrOpen = false ∧ (stepAtom P id a s).1.links = [] ∧ (stepAtom P id a s).1.ioLog = L := by
  obtain ⟨h1, h2, h3⟩ := hs
  cases a with
  | pure => exact ⟨h1, h2, h3⟩
  | checkClosed => simp [stepAtom, h1, h2, h3]
  | checkOpen => simp [stepAtom, h1, h2, h3]
  | superOpen => exact absurd rfl ha.2
  | superClose => simp [stepAtom, h1, h2, h3]
  | tOpen t => exact absurd rfl (ha.1 t)
  | tClose t => simp [stepAtom, h1, h2, h3]
  | io =>
    unfold stepAtom
    simp only
    split <;> simp [logIO, h1, h2, h3]

/-- **closed_no_io.** Any program that does not itself open a link or set the flag (= every RPC method except
    `open()`), started on a fully closed instrument, under any fault plan: the device log does not grow, no link
    gets opened, the instrument stays closed. (Device I/O needs an open link: `QMI_Transport._check_is_open`.) -/
theorem closed_no_io (P : Plan) (f : Nat) (p : Prog) (s : St) (hp : AllAtoms NotOpening p)
    (hc : FullyClosed s) :
    FullyClosed (exec P f p s).1 ∧ (exec P f p s).1.ioLog = s.ioLog := by
  have := exec_inv (P := P) (I := fun s' => s'.instrOpen = false ∧ s'.links = [] ∧ s'.ioLog = s.ioLog)
    (A := NotOpening) (fun id a s' ha hs' => stepAtom_closed id a s' ha hs') f p s hp ⟨hc.1, hc.2, rfl⟩
  exact ⟨⟨this.1, this.2.1⟩, this.2.2⟩

/-- non-vacuity: a guarded method, an unguarded one and `close()` itself are such programs; on a closed
    instrument the first is refused, none reaches the device -/
example : AllAtoms NotOpening [.atom 1 .checkOpen, .atom 2 .io] :=
  .atom ⟨fun _ => by simp, by simp⟩ (.atom ⟨fun _ => by simp, by simp⟩ .nil)
example : (exec noFault 10 [.atom 1 .checkOpen, .atom 2 .io] init).2 = .raised .invalidOp := by decide
example : (exec noFault 10 [.atom 2 .io] init).1.ioLog = [] := by decide
/-- … whereas on an open instrument the same method does reach the device -/
example : (exec noFault 10 [.atom 1 .checkOpen, .atom 2 .io] ⟨true, [0], [], [], 0⟩).1.ioLog = [2] := by decide


/-- every RPC-method shape the static analysis distinguishes is such a program: on a closed instrument none of them
    performs device I/O or changes the state, whatever the fault plan -/
theorem method_closed_no_io (g : Guard) (P : Plan) (f : Nat) (s : St) (hc : FullyClosed s) :
    FullyClosed (exec P f g.prog s).1 ∧ (exec P f g.prog s).1.ioLog = s.ioLog := by
  apply closed_no_io P f g.prog s _ hc
  cases g
  · exact .atom ⟨fun _ => by simp, by simp⟩ (.atom ⟨fun _ => by simp, by simp⟩ .nil)
  · exact .atom ⟨fun _ => by simp, by simp⟩ .nil
  · exact .atom ⟨fun _ => by simp, by simp⟩ .nil

/-- a guarded method is refused by the instrument itself: the link object is not even asked -/
theorem guarded_method_refused (P : Plan) (f : Nat) (s : St) (hc : FullyClosed s) :
    (exec P (f + 2) Guard.guard.prog s).2 = .raised .invalidOp ∧
    (exec P (f + 2) Guard.guard.prog s).1.trace = 9001 :: s.trace := by
  simp [Guard.prog, exec, stepAtom, andThen, hc.1]

/-! ## Opening an open / closing a closed instrument is refused -/

/-- the first statement that is not pure is a state check that fails on an open instrument -/
def openGuarded (n : Nat) : Prog → Bool
  | .atom _ .pure :: r => openGuarded n r
  | .atom _ .checkClosed :: _ => true
  | .atom _ .superOpen :: _ => true
  | .atom _ (.tOpen t) :: _ => decide (t < n)
  | _ => false

/-- the first statement that is not pure is a state check that fails on a closed instrument -/
def closeGuarded : Prog → Bool
  | .atom _ .pure :: r => closeGuarded r
  | .atom _ .checkOpen :: _ => true
  | .atom _ .superClose :: _ => true
  | .atom _ (.tClose _) :: _ => true
  | _ => false

/-- same flag, links and device log -/
def SameCore (a b : St) : Prop := a.instrOpen = b.instrOpen ∧ a.links = b.links ∧ a.ioLog = b.ioLog

theorem open_refused_when_open (P : Plan) (n : Nat) : ∀ (p : Prog) (f : Nat) (s : St),
    openGuarded n p = true → FullyOpen n s → (exec P f p s).2 ≠ .outOfFuel →
    (exec P f p s).2 = .raised .invalidOp ∧ SameCore (exec P f p s).1 s := by
  intro p
  induction p with
  | nil => intro f s h; simp [openGuarded] at h
  | cons st rest ih =>
    intro f s hg ho hfuel
    cases f with
    | zero => simp [exec] at hfuel
    | succ f =>
      cases st with
      | try_ b cs h ex => simp [openGuarded] at hg
      | atom id a =>
        cases a with
        | pure =>
          simp only [openGuarded] at hg
          simp only [exec] at hfuel ⊢
          have e : stepAtom P id .pure s = ({ s with trace := id :: s.trace }, .ok) := rfl
          rw [e, andThen_ok rfl] at hfuel ⊢
          exact ih f _ hg ho hfuel
        | checkClosed =>
          have e : stepAtom P id .checkClosed s = ({ s with trace := id :: s.trace }, .raised .invalidOp) := by
            simp [stepAtom, ho.1]
          simp only [exec]
          rw [e, andThen_not_ok (by simp)]
          exact ⟨rfl, rfl, rfl, rfl⟩
        | superOpen =>
          have e : stepAtom P id .superOpen s = ({ s with trace := id :: s.trace }, .raised .invalidOp) := by
            simp [stepAtom, ho.1]
          simp only [exec]
          rw [e, andThen_not_ok (by simp)]
          exact ⟨rfl, rfl, rfl, rfl⟩
        | tOpen t =>
          simp only [openGuarded, decide_eq_true_eq] at hg
          have hc : s.links.contains t = true := ho.2 t hg
          have e : stepAtom P id (.tOpen t) s = ({ s with trace := id :: s.trace }, .raised .invalidOp) := by
            simp only [stepAtom, hc, if_true]
          simp only [exec]
          rw [e, andThen_not_ok (by simp)]
          exact ⟨rfl, rfl, rfl, rfl⟩
        | io => simp [openGuarded] at hg
        | checkOpen => simp [openGuarded] at hg
        | superClose => simp [openGuarded] at hg
        | tClose t => simp [openGuarded] at hg

theorem close_refused_when_closed (P : Plan) : ∀ (p : Prog) (f : Nat) (s : St),
    closeGuarded p = true → FullyClosed s → (exec P f p s).2 ≠ .outOfFuel →
    (exec P f p s).2 = .raised .invalidOp ∧ SameCore (exec P f p s).1 s := by
  intro p
  induction p with
  | nil => intro f s h; simp [closeGuarded] at h
  | cons st rest ih =>
    intro f s hg hcl hfuel
    cases f with
    | zero => simp [exec] at hfuel
    | succ f =>
      cases st with
      | try_ b cs h ex => simp [closeGuarded] at hg
      | atom id a =>
        cases a with
        | pure =>
          simp only [closeGuarded] at hg
          simp only [exec] at hfuel ⊢
          have e : stepAtom P id .pure s = ({ s with trace := id :: s.trace }, .ok) := rfl
          rw [e, andThen_ok rfl] at hfuel ⊢
          exact ih f _ hg hcl hfuel
        | checkOpen =>
          have e : stepAtom P id .checkOpen s = ({ s with trace := id :: s.trace }, .raised .invalidOp) := by
            simp [stepAtom, hcl.1]
          simp only [exec]
          rw [e, andThen_not_ok (by simp)]
          exact ⟨rfl, rfl, rfl, rfl⟩
        | superClose =>
          have e : stepAtom P id .superClose s = ({ s with trace := id :: s.trace }, .raised .invalidOp) := by
            simp [stepAtom, hcl.1]
          simp only [exec]
          rw [e, andThen_not_ok (by simp)]
          exact ⟨rfl, rfl, rfl, rfl⟩
        | tClose t =>
          have e : stepAtom P id (.tClose t) s = ({ s with trace := id :: s.trace }, .raised .invalidOp) := by
            simp [stepAtom, hcl.2]
          simp only [exec]
          rw [e, andThen_not_ok (by simp)]
          exact ⟨rfl, rfl, rfl, rfl⟩
        | io => simp [closeGuarded] at hg
        | checkClosed => simp [closeGuarded] at hg
        | superOpen => simp [closeGuarded] at hg
        | tOpen t => simp [closeGuarded] at hg

/-- **double_open_close_refused.** `open()` on a fully open instrument and `close()` on a fully closed one raise
    the invalid-operation error and change neither the flag, nor a link, nor the device log. -/
theorem double_open_close_refused (P : Plan) (n : Nat) (po pc : Prog) (f : Nat) (s : St)
    (hgo : openGuarded n po = true) (hgc : closeGuarded pc = true) :
    (FullyOpen n s → (exec P f po s).2 ≠ .outOfFuel →
        (exec P f po s).2 = .raised .invalidOp ∧ SameCore (exec P f po s).1 s) ∧
    (FullyClosed s → (exec P f pc s).2 ≠ .outOfFuel →
        (exec P f pc s).2 = .raised .invalidOp ∧ SameCore (exec P f pc s).1 s) :=
  ⟨open_refused_when_open P n po f s hgo, close_refused_when_closed P pc f s hgc⟩

/-- non-vacuity: an open() without an explicit check (the transport refuses the second open) and a close -/
example : openGuarded 1 [.atom 1 .pure, .atom 2 (.tOpen 0), .atom 3 .io, .atom 4 .superOpen] = true := by decide
example : closeGuarded [.atom 1 .pure, .atom 2 .superClose, .atom 3 (.tClose 0)] = true := by decide
example : FullyOpen 1 ⟨true, [0], [], [], 0⟩ := ⟨rfl, fun t ht => by
  have : t = 0 := by omega
  subst this; decide⟩


/-! ## Why the sound drivers are sound: a syntactic discipline that implies consistency

`wfOpen` describes the shape shared by the sound single-link drivers (K10CR1, DC205, APSIN, TC-Lab, FlexDDS, DLC …):

    (pure | io | checkClosed)*            -- nothing is held yet: a failure leaves the instrument fully closed
    tOpen 0
    ( pure | checkClosed
    | try (pure | io)* except <all kinds>: pure* ; tClose 0 ; pure* ; raise )*      -- the link is held, the flag not yet set
    superOpen
    (pure | io | checkOpen)*              -- flag set, link held: a failure leaves the instrument fully open
-/

def allPure : Prog → Bool
  | [] => true
  | .atom _ .pure :: r => allPure r
  | _ => false

def flatPI : Prog → Bool
  | [] => true
  | .atom _ .pure :: r => flatPI r
  | .atom _ .io :: r => flatPI r
  | _ => false

def catchesAll (cs : List Kind) : Bool := allKinds.all cs.contains

def handlerOK : Prog → Bool
  | .atom _ .pure :: r => handlerOK r
  | .atom _ (.tClose 0) :: r => allPure r
  | _ => false

def wfPost : Prog → Bool
  | [] => true
  | .atom _ .pure :: r => wfPost r
  | .atom _ .io :: r => wfPost r
  | .atom _ .checkOpen :: r => wfPost r
  | _ => false

def wfMid : Prog → Bool
  | .atom _ .pure :: r => wfMid r
  | .atom _ .checkClosed :: r => wfMid r
  | .try_ body cs h ex :: r => flatPI body && catchesAll cs && handlerOK h && ex != .swallow && wfMid r
  | .atom _ .superOpen :: r => wfPost r
  | _ => false

def wfOpen : Prog → Bool
  | .atom _ .pure :: r => wfOpen r
  | .atom _ .io :: r => wfOpen r
  | .atom _ .checkClosed :: r => wfOpen r
  | .atom _ (.tOpen 0) :: r => wfMid r
  | _ => false

private theorem catchesAll_contains {cs : List Kind} (h : catchesAll cs = true) (κ : Kind) : cs.contains κ = true := by
  unfold catchesAll at h
  rw [List.all_eq_true] at h
  exact h κ (mem_allKinds κ)

private theorem consistent_closed {s : St} (h1 : s.instrOpen = false) (h2 : s.links = []) : Consistent 1 s := by
  refine ⟨fun h => by rw [h1] at h; exact Bool.noConfusion h, fun _ t => ?_⟩
  simp [linkOpen, h2]

private theorem consistent_open1 {s : St} (h1 : s.instrOpen = true) (h2 : s.links = [0]) : Consistent 1 s := by
  refine ⟨fun _ t ht => ?_, fun h => by rw [h1] at h; exact Bool.noConfusion h⟩
  have : t = 0 := by omega
  subst this
  simp [linkOpen, h2]

/-- the two legal outcomes of `open()` on a single-link driver: fully closed, or fully open -/
def Settled (s : St) : Prop :=
  (s.instrOpen = false ∧ s.links = []) ∨ (s.instrOpen = true ∧ s.links = [0])

theorem Settled.consistent {s : St} (h : Settled s) : Consistent 1 s := by
  rcases h with ⟨h1, h2⟩ | ⟨h1, h2⟩
  · exact consistent_closed h1 h2
  · exact consistent_open1 h1 h2

private theorem flatPI_allAtoms : ∀ b : Prog, flatPI b = true → AllAtoms (fun a => a = .pure ∨ a = .io) b := by
  intro b
  induction b with
  | nil => intro _; exact .nil
  | cons st rest ih =>
    intro h
    cases st with
    | try_ b cs hd ex => simp [flatPI] at h
    | atom id a =>
      cases a <;> simp [flatPI] at h
      · exact .atom (Or.inl rfl) (ih h)
      · exact .atom (Or.inr rfl) (ih h)

private theorem wfPost_allAtoms : ∀ b : Prog, wfPost b = true →
    AllAtoms (fun a => a = .pure ∨ a = .io ∨ a = .checkOpen) b := by
  intro b
  induction b with
  | nil => intro _; exact .nil
  | cons st rest ih =>
    intro h
    cases st with
    | try_ b cs hd ex => simp [wfPost] at h
    | atom id a =>
      cases a <;> simp [wfPost] at h
      · exact .atom (Or.inl rfl) (ih h)
      · exact .atom (Or.inr (Or.inl rfl)) (ih h)
      · exact .atom (Or.inr (Or.inr rfl)) (ih h)

/-- pure / io / checkOpen steps never touch the flag or a link -/
private theorem stepAtom_keeps {P : Plan} (id : Nat) (a : Atom) (s : St) (b : Bool) (l : List Nat)
    (ha : a = .pure ∨ a = .io ∨ a = .checkOpen) (hs : s.instrOpen = b ∧ s.links = l) :
    (stepAtom P id a s).1.instrOpen = b ∧ (stepAtom P id a s).1.links = l := by
  rcases ha with rfl | rfl | rfl
  · exact hs
  · unfold stepAtom
    simp only
    split <;> exact hs
  · unfold stepAtom
    simp only
    split <;> exact hs

private theorem flat_run (P : Plan) (f : Nat) (b : Prog) (s : St) (hb : flatPI b = true) :
    (exec P f b s).1.instrOpen = s.instrOpen ∧ (exec P f b s).1.links = s.links :=
  exec_inv (P := P) (I := fun s' => s'.instrOpen = s.instrOpen ∧ s'.links = s.links)
    (A := fun a => a = .pure ∨ a = .io)
    (fun id a s' ha hs' => stepAtom_keeps id a s' _ _ (by rcases ha with h | h <;> simp [h]) hs')
    f b s (flatPI_allAtoms b hb) ⟨rfl, rfl⟩

private theorem post_run (P : Plan) (f : Nat) (p : Prog) (s : St) (hp : wfPost p = true)
    (h1 : s.instrOpen = true) (h2 : s.links = [0]) : Settled (exec P f p s).1 := by
  have := exec_inv (P := P) (I := fun s' => s'.instrOpen = true ∧ s'.links = [0])
    (A := fun a => a = .pure ∨ a = .io ∨ a = .checkOpen)
    (fun id a s' ha hs' => stepAtom_keeps id a s' _ _ ha hs') f p s (wfPost_allAtoms p hp) ⟨h1, h2⟩
  exact Or.inr ⟨this.1, this.2⟩

private theorem allPure_run (P : Plan) : ∀ (r : Prog) (f : Nat) (s : St), allPure r = true →
    ((exec P f r s).2 = .ok ∨ (exec P f r s).2 = .outOfFuel) ∧
    (exec P f r s).1.instrOpen = s.instrOpen ∧ (exec P f r s).1.links = s.links := by
  intro r
  induction r with
  | nil => intro f s _; cases f <;> simp [exec]
  | cons st rest ih =>
    intro f s h
    cases f with
    | zero => simp [exec]
    | succ f =>
      cases st with
      | try_ b cs hd ex => simp [allPure] at h
      | atom id a =>
        cases a <;> simp [allPure] at h
        simp only [exec]
        have e : stepAtom P id .pure s = ({ s with trace := id :: s.trace }, .ok) := rfl
        rw [e, andThen_ok rfl]
        exact ih f _ h

/-- the cleanup handler, run while the link is held and the flag not set, releases the link — also when the
    transport's `close()` itself fails (the link then counts as released and the new exception propagates) -/
private theorem handler_run (P : Plan) : ∀ (h : Prog) (f : Nat) (s : St), handlerOK h = true →
    s.instrOpen = false → s.links = [0] →
    (exec P f h s).2 = .outOfFuel ∨
    ((exec P f h s).2 = .ok ∧ (exec P f h s).1.instrOpen = false ∧ (exec P f h s).1.links = []) ∨
    (∃ κ', (exec P f h s).2 = .raised κ' ∧ (exec P f h s).1.instrOpen = false ∧ (exec P f h s).1.links = []) := by
  intro h
  induction h with
  | nil => intro f s hh; simp [handlerOK] at hh
  | cons st rest ih =>
    intro f s hh h1 h2
    cases f with
    | zero => simp [exec]
    | succ f =>
      cases st with
      | try_ b cs hd ex => simp [handlerOK] at hh
      | atom id a =>
        cases a with
        | pure =>
          simp only [handlerOK] at hh
          simp only [exec]
          have e : stepAtom P id .pure s = ({ s with trace := id :: s.trace }, .ok) := rfl
          rw [e, andThen_ok rfl]
          exact ih f _ hh h1 h2
        | tClose t =>
          cases t with
          | succ t => simp [handlerOK] at hh
          | zero =>
            simp only [handlerOK] at hh
            simp only [exec]
            have hc : s.links.contains 0 = true := by rw [h2]; rfl
            have hfil : s.links.filter (· != 0) = [] := by rw [h2]; rfl
            cases hf : fault P s with
            | some κ' =>
              have e : stepAtom P id (.tClose 0) s =
                  ({ s with trace := id :: s.trace, cnt := s.cnt + 1, links := s.links.filter (· != 0),
                            ioLog := id :: s.ioLog }, .raised κ') := by
                unfold stepAtom
                simp only [fault_trace, hf, hc, if_true]
              rw [e, andThen_not_ok (by simp)]
              exact Or.inr (Or.inr ⟨κ', rfl, h1, hfil⟩)
            | none =>
              have e : stepAtom P id (.tClose 0) s =
                  ({ s with trace := id :: s.trace, cnt := s.cnt + 1, links := s.links.filter (· != 0),
                            ioLog := id :: s.ioLog }, .ok) := by
                unfold stepAtom
                simp only [fault_trace, hf, hc, if_true]
              rw [e, andThen_ok rfl]
              have := allPure_run P rest f
                ({ s with trace := id :: s.trace, cnt := s.cnt + 1, links := s.links.filter (· != 0), ioLog := id :: s.ioLog } : St) hh
              rcases this with ⟨hr | hr, hfl, hl⟩
              · exact Or.inr (Or.inl ⟨hr, by rw [hfl]; exact h1, by rw [hl]; exact hfil⟩)
              · exact Or.inl hr
        | io => simp [handlerOK] at hh
        | checkClosed => simp [handlerOK] at hh
        | checkOpen => simp [handlerOK] at hh
        | superOpen => simp [handlerOK] at hh
        | superClose => simp [handlerOK] at hh
        | tOpen t => simp [handlerOK] at hh

private theorem mid_run (P : Plan) : ∀ (p : Prog) (f : Nat) (s : St), wfMid p = true →
    s.instrOpen = false → s.links = [0] → (exec P f p s).2 ≠ .outOfFuel → Settled (exec P f p s).1 := by
  intro p
  induction p with
  | nil => intro f s h; simp [wfMid] at h
  | cons st rest ih =>
    intro f s hw h1 h2 hfuel
    cases f with
    | zero => simp [exec] at hfuel
    | succ f =>
      cases st with
      | atom id a =>
        cases a with
        | pure =>
          simp only [wfMid] at hw
          simp only [exec] at hfuel ⊢
          have e : stepAtom P id .pure s = ({ s with trace := id :: s.trace }, .ok) := rfl
          rw [e, andThen_ok rfl] at hfuel ⊢
          exact ih f _ hw h1 h2 hfuel
        | checkClosed =>
          simp only [wfMid] at hw
          simp only [exec] at hfuel ⊢
          have e : stepAtom P id .checkClosed s = ({ s with trace := id :: s.trace }, .ok) := by
            simp [stepAtom, h1]
          rw [e, andThen_ok rfl] at hfuel ⊢
          exact ih f _ hw h1 h2 hfuel
        | superOpen =>
          simp only [wfMid] at hw
          simp only [exec]
          have e : stepAtom P id .superOpen s = ({ s with trace := id :: s.trace, instrOpen := true }, .ok) := by
            simp [stepAtom, h1]
          rw [e, andThen_ok rfl]
          exact post_run P f rest _ hw rfl h2
        | io => simp [wfMid] at hw
        | checkOpen => simp [wfMid] at hw
        | superClose => simp [wfMid] at hw
        | tOpen t => simp [wfMid] at hw
        | tClose t => simp [wfMid] at hw
      | try_ body cs hd ex =>
        simp only [wfMid, Bool.and_eq_true, bne_iff_ne, ne_eq] at hw
        obtain ⟨⟨⟨⟨hflat, hcatch⟩, hhd⟩, hex⟩, hrest⟩ := hw
        simp only [exec] at hfuel ⊢
        have hb := flat_run P f body s hflat
        -- case analysis on how the body ended
        cases hres : (exec P f body s).2 with
        | ok =>
          have e : handleRes cs ex (exec P f body s) (exec P f hd) = exec P f body s := by
            unfold handleRes; rw [hres]
          rw [e, andThen_ok hres] at hfuel ⊢
          exact ih f _ hrest (hb.1.trans h1) (hb.2.trans h2) hfuel
        | outOfFuel =>
          have e : handleRes cs ex (exec P f body s) (exec P f hd) = exec P f body s := by
            unfold handleRes; rw [hres]
          rw [e, andThen_not_ok (by rw [hres]; simp)] at hfuel
          exact absurd hres hfuel
        | raised κ =>
          have hc := catchesAll_contains hcatch κ
          have hh := handler_run P hd f (exec P f body s).1 hhd (hb.1.trans h1) (hb.2.trans h2)
          rcases hh with hoof | ⟨hok, hfl, hln⟩ | ⟨κ', hr2, hfl, hln⟩
          · have e : handleRes cs ex (exec P f body s) (exec P f hd) = exec P f hd (exec P f body s).1 := by
              unfold handleRes; simp only [hres, hc, if_true]; rw [hoof]
            rw [e, andThen_not_ok (by rw [hoof]; simp)] at hfuel
            exact absurd hoof hfuel
          · have e : handleRes cs ex (exec P f body s) (exec P f hd) =
                ((exec P f hd (exec P f body s).1).1, ex.apply κ) := by
              unfold handleRes; simp only [hres, hc, if_true]; rw [hok]
            have hne : ex.apply κ ≠ .ok := by
              cases ex <;> simp [Exit.apply] at hex ⊢
            rw [e, andThen_not_ok hne]
            exact Or.inl ⟨hfl, hln⟩
          · have e : handleRes cs ex (exec P f body s) (exec P f hd) = exec P f hd (exec P f body s).1 := by
              unfold handleRes; simp only [hres, hc, if_true]; rw [hr2]
            rw [e, andThen_not_ok (by rw [hr2]; simp)]
            exact Or.inl ⟨hfl, hln⟩

/-- a well-formed `open()` ends fully closed or fully open — under every fault plan -/
theorem settled_of_wf (P : Plan) : ∀ (p : Prog) (f : Nat) (s : St), wfOpen p = true →
    FullyClosed s → (exec P f p s).2 ≠ .outOfFuel → Settled (exec P f p s).1 := by
  intro p
  induction p with
  | nil => intro f s h; simp [wfOpen] at h
  | cons st rest ih =>
    intro f s hw hc hfuel
    obtain ⟨h1, h2⟩ := hc
    cases f with
    | zero => simp [exec] at hfuel
    | succ f =>
      cases st with
      | try_ b cs hd ex => simp [wfOpen] at hw
      | atom id a =>
        cases a with
        | pure =>
          simp only [wfOpen] at hw
          simp only [exec] at hfuel ⊢
          have e : stepAtom P id .pure s = ({ s with trace := id :: s.trace }, .ok) := rfl
          rw [e, andThen_ok rfl] at hfuel ⊢
          exact ih f _ hw ⟨h1, h2⟩ hfuel
        | checkClosed =>
          simp only [wfOpen] at hw
          simp only [exec] at hfuel ⊢
          have e : stepAtom P id .checkClosed s = ({ s with trace := id :: s.trace }, .ok) := by
            simp [stepAtom, h1]
          rw [e, andThen_ok rfl] at hfuel ⊢
          exact ih f _ hw ⟨h1, h2⟩ hfuel
        | io =>
          simp only [wfOpen] at hw
          simp only [exec] at hfuel ⊢
          have hk := stepAtom_keeps (P := P) id .io s _ _ (Or.inr (Or.inl rfl)) ⟨h1, h2⟩
          by_cases hok : (stepAtom P id .io s).2 = .ok
          · rw [andThen_ok hok] at hfuel ⊢
            exact ih f _ hw ⟨hk.1, hk.2⟩ hfuel
          · rw [andThen_not_ok hok]
            exact Or.inl ⟨hk.1, hk.2⟩
        | tOpen t =>
          cases t with
          | succ t => simp [wfOpen] at hw
          | zero =>
            simp only [wfOpen] at hw
            simp only [exec] at hfuel ⊢
            have hc : s.links.contains 0 = false := by rw [h2]; rfl
            cases hf : fault P s with
            | some κ =>
              have e : stepAtom P id (.tOpen 0) s = ({ s with trace := id :: s.trace, cnt := s.cnt + 1 }, .raised κ) := by
                unfold stepAtom
                simp only [fault_trace, hf, hc, Bool.false_eq_true, if_false]
              rw [e, andThen_not_ok (by simp)]
              exact Or.inl ⟨h1, h2⟩
            | none =>
              have e : stepAtom P id (.tOpen 0) s =
                  ({ s with trace := id :: s.trace, cnt := s.cnt + 1, links := 0 :: s.links, ioLog := id :: s.ioLog }, .ok) := by
                unfold stepAtom
                simp only [fault_trace, hf, hc, Bool.false_eq_true, if_false]
              rw [e, andThen_ok rfl] at hfuel ⊢
              exact mid_run P rest f _ hw h1 (by simp [h2]) hfuel
        | checkOpen => simp [wfOpen] at hw
        | superOpen => simp [wfOpen] at hw
        | superClose => simp [wfOpen] at hw
        | tClose t => simp [wfOpen] at hw

/-- **consistent_of_wf.** A driver whose `open()` follows the discipline above leaves the instrument consistent under
    *every* fault plan (any fault point, any exception kind), started from a fully closed instrument. -/
theorem consistent_of_wf (P : Plan) (p : Prog) (f : Nat) (s : St) (hw : wfOpen p = true)
    (hc : FullyClosed s) (hfuel : (exec P f p s).2 ≠ .outOfFuel) : Consistent 1 (exec P f p s).1 :=
  (settled_of_wf P p f s hw hc hfuel).consistent

/-- non-vacuity: the K10CR1-shaped program is well-formed; the historical shapes of `Cobolt_Laser_06_01.open()` (before
    fix 6a9048d) and `TT_TGF_3000_4000_Series.open()` (before fix 35a136e) are not. Constants, not the source. -/
example : wfOpen [.atom 1 .pure, .atom 2 .checkClosed, .atom 3 (.tOpen 0),
    .try_ [.atom 5 .pure, .atom 6 .io, .atom 7 .io] allKinds [.atom 8 (.tClose 0)] .reraise, .atom 10 .superOpen] = true := by decide
example : wfOpen [.atom 1 .pure, .atom 2 (.tOpen 0), .atom 3 .io, .atom 4 .superOpen] = false := by decide
example : wfOpen [.atom 1 .pure, .atom 2 (.tOpen 0), .try_ [.atom 4 .io] [.os] [.atom 5 (.tClose 0)] .reraise,
    .atom 7 .superOpen] = false := by decide


/-! ## The future depends only on the flag and the links -/

/-- same flag, same open links -/
def CoreEq (a b : St) : Prop := a.instrOpen = b.instrOpen ∧ a.links = b.links

private theorem stepAtom_congr (id : Nat) (x : Atom) {a b : St} (h : CoreEq a b) :
    (stepAtom noFault id x a).2 = (stepAtom noFault id x b).2 ∧ CoreEq (stepAtom noFault id x a).1 (stepAtom noFault id x b).1 := by
  obtain ⟨fa, la, ia, ta, ca⟩ := a
  obtain ⟨fb, lb, ib, tb, cb⟩ := b
  obtain ⟨h1, h2⟩ := h
  simp only at h1 h2
  subst h1 h2
  cases x with
  | pure => exact ⟨rfl, rfl, rfl⟩
  | io => exact ⟨rfl, rfl, rfl⟩
  | checkClosed => cases fa <;> exact ⟨rfl, rfl, rfl⟩
  | checkOpen => cases fa <;> exact ⟨rfl, rfl, rfl⟩
  | superOpen => cases fa <;> exact ⟨rfl, rfl, rfl⟩
  | superClose => cases fa <;> exact ⟨rfl, rfl, rfl⟩
  | tOpen t =>
    simp only [stepAtom, fault, CoreEq]
    cases la.contains t <;> exact ⟨rfl, rfl, rfl⟩
  | tClose t =>
    simp only [stepAtom, CoreEq]
    cases la.contains t <;> exact ⟨rfl, rfl, rfl⟩

private theorem andThen_congr {r r' : St × Res} {k k' : St → St × Res} (h2 : r.2 = r'.2) (h1 : CoreEq r.1 r'.1)
    (hk : ∀ a b, CoreEq a b → (k a).2 = (k' b).2 ∧ CoreEq (k a).1 (k' b).1) :
    (andThen r k).2 = (andThen r' k').2 ∧ CoreEq (andThen r k).1 (andThen r' k').1 := by
  unfold andThen
  rw [← h2]
  split
  · exact hk _ _ h1
  · exact ⟨h2, h1⟩

private theorem handleRes_congr {cs : List Kind} {ex : Exit} {r r' : St × Res} {k k' : St → St × Res}
    (h2 : r.2 = r'.2) (h1 : CoreEq r.1 r'.1)
    (hk : ∀ a b, CoreEq a b → (k a).2 = (k' b).2 ∧ CoreEq (k a).1 (k' b).1) :
    (handleRes cs ex r k).2 = (handleRes cs ex r' k').2 ∧ CoreEq (handleRes cs ex r k).1 (handleRes cs ex r' k').1 := by
  unfold handleRes
  rw [← h2]
  split
  · split
    · have := hk _ _ h1
      simp only
      rw [← this.1]
      split
      · exact ⟨rfl, this.2⟩
      · exact ⟨this.1, this.2⟩
    · exact ⟨h2, h1⟩
  · exact ⟨h2, h1⟩

/-- fault-free runs from two states with the same flag and links end alike -/
theorem exec_congr : ∀ (f : Nat) (p : Prog) (a b : St), CoreEq a b →
    (exec noFault f p a).2 = (exec noFault f p b).2 ∧ CoreEq (exec noFault f p a).1 (exec noFault f p b).1 := by
  intro f
  induction f with
  | zero => intro p a b h; exact ⟨rfl, h⟩
  | succ f ih =>
    intro p a b h
    cases p with
    | nil => exact ⟨rfl, h⟩
    | cons st rest =>
      cases st with
      | atom id x =>
        simp only [exec]
        have := stepAtom_congr id x h
        exact andThen_congr this.1 this.2 (fun a b hab => ih rest a b hab)
      | try_ body cs hd ex =>
        simp only [exec]
        have hb := ih body a b h
        exact andThen_congr (handleRes_congr hb.1 hb.2 (fun a b hab => ih hd a b hab)).1
          (handleRes_congr hb.1 hb.2 (fun a b hab => ih hd a b hab)).2 (fun a b hab => ih rest a b hab)

/-- **retry_possible.** If `open()` failed (under any plan) but left the instrument consistent and marked closed,
    then no link is held and a new `open()` behaves exactly like `open()` on a fresh instrument: same result,
    same final flag and links. (For a defective driver the premise fails: the link is still held and the
    retry is refused — see the historical example below; the check states `bad_<Driver>` should one reappear.) -/
theorem retry_possible (n : Nat) (P : Plan) (f : Nat) (p : Prog)
    (hcons : Consistent n (exec P f p init).1) (hclosed : (exec P f p init).1.instrOpen = false) :
    FullyClosed (exec P f p init).1 ∧
    (exec noFault f p (exec P f p init).1).2 = (exec noFault f p init).2 ∧
    CoreEq (exec noFault f p (exec P f p init).1).1 (exec noFault f p init).1 := by
  have hl : (exec P f p init).1.links = [] := links_nil_of_no_link (fun t => hcons.2 hclosed t)
  have hc : CoreEq (exec P f p init).1 init := ⟨hclosed, hl⟩
  exact ⟨⟨hclosed, hl⟩, exec_congr f p _ _ hc⟩

/-- non-vacuity: K10CR1-shaped program, 2nd fault point times out: consistent and closed; the retry succeeds -/
example :
    let p : Prog := [.atom 1 .checkClosed, .atom 2 (.tOpen 0),
      .try_ [.atom 4 .io, .atom 5 .io] allKinds [.atom 6 (.tClose 0)] .reraise, .atom 8 .superOpen]
    let r := exec (single 2 .timeout) 50 p init
    r.2 = .raised .timeout ∧ consistentB 1 r.1 = true ∧ r.1.instrOpen = false ∧ (exec noFault 50 p r.1).2 = .ok := by decide
/-- historical example (shape of `Cobolt_Laser_06_01.open()` before fix 6a9048d; a constant, not the source):
    the failed open leaves the link held, the retry is refused for ever -/
example :
    let p : Prog := [.atom 1 .pure, .atom 2 (.tOpen 0), .atom 3 .io, .atom 4 .superOpen]
    let r := exec (single 1 .timeout) 50 p init
    consistentB 1 r.1 = false ∧ (exec noFault 50 p r.1).2 = .raised .invalidOp := by decide

/-! ## close() after open() -/

/-- after `superClose`: pure*, `tClose 0`, pure* -/
def wfCloseB2 : Prog → Bool
  | .atom _ .pure :: r => wfCloseB2 r
  | .atom _ (.tClose 0) :: r => allPure r
  | _ => false

/-- after `tClose 0`: pure*, `superClose`, pure* -/
def wfCloseB1 : Prog → Bool
  | .atom _ .pure :: r => wfCloseB1 r
  | .atom _ .superClose :: r => allPure r
  | _ => false

/-- `close()` of a single-link driver: (pure | io | checkOpen)* then `superClose` and `tClose 0` in either order -/
def wfClose : Prog → Bool
  | .atom _ .pure :: r => wfClose r
  | .atom _ .io :: r => wfClose r
  | .atom _ .checkOpen :: r => wfClose r
  | .atom _ .superClose :: r => wfCloseB2 r
  | .atom _ (.tClose 0) :: r => wfCloseB1 r
  | _ => false

private theorem closeB2_run : ∀ (c : Prog) (f : Nat) (s : St), wfCloseB2 c = true →
    s.instrOpen = false → s.links = [0] → (exec noFault f c s).2 ≠ .outOfFuel →
    (exec noFault f c s).2 = .ok ∧ FullyClosed (exec noFault f c s).1 := by
  intro c
  induction c with
  | nil => intro f s h; simp [wfCloseB2] at h
  | cons st rest ih =>
    intro f s hw h1 h2 hfuel
    cases f with
    | zero => simp [exec] at hfuel
    | succ f =>
      cases st with
      | try_ b cs hd ex => simp [wfCloseB2] at hw
      | atom id a =>
        cases a with
        | pure =>
          simp only [wfCloseB2] at hw
          simp only [exec] at hfuel ⊢
          have e : stepAtom noFault id .pure s = ({ s with trace := id :: s.trace }, .ok) := rfl
          rw [e, andThen_ok rfl] at hfuel ⊢
          exact ih f _ hw h1 h2 hfuel
        | tClose t =>
          cases t with
          | succ t => simp [wfCloseB2] at hw
          | zero =>
            simp only [wfCloseB2] at hw
            simp only [exec] at hfuel ⊢
            have e : stepAtom noFault id (.tClose 0) s =
                ({ s with trace := id :: s.trace, cnt := s.cnt + 1, links := [], ioLog := id :: s.ioLog }, .ok) := by
              simp [stepAtom, h2, fault, noFault]
            rw [e, andThen_ok rfl] at hfuel ⊢
            have := allPure_run noFault rest f
              ({ s with trace := id :: s.trace, cnt := s.cnt + 1, links := [], ioLog := id :: s.ioLog } : St) hw
            rcases this with ⟨hr | hr, hf, hl⟩
            · exact ⟨hr, by rw [hf]; exact h1, by rw [hl]⟩
            · exact absurd hr hfuel
        | io => simp [wfCloseB2] at hw
        | checkClosed => simp [wfCloseB2] at hw
        | checkOpen => simp [wfCloseB2] at hw
        | superOpen => simp [wfCloseB2] at hw
        | superClose => simp [wfCloseB2] at hw
        | tOpen t => simp [wfCloseB2] at hw

private theorem closeB1_run : ∀ (c : Prog) (f : Nat) (s : St), wfCloseB1 c = true →
    s.instrOpen = true → s.links = [] → (exec noFault f c s).2 ≠ .outOfFuel →
    (exec noFault f c s).2 = .ok ∧ FullyClosed (exec noFault f c s).1 := by
  intro c
  induction c with
  | nil => intro f s h; simp [wfCloseB1] at h
  | cons st rest ih =>
    intro f s hw h1 h2 hfuel
    cases f with
    | zero => simp [exec] at hfuel
    | succ f =>
      cases st with
      | try_ b cs hd ex => simp [wfCloseB1] at hw
      | atom id a =>
        cases a with
        | pure =>
          simp only [wfCloseB1] at hw
          simp only [exec] at hfuel ⊢
          have e : stepAtom noFault id .pure s = ({ s with trace := id :: s.trace }, .ok) := rfl
          rw [e, andThen_ok rfl] at hfuel ⊢
          exact ih f _ hw h1 h2 hfuel
        | superClose =>
          simp only [wfCloseB1] at hw
          simp only [exec] at hfuel ⊢
          have e : stepAtom noFault id .superClose s =
              ({ s with trace := id :: s.trace, instrOpen := false }, .ok) := by
            simp [stepAtom, h1]
          rw [e, andThen_ok rfl] at hfuel ⊢
          have := allPure_run noFault rest f ({ s with trace := id :: s.trace, instrOpen := false } : St) hw
          rcases this with ⟨hr | hr, hf, hl⟩
          · exact ⟨hr, by rw [hf], by rw [hl]; exact h2⟩
          · exact absurd hr hfuel
        | io => simp [wfCloseB1] at hw
        | checkClosed => simp [wfCloseB1] at hw
        | checkOpen => simp [wfCloseB1] at hw
        | superOpen => simp [wfCloseB1] at hw
        | tClose t => simp [wfCloseB1] at hw
        | tOpen t => simp [wfCloseB1] at hw

theorem close_of_fully_open : ∀ (c : Prog) (f : Nat) (s : St), wfClose c = true →
    s.instrOpen = true → s.links = [0] → (exec noFault f c s).2 ≠ .outOfFuel →
    (exec noFault f c s).2 = .ok ∧ FullyClosed (exec noFault f c s).1 := by
  intro c
  induction c with
  | nil => intro f s h; simp [wfClose] at h
  | cons st rest ih =>
    intro f s hw h1 h2 hfuel
    cases f with
    | zero => simp [exec] at hfuel
    | succ f =>
      cases st with
      | try_ b cs hd ex => simp [wfClose] at hw
      | atom id a =>
        cases a with
        | pure =>
          simp only [wfClose] at hw
          simp only [exec] at hfuel ⊢
          have e : stepAtom noFault id .pure s = ({ s with trace := id :: s.trace }, .ok) := rfl
          rw [e, andThen_ok rfl] at hfuel ⊢
          exact ih f _ hw h1 h2 hfuel
        | io =>
          simp only [wfClose] at hw
          simp only [exec] at hfuel ⊢
          have e : stepAtom noFault id .io s =
              ({ s with trace := id :: s.trace, cnt := s.cnt + 1, ioLog := logIO id { s with trace := id :: s.trace } }, .ok) := rfl
          rw [e, andThen_ok rfl] at hfuel ⊢
          exact ih f _ hw h1 h2 hfuel
        | checkOpen =>
          simp only [wfClose] at hw
          simp only [exec] at hfuel ⊢
          have e : stepAtom noFault id .checkOpen s = ({ s with trace := id :: s.trace }, .ok) := by
            simp [stepAtom, h1]
          rw [e, andThen_ok rfl] at hfuel ⊢
          exact ih f _ hw h1 h2 hfuel
        | superClose =>
          simp only [wfClose] at hw
          simp only [exec] at hfuel ⊢
          have e : stepAtom noFault id .superClose s = ({ s with trace := id :: s.trace, instrOpen := false }, .ok) := by
            simp [stepAtom, h1]
          rw [e, andThen_ok rfl] at hfuel ⊢
          exact closeB2_run rest f _ hw rfl h2 hfuel
        | tClose t =>
          cases t with
          | succ t => simp [wfClose] at hw
          | zero =>
            simp only [wfClose] at hw
            simp only [exec] at hfuel ⊢
            have e : stepAtom noFault id (.tClose 0) s =
                ({ s with trace := id :: s.trace, cnt := s.cnt + 1, links := [], ioLog := id :: s.ioLog }, .ok) := by
              simp [stepAtom, h2, fault, noFault]
            rw [e, andThen_ok rfl] at hfuel ⊢
            exact closeB1_run rest f _ hw h1 rfl hfuel
        | checkClosed => simp [wfClose] at hw
        | superOpen => simp [wfClose] at hw
        | tOpen t => simp [wfClose] at hw

/-- **close_after_open.** For a driver whose `open()` and `close()` follow the two disciplines: whatever fault hit
    `open()`, if the instrument ended marked open (open() succeeded, or failed after the flag was set) then the link
    is held exactly once and `close()` succeeds and leaves the instrument fully closed. -/
theorem close_after_open (P : Plan) (po pc : Prog) (f f' : Nat) (s : St)
    (hwo : wfOpen po = true) (hwc : wfClose pc = true) (hs : FullyClosed s)
    (hfuel : (exec P f po s).2 ≠ .outOfFuel) (hopen : (exec P f po s).1.instrOpen = true)
    (hfuel' : (exec noFault f' pc (exec P f po s).1).2 ≠ .outOfFuel) :
    (exec P f po s).1.links = [0] ∧
    (exec noFault f' pc (exec P f po s).1).2 = .ok ∧ FullyClosed (exec noFault f' pc (exec P f po s).1).1 := by
  rcases settled_of_wf P po f s hwo hs hfuel with ⟨h1, _⟩ | ⟨h1, h2⟩
  · rw [h1] at hopen; exact Bool.noConfusion hopen
  · exact ⟨h2, close_of_fully_open pc f' _ hwc h1 h2 hfuel'⟩

/-- non-vacuity: K10CR1 open + close, fault-free and with a fault after the flag is set (AG-UC8 shape) -/
example : wfClose [.atom 1 .pure, .atom 2 .superClose, .atom 3 (.tClose 0)] = true := by decide
example : wfClose [.atom 1 .checkOpen, .atom 2 .pure, .atom 3 (.tClose 0), .atom 4 .superClose] = true := by decide
example :
    let po : Prog := [.atom 1 .pure, .atom 2 (.tOpen 0), .atom 3 .superOpen, .atom 4 .io]
    wfOpen po = true ∧ (exec (single 1 .instr) 50 po init).2 = .raised .instr ∧
      (exec (single 1 .instr) 50 po init).1.instrOpen = true := by decide

/-! ## The general discipline: a plan-independent abstract run

`chk` runs a program on the *core* of the state (flag, open links) without a fault plan: at every fault point both
continuations are followed — the normal one, and the exceptional one through the enclosing handlers, summarised by
the acceptance predicate `K` ("raising here, in this state, ends in an acceptable state").  Handlers are run the
same way, so a *second* fault inside a cleanup handler is covered too.  It accepts programs of any nesting depth and
any number of links (e.g. the two-channel `Bristol_871A.open()`), and it is sound for *every* fault plan with
*any number of faults* (`chk_sound`), so `safeOpen` is a decidable discipline that implies consistency. -/

abbrev Core := Bool × List Nat

def core (s : St) : Core := (s.instrOpen, s.links)

/-- abstract effect of one atom: `none` = raises for sure in this state (not accepted);
    `some (σ', ρ)` = state after normal completion, and the state in which it raises if it is a fault point -/
def absAtom (a : Atom) (σ : Core) : Option (Core × Option Core) :=
  match a with
  | .pure => some (σ, none)
  | .io => some (σ, some σ)
  | .checkClosed => if σ.1 then none else some (σ, none)
  | .checkOpen => if σ.1 then some (σ, none) else none
  | .superOpen => if σ.1 then none else some ((true, σ.2), none)
  | .superClose => if σ.1 then some ((false, σ.2), none) else none
  | .tOpen t => if σ.2.contains t then none else some ((σ.1, t :: σ.2), some σ)
  | .tClose t =>
      if σ.2.contains t then some ((σ.1, σ.2.filter (· != t)), some (σ.1, σ.2.filter (· != t))) else none

/-- may the atom raise acceptably? -/
def raiseOK (K : Core → Bool) : Option Core → Bool
  | none => true
  | some τ => K τ

/-- how a handler that ran to its end is accepted: `raise …` hands the state to the enclosing acceptance predicate;
    falling off the end (the exception is swallowed, e.g. "this attempt failed, the next one succeeded") is accepted
    when the state equals the state in which the `try` body completes normally — so that one state describes the
    program point after the `try` -/
def exitOK (K : Core → Bool) (ex : Exit) (σb τ' : Core) : Bool :=
  match ex with
  | .swallow => τ' == σb
  | _ => K τ'

/-- abstract run; `K τ` = "an exception raised in core state τ is acceptable here" -/
def chk : Nat → (Core → Bool) → Core → Prog → Option Core
  | 0, _, _, _ => none
  | _ + 1, _, σ, [] => some σ
  | f + 1, K, σ, .atom _ a :: rest =>
      match absAtom a σ with
      | none => none
      | some (σ', ρ) => if raiseOK K ρ then chk f K σ' rest else none
  | f + 1, K, σ, .try_ body cs h ex :: rest =>
      match chk f (fun _ => true) σ body with          -- the state in which the body completes normally
      | none => none
      | some σb =>
        match chk f (fun τ =>
            (catchesAll cs || K τ) &&
            (match chk f K τ h with
             | some τ' => exitOK K ex σb τ'
             | none => false)) σ body with
        | none => none
        | some σ1 => chk f K σ1 rest

private theorem absAtom_sound (P : Plan) (id : Nat) (a : Atom) (s : St) (σ' : Core) (ρ : Option Core)
    (h : absAtom a (core s) = some (σ', ρ)) :
    ((stepAtom P id a s).2 = .ok ∧ core (stepAtom P id a s).1 = σ') ∨
    (∃ κ, (stepAtom P id a s).2 = .raised κ ∧ ρ = some (core (stepAtom P id a s).1)) := by
  obtain ⟨fl, ln, io, tr, cn⟩ := s
  cases a with
  | pure =>
    simp only [absAtom, core, Option.some.injEq, Prod.mk.injEq] at h
    exact Or.inl ⟨rfl, h.1⟩
  | io =>
    simp only [absAtom, core, Option.some.injEq, Prod.mk.injEq] at h
    obtain ⟨h1, h2⟩ := h
    unfold stepAtom
    simp only
    split
    · next κ _ => exact Or.inr ⟨κ, rfl, h2.symm⟩
    · exact Or.inl ⟨rfl, h1⟩
  | checkClosed =>
    cases fl <;> simp [absAtom, core] at h
    exact Or.inl ⟨rfl, by simp [core, stepAtom, h.1]⟩
  | checkOpen =>
    cases fl <;> simp [absAtom, core] at h
    exact Or.inl ⟨rfl, by simp [core, stepAtom, h.1]⟩
  | superOpen =>
    cases fl <;> simp [absAtom, core] at h
    exact Or.inl ⟨rfl, by simp [core, stepAtom, h.1]⟩
  | superClose =>
    cases fl <;> simp [absAtom, core] at h
    exact Or.inl ⟨rfl, by simp [core, stepAtom, h.1]⟩
  | tOpen t =>
    by_cases hm : t ∈ ln
    · simp [absAtom, core, hm] at h
    · have hc : ln.contains t = false := by simpa using hm
      simp only [absAtom, core, hc, Bool.false_eq_true, if_false, Option.some.injEq, Prod.mk.injEq] at h
      obtain ⟨h1, h2⟩ := h
      unfold stepAtom
      simp only [hc, Bool.false_eq_true, if_false]
      split
      · next κ _ => exact Or.inr ⟨κ, rfl, h2.symm⟩
      · exact Or.inl ⟨rfl, h1⟩
  | tClose t =>
    by_cases hm : t ∈ ln
    · have hc : ln.contains t = true := by simpa using hm
      simp only [absAtom, core, hc, if_true, Option.some.injEq, Prod.mk.injEq] at h
      obtain ⟨h1, h2⟩ := h
      unfold stepAtom
      simp only [hc, if_true]
      split
      · next κ _ => exact Or.inr ⟨κ, rfl, h2.symm⟩
      · exact Or.inl ⟨rfl, h1⟩
    · simp [absAtom, core, hm] at h

/-- the state in which a program completes normally does not depend on the acceptance predicate -/
theorem chk_indep : ∀ (f : Nat) (K K' : Core → Bool) (σ : Core) (p : Prog) (a b : Core),
    chk f K σ p = some a → chk f K' σ p = some b → a = b := by
  intro f
  induction f with
  | zero => intro K K' σ p a b h; simp [chk] at h
  | succ f ih =>
    intro K K' σ p a b h h'
    cases p with
    | nil =>
      simp only [chk, Option.some.injEq] at h h'
      exact h.symm.trans h'
    | cons st rest =>
      cases st with
      | atom id x =>
        simp only [chk] at h h'
        cases ha : absAtom x σ with
        | none => simp [ha] at h
        | some pr =>
          obtain ⟨σ1, ρ⟩ := pr
          simp only [ha] at h h'
          by_cases hk : raiseOK K ρ = true
          · by_cases hk' : raiseOK K' ρ = true
            · simp only [hk, hk', if_true] at h h'
              exact ih K K' σ1 rest a b h h'
            · simp [hk'] at h'
          · simp [hk] at h
      | try_ body cs hd ex =>
        simp only [chk] at h h'
        cases h0 : chk f (fun _ => true) σ body with
        | none => simp [h0] at h
        | some σb =>
          simp only [h0] at h h'
          generalize (fun τ => (catchesAll cs || K τ) &&
            (match chk f K τ hd with
             | some τ' => exitOK K ex σb τ'
             | none => false)) = Kb at h
          generalize (fun τ => (catchesAll cs || K' τ) &&
            (match chk f K' τ hd with
             | some τ' => exitOK K' ex σb τ'
             | none => false)) = Kb' at h'
          cases hb : chk f Kb σ body with
          | none => simp [hb] at h
          | some σ1 =>
            cases hb' : chk f Kb' σ body with
            | none => simp [hb'] at h'
            | some σ1' =>
              simp only [hb] at h
              simp only [hb'] at h'
              have e := ih Kb Kb' σ body σ1 σ1' hb hb'
              subst e
              exact ih K K' σ1 rest a b h h'

/-- **chk_sound.** If the abstract run accepts, then under *every* fault plan (any number of faults) the real run
    either completes normally in the predicted core state, or raises in a state the acceptance predicate admits;
    it never runs out of fuel. -/
theorem chk_sound (P : Plan) : ∀ (f : Nat) (K : Core → Bool) (σ : Core) (p : Prog) (σ' : Core),
    chk f K σ p = some σ' → ∀ s : St, core s = σ →
    ((exec P f p s).2 = .ok ∧ core (exec P f p s).1 = σ') ∨
    (∃ κ, (exec P f p s).2 = .raised κ ∧ K (core (exec P f p s).1) = true) := by
  intro f
  induction f with
  | zero => intro K σ p σ' h; simp [chk] at h
  | succ f ih =>
    intro K σ p σ' h s hs
    cases p with
    | nil =>
      simp only [chk, Option.some.injEq] at h
      exact Or.inl ⟨rfl, by simpa [exec] using hs.trans h⟩
    | cons st rest =>
      cases st with
      | atom id a =>
        simp only [chk] at h
        simp only [exec]
        cases ha : absAtom a σ with
        | none => simp [ha] at h
        | some pr =>
          obtain ⟨σ1, ρ⟩ := pr
          simp only [ha] at h
          by_cases hk : raiseOK K ρ = true
          · simp only [hk, if_true] at h
            rcases absAtom_sound P id a s σ1 ρ (by rw [hs]; exact ha) with ⟨hok, hc⟩ | ⟨κ, hr, hρ⟩
            · rw [andThen_ok hok]
              exact ih K σ1 rest σ' h _ hc
            · rw [andThen_not_ok (by rw [hr]; simp)]
              refine Or.inr ⟨κ, hr, ?_⟩
              rw [hρ] at hk
              exact hk
          · simp [hk] at h
      | try_ body cs hd ex =>
        simp only [chk] at h
        simp only [exec]
        cases h0 : chk f (fun _ => true) σ body with
        | none => simp [h0] at h
        | some σb =>
        simp only [h0] at h
        generalize hKb : (fun τ => (catchesAll cs || K τ) &&
          (match chk f K τ hd with
           | some τ' => exitOK K ex σb τ'
           | none => false)) = Kb at h
        cases hb : chk f Kb σ body with
        | none => simp [hb] at h
        | some σ1 =>
          simp only [hb] at h
          have hσ : σ1 = σb := chk_indep f Kb (fun _ => true) σ body σ1 σb hb h0
          rcases ih Kb σ body σ1 hb s hs with ⟨hok, hc⟩ | ⟨κ, hr, hkb⟩
          · have e : handleRes cs ex (exec P f body s) (exec P f hd) = exec P f body s := by
              unfold handleRes; rw [hok]
            rw [e, andThen_ok hok]
            exact ih K σ1 rest σ' h _ hc
          · subst hKb
            simp only [Bool.and_eq_true, Bool.or_eq_true] at hkb
            obtain ⟨hk1, hk2⟩ := hkb
            by_cases hcon : cs.contains κ = true
            · -- caught: the handler runs (it may itself fail), then the exit raises or execution goes on
              cases hh : chk f K (core (exec P f body s).1) hd with
              | none => simp [hh] at hk2
              | some τ' =>
                simp only [hh] at hk2
                rcases ih K _ hd τ' hh (exec P f body s).1 rfl with ⟨hok2, hc2⟩ | ⟨κ2, hr2, hk2'⟩
                · have e : handleRes cs ex (exec P f body s) (exec P f hd) =
                      ((exec P f hd (exec P f body s).1).1, ex.apply κ) := by
                    unfold handleRes; simp only [hr, hcon, if_true]; rw [hok2]
                  rw [e]
                  cases ex with
                  | reraise =>
                    rw [andThen_not_ok (by simp [Exit.apply])]
                    exact Or.inr ⟨κ, rfl, by rw [hc2]; simpa [exitOK] using hk2⟩
                  | raiseK κ' =>
                    rw [andThen_not_ok (by simp [Exit.apply])]
                    exact Or.inr ⟨κ', rfl, by rw [hc2]; simpa [exitOK] using hk2⟩
                  | swallow =>
                    have hτ : τ' = σb := by simpa [exitOK] using hk2
                    rw [andThen_ok (by simp [Exit.apply])]
                    apply ih K σ1 rest σ' h
                    simp only
                    rw [hc2, hτ, hσ]
                · have e : handleRes cs ex (exec P f body s) (exec P f hd) = exec P f hd (exec P f body s).1 := by
                    unfold handleRes; simp only [hr, hcon, if_true]; rw [hr2]
                  rw [e, andThen_not_ok (by rw [hr2]; simp)]
                  exact Or.inr ⟨κ2, hr2, hk2'⟩
            · -- not caught: the exception passes through
              have hnall : catchesAll cs = false := by
                cases hca : catchesAll cs
                · rfl
                · exact absurd (catchesAll_contains hca κ) hcon
              have hK : K (core (exec P f body s).1) = true := by
                rcases hk1 with h1 | h1
                · rw [hnall] at h1; exact absurd h1 (by simp)
                · exact h1
              have e : handleRes cs ex (exec P f body s) (exec P f hd) = exec P f body s := by
                unfold handleRes; simp only [hr, hcon, Bool.false_eq_true, if_false]
              rw [e, andThen_not_ok (by rw [hr]; simp)]
              exact Or.inr ⟨κ, hr, hK⟩

/-- the acceptance predicate of `open()`/`close()`: the property itself, on the core state -/
def goodB (n : Nat) (σ : Core) : Bool :=
  if σ.1 then (List.range n).all (fun t => σ.2.contains t) else σ.2.isEmpty

theorem goodB_core (n : Nat) (s : St) : goodB n (core s) = consistentB n s := rfl

/-- the general discipline for `open()`: the abstract run from the closed state accepts, every exceptional exit
    and the normal exit end in a state that satisfies the property -/
def safeOpen (n : Nat) (p : Prog) : Bool :=
  match chk fuel0 (goodB n) (false, []) p with
  | some σ => goodB n σ
  | none => false

/-- **consistent_of_safe** (generalises `consistent_of_wf` to any nesting depth, any number of links and any number
    of faults per call).  A driver whose `open()` passes `safeOpen` leaves the instrument consistent under *every*
    fault plan, and the run is complete (fuel not exhausted). -/
theorem consistent_of_safe (n : Nat) (p : Prog) (h : safeOpen n p = true) (P : Plan) (s : St) (hs : FullyClosed s) :
    Consistent n (exec P fuel0 p s).1 ∧ (exec P fuel0 p s).2 ≠ .outOfFuel := by
  unfold safeOpen at h
  cases hc : chk fuel0 (goodB n) (false, []) p with
  | none => simp [hc] at h
  | some σ =>
    simp only [hc] at h
    have hcore : core s = (false, []) := by
      unfold core; rw [hs.1, hs.2]
    rcases chk_sound P fuel0 (goodB n) (false, []) p σ hc s hcore with ⟨hok, hco⟩ | ⟨κ, hr, hk⟩
    · refine ⟨(consistentB_iff _ _).mp ?_, by rw [hok]; simp⟩
      rw [← goodB_core, hco]; exact h
    · refine ⟨(consistentB_iff _ _).mp ?_, by rw [hr]; simp⟩
      rw [← goodB_core]; exact hk

/-- the per-class theorem `ok_<Driver>`: every plan — any number of faults, any kinds, at any fault points,
    including failures of the cleanup itself — leaves `open()` consistent -/
theorem all_plans_of_safe (d : Driver) (h : safeOpen d.nlinks d.openP = true) : ∀ P : Plan, GoodRun d P :=
  fun P => consistent_of_safe d.nlinks d.openP h P init ⟨rfl, rfl⟩

/-- non-vacuity: the repaired two-channel Bristol shape (nested handlers, two links), the K10CR1 shape and the
    one-channel Bristol shape with an empty inner handler are accepted; the historical shapes of
    `Cobolt_Laser_06_01.open()` (before fix 6a9048d: unguarded I/O), `TT_TGF….open()` (before 35a136e: `except OSError`)
    and `Rigol_Dg4102.open()` (before 7095518: flag first) are rejected.  These are constants, not the source. -/
example : safeOpen 2 [.atom 1 .pure, .atom 3 (.tOpen 0),
    .try_ [.atom 6 (.tOpen 1), .try_ [.atom 8 .io] allKinds [.atom 11 (.tClose 1)] .reraise] allKinds
      [.atom 14 (.tClose 0)] .reraise, .atom 16 .superOpen] = true := by decide
example : safeOpen 1 [.atom 1 .pure, .atom 3 (.tOpen 0),
    .try_ [.try_ [.atom 8 .io] allKinds [] .reraise] allKinds [.atom 14 (.tClose 0)] .reraise,
    .atom 16 .superOpen] = true := by decide
example : safeOpen 1 [.atom 1 .pure, .atom 2 .checkClosed, .atom 3 (.tOpen 0),
    .try_ [.atom 5 .pure, .atom 6 .io, .atom 7 .io] allKinds [.atom 8 (.tClose 0)] .reraise, .atom 10 .superOpen,
    .atom 11 .io] = true := by decide
example : safeOpen 1 [.atom 1 .pure, .atom 2 (.tOpen 0), .atom 3 .io, .atom 4 .superOpen] = false := by decide
example : safeOpen 1 [.atom 1 .pure, .atom 2 (.tOpen 0), .try_ [.atom 4 .io] [.os] [.atom 5 (.tClose 0)] .reraise,
    .atom 7 .superOpen] = false := by decide
example : safeOpen 1 [.atom 1 .pure, .atom 2 .superOpen, .atom 3 (.tOpen 0)] = false := by decide
/-- a retry loop around the link opening, unrolled to three attempts (each its own fault point; the failure handlers
    fall through to the next attempt): accepted; "fails twice, then opens" is a two-fault plan and ends fully open -/
example :
    let p : Prog := [.atom 1 .checkClosed,
      .try_ [.atom 4 (.tOpen 0)] allKinds
        [.atom 9 .pure, .try_ [.atom 4 (.tOpen 0)] allKinds [.atom 9 .pure, .atom 4 (.tOpen 0)] .swallow] .swallow,
      .atom 10 .superOpen]
    let P : Plan := fun c => if c < 2 then some .timeout else none
    safeOpen 1 p = true ∧ (exec P 50 p init).2 = .ok ∧ fullyOpenB 1 (exec P 50 p init).1 = true ∧
      (exec (fun _ => some .os) 50 p init).2 = .raised .os := by decide

/-- a two-fault plan on the K10CR1 shape: the I/O fails, then the cleanup `close()` fails too — still consistent -/
example :
    let p : Prog := [.atom 2 .checkClosed, .atom 3 (.tOpen 0),
      .try_ [.atom 6 .io, .atom 7 .io] allKinds [.atom 8 (.tClose 0)] .reraise, .atom 10 .superOpen]
    let P : Plan := fun c => if c = 1 then some .timeout else if c = 2 then some .os else none
    (exec P 50 p init).2 = .raised .os ∧ consistentB 1 (exec P 50 p init).1 = true := by decide

/-! ### the fault-free run follows the abstract run exactly (used for `close()` after `open()`) -/

private theorem absAtom_sound_none (id : Nat) (a : Atom) (s : St) (σ' : Core) (ρ : Option Core)
    (h : absAtom a (core s) = some (σ', ρ)) :
    (stepAtom noFault id a s).2 = .ok ∧ core (stepAtom noFault id a s).1 = σ' := by
  rcases absAtom_sound noFault id a s σ' ρ h with hok | ⟨κ, hr, _⟩
  · exact hok
  · -- without a plan no fault point raises, and `absAtom` excluded the state-determined raises
    exfalso
    obtain ⟨fl, ln, io, tr, cn⟩ := s
    cases a with
    | pure => simp [stepAtom] at hr
    | io => simp [stepAtom, fault, noFault] at hr
    | checkClosed => cases fl <;> simp [absAtom, core, stepAtom] at h hr
    | checkOpen => cases fl <;> simp [absAtom, core, stepAtom] at h hr
    | superOpen => cases fl <;> simp [absAtom, core, stepAtom] at h hr
    | superClose => cases fl <;> simp [absAtom, core, stepAtom] at h hr
    | tOpen t =>
      by_cases hm : t ∈ ln
      · simp [absAtom, core, hm] at h
      · simp [stepAtom, fault, noFault, hm] at hr
    | tClose t =>
      by_cases hm : t ∈ ln
      · simp [stepAtom, fault, noFault, hm] at hr
      · simp [absAtom, core, hm] at h

theorem chk_sound_nofault : ∀ (f : Nat) (K : Core → Bool) (σ : Core) (p : Prog) (σ' : Core),
    chk f K σ p = some σ' → ∀ s : St, core s = σ →
    (exec noFault f p s).2 = .ok ∧ core (exec noFault f p s).1 = σ' := by
  intro f
  induction f with
  | zero => intro K σ p σ' h; simp [chk] at h
  | succ f ih =>
    intro K σ p σ' h s hs
    cases p with
    | nil =>
      simp only [chk, Option.some.injEq] at h
      exact ⟨rfl, by simpa [exec] using hs.trans h⟩
    | cons st rest =>
      cases st with
      | atom id a =>
        simp only [chk] at h
        simp only [exec]
        cases ha : absAtom a σ with
        | none => simp [ha] at h
        | some pr =>
          obtain ⟨σ1, ρ⟩ := pr
          simp only [ha] at h
          by_cases hk : raiseOK K ρ = true
          · simp only [hk, if_true] at h
            have := absAtom_sound_none id a s σ1 ρ (by rw [hs]; exact ha)
            rw [andThen_ok this.1]
            exact ih K σ1 rest σ' h _ this.2
          · simp [hk] at h
      | try_ body cs hd ex =>
        simp only [chk] at h
        simp only [exec]
        cases h0 : chk f (fun _ => true) σ body with
        | none => simp [h0] at h
        | some σb =>
        simp only [h0] at h
        generalize (fun τ => (catchesAll cs || K τ) &&
          (match chk f K τ hd with
           | some τ' => exitOK K ex σb τ'
           | none => false)) = Kb at h
        cases hb : chk f Kb σ body with
        | none => simp [hb] at h
        | some σ1 =>
          simp only [hb] at h
          have hbody := ih Kb σ body σ1 hb s hs
          have e : handleRes cs ex (exec noFault f body s) (exec noFault f hd) = exec noFault f body s := by
            unfold handleRes; rw [hbody.1]
          rw [e, andThen_ok hbody.1]
          exact ih K σ1 rest σ' h _ hbody.2

/-- `open()` passes the discipline and `close()`, run abstractly from the state `open()` ends in, ends fully closed
    when nothing fails and consistent (fully closed or still fully open) whatever fails inside `close()` -/
def safeClose (n : Nat) (po pc : Prog) : Bool :=
  match chk fuel0 (goodB n) (false, []) po with
  | some σ =>
    σ.1 && goodB n σ &&
    (match chk fuel0 (goodB n) σ pc with
     | some τ => !τ.1 && τ.2.isEmpty
     | none => false)
  | none => false

/-- the fault-free part only (a driver may pass this and fail `safeClose`: then some fault inside `close()` leaves
    it inconsistent — the generated `closebad_<Driver>` states the plan) -/
def safeCloseNoFault (n : Nat) (po pc : Prog) : Bool :=
  match chk fuel0 (goodB n) (false, []) po with
  | some σ =>
    σ.1 && goodB n σ &&
    (match chk fuel0 (fun _ => true) σ pc with
     | some τ => !τ.1 && τ.2.isEmpty
     | none => false)
  | none => false

/-- **close_after_open_safe** (generalises the success part of `close_after_open` to any number of links):
    a successful `open()` opens every link, and `close()` then succeeds and leaves the instrument fully closed. -/
theorem close_after_open_safe (n : Nat) (po pc : Prog) (h : safeCloseNoFault n po pc = true) (s : St)
    (hs : FullyClosed s) :
    (exec noFault fuel0 po s).2 = .ok ∧ FullyOpen n (exec noFault fuel0 po s).1 ∧
    (exec noFault fuel0 pc (exec noFault fuel0 po s).1).2 = .ok ∧
    FullyClosed (exec noFault fuel0 pc (exec noFault fuel0 po s).1).1 := by
  unfold safeCloseNoFault at h
  cases hc : chk fuel0 (goodB n) (false, []) po with
  | none => simp [hc] at h
  | some σ =>
    simp only [hc, Bool.and_eq_true] at h
    obtain ⟨⟨hflag, hgood⟩, hclose⟩ := h
    have hcore : core s = (false, []) := by
      unfold core; rw [hs.1, hs.2]
    have ho := chk_sound_nofault fuel0 (goodB n) (false, []) po σ hc s hcore
    cases hc2 : chk fuel0 (fun _ => true) σ pc with
    | none => simp [hc2] at hclose
    | some τ =>
      simp only [hc2, Bool.and_eq_true, Bool.not_eq_true', List.isEmpty_iff] at hclose
      have hcl := chk_sound_nofault fuel0 (fun _ => true) σ pc τ hc2 _ ho.2
      have hflag' : (exec noFault fuel0 po s).1.instrOpen = true := by
        have := congrArg Prod.fst ho.2
        simp only [core] at this
        rw [this]; exact hflag
      have hcons : Consistent n (exec noFault fuel0 po s).1 :=
        (consistentB_iff _ _).mp (by rw [← goodB_core, ho.2]; exact hgood)
      refine ⟨ho.1, ⟨hflag', hcons.1 hflag'⟩, hcl.1, ?_, ?_⟩
      · have := congrArg Prod.fst hcl.2
        simp only [core] at this
        rw [this]; exact hclose.1
      · have := congrArg Prod.snd hcl.2
        simp only [core] at this
        rw [this]; exact hclose.2

/-- **close_faults_safe.** For a driver that passes `safeClose`: after a successful `open()`, `close()` under *any*
    fault plan (a final I/O fails, a transport's `close()` fails, several of them) leaves the instrument
    consistent: fully closed with every link released, or still fully open so that `close()` can be repeated. -/
theorem close_faults_safe (n : Nat) (po pc : Prog) (h : safeClose n po pc = true) (P : Plan) (s s' : St)
    (hs : FullyClosed s) (hs' : core s' = core (exec noFault fuel0 po s).1) :
    Consistent n (exec P fuel0 pc s').1 ∧ (exec P fuel0 pc s').2 ≠ .outOfFuel := by
  unfold safeClose at h
  cases hc : chk fuel0 (goodB n) (false, []) po with
  | none => simp [hc] at h
  | some σ =>
    simp only [hc, Bool.and_eq_true] at h
    obtain ⟨_, hclose⟩ := h
    have hcore : core s = (false, []) := by
      unfold core; rw [hs.1, hs.2]
    have ho := chk_sound_nofault fuel0 (goodB n) (false, []) po σ hc s hcore
    cases hc2 : chk fuel0 (goodB n) σ pc with
    | none => simp [hc2] at hclose
    | some τ =>
      simp only [hc2, Bool.and_eq_true, Bool.not_eq_true', List.isEmpty_iff] at hclose
      rcases chk_sound P fuel0 (goodB n) σ pc τ hc2 s' (hs'.trans ho.2) with ⟨hok, hco⟩ | ⟨κ, hr, hk⟩
      · refine ⟨(consistentB_iff _ _).mp ?_, by rw [hok]; simp⟩
        rw [← goodB_core, hco]
        obtain ⟨h1, h2⟩ := hclose
        obtain ⟨t1, t2⟩ := τ
        simp only at h1 h2
        subst h1 h2
        rfl
      · refine ⟨(consistentB_iff _ _).mp ?_, by rw [hr]; simp⟩
        rw [← goodB_core]; exact hk

/-- the per-class form: `close()` of the generated driver, after its fault-free `open()`, under every plan -/
theorem close_all_plans_of_safe (d : Driver) (h : safeClose d.nlinks d.openP d.closeP = true) :
    ∀ P : Plan, Consistent d.nlinks (runClose d P).1 ∧ (runClose d P).2 ≠ .outOfFuel :=
  fun P => close_faults_safe d.nlinks d.openP d.closeP h P init _ ⟨rfl, rfl⟩ rfl

/-- non-vacuity: the two-channel Bristol open with a close that releases the second link even if closing the first
    fails is accepted; the historical close of `Bristol_871A` (plain sequence: if closing the serial link fails the
    SCPI link stays open on a closed instrument) and a close in the order "transport first, flag second" pass only
    the fault-free part. Constants, not the source. -/
example : safeClose 1
    [.atom 1 .pure, .atom 2 (.tOpen 0), .atom 3 .superOpen]
    [.atom 1 .pure, .atom 2 .superClose, .atom 3 (.tClose 0)] = true := by decide
example : safeClose 1
    [.atom 1 .pure, .atom 2 (.tOpen 0), .atom 3 .superOpen]
    [.atom 1 .checkOpen, .atom 2 (.tClose 0), .atom 3 .superClose] = false := by decide
example : safeCloseNoFault 1
    [.atom 1 .pure, .atom 2 (.tOpen 0), .atom 3 .superOpen]
    [.atom 1 .checkOpen, .atom 2 (.tClose 0), .atom 3 .superClose] = true := by decide
example : safeCloseNoFault 2
    [.atom 1 .pure, .atom 3 (.tOpen 0),
     .try_ [.atom 6 (.tOpen 1), .try_ [.atom 8 .io] allKinds [.atom 11 (.tClose 1)] .reraise] allKinds
       [.atom 14 (.tClose 0)] .reraise, .atom 16 .superOpen]
    [.atom 1 .pure, .atom 2 .checkOpen, .atom 3 .io, .atom 6 .superClose, .atom 8 (.tClose 1), .atom 10 (.tClose 0)]
    = true := by decide

end QmiModel.C19
