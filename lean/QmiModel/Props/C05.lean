import QmiModel.Lemmas.C05

/-!
# C05 — only methods declared RPC-callable can be invoked through messages

Generic theorems over *every* class table `C : RpcClass` and *every* name `n : Name` (all method-name strings,
via the injective encoding `encodeName`), for the dispatch of the repaired tree (static lookup, commit b296ced).  The per-class obligations `wf_<Class> : WellFormed gen_<Class>` for the
classes shipped with QMI are generated into `Gen/RpcClassesWf.lean` from the live classes on every run.
-/
namespace QmiModel.RpcClass

/-! ## what holds for *every* class, well-formed or not -/

/-- **A rejected request runs nothing.**  For every class and every name: if the request is not dispatched to a
method, no code of the object runs (no getter, no `__getattr__`) and the reply is the unknown-RPC error. -/
theorem rejected_runs_nothing (C : RpcClass) (n : Name) (h : ¬ invokable C n = true) :
    effects C n = [] ∧ reply C n = .unknownRpc := by
  unfold invokable at h
  unfold effects reply
  cases hg : instLookup C n with
  | absent => exact ⟨rfl, rfl⟩
  | value m =>
    cases m with
    | false => exact ⟨rfl, rfl⟩
    | true => rw [hg] at h; exact absurd rfl h

/-- the only code of the object a request can start is the call of the method it names -/
theorem effects_only_call (C : RpcClass) (n : Name) : effects C n = [] ∨ effects C n = [.called n] := by
  unfold effects
  cases instLookup C n with
  | absent => exact Or.inl rfl
  | value m => cases m <;> simp

/-- **Advertised = invokable**, for every class, at every name that is not shadowed by an instance attribute:
dispatch and descriptor apply the same test to the same statically resolved member. -/
theorem invokable_iff_advertised_of_unshadowed (C : RpcClass) (n : Name) (hl : lookup C.inst n = none) :
    invokable C n = true ↔ n ∈ advertised C := by
  rw [mem_advertised_iff]
  unfold invokable
  rcases instLookup_of_unshadowed C n hl with ⟨h1, h2⟩ | h1
  · rw [h1, h2]
  · rw [h1]; cases isAdvertised C n <;> simp

example : ∃ C : RpcClass, ∃ n, lookup C.inst n = none ∧ invokable C n = true ∧ C.inst ≠ [] :=
  ⟨{ mro := [[(1, .func true true)]], inst := [(2, false)] }, 1, rfl, rfl, by decide⟩

/-! ## names outside the member tables — i.e. all the infinitely many other strings -/

/-- A name that is neither a class member along the MRO nor an instance attribute is rejected with the unknown-RPC
error, runs nothing and is not advertised — whether or not some class defines `__getattr__`. -/
theorem absent_name_rejected (C : RpcClass) (n : Name) (hn : n ∉ allNames C) :
    invokable C n = false ∧ n ∉ advertised C ∧ effects C n = [] ∧ reply C n = .unknownRpc := by
  have h := instLookup_of_unknown C n hn
  refine ⟨?_, ?_, ?_, ?_⟩
  · simp only [invokable, h]
  · rw [mem_advertised_iff, isAdvertised_of_unknown C n hn]; exact Bool.false_ne_true
  · simp only [effects, h]
  · simp only [reply, h]

example : ∃ C : RpcClass, (7 : Name) ∉ allNames C ∧ allNames C ≠ [] :=
  ⟨{ mro := [[(1, .func true true)]] }, by decide, by decide⟩

/-! ## the main theorems -/

/-- **C05, main theorem.**  For a well-formed class: a name is invokable through a method request **iff** it is
in the advertised method list, and a name that is not invokable runs nothing and gets the unknown-RPC error —
for all names, including the infinitely many that occur in no table. -/
theorem dispatch_sound (C : RpcClass) (h : WellFormed C) :
    (∀ n, invokable C n = true ↔ n ∈ advertised C)
    ∧ (∀ n, ¬ invokable C n = true → effects C n = [] ∧ reply C n = .unknownRpc) :=
  ⟨fun n => (propertyAt_of_wfExcept C [] h n (by simp)).1, fun n => rejected_runs_nothing C n⟩

/-- only members explicitly declared with `@rpc_method` in their class body are invokable, and never through an
instance attribute -/
theorem invokable_only_declared (C : RpcClass) (h : WellFormed C) (n : Name) (hi : invokable C n = true) :
    declared C n = true ∧ lookup C.inst n = none :=
  (propertyAt_of_wfExcept C [] h n (by simp)).2.1 hi

/-- `WellFormed` is not stronger than needed: it is *equivalent* to the property at every name (plus: no protected
name advertised).  So a failing `decide` for a generated class is a failure of the property in the model, with
`badNames` as witnesses. -/
theorem wellFormed_iff (C : RpcClass) :
    WellFormed C ↔ ((∀ n, PropertyAt C n) ∧ ∀ n ∈ protectedNames, n ∉ advertised C) := by
  constructor
  · intro h
    refine ⟨fun n => propertyAt_of_wfExcept C [] h n (by simp), ?_⟩
    intro n hn
    rw [mem_advertised_iff]
    unfold WellFormed WellFormedExcept wfExceptB at h
    simp only [Bool.and_eq_true, List.all_eq_true, Bool.not_eq_true'] at h
    rw [h.2 n hn]
    exact Bool.false_ne_true
  · rintro ⟨hp, hprot⟩
    unfold WellFormed WellFormedExcept wfExceptB
    simp only [Bool.and_eq_true, List.all_eq_true, Bool.not_eq_true', Bool.or_eq_true]
    refine ⟨fun n _ => Or.inr (nameOk_of_propertyAt C n (hp n)), ?_⟩
    intro n hn
    have := hprot n hn
    rw [mem_advertised_iff] at this
    cases h : isAdvertised C n
    · rfl
    · exact absurd h this

/-! ## protected names -/

/-- Whatever the class looks like: if `make_interface_descriptor` succeeds (the object can be constructed), none of
`lock`, `unlock`, `force_unlock`, `is_locked` is in the advertised list. -/
theorem protected_names_never_advertised (C : RpcClass) (ms : List Name) (h : construct C = .ok ms) :
    ∀ n ∈ protectedNames, n ∉ ms := by
  unfold construct at h
  split at h
  · cases h
  · rename_i hany
    split at h
    · cases h
    · split at h
      · injection h with h
        subst h
        intro n hn hmem
        apply hany
        rw [List.any_eq_true]
        exact ⟨n, hmem, List.contains_iff_mem.mpr hn⟩
      · cases h

/-- the descriptor, when it can be built, lists exactly `advertised` -/
theorem construct_ok_eq (C : RpcClass) (ms : List Name) (h : construct C = .ok ms) : ms = advertised C := by
  unfold construct at h
  split at h
  · cases h
  · split at h
    · cases h
    · split at h
      · injection h with h; exact h.symm
      · cases h

/-- a constructible object's signals have neither the name of an advertised method nor a lock-control name -/
theorem construct_ok_sigs (C : RpcClass) (ms : List Name) (h : construct C = .ok ms) :
    ∀ s ∈ C.sigs, isAdvertised C s = false ∧ s ∉ protectedNames := by
  unfold construct at h
  split at h
  · cases h
  · split at h
    · cases h
    · rename_i hs
      simp only [Bool.not_eq_true', Bool.not_eq_false, List.all_eq_true, sigOk, Bool.and_eq_true] at hs
      intro s hmem
      have := hs s hmem
      refine ⟨this.1, fun e => ?_⟩
      rw [List.contains_iff_mem.mpr e] at this
      exact absurd this.2 (by simp)

/-- a well-formed class whose `_rpc_constants` pass the asserts can be constructed, and its descriptor lists exactly
`advertised` -/
theorem construct_ok_of_wf (C : RpcClass) (h : WellFormed C) (hs : C.sigs.all (sigOk C) = true)
    (hc : C.consts.all (constOk C) = true) : construct C = .ok (advertised C) := by
  have hp := ((wellFormed_iff C).mp h).2
  unfold construct
  rw [if_neg, if_neg (by rw [hs]; simp), if_pos hc]
  intro hany
  rw [List.any_eq_true] at hany
  obtain ⟨n, hmem, hc⟩ := hany
  exact hp n (List.contains_iff_mem.mp hc) hmem

/-- a request naming a lock-control name on a well-formed class is rejected and runs nothing -/
theorem protected_names_rejected (C : RpcClass) (h : WellFormed C) (n : Name) (hn : n ∈ protectedNames) :
    invokable C n = false ∧ effects C n = [] ∧ reply C n = .unknownRpc := by
  obtain ⟨hp, hprot⟩ := (wellFormed_iff C).mp h
  have hni : ¬ invokable C n = true := fun e => hprot n hn ((hp n).1.mp e)
  refine ⟨?_, (hp n).2.2 hni⟩
  cases hi : invokable C n
  · rfl
  · exact absurd hi hni

/-- for *every* class whose object can be constructed: a request naming a lock-control name is rejected and runs
nothing, unless an instance attribute of that name shadows the class member -/
theorem protected_names_rejected_of_constructible (C : RpcClass) (ms : List Name) (hc : construct C = .ok ms)
    (n : Name) (hn : n ∈ protectedNames) (hl : lookup C.inst n = none) :
    invokable C n = false ∧ effects C n = [] ∧ reply C n = .unknownRpc := by
  have hna : n ∉ advertised C := by
    have h1 := protected_names_never_advertised C ms hc n hn
    rw [construct_ok_eq C ms hc] at h1
    exact h1
  have hni : ¬ invokable C n = true := fun e => hna ((invokable_iff_advertised_of_unshadowed C n hl).mp e)
  refine ⟨?_, rejected_runs_nothing C n hni⟩
  cases hi : invokable C n
  · rfl
  · exact absurd hi hni

/-- a class that marks a protected name as RPC method cannot be constructed at all -/
theorem protected_marked_not_constructible (C : RpcClass) (n : Name) (hn : n ∈ protectedNames)
    (ha : isAdvertised C n = true) : construct C = .error .usage := by
  unfold construct
  rw [if_pos]
  rw [List.any_eq_true]
  exact ⟨n, (mem_advertised_iff C n).mpr ha, List.contains_iff_mem.mpr hn⟩

/-! ## the whole request handler: lock-token test, then dispatch -/

theorem admitted_iff (lock req : Option Token) :
    admitted lock req = true ↔ lock = none ∨ ∃ t, lock = some t ∧ req = some t := by
  cases lock with
  | none => simp [admitted]
  | some t => simp [admitted]

/-- **A refused request runs nothing.**  On a locked object a request without the locking token is answered with
`OBJECT_IS_LOCKED` and no code of the object runs — whatever name it carries (provided the `_name` attribute the
refusal logs is a plain attribute, which `full_<Class>` checks for every shipped class). -/
theorem refused_request_runs_nothing (C : RpcClass) (hn : dynAttrRunsCode C n__name = false)
    (lock req : Option Token) (n : Name) (h : admitted lock req = false) :
    handle C lock req n = (.objectLocked, []) := by
  simp [handle, h, refusedEffects, hn]

example : admitted (some 3) none = false ∧ admitted (some 3) (some 4) = false ∧ admitted (some 3) (some 3) = true
    ∧ admitted none (some 9) = true := by decide

/-- **C05 for the whole of `_handle_method_rpc_request`.**  For a well-formed class, every lock state, every request
token and every name: the method is called iff the request is admitted by the lock test *and* the name is advertised;
otherwise nothing runs, and the reply is `OBJECT_IS_LOCKED` (refused) resp. the unknown-RPC error (admitted). -/
theorem handle_sound (C : RpcClass) (h : WellFormed C) (hn : dynAttrRunsCode C n__name = false)
    (lock req : Option Token) (n : Name) :
    ((handle C lock req n).2 = [.called n] ↔ (admitted lock req = true ∧ n ∈ advertised C))
    ∧ ((handle C lock req n).2 = [] ∨ (handle C lock req n).2 = [.called n])
    ∧ (admitted lock req = false → (handle C lock req n).1 = .objectLocked)
    ∧ (admitted lock req = true → n ∉ advertised C → (handle C lock req n).1 = .unknownRpc) := by
  have hd := (dispatch_sound C h).1 n
  cases ha : admitted lock req with
  | false =>
    rw [refused_request_runs_nothing C hn lock req n ha]
    simp
  | true =>
    have hh : handle C lock req n = (reply C n, effects C n) := by simp [handle, ha]
    rw [hh]
    cases hi : invokable C n with
    | false =>
      have hna : n ∉ advertised C := fun e => by rw [hd.mpr e] at hi; cases hi
      have hr := rejected_runs_nothing C n (by rw [hi]; exact Bool.false_ne_true)
      simp [hr.1, hr.2, hna]
    | true =>
      have hadv := hd.mp hi
      have he : effects C n = [.called n] := by
        unfold invokable at hi
        unfold effects
        cases hg : instLookup C n with
        | absent => rw [hg] at hi; cases hi
        | value m => cases m <;> simp_all
      simp [he, hadv]

/-! ## the proxy built from the descriptor -/

/-- **The proxy forwards exactly the advertised methods**, for every object that can be constructed — signals
included: `construct` refuses a signal with the name of a method, so no subscriber takes a stub's place.  What remains
as side condition (`proxyCleanB`, checked per shipped class) are the names the proxy uses itself: `address`,
`rpc_nonblocking`. -/
theorem proxy_forwards_advertised (C : RpcClass) (ms : List Name) (hc : construct C = .ok ms)
    (hp : proxyCleanB C = true) : proxyBuild ms C.consts C.sigs = .ok ms := by
  have hsig := construct_ok_sigs C ms hc
  have hms := construct_ok_eq C ms hc
  subst hms
  unfold proxyCleanB at hp
  simp only [Bool.and_eq_true, List.all_eq_true, Bool.not_eq_true', List.mem_cons, List.mem_nil_iff, or_false] at hp
  obtain ⟨⟨hadv, hcs⟩, _⟩ := hp
  have hcs' : n_address ∉ C.consts ++ C.sigs := fun e => by
    rw [List.contains_iff_mem.mpr e] at hcs; cases hcs
  unfold proxyBuild
  rw [if_neg]
  · congr 1
    rw [List.filter_eq_self]
    intro a ha
    have haa : isAdvertised C a = true := (mem_advertised_iff C a).mp ha
    simp only [Bool.and_eq_true, Bool.not_eq_true', bne_iff_ne, ne_eq]
    constructor
    · cases hcc : C.sigs.contains a with
      | false => rfl
      | true =>
        have := (hsig a (List.contains_iff_mem.mp hcc)).1
        rw [haa] at this; cases this
    · intro e
      have := hadv a (Or.inr e)
      rw [haa] at this; cases this
  · intro hcon
    have hmem := List.contains_iff_mem.mp hcon
    simp only [List.mem_append] at hmem hcs'
    rcases hmem with (h1 | h1) | h1
    · exact hcs' (Or.inl h1)
    · have := hadv n_address (Or.inl rfl)
      rw [(mem_advertised_iff C n_address).mp h1] at this; cases this
    · exact hcs' (Or.inr h1)

/-- **The proxy's lock-control entry points are never shadowed**: for every constructible object no lock-control name
is a method stub or a signal subscriber (and, with `proxyCleanB`, not a constant either), so `lock`, `unlock`,
`force_unlock`, `is_locked` on the proxy stay the proxy's own methods. -/
theorem proxy_never_shadowed (C : RpcClass) (ms : List Name) (hc : construct C = .ok ms) (hp : proxyCleanB C = true) :
    ∀ n ∈ protectedNames, n ∉ ms ∧ n ∉ C.sigs ∧ n ∉ C.consts := by
  intro n hn
  refine ⟨protected_names_never_advertised C ms hc n hn, fun e => (construct_ok_sigs C ms hc n e).2 hn, fun e => ?_⟩
  unfold proxyCleanB at hp
  simp only [Bool.and_eq_true, Bool.not_eq_true'] at hp
  have h3 := hp.2
  rw [List.any_eq_false] at h3
  exact h3 n e (List.contains_iff_mem.mpr hn)

/-- whatever the signals and constants are: a lock-control name is never a forwarding stub of a proxy (so the proxy's own
`lock`/`unlock`/`force_unlock`/`is_locked` are never taken over) -/
theorem proxy_never_forwards_protected (C : RpcClass) (ms fs consts sigs : List Name) (hc : construct C = .ok ms)
    (hb : proxyBuild ms consts sigs = .ok fs) : ∀ n ∈ protectedNames, n ∉ fs := by
  intro n hn hmem
  unfold proxyBuild at hb
  split at hb
  · cases hb
  · injection hb with hb
    subst hb
    exact protected_names_never_advertised C ms hc n hn (List.mem_filter.mp hmem).1

/-! ## a syntactic sufficient condition (the shape all clean classes have; cheap to evaluate) -/

/-- The syntactic condition implies well-formedness (with the same exceptions).  The per-class obligations of the
shipped classes are discharged through this lemma: one linear pass over the member tables. -/
theorem wfExcept_of_syn (C : RpcClass) (bad : List Name) (h : synWfB C bad = true) : WellFormedExcept C bad := by
  unfold synWfB at h
  simp only [Bool.and_eq_true] at h
  obtain ⟨⟨ht, hi⟩, hp⟩ := h
  unfold WellFormedExcept wfExceptB
  simp only [Bool.and_eq_true, List.all_eq_true, Bool.or_eq_true]
  refine ⟨?_, ?_⟩
  · intro n _
    by_cases hb : n ∈ bad
    · exact Or.inl (List.contains_iff_mem.mpr hb)
    · right
      apply nameOk_of_clean C n
      · intro k hr
        obtain ⟨t, ht', hm⟩ := mem_of_resolve_some C.mro n k hr
        rcases tableClean_mem bad t (tablesClean_mem bad C.mro ht t ht') n k hm with h1 | h1
        · exact absurd h1 hb
        · exact h1
      · intro m hl
        rcases instClean_mem C bad C.inst hi n m (mem_of_lookup_some C.inst n m hl) with h1 | h1
        · exact absurd h1 hb
        · exact h1
  · simpa [List.all_eq_true] using hp

/-- the form used by the generated per-class obligations -/
theorem wf_of_syn (C : RpcClass) (h : synWfB C [] = true) : WellFormed C := wfExcept_of_syn C [] h

/-! ## the name encoding is injective on code-point lists -/

/-- distinct method-name strings are distinct `Name`s, so quantifying over all `Name`s covers all strings -/
theorem encodeName_injective (a b : List Nat) (ha : ∀ c ∈ a, c < 0x110000) (hb : ∀ c ∈ b, c < 0x110000)
    (h : encodeName a = encodeName b) : a = b := by
  induction a generalizing b with
  | nil =>
    cases b with
    | nil => rfl
    | cons d ds => simp only [encodeName, nameBase] at h; omega
  | cons c cs ih =>
    cases b with
    | nil => simp only [encodeName, nameBase] at h; omega
    | cons d ds =>
      simp only [encodeName, nameBase] at h
      have hc := ha c (List.mem_cons_self ..)
      have hd := hb d (List.mem_cons_self ..)
      have h1 : c = d := by omega
      have h2 : encodeName cs = encodeName ds := by omega
      rw [h1, ih ds (fun x hx => ha x (List.mem_cons_of_mem _ hx)) (fun x hx => hb x (List.mem_cons_of_mem _ hx)) h2]

/-! ## non-vacuity: a non-trivial hierarchy that is well-formed, and one that is not -/

/-- base class: marked+declared method 1, unmarked 2, data 3, marked static 4, unmarked classmethod 5 -/
def exBase : Table :=
  [(1, .func true true), (2, .func false false), (3, .data), (4, .staticfn true true), (5, .classfn false false),
   (8, .func true true)]
/-- derived class: overrides unmarked 2 by a marked method, adds helper 6, overrides marked 8 by an unmarked one -/
def exDerived : Table := [(2, .func true true), (6, .func false false), (8, .func false false)]
def exC : RpcClass := { mro := [exDerived, exBase], inst := [(7, false)] }

example : WellFormed exC := by decide
example : synWfB exC [] = true := by decide
example : invokable exC 1 = true ∧ invokable exC 2 = true ∧ invokable exC 4 = true ∧ invokable exC 6 = false
    ∧ invokable exC 8 = false ∧ invokable exC 7 = false ∧ invokable exC 99 = false := by decide
example : construct exC = .ok [1, 2, 4] := by rfl

/-- a property (name 9), a marked classmethod (name 10), a marked callable object (name 11): none of them is
invokable, none runs code, none is advertised — the class is well-formed -/
def exProps : RpcClass := { mro := [[(9, .prop), (10, .classfn true true), (11, .callableObj true), (12, .ndprop)], exBase] }
example : WellFormed exProps := by decide
example : invokable exProps 9 = false ∧ effects exProps 9 = [] ∧ reply exProps 9 = .unknownRpc := by decide
example : invokable exProps 10 = false ∧ (10 : Name) ∉ advertised exProps := by decide

/-- what still breaks it: a function that carries the marker without having been declared (`functools.wraps` of a
marked method, name 13), and an instance attribute that shadows an advertised method (name 1); the witnesses are
computed -/
def exBad : RpcClass := { mro := [[(13, .func true false)], exBase], inst := [(1, false)] }
example : ¬ WellFormed exBad := by decide
example : badNames exBad = [13, 1] := by decide
example : WellFormedExcept exBad [13, 1] := by decide
example : synWfB exBad [13, 1] = true := by decide
example : invokable exBad 13 = true ∧ declared exBad 13 = false := by decide
example : invokable exBad 1 = false ∧ (1 : Name) ∈ advertised exBad := by decide
/-- the whole handler on the well-formed example: refused without / with a foreign token, served with the owner's token -/
example : gateProxyOkB exC = true := by decide
example : handle exC (some 3) none 1 = (.objectLocked, []) ∧ handle exC (some 3) (some 4) 1 = (.objectLocked, [])
    ∧ handle exC (some 3) (some 3) 1 = (.methodResult, [.called 1]) ∧ handle exC (some 3) (some 3) 6 = (.unknownRpc, [])
    ∧ handle exC none none 2 = (.methodResult, [.called 2]) := by decide
/-- what the side condition excludes: `_name` as a property is evaluated by the refusal's log line -/
example : handle { mro := [[(n__name, .prop)], exBase] } (some 3) none 1 = (.objectLocked, [.attrCodeRan n__name]) := by
  decide
/-- the proxy: stubs = advertised; a signal of the same name takes the stub's place; `address` cannot be set -/
example : proxyBuild [1, 2, 4] [3] [9] = .ok [1, 2, 4] := by rfl
example : proxyBuild [1, 2, 4] [] [2] = .ok [1, 4] := by rfl
example : proxyBuild [1, n_address] [] [] = .error .attributeError := by rfl
example : proxyCleanB { exC with sigs := [9], consts := [3] } = true := by decide
/-- a task class declaring a signal named like a runner method (2) or `is_locked`: the runner cannot be constructed -/
example : construct { exC with sigs := [2] } = .error .usage := by rfl
example : construct { exC with sigs := [n_is_locked] } = .error .usage := by rfl
example : construct { exC with sigs := [9] } = .ok [1, 2, 4] := by rfl

/-- a class that marks `lock` cannot be constructed -/
example : construct { mro := [[(n_lock, .func true true)], exBase] } = .error .usage := by rfl

end QmiModel.RpcClass
