import QmiModel.Lemmas.C05

/-!
# C05 — only methods declared RPC-callable can be invoked through messages

Generic theorems over *every* class table `C : RpcClass` and *every* name `n : Name` (all method-name strings,
via the injective encoding `encodeName`).  The per-class obligations `wf_<Class> : WellFormed gen_<Class>` for the
classes shipped with QMI are generated into `Gen/RpcClassesWf.lean` from the live classes on every run.
-/
namespace QmiModel.RpcClass

/-! ## names outside the member tables — i.e. all the infinitely many other strings -/

/-- A name that is neither a class member along the MRO nor an instance attribute is rejected with the unknown-RPC
error, runs nothing and is not advertised (provided no class defines a `__getattr__` hook). -/
theorem absent_name_rejected (C : RpcClass) (hh : C.getattrHook = false) (n : Name) (hn : n ∉ allNames C) :
    invokable C n = false ∧ n ∉ advertised C ∧ effects C n = [] ∧ reply C n = .unknownRpc := by
  have h := instLookup_of_unknown C n hn
  rw [hh] at h
  simp only [Bool.false_eq_true, if_false] at h
  refine ⟨?_, ?_, ?_, ?_⟩
  · simp only [invokable, h]
  · rw [mem_advertised_iff, isAdvertised_of_unknown C n hn]; exact Bool.false_ne_true
  · simp only [effects, h]
  · simp only [reply, h]

example : ∃ C : RpcClass, C.getattrHook = false ∧ (7 : Name) ∉ allNames C ∧ allNames C ≠ [] :=
  ⟨{ mro := [[(1, .func true true)]] }, rfl, by decide, by decide⟩

/-! ## the property at a single name, and the main theorems -/

/-- **Partial form** (for classes with listed exceptions): outside the names in `bad` the property holds at every
name.  Missing hypothesis for the full statement: `bad = []`. -/
theorem dispatch_sound_partial (C : RpcClass) (bad : List Name) (h : WellFormedExcept C bad) (n : Name)
    (hb : n ∉ bad) : PropertyAt C n := by
  by_cases hn : n ∈ allNames C
  · exact propertyAt_of_nameOk C n (nameOk_of_wfExcept C bad h n hn hb)
  · have hh := hook_of_wfExcept C bad h
    obtain ⟨h1, h2, h3, h4⟩ := absent_name_rejected C hh n hn
    refine ⟨?_, ?_, ?_⟩
    · rw [h1]; exact ⟨fun e => (by cases e), fun e => absurd e h2⟩
    · rw [h1]; intro e; cases e
    · intro _; exact ⟨h3, h4⟩

/-- **C05, main theorem.**  For a well-formed class: a name is invokable through a method request **iff** it is
in the advertised method list, and a name that is not invokable runs nothing and gets the unknown-RPC error —
for all names, including the infinitely many that occur in no table. -/
theorem dispatch_sound (C : RpcClass) (h : WellFormed C) :
    (∀ n, invokable C n = true ↔ n ∈ advertised C)
    ∧ (∀ n, ¬ invokable C n = true → effects C n = [] ∧ reply C n = .unknownRpc) :=
  ⟨fun n => (dispatch_sound_partial C [] h n (by simp)).1,
   fun n => (dispatch_sound_partial C [] h n (by simp)).2.2⟩

/-- only members explicitly declared with `@rpc_method` in their class body are invokable, and never through an
instance attribute -/
theorem invokable_only_declared (C : RpcClass) (h : WellFormed C) (n : Name) (hi : invokable C n = true) :
    declared C n = true ∧ lookup C.inst n = none :=
  (dispatch_sound_partial C [] h n (by simp)).2.1 hi

/-- `WellFormed` is not stronger than needed: it is *equivalent* to the property at every name (plus: no
`__getattr__` hook, no protected name advertised).  So a failing `decide` for a generated class is a failure of the
property in the model, with `badNames` as witnesses. -/
theorem wellFormed_iff (C : RpcClass) :
    WellFormed C ↔ (C.getattrHook = false ∧ (∀ n, PropertyAt C n) ∧ ∀ n ∈ protectedNames, n ∉ advertised C) := by
  constructor
  · intro h
    refine ⟨hook_of_wfExcept C [] h, fun n => dispatch_sound_partial C [] h n (by simp), ?_⟩
    intro n hn
    rw [mem_advertised_iff]
    unfold WellFormed WellFormedExcept wfExceptB at h
    simp only [Bool.and_eq_true, List.all_eq_true, Bool.not_eq_true'] at h
    rw [h.2 n hn]
    exact Bool.false_ne_true
  · rintro ⟨hh, hp, hprot⟩
    unfold WellFormed WellFormedExcept wfExceptB
    simp only [Bool.and_eq_true, List.all_eq_true, Bool.not_eq_true', Bool.or_eq_true]
    refine ⟨⟨hh, fun n _ => Or.inr (nameOk_of_propertyAt C n (hp n))⟩, ?_⟩
    intro n hn
    have := hprot n hn
    rw [mem_advertised_iff] at this
    cases h : isAdvertised C n
    · rfl
    · exact absurd h this

/-! ## protected names -/

/-- Whatever the class looks like: if `make_interface_descriptor` succeeds (the object can be constructed), none of
`lock`, `unlock`, `force_unlock`, `is_locked` is in the advertised list. -/
theorem protected_names_never_advertised (C : RpcClass) (ms : List Name) (h : construct C = .ok ms) :
    ∀ n ∈ protectedNames, n ∉ ms := by
  unfold construct at h
  split at h
  · cases h
  · rename_i hany
    injection h with h
    subst h
    intro n hn hmem
    apply hany
    rw [List.any_eq_true]
    exact ⟨n, hmem, List.contains_iff_mem.mpr hn⟩

/-- a well-formed class can be constructed, and its descriptor lists exactly `advertised` -/
theorem construct_ok_of_wf (C : RpcClass) (h : WellFormed C) : construct C = .ok (advertised C) := by
  have hp := ((wellFormed_iff C).mp h).2.2
  unfold construct
  rw [if_neg]
  intro hany
  rw [List.any_eq_true] at hany
  obtain ⟨n, hmem, hc⟩ := hany
  exact hp n (List.contains_iff_mem.mp hc) hmem

/-- a request naming a lock-control name on a well-formed class is rejected and runs nothing -/
theorem protected_names_rejected (C : RpcClass) (h : WellFormed C) (n : Name) (hn : n ∈ protectedNames) :
    invokable C n = false ∧ effects C n = [] ∧ reply C n = .unknownRpc := by
  obtain ⟨_, hp, hprot⟩ := (wellFormed_iff C).mp h
  have hni : ¬ invokable C n = true := fun e => hprot n hn ((hp n).1.mp e)
  refine ⟨?_, (hp n).2.2 hni⟩
  cases hi : invokable C n
  · rfl
  · exact absurd hi hni

/-- a class that marks a protected name as RPC method cannot be constructed at all -/
theorem protected_marked_not_constructible (C : RpcClass) (n : Name) (hn : n ∈ protectedNames)
    (ha : isAdvertised C n = true) : construct C = .error .usage := by
  unfold construct
  rw [if_pos]
  rw [List.any_eq_true]
  exact ⟨n, (mem_advertised_iff C n).mpr ha, List.contains_iff_mem.mpr hn⟩

/-! ## a syntactic sufficient condition (the shape all clean classes have; cheap to evaluate) -/

/-- The syntactic condition implies well-formedness (with the same exceptions).  The per-class obligations of the
shipped classes are discharged through this lemma: one linear pass over the member tables. -/
theorem wfExcept_of_syn (C : RpcClass) (bad : List Name) (h : synWfB C bad = true) : WellFormedExcept C bad := by
  unfold synWfB at h
  simp only [Bool.and_eq_true, Bool.not_eq_true'] at h
  obtain ⟨⟨⟨⟨hh, hc⟩, ht⟩, hi⟩, hp⟩ := h
  unfold WellFormedExcept wfExceptB
  simp only [Bool.and_eq_true, Bool.not_eq_true', List.all_eq_true, Bool.or_eq_true]
  refine ⟨⟨hh, ?_⟩, ?_⟩
  · intro n _
    by_cases hb : n ∈ bad
    · exact Or.inl (List.contains_iff_mem.mpr hb)
    · right
      apply nameOk_of_clean C n hh hc
      · intro k hr
        obtain ⟨t, ht', hm⟩ := mem_of_resolve_some C.mro n k hr
        rcases tableClean_mem bad t (tablesClean_mem bad C.mro ht t ht') n k hm with h1 | h1
        · exact absurd h1 hb
        · exact h1
      · intro m hl
        rcases instClean_mem C bad C.inst hi n m (mem_of_lookup_some C.inst n m hl) with h1 | h1
        · exact absurd h1 hb
        · exact h1
  · simpa [List.all_eq_true] using hp

/-- the form used by the generated per-class obligations -/
theorem wf_of_syn (C : RpcClass) (h : synWfB C [] = true) : WellFormed C := wfExcept_of_syn C [] h

/-! ## the name encoding is injective on code-point lists -/

/-- distinct method-name strings are distinct `Name`s, so quantifying over all `Name`s covers all strings -/
theorem encodeName_injective (a b : List Nat) (ha : ∀ c ∈ a, c < 0x110000) (hb : ∀ c ∈ b, c < 0x110000)
    (h : encodeName a = encodeName b) : a = b := by
  induction a generalizing b with
  | nil =>
    cases b with
    | nil => rfl
    | cons d ds => simp only [encodeName, nameBase] at h; omega
  | cons c cs ih =>
    cases b with
    | nil => simp only [encodeName, nameBase] at h; omega
    | cons d ds =>
      simp only [encodeName, nameBase] at h
      have hc := ha c (List.mem_cons_self ..)
      have hd := hb d (List.mem_cons_self ..)
      have h1 : c = d := by omega
      have h2 : encodeName cs = encodeName ds := by omega
      rw [h1, ih ds (fun x hx => ha x (List.mem_cons_of_mem _ hx)) (fun x hx => hb x (List.mem_cons_of_mem _ hx)) h2]

/-! ## non-vacuity: a non-trivial hierarchy that is well-formed, and one that is not -/

/-- base class: marked+declared method 1, unmarked 2, data 3, marked static 4, unmarked classmethod 5 -/
def exBase : Table :=
  [(1, .func true true), (2, .func false false), (3, .data), (4, .staticfn true true), (5, .classfn false false),
   (8, .func true true)]
/-- derived class: overrides unmarked 2 by a marked method, adds helper 6, overrides marked 8 by an unmarked one -/
def exDerived : Table := [(2, .func true true), (6, .func false false), (8, .func false false)]
def exC : RpcClass := { mro := [exDerived, exBase], inst := [(7, false)] }

example : WellFormed exC := by decide
example : synWfB exC [] = true := by decide
example : invokable exC 1 = true ∧ invokable exC 2 = true ∧ invokable exC 4 = true ∧ invokable exC 6 = false
    ∧ invokable exC 8 = false ∧ invokable exC 7 = false ∧ invokable exC 99 = false := by decide
example : construct exC = .ok [1, 2, 4] := by rfl

/-- a property (name 9) and a marked classmethod (name 10) break it; the witnesses are computed -/
def exBad : RpcClass := { mro := [[(9, .prop), (10, .classfn true true)], exBase] }
example : ¬ WellFormed exBad := by decide
example : badNames exBad = [9, 10] := by decide
example : WellFormedExcept exBad [9, 10] := by decide
example : synWfB exBad [9, 10] = true := by decide
example : invokable exBad 9 = false ∧ effects exBad 9 = [.getterRan 9] ∧ reply exBad 9 = .getterDecides := by decide
example : invokable exBad 10 = true ∧ (10 : Name) ∉ advertised exBad := by decide
/-- a class that marks `lock` cannot be constructed -/
example : construct { mro := [[(n_lock, .func true true)], exBase] } = .error .usage := by rfl

end QmiModel.RpcClass
