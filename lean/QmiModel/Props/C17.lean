import QmiModel.Lemmas.C17Attr
import QmiModel.Lemmas.C17Layout
import QmiModel.Lemmas.C17Hdf5
import QmiModel.Lemmas.C17Store
import QmiModel.Lemmas.C17Rec
/-!
# C17 — stored measurement data reads back equal and is never silently overwritten

Property theorems only (the proofs live in `Lemmas/C17*.lean`).  Every statement is over *all*
strings / shapes / attribute maps / file systems / histories / interleavings: no bounds.

All defects the check had found on the pinned tree (04de7e7) are repaired in /repo (fix commits 4c93d47,
1c58093, 37955b4, 4ddf66d, 7d3961f); the models mirror the repaired code, and the text round trip
`attr_roundtrip` is now proved at full strength (it was false on the pinned tree: numpy scalars reached the
text writer, and `repr`'s `\Uhhhhhhhh` escape was unknown to the reader).
-/
namespace QmiModel.C17
open AttrL LayoutL Hdf5L StoreL RecL

/-! ## text header values: `_parse_attribute_value (repr v) = v` -/

/-- well-formedness of the model's carrier (not an exclusion): a `str` is a list of code points (< 0x110000),
a `float` is carried as the literal `float.__repr__` produces -/
def AttrValid (v : AttrVal) : Prop := ValidAttr v

/-- every attribute value the writer can emit — any string, any int, any bool, any float — reads back equal,
for every `isprintable` classification -/
theorem attr_roundtrip (pr : Nat → Bool) (v : AttrVal) (h : AttrValid v) :
    parseAttr (pyRepr pr v) = .ok v := AttrL.attr_roundtrip pr v h

theorem attr_roundtrip_str (pr : Nat → Bool) (s : Str) (h : ∀ c ∈ s, c < 1114112) :
    parseAttr (pyRepr pr (.str s)) = .ok (.str s) := AttrL.str_roundtrip pr s h

theorem attr_roundtrip_int (pr : Nat → Bool) (i : Int) : parseAttr (pyRepr pr (.int i)) = .ok (.int i) :=
  AttrL.int_roundtrip i

theorem attr_roundtrip_float (pr : Nat → Bool) (l : Str) (h : isFloatRepr l = true) :
    parseAttr (pyRepr pr (.float l)) = .ok (.float l) := AttrL.float_roundtrip l h

/-- historical example about a constant text (not about the source): `np.float64(1.5)`, which the pinned tree
wrote for the timestamp of a dataset read from HDF5, is not a readable attribute value -/
theorem attr_npfloat_text_unreadable :
    parseAttr [110, 112, 46, 102, 108, 111, 97, 116, 54, 52, 40, 49, 46, 53, 41] = .error .valueError :=
  AttrL.npfloat_text_unreadable

example : AttrValid (.str [39, 34, 92, 10, 1, 127, 133, 65534, 917505, 1114111]) := by
  intro c hc; simp at hc; omega
example : AttrValid (.float [49, 46, 53, 101, 45, 48, 55]) := by
  show isFloatRepr _ = true; decide
/-- U+E0001 (non-printable, above U+FFFF) goes out as `\U000e0001` and comes back as itself -/
example : parseAttr (pyRepr (fun _ => false) (.str [917505])) = .ok (.str [917505]) := by rfl

/-! ## text matrix layout: reshape and special columns, all shapes with ≥ 2 axes -/

/-- dropping the special columns and flattening (= `reshape`) returns the data, for every shape -/
theorem reshape_roundtrip (ι : Nat → α) (d : Layout α) (h : LayoutL.WF d) :
    (((writeLayout ι d).rows.map (List.drop (writeLayout ι d).tags.length)).flatten) = d.data :=
  LayoutL.reshape_roundtrip ι d h

/-- the reader's strided slice `col[0:n*inner:inner]` returns the axis scale -/
theorem scale_recovered (dims : List Nat) (ax : Nat) (s : List α) (hax : ax < dims.length)
    (hpos : ∀ n ∈ dims, 1 ≤ n) (hs : s.length = dims.getD ax 0) :
    pySlice (dims.getD ax 0 * prod (dims.drop (ax + 1))) (prod (dims.drop (ax + 1))) (axisColumn dims ax s) = s :=
  LayoutL.scale_recovered dims ax s hax hpos hs

/-- the special-column cell of row `r` is the value at `r`'s coordinate along that axis -/
theorem index_column_is_coordinate (dims : List Nat) (ax : Nat) (vals : List α) (hax : ax < dims.length)
    (hv : vals.length = dims.getD ax 0) (r : Nat) (hr : r < prod dims) :
    (axisColumn dims ax vals)[r]? = vals[(r / prod (dims.drop (ax + 1))) % (dims.getD ax 0)]? :=
  LayoutL.axisColumn_get dims ax vals hax hv r hr

/-- the whole reader inverts the whole writer (data, shape, every scale; index columns verified) -/
theorem layout_roundtrip [DecidableEq α] (ι : Nat → α) (d : Layout α) (h : LayoutL.WF d) :
    readLayout ι d.dims d.ncol (writeLayout ι d) = .ok d := LayoutL.layout_roundtrip ι d h

example : LayoutL.WF ({ dims := [2, 3], ncol := 2, data := List.range 12, scales := [some [7, 8], none] } : Layout Nat) :=
  LayoutL.exLayout_wf

/-! ## HDF5 attribute mapping -/

/-- timestamp, labels, units, scales and the custom attributes (as a finite map) survive write → read -/
theorem hdf5_roundtrip (d : DSMeta) (naxes ncol : Nat) (timeStr : Str) (h : Hdf5L.WF d naxes ncol) :
    ∃ h5 d', writeH d naxes ncol timeStr = .ok h5 ∧ readH h5 naxes ncol = .ok d' ∧
      d'.name = d.name ∧ d'.ts = d.ts ∧ d'.axisLabel = d.axisLabel ∧ d'.axisUnit = d.axisUnit ∧
      d'.colLabel = d.colLabel ∧ d'.colUnit = d.colUnit ∧ d'.scales = d.scales ∧
      (∀ k, HAttrs.get d'.attrs k = HAttrs.get d.attrs k) := Hdf5L.hdf5_roundtrip d naxes ncol timeStr h

/-- a custom attribute named `QMI_DataSet…` / `DIMENSION_…` is refused loudly -/
theorem hdf5_reserved_rejected (d : DSMeta) (naxes ncol : Nat) (timeStr : Str)
    (h : ∃ e ∈ d.attrs, reservedH5 e.1 = true) : writeH d naxes ncol timeStr = .error .valueError :=
  Hdf5L.reserved_rejected d naxes ncol timeStr h

/-- empty label ↔ absent attribute -/
theorem hdf5_empty_label_absent (d : DSMeta) (naxes ncol : Nat) (timeStr : Str) (h5 : H5DS)
    (h : Hdf5L.WF d naxes ncol) (hw : writeH d naxes ncol timeStr = .ok h5) (i : Nat) (hi : i < naxes) :
    h5.attrs.get (kAxisLabel i) = (if d.axisLabel.getD i [] = [] then none else some (.s (d.axisLabel.getD i []))) :=
  Hdf5L.empty_label_absent d naxes ncol timeStr h5 h hw i hi

/-! ## DataFolder / DataStore -/

/-- over every history of writes a file keeps its content unless a write asked to overwrite that very file -/
theorem no_silent_overwrite (fs : Folder) (ops : List WriteOp) (p : Str) (c : Nat) (h : fs.get p = some c)
    (hno : ∀ op ∈ ops, ¬ (op.overwrite = true ∧ op.target = some p)) :
    (runWrites fs ops).get p = some c := StoreL.no_silent_overwrite fs ops p c h hno

/-- a write onto an existing file without `overwrite` raises FileExistsError and changes nothing -/
theorem second_write_refused (fs : Folder) (op : WriteOp) (p : Str) (ht : op.target = some p)
    (hex : (fs.get p).isSome = true) (hov : op.overwrite = false) :
    writeDataset fs op = (fs, .error .fileExistsError) := StoreL.write_existing_refused fs op p ht hex hov

/-- a write never touches another file -/
theorem write_other_untouched (fs : Folder) (op : WriteOp) (q : Str) (hq : op.target ≠ some q) :
    (writeDataset fs op).1.get q = fs.get q := StoreL.write_other_untouched fs op q hq

/-- `make_folder` never hands out an existing folder as new; it creates it and keeps all others -/
theorem make_folder_fresh (st st' : DStore) (a : MkArgs) (d f : Str) (h : makeFolder st a = (st', .ok (d, f))) :
    st.hasFolder d f = false ∧ st'.hasFolder d f = true ∧
    (∀ d' f', st.hasFolder d' f' = true → st'.hasFolder d' f' = true) := StoreL.make_folder_fresh st st' a d f h

/-- same-second creation: the second request raises FileExistsError -/
theorem make_folder_twice (st st' : DStore) (a : MkArgs) (d f : Str) (h : makeFolder st a = (st', .ok (d, f))) :
    makeFolder st' a = (st', .error .fileExistsError) := StoreL.make_folder_twice st st' a d f h

/-- fixed-width digit strings: code-point order is numeric order -/
theorem lex_eq_numeric (a b : Str) (ha : a.all isDigit = true) (hb : b.all isDigit = true) (hl : a.length = b.length) :
    strLe a b = decide (parseNat a ≤ parseNat b) := StoreL.lex_eq_numeric a b ha hb hl

/-- the lookup returns a folder of the label, and none has a greater (date, time) -/
theorem find_latest_is_max (st : DStore) (label dd ff t : Str)
    (h : findLatest st label none = .ok (some (dd, ff, t))) :
    IsCandidate st label dd ff t ∧
    ∀ dd' ff' t', IsCandidate st label dd' ff' t' → (strLe dd' dd = true ∧ (dd' = dd → strLe t' t = true)) :=
  StoreL.find_latest_is_max st label dd ff t h

/-- … numerically: no folder of the label on the returned date has a later time -/
theorem find_latest_time_numeric (st : DStore) (label dd ff t : Str)
    (h : findLatest st label none = .ok (some (dd, ff, t))) (ff' t' : Str)
    (hc : IsCandidate st label dd ff' t') : parseNat t' ≤ parseNat t :=
  StoreL.find_latest_time_numeric st label dd ff t h ff' t' hc

/-- … and none lies on a later date -/
theorem find_latest_date_numeric (st : DStore) (label dd ff t : Str)
    (h : findLatest st label none = .ok (some (dd, ff, t))) (dd' ff' t' : Str)
    (hc : IsCandidate st label dd' ff' t') : parseNat dd' ≤ parseNat dd :=
  StoreL.find_latest_date_numeric st label dd ff t h dd' ff' t' hc

/-- `None` only when no folder carries the label -/
theorem find_latest_none (st : DStore) (label : Str) (h : findLatest st label none = .ok none) :
    ∀ dd ff t, ¬ IsCandidate st label dd ff t := StoreL.find_latest_none st label h

/-! ## recorder: all interleavings of record / set_attribute / shutdown with the writer's swap and flush -/

/-- nothing is lost or duplicated, whatever the interleaving:
`file d ++ flatten (local d) ++ flatten (shared d) = recorded d` -/
theorem recorder_invariant (s : RecSt) (h : RecReach s) (d : Nat) :
    s.file d ++ (s.loc d).flatten ++ (s.shared d).flatten = s.recorded d := (inv_reach h).conserve d

/-- once the writer has terminated, every block recorded before close() was requested is in the file,
once and in recording order (the file is `pre d` followed by part of what was recorded afterwards) -/
theorem all_blocks_after_close (s : RecSt) (h : RecReach s) (hd : s.pc = .done) (d : Nat) :
    ∃ x, s.file d = s.pre d ++ x ∧ s.late d = x ++ (s.shared d).flatten := by
  have hi := inv_reach h
  obtain ⟨x, hx⟩ := hi.late_sh (hi.done_quit hd) (by rw [hd]; decide) d
  refine ⟨x, ?_, hx⟩
  have hc := hi.conserve d
  rw [hi.idle_loc (by rw [hd]; decide) d, hi.split d, hx] at hc
  simp only [List.flatten_nil, List.append_nil, ← List.append_assoc] at hc
  exact List.append_cancel_right hc

/-- … in particular, with no record() after close() was requested, the file is exactly what was recorded -/
theorem file_equals_recorded (s : RecSt) (h : RecReach s) (hd : s.pc = .done) (d : Nat) (hl : s.late d = []) :
    s.file d = s.recorded d := by
  obtain ⟨x, hf, hx⟩ := all_blocks_after_close s h hd d
  have hi := inv_reach h
  rw [hl] at hx
  have : x = [] := by
    cases x with
    | nil => rfl
    | cons a as => simp at hx
  rw [hf, this, hi.split d, hl]

/-- attributes, over all interleavings: what the file holds, overlaid with what is still queued (pending,
the writer's batch, the hand-off queue — each a `dict.update`), is always exactly the result of applying
every `set_attribute` call in call order (newest value wins, nothing dropped) -/
theorem recorder_attr_invariant (s : RecSt) (h : RecReach s) (d : Nat) : effAttrs s d = s.want d :=
  (ainv_reach h).eff d

/-- once the writer has terminated, a dataset that received data carries every attribute set on it,
newest value per name (attributes set after the writer's last hand-off stay in the queue: `sattrs`) -/
theorem attrs_after_close (s : RecSt) (h : RecReach s) (hd : s.pc = .done) (d : Nat) (hf : s.file d ≠ [])
    (hq : s.sattrs d = none) : s.fattrs d = s.want d := by
  have hi := ainv_reach h
  have he := hi.eff d
  have hn := hi.idle_new (by rw [hd]; decide) d
  have hp : s.pendA d = none := by
    cases hpd : s.pendA d with
    | none => rfl
    | some p => exact absurd (hi.pend_file d (by rw [hpd]; simp)) hf
  simpa [effAttrs, hn, hp, hq, upd_empty] using he

/-- after a shutdown request the writer's own (always enabled) actions reach `done` in ≤ 3 steps -/
theorem writer_finishes (s : RecSt) (hsd : s.shutdown = true) (hpc : s.pc ≠ .done) :
    ∃ acts : List RecAct, acts.length ≤ 3 ∧ (∀ a ∈ acts, a = .swap ∨ a = .flush) ∧
      (recRun s acts).map (·.pc) = some .done := RecL.writer_finishes s hsd hpc

/-- record() is never blocked or refused -/
theorem record_always_enabled (s : RecSt) (d : Nat) (b : List Nat) : (recStep s (.record d b)).isSome = true := by
  simp only [recStep]; split <;> rfl

/-- non-vacuity: a record lands between the writer's swap and its flush, another after the flush; all in the file, in order -/
example :
    ((recRun RecSt.init [.record 0 [1, 2], .setAttr 0 7 9, .swap, .record 0 [3], .record 1 [8], .flush, .record 0 [4],
        .shutdown, .swap, .flush]).map (fun s => (s.file 0, s.file 1, s.pc, s.fattrs 0 7))) = some ([1, 2, 3, 4], [8], .done, some 9) := by
  decide

end QmiModel.C17
