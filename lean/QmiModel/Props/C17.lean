import QmiModel.Lemmas.C17Attr
import QmiModel.Lemmas.C17Layout
import QmiModel.Lemmas.C17Hdf5
import QmiModel.Lemmas.C17Store
import QmiModel.Lemmas.C17Rec
import QmiModel.Lemmas.C17List
import QmiModel.Lemmas.C17Exact
import QmiModel.Lemmas.C17Race
import QmiModel.Lemmas.C17Api
/-!
# C17 — stored measurement data reads back equal and is never silently overwritten

Property theorems only (the proofs live in `Lemmas/C17*.lean`).  Every statement is over *all*
strings / shapes / attribute maps / file systems / histories / interleavings: no bounds.

All defects the check had found on the pinned tree (04de7e7) are repaired in /repo (fix commits 4c93d47,
1c58093, 37955b4, 4ddf66d, 7d3961f); the models mirror the repaired code, and the text round trip
`attr_roundtrip` is now proved at full strength (it was false on the pinned tree: numpy scalars reached the
text writer, and `repr`'s `\Uhhhhhhhh` escape was unknown to the reader).
-/
namespace QmiModel.C17
open AttrL LayoutL Hdf5L StoreL RecL ListL ExactL RaceL ApiL

/-! ## text header values: `_parse_attribute_value (repr v) = v` -/

/-- well-formedness of the model's carrier (not an exclusion): a `str` is a list of code points (< 0x110000),
a `float` is carried as the literal `float.__repr__` produces -/
def AttrValid (v : AttrVal) : Prop := ValidAttr v

/-- every attribute value the writer can emit — any string, any int, any bool, any float — reads back equal,
for every `isprintable` classification -/
theorem attr_roundtrip (pr : Nat → Bool) (v : AttrVal) (h : AttrValid v) :
    parseAttr (pyRepr pr v) = .ok v := AttrL.attr_roundtrip pr v h

theorem attr_roundtrip_str (pr : Nat → Bool) (s : Str) (h : ∀ c ∈ s, c < 1114112) :
    parseAttr (pyRepr pr (.str s)) = .ok (.str s) := AttrL.str_roundtrip pr s h

theorem attr_roundtrip_int (pr : Nat → Bool) (i : Int) : parseAttr (pyRepr pr (.int i)) = .ok (.int i) :=
  AttrL.int_roundtrip i

theorem attr_roundtrip_float (pr : Nat → Bool) (l : Str) (h : isFloatRepr l = true) :
    parseAttr (pyRepr pr (.float l)) = .ok (.float l) := AttrL.float_roundtrip l h

/-- historical example about a constant text (not about the source): `np.float64(1.5)`, which the pinned tree
wrote for the timestamp of a dataset read from HDF5, is not a readable attribute value -/
theorem attr_npfloat_text_unreadable :
    parseAttr [110, 112, 46, 102, 108, 111, 97, 116, 54, 52, 40, 49, 46, 53, 41] = .error .valueError :=
  AttrL.npfloat_text_unreadable

example : AttrValid (.str [39, 34, 92, 10, 1, 127, 133, 65534, 917505, 1114111]) := by
  intro c hc; simp at hc; omega
example : AttrValid (.float [49, 46, 53, 101, 45, 48, 55]) := by
  show isFloatRepr _ = true; decide
/-- U+E0001 (non-printable, above U+FFFF) goes out as `\U000e0001` and comes back as itself -/
example : parseAttr (pyRepr (fun _ => false) (.str [917505])) = .ok (.str [917505]) := by rfl

/-! ## text matrix layout: reshape and special columns, all shapes with ≥ 2 axes -/

/-- dropping the special columns and flattening (= `reshape`) returns the data, for every shape -/
theorem reshape_roundtrip (ι : Nat → α) (d : Layout α) (h : LayoutL.WF d) :
    (((writeLayout ι d).rows.map (List.drop (writeLayout ι d).tags.length)).flatten) = d.data :=
  LayoutL.reshape_roundtrip ι d h

/-- the reader's strided slice `col[0:n*inner:inner]` returns the axis scale -/
theorem scale_recovered (dims : List Nat) (ax : Nat) (s : List α) (hax : ax < dims.length)
    (hpos : ∀ n ∈ dims, 1 ≤ n) (hs : s.length = dims.getD ax 0) :
    pySlice (dims.getD ax 0 * prod (dims.drop (ax + 1))) (prod (dims.drop (ax + 1))) (axisColumn dims ax s) = s :=
  LayoutL.scale_recovered dims ax s hax hpos hs

/-- the special-column cell of row `r` is the value at `r`'s coordinate along that axis -/
theorem index_column_is_coordinate (dims : List Nat) (ax : Nat) (vals : List α) (hax : ax < dims.length)
    (hv : vals.length = dims.getD ax 0) (r : Nat) (hr : r < prod dims) :
    (axisColumn dims ax vals)[r]? = vals[(r / prod (dims.drop (ax + 1))) % (dims.getD ax 0)]? :=
  LayoutL.axisColumn_get dims ax vals hax hv r hr

/-- the whole reader inverts the whole writer (data, shape, every scale; index columns verified) -/
theorem layout_roundtrip [DecidableEq α] (ι : Nat → α) (d : Layout α) (h : LayoutL.WF d) :
    readLayout ι d.dims d.ncol (writeLayout ι d) = .ok d := LayoutL.layout_roundtrip ι d h

example : LayoutL.WF ({ dims := [2, 3], ncol := 2, data := List.range 12, scales := [some [7, 8], none] } : Layout Nat) :=
  LayoutL.exLayout_wf

/-! ## where well-formedness comes from: the `DataSet` constructor and setters -/

/-- a dataset the constructor accepts has ≥ 2 axes, all sizes ≥ 1 and no scales yet -/
theorem dataset_new_valid (shape : List Int) (d : DSApi) (h : DSApi.new shape = .ok d) : d.Valid := ApiL.new_valid shape d h

/-- `set_axis_scale` accepts only a scale as long as its axis, so validity is kept -/
theorem dataset_set_scale_valid (d d' : DSApi) (axis : Int) (len : Nat) (fin : Bool) (hv : d.Valid)
    (h : d.setScale axis len fin = .ok d') : d'.Valid := ApiL.setScale_valid d d' axis len fin hv h

/-- hence every dataset built through the API meets the hypothesis `WF` of the layout theorems -/
theorem dataset_api_layout_wf {α : Type} (d : DSApi) (hv : d.Valid) (data : List α) (scales : List (Option (List α)))
    (hdata : data.length = prod d.dims * d.ncol) (hsc : scales.length = d.scales.length)
    (hlen : ∀ (ax : Nat) (s : List α), scales[ax]? = some (some s) → d.scales[ax]? = some (some s.length)) :
    LayoutL.WF ({ dims := d.dims, ncol := d.ncol, data := data, scales := scales } : Layout α) :=
  ApiL.valid_layout_wf d hv data scales hdata hsc hlen

example : DSApi.new [2, 3, 2] = .ok { dims := [2, 3], ncol := 2, scales := [none, none] } := by decide
example : DSApi.new [2, 0] = .error .valueError ∧ DSApi.new [5] = .error .valueError ∧ DSApi.new [2, -1, 3] = .error .valueError := by decide

/-! ## HDF5 attribute mapping -/

/-- timestamp, labels, units, scales and the custom attributes (as a finite map) survive write → read -/
theorem hdf5_roundtrip (d : DSMeta) (naxes ncol : Nat) (timeStr : Str) (h : Hdf5L.WF d naxes ncol) :
    ∃ h5 d', writeH d naxes ncol timeStr = .ok h5 ∧ readH h5 naxes ncol = .ok d' ∧
      d'.name = d.name ∧ d'.ts = d.ts ∧ d'.axisLabel = d.axisLabel ∧ d'.axisUnit = d.axisUnit ∧
      d'.colLabel = d.colLabel ∧ d'.colUnit = d.colUnit ∧ d'.scales = d.scales ∧
      (∀ k, HAttrs.get d'.attrs k = HAttrs.get d.attrs k) := Hdf5L.hdf5_roundtrip d naxes ncol timeStr h

/-- a custom attribute named `QMI_DataSet…` / `DIMENSION_…` is refused loudly -/
theorem hdf5_reserved_rejected (d : DSMeta) (naxes ncol : Nat) (timeStr : Str)
    (h : ∃ e ∈ d.attrs, reservedH5 e.1 = true) : writeH d naxes ncol timeStr = .error .valueError :=
  Hdf5L.reserved_rejected d naxes ncol timeStr h

/-- empty label ↔ absent attribute -/
theorem hdf5_empty_label_absent (d : DSMeta) (naxes ncol : Nat) (timeStr : Str) (h5 : H5DS)
    (h : Hdf5L.WF d naxes ncol) (hw : writeH d naxes ncol timeStr = .ok h5) (i : Nat) (hi : i < naxes) :
    h5.attrs.get (kAxisLabel i) = (if d.axisLabel.getD i [] = [] then none else some (.s (d.axisLabel.getD i []))) :=
  Hdf5L.empty_label_absent d naxes ncol timeStr h5 h hw i hi

/-! ## DataFolder / DataStore -/

/-- over every history of writes a file keeps its content unless a write asked to overwrite that very file -/
theorem no_silent_overwrite (fs : Folder) (ops : List WriteOp) (p : Str) (c : Nat) (h : fs.get p = some c)
    (hno : ∀ op ∈ ops, ¬ (op.overwrite = true ∧ op.target = some p)) :
    (runWrites fs ops).get p = some c := StoreL.no_silent_overwrite fs ops p c h hno

/-- a write onto an existing file without `overwrite` raises FileExistsError and changes nothing -/
theorem second_write_refused (fs : Folder) (op : WriteOp) (p : Str) (ht : op.target = some p)
    (hex : (fs.get p).isSome = true) (hov : op.overwrite = false) :
    writeDataset fs op = (fs, .error .fileExistsError) := StoreL.write_existing_refused fs op p ht hex hov

/-- a write never touches another file -/
theorem write_other_untouched (fs : Folder) (op : WriteOp) (q : Str) (hq : op.target ≠ some q) :
    (writeDataset fs op).1.get q = fs.get q := StoreL.write_other_untouched fs op q hq

/-- `make_folder` never hands out an existing folder as new; it creates it and keeps all others -/
theorem make_folder_fresh (st st' : DStore) (a : MkArgs) (d f : Str) (h : makeFolder st a = (st', .ok (d, f))) :
    st.hasFolder d f = false ∧ st'.hasFolder d f = true ∧
    (∀ d' f', st.hasFolder d' f' = true → st'.hasFolder d' f' = true) := StoreL.make_folder_fresh st st' a d f h

/-- same-second creation: the second request raises FileExistsError -/
theorem make_folder_twice (st st' : DStore) (a : MkArgs) (d f : Str) (h : makeFolder st a = (st', .ok (d, f))) :
    makeFolder st' a = (st', .error .fileExistsError) := StoreL.make_folder_twice st st' a d f h

/-- fixed-width digit strings: code-point order is numeric order -/
theorem lex_eq_numeric (a b : Str) (ha : a.all isDigit = true) (hb : b.all isDigit = true) (hl : a.length = b.length) :
    strLe a b = decide (parseNat a ≤ parseNat b) := StoreL.lex_eq_numeric a b ha hb hl

/-- the lookup returns a folder of the label, and none has a greater (date, time) -/
theorem find_latest_is_max (st : DStore) (label dd ff t : Str)
    (h : findLatest st label none = .ok (some (dd, ff, t))) :
    IsCandidate st label dd ff t ∧
    ∀ dd' ff' t', IsCandidate st label dd' ff' t' → (strLe dd' dd = true ∧ (dd' = dd → strLe t' t = true)) :=
  StoreL.find_latest_is_max st label dd ff t h

/-- … numerically: no folder of the label on the returned date has a later time -/
theorem find_latest_time_numeric (st : DStore) (label dd ff t : Str)
    (h : findLatest st label none = .ok (some (dd, ff, t))) (ff' t' : Str)
    (hc : IsCandidate st label dd ff' t') : parseNat t' ≤ parseNat t :=
  StoreL.find_latest_time_numeric st label dd ff t h ff' t' hc

/-- … and none lies on a later date -/
theorem find_latest_date_numeric (st : DStore) (label dd ff t : Str)
    (h : findLatest st label none = .ok (some (dd, ff, t))) (dd' ff' t' : Str)
    (hc : IsCandidate st label dd' ff' t') : parseNat dd' ≤ parseNat dd :=
  StoreL.find_latest_date_numeric st label dd ff t h dd' ff' t' hc

/-- `None` only when no folder carries the label -/
theorem find_latest_none (st : DStore) (label : Str) (h : findLatest st label none = .ok none) :
    ∀ dd ff t, ¬ IsCandidate st label dd ff t := StoreL.find_latest_none st label h

/-- `list_folders(label)` lists exactly the folders `find_latest_folder(label)` chooses from -/
theorem list_folders_spec (st : DStore) (label : Str) (l : List (Str × Str × Str))
    (h : listFolders st (some label) = .ok l) :
    ∀ dd ff t, (dd, ff, t) ∈ l ↔ IsCandidate st label dd ff t := ListL.list_folders_spec st label l h

/-- the latest folder is one of the listed ones and no listed one is later -/
theorem latest_in_list (st : DStore) (label dd ff t : Str) (l : List (Str × Str × Str))
    (hl : listFolders st (some label) = .ok l) (h : findLatest st label none = .ok (some (dd, ff, t))) :
    (dd, ff, t) ∈ l ∧ ∀ x ∈ l, strLe x.1 dd = true ∧ (x.1 = dd → strLe x.2.2 t = true) :=
  ListL.latest_in_list st label dd ff t l hl h

/-- the lookup answers `None` exactly when the listing for the label is empty -/
theorem latest_none_iff_list_empty (st : DStore) (label : Str) (l : List (Str × Str × Str))
    (hl : listFolders st (some label) = .ok l) (r : Option (Str × Str × Str))
    (h : findLatest st label none = .ok r) : r = none ↔ l = [] :=
  ListL.latest_none_iff_list_empty st label l hl r h

/-! ### two callers inside `make_folder` at once (threads or processes); only `mkdir` is atomic -/

/-- the same folder is never handed out to both callers, whatever the interleaving of their steps -/
theorem concurrent_make_folder_one_winner (d f : Bool → Str) (st0 : DStore) (r : Race) (h : RaceReach d f st0 r)
    (hsame : d false = d true ∧ f false = f true) : ¬ (r.pc false = .ok ∧ r.pc true = .ok) :=
  RaceL.race_one_winner d f st0 r h hsame

/-- a folder that existed before is handed out to neither -/
theorem concurrent_make_folder_fresh (d f : Bool → Str) (st0 : DStore) (r : Race) (h : RaceReach d f st0 r) (i : Bool)
    (hex : st0.hasFolder (d i) (f i) = true) : r.pc i ≠ .ok := RaceL.race_existing_not_handed_out d f st0 r h i hex

/-- a caller that is told "ok" has its folder, and no existing folder disappears -/
theorem concurrent_make_folder_creates (d f : Bool → Str) (st0 : DStore) (r : Race) (h : RaceReach d f st0 r) :
    (∀ i, r.pc i = .ok → r.st.hasFolder (d i) (f i) = true) ∧
    (∀ d' f', st0.hasFolder d' f' = true → r.st.hasFolder d' f' = true) :=
  ⟨fun i hi => RaceL.race_ok_has d f st0 r h i hi, RaceL.race_mono d f st0 r h⟩

/-! ### a write the format writer refuses (reserved attribute name; text: line break in a name, inexact integer) -/

/-- the refusal is loud (ValueError), the target is left as an EMPTY file (never a partial dataset: the text
writer checks before it writes its first byte), and only when the file was new or `overwrite` was requested -/
theorem refused_write_leaves_empty_file (fs : Folder) (op : WriteOp) (p : Str) (ht : op.target = some p)
    (hf : op.writerFails = true) (hfree : (fs.get p).isSome = false ∨ op.overwrite = true) :
    writeDataset fs op = (fs.put p 0, .error .valueError) := by
  unfold WriteOp.target at ht
  unfold writeDataset
  split at ht
  · cases ht
  · rename_i hname
    simp only [hname, if_false]
    cases hfmt : op.fmt with
    | other => rw [hfmt] at ht; cases ht
    | hdf5 =>
      rw [hfmt] at ht; injection ht with ht; subst ht
      rcases hfree with h | h <;> simp [h, hf]
    | text =>
      rw [hfmt] at ht; injection ht with ht; subst ht
      rcases hfree with h | h <;> simp [h, hf]

/-- which refusals exist per format -/
theorem writer_refusals (fmt : Fmt) (c : FailCause) :
    writerRaises fmt c = true ↔ (c = .reservedName ∨ (fmt = .text ∧ (c = .lineBreakName ∨ c = .inexactInt))) := by
  cases fmt <;> cases c <;> simp [writerRaises]

/-! ### the text writer's exactness check -/

/-- every integer up to 2^53 is exact in float64: the writer's shortcut `abs v > 2**53` skips no inexact value -/
theorem f64_small_exact (n : Nat) (h : n ≤ 2 ^ 53) : toF64 n = n := ExactL.toF64_small n h

/-- the writer accepts an integer array iff every element survives the trip through float64 unchanged -/
theorem text_accepts_iff_exact (vals : List Nat) : refusesInts vals = false ↔ ∀ v ∈ vals, toF64 v = v :=
  ExactL.accepted_iff_all_exact vals

/-- … iff every element is a multiple of 2^(bitlength − 53) or has at most 53 bits -/
theorem text_accepts_iff_representable (vals : List Nat) : refusesInts vals = false ↔ ∀ v ∈ vals, ExactF64 v :=
  ExactL.accepted_iff_all_ExactF64 vals

/-- what the reader gets back for an accepted value is that value (float64 → int is stable) -/
theorem f64_idem (n : Nat) : toF64 (toF64 n) = toF64 n := ExactL.toF64_idem n

/-! ## recorder: all interleavings of record / set_attribute / shutdown with the writer's swap and flush -/

/-- nothing is lost or duplicated, whatever the interleaving:
`file d ++ flatten (local d) ++ flatten (shared d) = recorded d` -/
theorem recorder_invariant (s : RecSt) (h : RecReach s) (d : Nat) :
    s.file d ++ (s.loc d).flatten ++ (s.shared d).flatten = s.recorded d := (inv_reach h).conserve d

/-- once the writer has terminated, every block recorded before close() was requested is in the file,
once and in recording order (the file is `pre d` followed by part of what was recorded afterwards) -/
theorem all_blocks_after_close (s : RecSt) (h : RecReach s) (hd : s.pc = .done) (d : Nat) :
    ∃ x, s.file d = s.pre d ++ x ∧ s.late d = x ++ (s.shared d).flatten := by
  have hi := inv_reach h
  obtain ⟨x, hx⟩ := hi.late_sh (hi.done_quit hd) (by rw [hd]; decide) d
  refine ⟨x, ?_, hx⟩
  have hc := hi.conserve d
  rw [hi.idle_loc (Or.inr hd) d, hi.split d, hx] at hc
  simp only [List.flatten_nil, List.append_nil, ← List.append_assoc] at hc
  exact List.append_cancel_right hc

/-- … in particular, with no record() after close() was requested, the file is exactly what was recorded -/
theorem file_equals_recorded (s : RecSt) (h : RecReach s) (hd : s.pc = .done) (d : Nat) (hl : s.late d = []) :
    s.file d = s.recorded d := by
  obtain ⟨x, hf, hx⟩ := all_blocks_after_close s h hd d
  have hi := inv_reach h
  rw [hl] at hx
  have : x = [] := by
    cases x with
    | nil => rfl
    | cons a as => simp at hx
  rw [hf, this, hi.split d, hl]

/-- attributes, over all interleavings: what the file holds, overlaid with what is still queued (pending,
the writer's batch, the hand-off queue — each a `dict.update`), is always exactly the result of applying
every `set_attribute` call in call order (newest value wins, nothing dropped) -/
theorem recorder_attr_invariant (s : RecSt) (h : RecReach s) (d : Nat) : effAttrs s d = s.want d :=
  (ainv_reach h).eff d

/-- once the writer has terminated, a dataset that received data carries every attribute set on it,
newest value per name (attributes set after the writer's last hand-off stay in the queue: `sattrs`) -/
theorem attrs_after_close (s : RecSt) (h : RecReach s) (hd : s.pc = .done) (d : Nat) (hf : s.file d ≠ [])
    (hq : s.sattrs d = none) : s.fattrs d = s.want d := by
  have hi := ainv_reach h
  have he := hi.eff d
  have hn := hi.idle_new (Or.inr hd) d
  have hp : s.pendA d = none := by
    cases hpd : s.pendA d with
    | none => rfl
    | some p => exact absurd (hi.pend_file d (by rw [hpd]; simp)) hf
  simpa [effAttrs, hn, hp, hq, upd_empty] using he

/-- after a shutdown request the writer's own (always enabled) actions reach `done` in ≤ 3 steps, unless the
write loop has ended with an exception -/
theorem writer_finishes (s : RecSt) (hsd : s.shutdown = true) (hpc : s.pc ≠ .done) (hpf : s.pc ≠ .failed) :
    ∃ acts : List RecAct, acts.length ≤ 3 ∧ (∀ a ∈ acts, a = .swap ∨ a = .flush) ∧
      (recRun s acts).map (·.pc) = some .done := RecL.writer_finishes s hsd hpc hpf

/-! ### the writer meets an I/O error (`crash`): close() says so (fix 342cad2) -/

/-- close() raises exactly when the write loop ended with an exception, and returns normally exactly when it
ended regularly -/
theorem close_reports_writer_error (s : RecSt) :
    (closeResult s = some .runtimeError ↔ s.pc = .failed) ∧ (closeResult s = some .ok ↔ s.pc = .done) := by
  cases h : s.pc <;> simp [closeResult, h]

/-- **nothing is lost silently**: whenever close() returns normally — over all interleavings of record,
set_attribute, shutdown, the writer's swap / flush and a possible I/O failure of the writer — every block
recorded before close() was requested is in the file, once and in recording order -/
theorem close_ok_implies_all_blocks (s : RecSt) (h : RecReach s) (hc : closeResult s = some .ok) (d : Nat) :
    ∃ x, s.file d = s.pre d ++ x ∧ s.late d = x ++ (s.shared d).flatten :=
  all_blocks_after_close s h ((close_reports_writer_error s).2.1 hc) d

/-- after a failure nothing is duplicated or invented either: the file still is a prefix of what was recorded
and the rest is exactly the batch and the queue that could not be written -/
theorem writer_failure_keeps_prefix (s : RecSt) (h : RecReach s) (d : Nat) :
    s.file d ++ ((s.loc d).flatten ++ (s.shared d).flatten) = s.recorded d := by
  rw [← List.append_assoc]; exact recorder_invariant s h d

/-- a failed writer does nothing more (its thread has ended) -/
theorem failed_is_final (s : RecSt) (hf : s.pc = .failed) :
    recStep s .swap = none ∧ recStep s .flush = none ∧ recStep s .crash = none := by
  simp [recStep, hf]

/-- non-vacuity: the second batch cannot be written; close() raises, the first batch is in the file -/
example :
    ((recRun RecSt.init [.record 0 [1], .swap, .flush, .record 0 [2], .swap, .crash, .record 0 [3], .shutdown]).map
      (fun s => (s.file 0, closeResult s, (s.loc 0).flatten ++ (s.shared 0).flatten))) = some ([1], some .runtimeError, [2, 3]) := by
  decide

/-- record() is never blocked or refused -/
theorem record_always_enabled (s : RecSt) (d : Nat) (b : List Nat) : (recStep s (.record d b)).isSome = true := by
  simp only [recStep]; split <;> rfl

/-- record() takes a snapshot: the block is stored as a VALUE (the code copies the caller's array), so by
`recorder_invariant` what reaches the file is what the array held when record() was called, whatever the caller
does to its buffer afterwards.  (The harness overwrites / refills the caller's ndarray at every point relative
to the flush; an implementation that queues the caller's own array disagrees with this model.) -/
theorem record_takes_snapshot (s : RecSt) (d : Nat) (b : List Nat) (hb : b ≠ []) :
    ∃ s', recStep s (.record d b) = some s' ∧ s'.shared d = s.shared d ++ [b] ∧ s'.recorded d = s.recorded d ++ b ∧
      (∀ e, e ≠ d → s'.shared e = s.shared e) ∧ s'.loc = s.loc ∧ s'.file = s.file := by
  simp only [recStep, hb, if_false]
  refine ⟨_, rfl, ?_, ?_, ?_, rfl, rfl⟩
  · simp [fupd]
  · simp [fupd]
  · intro e he; simp [fupd, he]

/-- non-vacuity: a record lands between the writer's swap and its flush, another after the flush; all in the file, in order -/
example :
    ((recRun RecSt.init [.record 0 [1, 2], .setAttr 0 7 9, .swap, .record 0 [3], .record 1 [8], .flush, .record 0 [4],
        .shutdown, .swap, .flush]).map (fun s => (s.file 0, s.file 1, s.pc, s.fattrs 0 7))) = some ([1, 2, 3, 4], [8], .done, some 9) := by
  decide

end QmiModel.C17
