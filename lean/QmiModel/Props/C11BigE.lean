import QmiModel.Model.WakeSys
import QmiModel.Model.WakeEnc
import QmiModel.Gen.WakeCert
/-!
# C11 — chunk obligations of the larger systems (get_next_signal(t), one stop request, a publisher and a bystander waiting on the same condition)

The reachable set of `sysShareT` is not computed by the kernel: `Gen/WakeCert.lean` holds it as a table of packed states
(written by the compiled driver on every run); each theorem below re-checks one chunk of the table — every entry satisfies
the state obligations and all its successors are in the table again (`chunkOk`, see `Model/WakeEnc.lean`).  Glued in
`Props/C11.lean` by `cert_chunks_sound`.
-/
namespace QmiModel.C11
open QmiModel.Wake QmiModel.Wake.Systems QmiModel.Gen.WakeCert

set_option maxRecDepth 200000 in
theorem shareT_init : initOk sysShareT certShareT nbkShareT = true := by decide +kernel

set_option maxRecDepth 200000 in
theorem shareT_chunk_0 : chunkOk sysShareT (goodWaiter sysShareT) certShareT nbkShareT 0 = true := by decide +kernel

set_option maxRecDepth 200000 in
theorem shareT_chunk_1 : chunkOk sysShareT (goodWaiter sysShareT) certShareT nbkShareT 1 = true := by decide +kernel

set_option maxRecDepth 200000 in
theorem shareT_chunk_2 : chunkOk sysShareT (goodWaiter sysShareT) certShareT nbkShareT 2 = true := by decide +kernel

set_option maxRecDepth 200000 in
theorem shareT_chunk_3 : chunkOk sysShareT (goodWaiter sysShareT) certShareT nbkShareT 3 = true := by decide +kernel

set_option maxRecDepth 200000 in
theorem shareT_chunk_4 : chunkOk sysShareT (goodWaiter sysShareT) certShareT nbkShareT 4 = true := by decide +kernel

end QmiModel.C11
