import QmiModel.Model.Descriptor
/-! GENERATED on every run by harness/props/c14.py (`translate`) from the live
`TransportDescriptorParser` instances, the constructor signatures and the AST of `create_transport`.
Do not edit. -/
namespace QmiModel.Gen.TransportTables
open QmiModel.Descriptor

/-- `SerialTransportDescriptorParser` and the classes `create_transport` builds from it -/
def serial : Iface :=
  { name := ['s', 'e', 'r', 'i', 'a', 'l'],
    positionals := [⟨['d', 'e', 'v', 'i', 'c', 'e'], .str, true⟩],
    keywords := [⟨['b', 'a', 'u', 'd', 'r', 'a', 't', 'e'], .int, false⟩, ⟨['b', 'y', 't', 'e', 's', 'i', 'z', 'e'], .int, false⟩, ⟨['p', 'a', 'r', 'i', 't', 'y'], .str, false⟩, ⟨['s', 't', 'o', 'p', 'b', 'i', 't', 's'], .float, false⟩, ⟨['r', 't', 's', 'c', 't', 's'], .bool, false⟩],
    ctorLinux := some { cls := ['Q', 'M', 'I', '_', 'S', 'e', 'r', 'i', 'a', 'l', 'T', 'r', 'a', 'n', 's', 'p', 'o', 'r', 't'], kind := .serial, args := [(['d', 'e', 'v', 'i', 'c', 'e'], none), (['b', 'a', 'u', 'd', 'r', 'a', 't', 'e'], some (.int (115200))), (['b', 'y', 't', 'e', 's', 'i', 'z', 'e'], some (.int (8))), (['p', 'a', 'r', 'i', 't', 'y'], some (.str ['N'])), (['s', 't', 'o', 'p', 'b', 'i', 't', 's'], some (.flt ['1', '.', '0'])), (['r', 't', 's', 'c', 't', 's'], some (.bool false))] },
    ctorWin := some { cls := ['Q', 'M', 'I', '_', 'S', 'e', 'r', 'i', 'a', 'l', 'T', 'r', 'a', 'n', 's', 'p', 'o', 'r', 't'], kind := .serial, args := [(['d', 'e', 'v', 'i', 'c', 'e'], none), (['b', 'a', 'u', 'd', 'r', 'a', 't', 'e'], some (.int (115200))), (['b', 'y', 't', 'e', 's', 'i', 'z', 'e'], some (.int (8))), (['p', 'a', 'r', 'i', 't', 'y'], some (.str ['N'])), (['s', 't', 'o', 'p', 'b', 'i', 't', 's'], some (.flt ['1', '.', '0'])), (['r', 't', 's', 'c', 't', 's'], some (.bool false))] } }

/-- `UdpTransportDescriptorParser` and the classes `create_transport` builds from it -/
def udp : Iface :=
  { name := ['u', 'd', 'p'],
    positionals := [⟨['h', 'o', 's', 't'], .str, true⟩, ⟨['p', 'o', 'r', 't'], .int, true⟩],
    keywords := [],
    ctorLinux := some { cls := ['Q', 'M', 'I', '_', 'U', 'd', 'p', 'T', 'r', 'a', 'n', 's', 'p', 'o', 'r', 't'], kind := .udp, args := [(['h', 'o', 's', 't'], none), (['p', 'o', 'r', 't'], none)] },
    ctorWin := some { cls := ['Q', 'M', 'I', '_', 'U', 'd', 'p', 'T', 'r', 'a', 'n', 's', 'p', 'o', 'r', 't'], kind := .udp, args := [(['h', 'o', 's', 't'], none), (['p', 'o', 'r', 't'], none)] } }

/-- `TcpTransportDescriptorParser` and the classes `create_transport` builds from it -/
def tcp : Iface :=
  { name := ['t', 'c', 'p'],
    positionals := [⟨['h', 'o', 's', 't'], .str, true⟩, ⟨['p', 'o', 'r', 't'], .int, true⟩],
    keywords := [⟨['c', 'o', 'n', 'n', 'e', 'c', 't', '_', 't', 'i', 'm', 'e', 'o', 'u', 't'], .float, false⟩],
    ctorLinux := some { cls := ['Q', 'M', 'I', '_', 'T', 'c', 'p', 'T', 'r', 'a', 'n', 's', 'p', 'o', 'r', 't'], kind := .tcp, args := [(['h', 'o', 's', 't'], none), (['p', 'o', 'r', 't'], none), (['c', 'o', 'n', 'n', 'e', 'c', 't', '_', 't', 'i', 'm', 'e', 'o', 'u', 't'], some (.int (10)))] },
    ctorWin := some { cls := ['Q', 'M', 'I', '_', 'T', 'c', 'p', 'T', 'r', 'a', 'n', 's', 'p', 'o', 'r', 't'], kind := .tcp, args := [(['h', 'o', 's', 't'], none), (['p', 'o', 'r', 't'], none), (['c', 'o', 'n', 'n', 'e', 'c', 't', '_', 't', 'i', 'm', 'e', 'o', 'u', 't'], some (.int (10)))] } }

/-- `UsbTmcTransportDescriptorParser` and the classes `create_transport` builds from it -/
def usbtmc : Iface :=
  { name := ['u', 's', 'b', 't', 'm', 'c'],
    positionals := [],
    keywords := [⟨['v', 'e', 'n', 'd', 'o', 'r', 'i', 'd'], .int, true⟩, ⟨['p', 'r', 'o', 'd', 'u', 'c', 't', 'i', 'd'], .int, true⟩, ⟨['s', 'e', 'r', 'i', 'a', 'l', 'n', 'r'], .str, true⟩],
    ctorLinux := some { cls := ['Q', 'M', 'I', '_', 'P', 'y', 'U', 's', 'b', 'T', 'm', 'c', 'T', 'r', 'a', 'n', 's', 'p', 'o', 'r', 't'], kind := .usbtmc, args := [(['v', 'e', 'n', 'd', 'o', 'r', 'i', 'd'], none), (['p', 'r', 'o', 'd', 'u', 'c', 't', 'i', 'd'], none), (['s', 'e', 'r', 'i', 'a', 'l', 'n', 'r'], none)] },
    ctorWin := some { cls := ['Q', 'M', 'I', '_', 'V', 'i', 's', 'a', 'U', 's', 'b', 'T', 'm', 'c', 'T', 'r', 'a', 'n', 's', 'p', 'o', 'r', 't'], kind := .usbtmc, args := [(['v', 'e', 'n', 'd', 'o', 'r', 'i', 'd'], none), (['p', 'r', 'o', 'd', 'u', 'c', 't', 'i', 'd'], none), (['s', 'e', 'r', 'i', 'a', 'l', 'n', 'r'], none)] } }

/-- `GpibTransportDescriptorParser` and the classes `create_transport` builds from it -/
def gpib : Iface :=
  { name := ['g', 'p', 'i', 'b'],
    positionals := [⟨['p', 'r', 'i', 'm', 'a', 'r', 'y', '_', 'a', 'd', 'd', 'r'], .int, true⟩],
    keywords := [⟨['b', 'o', 'a', 'r', 'd'], .int, false⟩, ⟨['s', 'e', 'c', 'o', 'n', 'd', 'a', 'r', 'y', '_', 'a', 'd', 'd', 'r'], .int, false⟩, ⟨['c', 'o', 'n', 'n', 'e', 'c', 't', '_', 't', 'i', 'm', 'e', 'o', 'u', 't'], .float, false⟩],
    ctorLinux := none,
    ctorWin := some { cls := ['Q', 'M', 'I', '_', 'V', 'i', 's', 'a', 'G', 'p', 'i', 'b', 'T', 'r', 'a', 'n', 's', 'p', 'o', 'r', 't'], kind := .gpib, args := [(['p', 'r', 'i', 'm', 'a', 'r', 'y', '_', 'a', 'd', 'd', 'r'], none), (['b', 'o', 'a', 'r', 'd'], some (.none)), (['s', 'e', 'c', 'o', 'n', 'd', 'a', 'r', 'y', '_', 'a', 'd', 'd', 'r'], some (.none)), (['c', 'o', 'n', 'n', 'e', 'c', 't', '_', 't', 'i', 'm', 'e', 'o', 'u', 't'], some (.flt ['3', '0', '.', '0']))] } }

/-- `Vxi11TransportDescriptorParser` and the classes `create_transport` builds from it -/
def vxi11 : Iface :=
  { name := ['v', 'x', 'i', '1', '1'],
    positionals := [⟨['h', 'o', 's', 't'], .str, true⟩],
    keywords := [],
    ctorLinux := some { cls := ['Q', 'M', 'I', '_', 'V', 'x', 'i', '1', '1', 'T', 'r', 'a', 'n', 's', 'p', 'o', 'r', 't'], kind := .vxi11, args := [(['h', 'o', 's', 't'], none)] },
    ctorWin := some { cls := ['Q', 'M', 'I', '_', 'V', 'x', 'i', '1', '1', 'T', 'r', 'a', 'n', 's', 'p', 'o', 'r', 't'], kind := .vxi11, args := [(['h', 'o', 's', 't'], none)] } }

def env : Env :=
  { ifaces := [serial, udp, tcp, usbtmc, gpib, vxi11],
    udpReserved := 35999,
    localhostAddr := ['1', '2', '7', '.', '0', '.', '0', '.', '1'] }

end QmiModel.Gen.TransportTables
