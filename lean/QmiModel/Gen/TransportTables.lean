import QmiModel.Model.Descriptor
/-! GENERATED on every run by harness/props/c14.py (`translate`) from the live
`TransportDescriptorParser` instances, the constructor signatures, the AST of `create_transport` and the ASTs of the
`__init__` bodies (`super().__init__` chains and `_validate_*` helpers inlined, constants evaluated).
Do not edit. -/
namespace QmiModel.Gen.TransportTables
open QmiModel.Descriptor

/-- `SerialTransportDescriptorParser` and the classes `create_transport` builds from it -/
def serial : Iface :=
  { name := ['s', 'e', 'r', 'i', 'a', 'l'],
    positionals := [⟨['d', 'e', 'v', 'i', 'c', 'e'], .str, true⟩],
    keywords := [⟨['b', 'a', 'u', 'd', 'r', 'a', 't', 'e'], .int, false⟩, ⟨['b', 'y', 't', 'e', 's', 'i', 'z', 'e'], .int, false⟩, ⟨['p', 'a', 'r', 'i', 't', 'y'], .str, false⟩, ⟨['s', 't', 'o', 'p', 'b', 'i', 't', 's'], .float, false⟩, ⟨['r', 't', 's', 'c', 't', 's'], .bool, false⟩],
    ctorLinux := some { cls := ['Q', 'M', 'I', '_', 'S', 'e', 'r', 'i', 'a', 'l', 'T', 'r', 'a', 'n', 's', 'p', 'o', 'r', 't'], args := [(['d', 'e', 'v', 'i', 'c', 'e'], none), (['b', 'a', 'u', 'd', 'r', 'a', 't', 'e'], some (.int (115200))), (['b', 'y', 't', 'e', 's', 'i', 'z', 'e'], some (.int (8))), (['p', 'a', 'r', 'i', 't', 'y'], some (.str ['N'])), (['s', 't', 'o', 'p', 'b', 'i', 't', 's'], some (.flt ['1', '.', '0'])), (['r', 't', 's', 'c', 't', 's'], some (.bool false))], prog := [
        .validate ['d', 'e', 'v', 'i', 'c', 'e'] (.notDevice ['C', 'O', 'M'] ['/']),
        .validate ['b', 'a', 'u', 'd', 'r', 'a', 't', 'e'] (.lt (1)),
        .validate ['b', 'y', 't', 'e', 's', 'i', 'z', 'e'] (.or (.lt (5)) (.gt (8))),
        .validate ['p', 'a', 'r', 'i', 't', 'y'] (.notInStrs [['N'], ['E'], ['O']]),
        .validate ['s', 't', 'o', 'p', 'b', 'i', 't', 's'] (.notStopbits),
        .validate ['r', 't', 's', 'c', 't', 's'] (.notBool),
        .store ['d', 'e', 'v', 'i', 'c', 'e'] [['d', 'e', 'v', 'i', 'c', 'e']],
        .store ['_', 'b', 'a', 'u', 'd', 'r', 'a', 't', 'e'] [['b', 'a', 'u', 'd', 'r', 'a', 't', 'e']],
        .store ['_', 'b', 'y', 't', 'e', 's', 'i', 'z', 'e'] [['b', 'y', 't', 'e', 's', 'i', 'z', 'e']],
        .store ['_', 'p', 'a', 'r', 'i', 't', 'y'] [['p', 'a', 'r', 'i', 't', 'y']],
        .store ['_', 's', 't', 'o', 'p', 'b', 'i', 't', 's'] [['s', 't', 'o', 'p', 'b', 'i', 't', 's']],
        .store ['_', 'r', 't', 's', 'c', 't', 's'] [['r', 't', 's', 'c', 't', 's']]] },
    ctorWin := some { cls := ['Q', 'M', 'I', '_', 'S', 'e', 'r', 'i', 'a', 'l', 'T', 'r', 'a', 'n', 's', 'p', 'o', 'r', 't'], args := [(['d', 'e', 'v', 'i', 'c', 'e'], none), (['b', 'a', 'u', 'd', 'r', 'a', 't', 'e'], some (.int (115200))), (['b', 'y', 't', 'e', 's', 'i', 'z', 'e'], some (.int (8))), (['p', 'a', 'r', 'i', 't', 'y'], some (.str ['N'])), (['s', 't', 'o', 'p', 'b', 'i', 't', 's'], some (.flt ['1', '.', '0'])), (['r', 't', 's', 'c', 't', 's'], some (.bool false))], prog := [
        .validate ['d', 'e', 'v', 'i', 'c', 'e'] (.notDevice ['C', 'O', 'M'] ['/']),
        .validate ['b', 'a', 'u', 'd', 'r', 'a', 't', 'e'] (.lt (1)),
        .validate ['b', 'y', 't', 'e', 's', 'i', 'z', 'e'] (.or (.lt (5)) (.gt (8))),
        .validate ['p', 'a', 'r', 'i', 't', 'y'] (.notInStrs [['N'], ['E'], ['O']]),
        .validate ['s', 't', 'o', 'p', 'b', 'i', 't', 's'] (.notStopbits),
        .validate ['r', 't', 's', 'c', 't', 's'] (.notBool),
        .store ['d', 'e', 'v', 'i', 'c', 'e'] [['d', 'e', 'v', 'i', 'c', 'e']],
        .store ['_', 'b', 'a', 'u', 'd', 'r', 'a', 't', 'e'] [['b', 'a', 'u', 'd', 'r', 'a', 't', 'e']],
        .store ['_', 'b', 'y', 't', 'e', 's', 'i', 'z', 'e'] [['b', 'y', 't', 'e', 's', 'i', 'z', 'e']],
        .store ['_', 'p', 'a', 'r', 'i', 't', 'y'] [['p', 'a', 'r', 'i', 't', 'y']],
        .store ['_', 's', 't', 'o', 'p', 'b', 'i', 't', 's'] [['s', 't', 'o', 'p', 'b', 'i', 't', 's']],
        .store ['_', 'r', 't', 's', 'c', 't', 's'] [['r', 't', 's', 'c', 't', 's']]] } }

/-- `UdpTransportDescriptorParser` and the classes `create_transport` builds from it -/
def udp : Iface :=
  { name := ['u', 'd', 'p'],
    positionals := [⟨['h', 'o', 's', 't'], .str, true⟩, ⟨['p', 'o', 'r', 't'], .int, true⟩],
    keywords := [],
    ctorLinux := some { cls := ['Q', 'M', 'I', '_', 'U', 'd', 'p', 'T', 'r', 'a', 'n', 's', 'p', 'o', 'r', 't'], args := [(['h', 'o', 's', 't'], none), (['p', 'o', 'r', 't'], none)], prog := [
        .resolveLocalhost ['h', 'o', 's', 't'],
        .validate ['h', 'o', 's', 't'] (.badHost),
        .validate ['p', 'o', 'r', 't'] (.or (.lt (1)) (.gt (65535))),
        .validate ['p', 'o', 'r', 't'] (.eq (35999)),
        .store ['_', 'a', 'd', 'd', 'r', 'e', 's', 's'] [['h', 'o', 's', 't'], ['p', 'o', 'r', 't']]] },
    ctorWin := some { cls := ['Q', 'M', 'I', '_', 'U', 'd', 'p', 'T', 'r', 'a', 'n', 's', 'p', 'o', 'r', 't'], args := [(['h', 'o', 's', 't'], none), (['p', 'o', 'r', 't'], none)], prog := [
        .resolveLocalhost ['h', 'o', 's', 't'],
        .validate ['h', 'o', 's', 't'] (.badHost),
        .validate ['p', 'o', 'r', 't'] (.or (.lt (1)) (.gt (65535))),
        .validate ['p', 'o', 'r', 't'] (.eq (35999)),
        .store ['_', 'a', 'd', 'd', 'r', 'e', 's', 's'] [['h', 'o', 's', 't'], ['p', 'o', 'r', 't']]] } }

/-- `TcpTransportDescriptorParser` and the classes `create_transport` builds from it -/
def tcp : Iface :=
  { name := ['t', 'c', 'p'],
    positionals := [⟨['h', 'o', 's', 't'], .str, true⟩, ⟨['p', 'o', 'r', 't'], .int, true⟩],
    keywords := [⟨['c', 'o', 'n', 'n', 'e', 'c', 't', '_', 't', 'i', 'm', 'e', 'o', 'u', 't'], .float, false⟩],
    ctorLinux := some { cls := ['Q', 'M', 'I', '_', 'T', 'c', 'p', 'T', 'r', 'a', 'n', 's', 'p', 'o', 'r', 't'], args := [(['h', 'o', 's', 't'], none), (['p', 'o', 'r', 't'], none), (['c', 'o', 'n', 'n', 'e', 'c', 't', '_', 't', 'i', 'm', 'e', 'o', 'u', 't'], some (.int (10)))], prog := [
        .resolveLocalhost ['h', 'o', 's', 't'],
        .validate ['h', 'o', 's', 't'] (.badHost),
        .validate ['p', 'o', 'r', 't'] (.or (.lt (1)) (.gt (65535))),
        .store ['_', 'a', 'd', 'd', 'r', 'e', 's', 's'] [['h', 'o', 's', 't'], ['p', 'o', 'r', 't']],
        .store ['_', 'c', 'o', 'n', 'n', 'e', 'c', 't', '_', 't', 'i', 'm', 'e', 'o', 'u', 't'] [['c', 'o', 'n', 'n', 'e', 'c', 't', '_', 't', 'i', 'm', 'e', 'o', 'u', 't']]] },
    ctorWin := some { cls := ['Q', 'M', 'I', '_', 'T', 'c', 'p', 'T', 'r', 'a', 'n', 's', 'p', 'o', 'r', 't'], args := [(['h', 'o', 's', 't'], none), (['p', 'o', 'r', 't'], none), (['c', 'o', 'n', 'n', 'e', 'c', 't', '_', 't', 'i', 'm', 'e', 'o', 'u', 't'], some (.int (10)))], prog := [
        .resolveLocalhost ['h', 'o', 's', 't'],
        .validate ['h', 'o', 's', 't'] (.badHost),
        .validate ['p', 'o', 'r', 't'] (.or (.lt (1)) (.gt (65535))),
        .store ['_', 'a', 'd', 'd', 'r', 'e', 's', 's'] [['h', 'o', 's', 't'], ['p', 'o', 'r', 't']],
        .store ['_', 'c', 'o', 'n', 'n', 'e', 'c', 't', '_', 't', 'i', 'm', 'e', 'o', 'u', 't'] [['c', 'o', 'n', 'n', 'e', 'c', 't', '_', 't', 'i', 'm', 'e', 'o', 'u', 't']]] } }

/-- `UsbTmcTransportDescriptorParser` and the classes `create_transport` builds from it -/
def usbtmc : Iface :=
  { name := ['u', 's', 'b', 't', 'm', 'c'],
    positionals := [],
    keywords := [⟨['v', 'e', 'n', 'd', 'o', 'r', 'i', 'd'], .int, true⟩, ⟨['p', 'r', 'o', 'd', 'u', 'c', 't', 'i', 'd'], .int, true⟩, ⟨['s', 'e', 'r', 'i', 'a', 'l', 'n', 'r'], .str, true⟩],
    ctorLinux := some { cls := ['Q', 'M', 'I', '_', 'P', 'y', 'U', 's', 'b', 'T', 'm', 'c', 'T', 'r', 'a', 'n', 's', 'p', 'o', 'r', 't'], args := [(['v', 'e', 'n', 'd', 'o', 'r', 'i', 'd'], none), (['p', 'r', 'o', 'd', 'u', 'c', 't', 'i', 'd'], none), (['s', 'e', 'r', 'i', 'a', 'l', 'n', 'r'], none)], prog := [
        .validate ['v', 'e', 'n', 'd', 'o', 'r', 'i', 'd'] (.or (.lt (0)) (.gt (65535))),
        .validate ['p', 'r', 'o', 'd', 'u', 'c', 't', 'i', 'd'] (.or (.lt (0)) (.gt (65535))),
        .store ['v', 'e', 'n', 'd', 'o', 'r', 'i', 'd'] [['v', 'e', 'n', 'd', 'o', 'r', 'i', 'd']],
        .store ['p', 'r', 'o', 'd', 'u', 'c', 't', 'i', 'd'] [['p', 'r', 'o', 'd', 'u', 'c', 't', 'i', 'd']],
        .store ['s', 'e', 'r', 'i', 'a', 'l', 'n', 'r'] [['s', 'e', 'r', 'i', 'a', 'l', 'n', 'r']]] },
    ctorWin := some { cls := ['Q', 'M', 'I', '_', 'V', 'i', 's', 'a', 'U', 's', 'b', 'T', 'm', 'c', 'T', 'r', 'a', 'n', 's', 'p', 'o', 'r', 't'], args := [(['v', 'e', 'n', 'd', 'o', 'r', 'i', 'd'], none), (['p', 'r', 'o', 'd', 'u', 'c', 't', 'i', 'd'], none), (['s', 'e', 'r', 'i', 'a', 'l', 'n', 'r'], none)], prog := [
        .validate ['v', 'e', 'n', 'd', 'o', 'r', 'i', 'd'] (.or (.lt (0)) (.gt (65535))),
        .validate ['p', 'r', 'o', 'd', 'u', 'c', 't', 'i', 'd'] (.or (.lt (0)) (.gt (65535))),
        .store ['v', 'e', 'n', 'd', 'o', 'r', 'i', 'd'] [['v', 'e', 'n', 'd', 'o', 'r', 'i', 'd']],
        .store ['p', 'r', 'o', 'd', 'u', 'c', 't', 'i', 'd'] [['p', 'r', 'o', 'd', 'u', 'c', 't', 'i', 'd']],
        .store ['s', 'e', 'r', 'i', 'a', 'l', 'n', 'r'] [['s', 'e', 'r', 'i', 'a', 'l', 'n', 'r']]] } }

/-- `GpibTransportDescriptorParser` and the classes `create_transport` builds from it -/
def gpib : Iface :=
  { name := ['g', 'p', 'i', 'b'],
    positionals := [⟨['p', 'r', 'i', 'm', 'a', 'r', 'y', '_', 'a', 'd', 'd', 'r'], .int, true⟩],
    keywords := [⟨['b', 'o', 'a', 'r', 'd'], .int, false⟩, ⟨['s', 'e', 'c', 'o', 'n', 'd', 'a', 'r', 'y', '_', 'a', 'd', 'd', 'r'], .int, false⟩, ⟨['c', 'o', 'n', 'n', 'e', 'c', 't', '_', 't', 'i', 'm', 'e', 'o', 'u', 't'], .float, false⟩],
    ctorLinux := none,
    ctorWin := some { cls := ['Q', 'M', 'I', '_', 'V', 'i', 's', 'a', 'G', 'p', 'i', 'b', 'T', 'r', 'a', 'n', 's', 'p', 'o', 'r', 't'], args := [(['p', 'r', 'i', 'm', 'a', 'r', 'y', '_', 'a', 'd', 'd', 'r'], none), (['b', 'o', 'a', 'r', 'd'], some (.none)), (['s', 'e', 'c', 'o', 'n', 'd', 'a', 'r', 'y', '_', 'a', 'd', 'd', 'r'], some (.none)), (['c', 'o', 'n', 'n', 'e', 'c', 't', '_', 't', 'i', 'm', 'e', 'o', 'u', 't'], some (.flt ['3', '0', '.', '0']))], prog := [
        .store ['_', 'p', 'r', 'i', 'm', 'a', 'r', 'y', '_', 'a', 'd', 'd', 'r'] [['p', 'r', 'i', 'm', 'a', 'r', 'y', '_', 'a', 'd', 'd', 'r']],
        .store ['_', 'b', 'o', 'a', 'r', 'd'] [['b', 'o', 'a', 'r', 'd']],
        .store ['_', 's', 'e', 'c', 'o', 'n', 'd', 'a', 'r', 'y', '_', 'a', 'd', 'd', 'r'] [['s', 'e', 'c', 'o', 'n', 'd', 'a', 'r', 'y', '_', 'a', 'd', 'd', 'r']],
        .store ['_', 'c', 'o', 'n', 'n', 'e', 'c', 't', '_', 't', 'i', 'm', 'e', 'o', 'u', 't'] [['c', 'o', 'n', 'n', 'e', 'c', 't', '_', 't', 'i', 'm', 'e', 'o', 'u', 't']]] } }

/-- `Vxi11TransportDescriptorParser` and the classes `create_transport` builds from it -/
def vxi11 : Iface :=
  { name := ['v', 'x', 'i', '1', '1'],
    positionals := [⟨['h', 'o', 's', 't'], .str, true⟩],
    keywords := [],
    ctorLinux := some { cls := ['Q', 'M', 'I', '_', 'V', 'x', 'i', '1', '1', 'T', 'r', 'a', 'n', 's', 'p', 'o', 'r', 't'], args := [(['h', 'o', 's', 't'], none)], prog := [
        .validate ['h', 'o', 's', 't'] (.badHost),
        .store ['_', 'h', 'o', 's', 't'] [['h', 'o', 's', 't']]] },
    ctorWin := some { cls := ['Q', 'M', 'I', '_', 'V', 'x', 'i', '1', '1', 'T', 'r', 'a', 'n', 's', 'p', 'o', 'r', 't'], args := [(['h', 'o', 's', 't'], none)], prog := [
        .validate ['h', 'o', 's', 't'] (.badHost),
        .store ['_', 'h', 'o', 's', 't'] [['h', 'o', 's', 't']]] } }

/-- `QMI_TransportDescriptorException` and its qmi base classes define no `__init__` / `__new__` / `__str__` / `__repr__`:
constructing it from any message text cannot raise and keeps the text -/
def descriptorExceptionPlain : Bool := true

def env : Env :=
  { ifaces := [serial, udp, tcp, usbtmc, gpib, vxi11],
    localhostAddr := ['1', '2', '7', '.', '0', '.', '0', '.', '1'] }

end QmiModel.Gen.TransportTables
