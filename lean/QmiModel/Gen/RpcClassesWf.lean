import QmiModel.Props.C05
import QmiModel.Gen.RpcClasses
/-! GENERATED on every run by harness/props/c05.py (`translate`) — do not edit.
Per shipped class the obligation `WellFormed gen_<Class>` (hypothesis of `dispatch_sound`), discharged by
kernel evaluation.  Where a class is not well-formed on the tree under test, the exceptions are listed
(`wf_partial_…`, hypothesis of `dispatch_sound_partial`) and each exception gets a computed witness of the
negation of the property at that name. -/
namespace QmiModel.Gen
open QmiModel.RpcClass

/-- the protected-name list of the code under test is the one the model (and the property) uses -/
theorem protected_list_matches : genProtected = protectedNames := by decide +kernel

theorem wf__ContextRpcObject : WellFormed gen__ContextRpcObject := wf_of_syn gen__ContextRpcObject (by decide +kernel)

theorem wf_QMI_Instrument : WellFormed gen_QMI_Instrument := wf_of_syn gen_QMI_Instrument (by decide +kernel)

theorem wf_QMI_RpcObject : WellFormed gen_QMI_RpcObject := wf_of_syn gen_QMI_RpcObject (by decide +kernel)

theorem wf_QMI_TaskRunner : WellFormed gen_QMI_TaskRunner := wf_of_syn gen_QMI_TaskRunner (by decide +kernel)

theorem wf_Adwin_Base : WellFormed gen_Adwin_Base := wf_of_syn gen_Adwin_Base (by decide +kernel)

theorem wf_Adwin_GoldII : WellFormed gen_Adwin_GoldII := wf_of_syn gen_Adwin_GoldII (by decide +kernel)

theorem wf_Adwin_ProII : WellFormed gen_Adwin_ProII := wf_of_syn gen_Adwin_ProII (by decide +kernel)

theorem wf_Agiltron_FF1x4 : WellFormed gen_Agiltron_FF1x4 := wf_of_syn gen_Agiltron_FF1x4 (by decide +kernel)

theorem wf_Anapico_APSIN : WellFormed gen_Anapico_APSIN := wf_of_syn gen_Anapico_APSIN (by decide +kernel)

theorem wf_IPPower9850 : WellFormed gen_IPPower9850 := wf_of_syn gen_IPPower9850 (by decide +kernel)

theorem wf_BostonMicromachines_MultiDM : WellFormed gen_BostonMicromachines_MultiDM := wf_of_syn gen_BostonMicromachines_MultiDM (by decide +kernel)

theorem wf_Bristol_871A : WellFormed gen_Bristol_871A := wf_of_syn gen_Bristol_871A (by decide +kernel)

theorem wf_Bristol_Fos : WellFormed gen_Bristol_Fos := wf_of_syn gen_Bristol_Fos (by decide +kernel)

theorem wf_Cobolt_Laser_06_01 : WellFormed gen_Cobolt_Laser_06_01 := wf_of_syn gen_Cobolt_Laser_06_01 (by decide +kernel)

theorem wf_AnalogDiscovery2 : WellFormed gen_AnalogDiscovery2 := wf_of_syn gen_AnalogDiscovery2 (by decide +kernel)

theorem wf_NoisySineGenerator : WellFormed gen_NoisySineGenerator := wf_of_syn gen_NoisySineGenerator (by decide +kernel)

theorem wf_Edwards_TurboInstrumentController : WellFormed gen_Edwards_TurboInstrumentController := wf_of_syn gen_Edwards_TurboInstrumentController (by decide +kernel)

theorem wf_HighFinesse_Wlm : WellFormed gen_HighFinesse_Wlm := wf_of_syn gen_HighFinesse_Wlm (by decide +kernel)

theorem wf_ImagineEyes_Mirao52e : WellFormed gen_ImagineEyes_Mirao52e := wf_of_syn gen_ImagineEyes_Mirao52e (by decide +kernel)

theorem wf_InstruTech_AGC302 : WellFormed gen_InstruTech_AGC302 := wf_of_syn gen_InstruTech_AGC302 (by decide +kernel)

theorem wf_JPE_CPSC : WellFormed gen_JPE_CPSC := wf_of_syn gen_JPE_CPSC (by decide +kernel)

theorem wf_MCC_USB1808X : WellFormed gen_MCC_USB1808X := wf_of_syn gen_MCC_USB1808X (by decide +kernel)

theorem wf_Montana_Cryostation : WellFormed gen_Montana_Cryostation := wf_of_syn gen_Montana_Cryostation (by decide +kernel)

theorem wf_Montana_CryostationS50 : WellFormed gen_Montana_CryostationS50 := wf_of_syn gen_Montana_CryostationS50 (by decide +kernel)

theorem wf_Newport_AG_UC8 : WellFormed gen_Newport_AG_UC8 := wf_of_syn gen_Newport_AG_UC8 (by decide +kernel)

/-- NOT well-formed: controller_address -/
theorem wf_partial_Newport_ConexCC : WellFormedExcept gen_Newport_ConexCC [728208074028316448667320542742226003262250789570781462308908626173237712434881728972967505576465849124763] := wfExcept_of_syn gen_Newport_ConexCC [728208074028316448667320542742226003262250789570781462308908626173237712434881728972967505576465849124763] (by decide +kernel)
/-- `controller_address`: a getter runs on lookup although the name is not invokable -/
theorem getter_runs_Newport_ConexCC__controller_address : invokable gen_Newport_ConexCC 728208074028316448667320542742226003262250789570781462308908626173237712434881728972967505576465849124763 = false ∧ effects gen_Newport_ConexCC 728208074028316448667320542742226003262250789570781462308908626173237712434881728972967505576465849124763 = [.getterRan 728208074028316448667320542742226003262250789570781462308908626173237712434881728972967505576465849124763] ∧ reply gen_Newport_ConexCC 728208074028316448667320542742226003262250789570781462308908626173237712434881728972967505576465849124763 = .getterDecides := by decide +kernel

theorem wf_Newport_843R : WellFormed gen_Newport_843R := wf_of_syn gen_Newport_843R (by decide +kernel)

/-- NOT well-formed: controller_address -/
theorem wf_partial_Newport_SingleAxisMotionController : WellFormedExcept gen_Newport_SingleAxisMotionController [728208074028316448667320542742226003262250789570781462308908626173237712434881728972967505576465849124763] := wfExcept_of_syn gen_Newport_SingleAxisMotionController [728208074028316448667320542742226003262250789570781462308908626173237712434881728972967505576465849124763] (by decide +kernel)
/-- `controller_address`: a getter runs on lookup although the name is not invokable -/
theorem getter_runs_Newport_SingleAxisMotionController__controller_address : invokable gen_Newport_SingleAxisMotionController 728208074028316448667320542742226003262250789570781462308908626173237712434881728972967505576465849124763 = false ∧ effects gen_Newport_SingleAxisMotionController 728208074028316448667320542742226003262250789570781462308908626173237712434881728972967505576465849124763 = [.getterRan 728208074028316448667320542742226003262250789570781462308908626173237712434881728972967505576465849124763] ∧ reply gen_Newport_SingleAxisMotionController 728208074028316448667320542742226003262250789570781462308908626173237712434881728972967505576465849124763 = .getterDecides := by decide +kernel

/-- NOT well-formed: controller_address -/
theorem wf_partial_Newport_SMC100CC : WellFormedExcept gen_Newport_SMC100CC [728208074028316448667320542742226003262250789570781462308908626173237712434881728972967505576465849124763] := wfExcept_of_syn gen_Newport_SMC100CC [728208074028316448667320542742226003262250789570781462308908626173237712434881728972967505576465849124763] (by decide +kernel)
/-- `controller_address`: a getter runs on lookup although the name is not invokable -/
theorem getter_runs_Newport_SMC100CC__controller_address : invokable gen_Newport_SMC100CC 728208074028316448667320542742226003262250789570781462308908626173237712434881728972967505576465849124763 = false ∧ effects gen_Newport_SMC100CC 728208074028316448667320542742226003262250789570781462308908626173237712434881728972967505576465849124763 = [.getterRan 728208074028316448667320542742226003262250789570781462308908626173237712434881728972967505576465849124763] ∧ reply gen_Newport_SMC100CC 728208074028316448667320542742226003262250789570781462308908626173237712434881728972967505576465849124763 = .getterDecides := by decide +kernel

/-- NOT well-formed: controller_address -/
theorem wf_partial_Newport_SMC100PP : WellFormedExcept gen_Newport_SMC100PP [728208074028316448667320542742226003262250789570781462308908626173237712434881728972967505576465849124763] := wfExcept_of_syn gen_Newport_SMC100PP [728208074028316448667320542742226003262250789570781462308908626173237712434881728972967505576465849124763] (by decide +kernel)
/-- `controller_address`: a getter runs on lookup although the name is not invokable -/
theorem getter_runs_Newport_SMC100PP__controller_address : invokable gen_Newport_SMC100PP 728208074028316448667320542742226003262250789570781462308908626173237712434881728972967505576465849124763 = false ∧ effects gen_Newport_SMC100PP 728208074028316448667320542742226003262250789570781462308908626173237712434881728972967505576465849124763 = [.getterRan 728208074028316448667320542742226003262250789570781462308908626173237712434881728972967505576465849124763] ∧ reply gen_Newport_SMC100PP 728208074028316448667320542742226003262250789570781462308908626173237712434881728972967505576465849124763 = .getterDecides := by decide +kernel

theorem wf_NewFocus_TLB670X : WellFormed gen_NewFocus_TLB670X := wf_of_syn gen_NewFocus_TLB670X (by decide +kernel)

theorem wf_KoherasAdjustikLaser : WellFormed gen_KoherasAdjustikLaser := wf_of_syn gen_KoherasAdjustikLaser (by decide +kernel)

theorem wf_KoherasBoostikLaserAmplifier : WellFormed gen_KoherasBoostikLaserAmplifier := wf_of_syn gen_KoherasBoostikLaserAmplifier (by decide +kernel)

theorem wf_OZOptics_DD100MC : WellFormed gen_OZOptics_DD100MC := wf_of_syn gen_OZOptics_DD100MC (by decide +kernel)

theorem wf_OzOptics_EpcDriver : WellFormed gen_OzOptics_EpcDriver := wf_of_syn gen_OzOptics_EpcDriver (by decide +kernel)

theorem wf_Parallax_UsbPropeller : WellFormed gen_Parallax_UsbPropeller := wf_of_syn gen_Parallax_UsbPropeller (by decide +kernel)

theorem wf_PI_E873 : WellFormed gen_PI_E873 := wf_of_syn gen_PI_E873 (by decide +kernel)

/-- NOT well-formed: _max_dev_num, _ttreadmax, _model, _lib -/
theorem wf_partial__PicoquantHarp : WellFormedExcept gen__PicoquantHarp [361089419655612775874505499447721093256032132555195620289285923013886, 319999177730159344282521748222322208323526023407212364851, 187099691662174330525323875451510, 136906269720010424730] := wfExcept_of_syn gen__PicoquantHarp [361089419655612775874505499447721093256032132555195620289285923013886, 319999177730159344282521748222322208323526023407212364851, 187099691662174330525323875451510, 136906269720010424730] (by decide +kernel)
/-- `_max_dev_num`: a getter runs on lookup although the name is not invokable -/
theorem getter_runs__PicoquantHarp___max_dev_num : invokable gen__PicoquantHarp 361089419655612775874505499447721093256032132555195620289285923013886 = false ∧ effects gen__PicoquantHarp 361089419655612775874505499447721093256032132555195620289285923013886 = [.getterRan 361089419655612775874505499447721093256032132555195620289285923013886] ∧ reply gen__PicoquantHarp 361089419655612775874505499447721093256032132555195620289285923013886 = .getterDecides := by decide +kernel
/-- `_ttreadmax`: a getter runs on lookup although the name is not invokable -/
theorem getter_runs__PicoquantHarp___ttreadmax : invokable gen__PicoquantHarp 319999177730159344282521748222322208323526023407212364851 = false ∧ effects gen__PicoquantHarp 319999177730159344282521748222322208323526023407212364851 = [.getterRan 319999177730159344282521748222322208323526023407212364851] ∧ reply gen__PicoquantHarp 319999177730159344282521748222322208323526023407212364851 = .getterDecides := by decide +kernel
/-- `_model`: a getter runs on lookup although the name is not invokable -/
theorem getter_runs__PicoquantHarp___model : invokable gen__PicoquantHarp 187099691662174330525323875451510 = false ∧ effects gen__PicoquantHarp 187099691662174330525323875451510 = [.getterRan 187099691662174330525323875451510] ∧ reply gen__PicoquantHarp 187099691662174330525323875451510 = .getterDecides := by decide +kernel
/-- `_lib`: a getter runs on lookup although the name is not invokable -/
theorem getter_runs__PicoquantHarp___lib : invokable gen__PicoquantHarp 136906269720010424730 = false ∧ effects gen__PicoquantHarp 136906269720010424730 = [.getterRan 136906269720010424730] ∧ reply gen__PicoquantHarp 136906269720010424730 = .getterDecides := by decide +kernel

/-- NOT well-formed: _max_dev_num, _ttreadmax, _model, _lib -/
theorem wf_partial_PicoQuant_HydraHarp400 : WellFormedExcept gen_PicoQuant_HydraHarp400 [361089419655612775874505499447721093256032132555195620289285923013886, 319999177730159344282521748222322208323526023407212364851, 187099691662174330525323875451510, 136906269720010424730] := wfExcept_of_syn gen_PicoQuant_HydraHarp400 [361089419655612775874505499447721093256032132555195620289285923013886, 319999177730159344282521748222322208323526023407212364851, 187099691662174330525323875451510, 136906269720010424730] (by decide +kernel)
/-- `_max_dev_num`: a getter runs on lookup although the name is not invokable -/
theorem getter_runs_PicoQuant_HydraHarp400___max_dev_num : invokable gen_PicoQuant_HydraHarp400 361089419655612775874505499447721093256032132555195620289285923013886 = false ∧ effects gen_PicoQuant_HydraHarp400 361089419655612775874505499447721093256032132555195620289285923013886 = [.getterRan 361089419655612775874505499447721093256032132555195620289285923013886] ∧ reply gen_PicoQuant_HydraHarp400 361089419655612775874505499447721093256032132555195620289285923013886 = .getterDecides := by decide +kernel
/-- `_ttreadmax`: a getter runs on lookup although the name is not invokable -/
theorem getter_runs_PicoQuant_HydraHarp400___ttreadmax : invokable gen_PicoQuant_HydraHarp400 319999177730159344282521748222322208323526023407212364851 = false ∧ effects gen_PicoQuant_HydraHarp400 319999177730159344282521748222322208323526023407212364851 = [.getterRan 319999177730159344282521748222322208323526023407212364851] ∧ reply gen_PicoQuant_HydraHarp400 319999177730159344282521748222322208323526023407212364851 = .getterDecides := by decide +kernel
/-- `_model`: a getter runs on lookup although the name is not invokable -/
theorem getter_runs_PicoQuant_HydraHarp400___model : invokable gen_PicoQuant_HydraHarp400 187099691662174330525323875451510 = false ∧ effects gen_PicoQuant_HydraHarp400 187099691662174330525323875451510 = [.getterRan 187099691662174330525323875451510] ∧ reply gen_PicoQuant_HydraHarp400 187099691662174330525323875451510 = .getterDecides := by decide +kernel
/-- `_lib`: a getter runs on lookup although the name is not invokable -/
theorem getter_runs_PicoQuant_HydraHarp400___lib : invokable gen_PicoQuant_HydraHarp400 136906269720010424730 = false ∧ effects gen_PicoQuant_HydraHarp400 136906269720010424730 = [.getterRan 136906269720010424730] ∧ reply gen_PicoQuant_HydraHarp400 136906269720010424730 = .getterDecides := by decide +kernel

/-- NOT well-formed: _max_dev_num, _ttreadmax, _model, _lib -/
theorem wf_partial_PicoQuant_MultiHarp150 : WellFormedExcept gen_PicoQuant_MultiHarp150 [361089419655612775874505499447721093256032132555195620289285923013886, 319999177730159344282521748222322208323526023407212364851, 187099691662174330525323875451510, 136906269720010424730] := wfExcept_of_syn gen_PicoQuant_MultiHarp150 [361089419655612775874505499447721093256032132555195620289285923013886, 319999177730159344282521748222322208323526023407212364851, 187099691662174330525323875451510, 136906269720010424730] (by decide +kernel)
/-- `_max_dev_num`: a getter runs on lookup although the name is not invokable -/
theorem getter_runs_PicoQuant_MultiHarp150___max_dev_num : invokable gen_PicoQuant_MultiHarp150 361089419655612775874505499447721093256032132555195620289285923013886 = false ∧ effects gen_PicoQuant_MultiHarp150 361089419655612775874505499447721093256032132555195620289285923013886 = [.getterRan 361089419655612775874505499447721093256032132555195620289285923013886] ∧ reply gen_PicoQuant_MultiHarp150 361089419655612775874505499447721093256032132555195620289285923013886 = .getterDecides := by decide +kernel
/-- `_ttreadmax`: a getter runs on lookup although the name is not invokable -/
theorem getter_runs_PicoQuant_MultiHarp150___ttreadmax : invokable gen_PicoQuant_MultiHarp150 319999177730159344282521748222322208323526023407212364851 = false ∧ effects gen_PicoQuant_MultiHarp150 319999177730159344282521748222322208323526023407212364851 = [.getterRan 319999177730159344282521748222322208323526023407212364851] ∧ reply gen_PicoQuant_MultiHarp150 319999177730159344282521748222322208323526023407212364851 = .getterDecides := by decide +kernel
/-- `_model`: a getter runs on lookup although the name is not invokable -/
theorem getter_runs_PicoQuant_MultiHarp150___model : invokable gen_PicoQuant_MultiHarp150 187099691662174330525323875451510 = false ∧ effects gen_PicoQuant_MultiHarp150 187099691662174330525323875451510 = [.getterRan 187099691662174330525323875451510] ∧ reply gen_PicoQuant_MultiHarp150 187099691662174330525323875451510 = .getterDecides := by decide +kernel
/-- `_lib`: a getter runs on lookup although the name is not invokable -/
theorem getter_runs_PicoQuant_MultiHarp150___lib : invokable gen_PicoQuant_MultiHarp150 136906269720010424730 = false ∧ effects gen_PicoQuant_MultiHarp150 136906269720010424730 = [.getterRan 136906269720010424730] ∧ reply gen_PicoQuant_MultiHarp150 136906269720010424730 = .getterDecides := by decide +kernel

/-- NOT well-formed: _max_dev_num, _ttreadmax, _model, _lib -/
theorem wf_partial_PicoQuant_PicoHarp300 : WellFormedExcept gen_PicoQuant_PicoHarp300 [361089419655612775874505499447721093256032132555195620289285923013886, 319999177730159344282521748222322208323526023407212364851, 187099691662174330525323875451510, 136906269720010424730] := wfExcept_of_syn gen_PicoQuant_PicoHarp300 [361089419655612775874505499447721093256032132555195620289285923013886, 319999177730159344282521748222322208323526023407212364851, 187099691662174330525323875451510, 136906269720010424730] (by decide +kernel)
/-- `_max_dev_num`: a getter runs on lookup although the name is not invokable -/
theorem getter_runs_PicoQuant_PicoHarp300___max_dev_num : invokable gen_PicoQuant_PicoHarp300 361089419655612775874505499447721093256032132555195620289285923013886 = false ∧ effects gen_PicoQuant_PicoHarp300 361089419655612775874505499447721093256032132555195620289285923013886 = [.getterRan 361089419655612775874505499447721093256032132555195620289285923013886] ∧ reply gen_PicoQuant_PicoHarp300 361089419655612775874505499447721093256032132555195620289285923013886 = .getterDecides := by decide +kernel
/-- `_ttreadmax`: a getter runs on lookup although the name is not invokable -/
theorem getter_runs_PicoQuant_PicoHarp300___ttreadmax : invokable gen_PicoQuant_PicoHarp300 319999177730159344282521748222322208323526023407212364851 = false ∧ effects gen_PicoQuant_PicoHarp300 319999177730159344282521748222322208323526023407212364851 = [.getterRan 319999177730159344282521748222322208323526023407212364851] ∧ reply gen_PicoQuant_PicoHarp300 319999177730159344282521748222322208323526023407212364851 = .getterDecides := by decide +kernel
/-- `_model`: a getter runs on lookup although the name is not invokable -/
theorem getter_runs_PicoQuant_PicoHarp300___model : invokable gen_PicoQuant_PicoHarp300 187099691662174330525323875451510 = false ∧ effects gen_PicoQuant_PicoHarp300 187099691662174330525323875451510 = [.getterRan 187099691662174330525323875451510] ∧ reply gen_PicoQuant_PicoHarp300 187099691662174330525323875451510 = .getterDecides := by decide +kernel
/-- `_lib`: a getter runs on lookup although the name is not invokable -/
theorem getter_runs_PicoQuant_PicoHarp300___lib : invokable gen_PicoQuant_PicoHarp300 136906269720010424730 = false ∧ effects gen_PicoQuant_PicoHarp300 136906269720010424730 = [.getterRan 136906269720010424730] ∧ reply gen_PicoQuant_PicoHarp300 136906269720010424730 = .getterDecides := by decide +kernel

/-- NOT well-formed: _ps_attr -/
theorem wf_partial_PicoTech_PicoScope : WellFormedExcept gen_PicoTech_PicoScope [245020786532145670106215680612468074938696548] := wfExcept_of_syn gen_PicoTech_PicoScope [245020786532145670106215680612468074938696548] (by decide +kernel)
/-- `_ps_attr`: a getter runs on lookup although the name is not invokable -/
theorem getter_runs_PicoTech_PicoScope___ps_attr : invokable gen_PicoTech_PicoScope 245020786532145670106215680612468074938696548 = false ∧ effects gen_PicoTech_PicoScope 245020786532145670106215680612468074938696548 = [.getterRan 245020786532145670106215680612468074938696548] ∧ reply gen_PicoTech_PicoScope 245020786532145670106215680612468074938696548 = .getterDecides := by decide +kernel

/-- NOT well-formed: _ps_attr -/
theorem wf_partial_PicoTech_PicoScope3403 : WellFormedExcept gen_PicoTech_PicoScope3403 [245020786532145670106215680612468074938696548] := wfExcept_of_syn gen_PicoTech_PicoScope3403 [245020786532145670106215680612468074938696548] (by decide +kernel)
/-- `_ps_attr`: a getter runs on lookup although the name is not invokable -/
theorem getter_runs_PicoTech_PicoScope3403___ps_attr : invokable gen_PicoTech_PicoScope3403 245020786532145670106215680612468074938696548 = false ∧ effects gen_PicoTech_PicoScope3403 245020786532145670106215680612468074938696548 = [.getterRan 245020786532145670106215680612468074938696548] ∧ reply gen_PicoTech_PicoScope3403 245020786532145670106215680612468074938696548 = .getterDecides := by decide +kernel

/-- NOT well-formed: _ps_attr -/
theorem wf_partial_PicoTech_PicoScope4824 : WellFormedExcept gen_PicoTech_PicoScope4824 [245020786532145670106215680612468074938696548] := wfExcept_of_syn gen_PicoTech_PicoScope4824 [245020786532145670106215680612468074938696548] (by decide +kernel)
/-- `_ps_attr`: a getter runs on lookup although the name is not invokable -/
theorem getter_runs_PicoTech_PicoScope4824___ps_attr : invokable gen_PicoTech_PicoScope4824 245020786532145670106215680612468074938696548 = false ∧ effects gen_PicoTech_PicoScope4824 245020786532145670106215680612468074938696548 = [.getterRan 245020786532145670106215680612468074938696548] ∧ reply gen_PicoTech_PicoScope4824 245020786532145670106215680612468074938696548 = .getterDecides := by decide +kernel

theorem wf_Pololu_Maestro : WellFormed gen_Pololu_Maestro := wf_of_syn gen_Pololu_Maestro (by decide +kernel)

theorem wf_PtGrey_BlackFly_Aravis : WellFormed gen_PtGrey_BlackFly_Aravis := wf_of_syn gen_PtGrey_BlackFly_Aravis (by decide +kernel)

theorem wf_QuantumComposers_PulseGenerator9530 : WellFormed gen_QuantumComposers_PulseGenerator9530 := wf_of_syn gen_QuantumComposers_PulseGenerator9530 (by decide +kernel)

theorem wf_AmpSimModule : WellFormed gen_AmpSimModule := wf_of_syn gen_AmpSimModule (by decide +kernel)

theorem wf_RaspberryPiGPIO : WellFormed gen_RaspberryPiGPIO := wf_of_syn gen_RaspberryPiGPIO (by decide +kernel)

theorem wf_Rigol_Dg4102 : WellFormed gen_Rigol_Dg4102 := wf_of_syn gen_Rigol_Dg4102 (by decide +kernel)

theorem wf_RohdeSchwarz_Base : WellFormed gen_RohdeSchwarz_Base := wf_of_syn gen_RohdeSchwarz_Base (by decide +kernel)

theorem wf_RohdeSchwarz_SGS100A : WellFormed gen_RohdeSchwarz_SGS100A := wf_of_syn gen_RohdeSchwarz_SGS100A (by decide +kernel)

theorem wf_RohdeSchwarz_SMBV100A : WellFormed gen_RohdeSchwarz_SMBV100A := wf_of_syn gen_RohdeSchwarz_SMBV100A (by decide +kernel)

theorem wf_Santec_Tsl570 : WellFormed gen_Santec_Tsl570 := wf_of_syn gen_Santec_Tsl570 (by decide +kernel)

theorem wf_SDS1202XE : WellFormed gen_SDS1202XE := wf_of_syn gen_SDS1202XE (by decide +kernel)

theorem wf_SSA3000X : WellFormed gen_SSA3000X := wf_of_syn gen_SSA3000X (by decide +kernel)

theorem wf_SRS_DC205 : WellFormed gen_SRS_DC205 := wf_of_syn gen_SRS_DC205 (by decide +kernel)

theorem wf_Sim900 : WellFormed gen_Sim900 := wf_of_syn gen_Sim900 (by decide +kernel)

theorem wf_SIM922 : WellFormed gen_SIM922 := wf_of_syn gen_SIM922 (by decide +kernel)

theorem wf_Tektronix_AFG31000 : WellFormed gen_Tektronix_AFG31000 := wf_of_syn gen_Tektronix_AFG31000 (by decide +kernel)

theorem wf_Tektronix_Awg5014 : WellFormed gen_Tektronix_Awg5014 := wf_of_syn gen_Tektronix_Awg5014 (by decide +kernel)

theorem wf_Tektronix_FCA3000 : WellFormed gen_Tektronix_FCA3000 := wf_of_syn gen_Tektronix_FCA3000 (by decide +kernel)

theorem wf_Tenma72_10480 : WellFormed gen_Tenma72_10480 := wf_of_syn gen_Tenma72_10480 (by decide +kernel)

theorem wf_Tenma72_13350 : WellFormed gen_Tenma72_13350 := wf_of_syn gen_Tenma72_13350 (by decide +kernel)

theorem wf_Tenma72_13360 : WellFormed gen_Tenma72_13360 := wf_of_syn gen_Tenma72_13360 (by decide +kernel)

theorem wf_Tenma72_2535 : WellFormed gen_Tenma72_2535 := wf_of_syn gen_Tenma72_2535 (by decide +kernel)

theorem wf_Tenma72_2540 : WellFormed gen_Tenma72_2540 := wf_of_syn gen_Tenma72_2540 (by decide +kernel)

theorem wf_Tenma72_2545 : WellFormed gen_Tenma72_2545 := wf_of_syn gen_Tenma72_2545 (by decide +kernel)

theorem wf_Tenma72_2550 : WellFormed gen_Tenma72_2550 := wf_of_syn gen_Tenma72_2550 (by decide +kernel)

theorem wf_Tenma72_2925 : WellFormed gen_Tenma72_2925 := wf_of_syn gen_Tenma72_2925 (by decide +kernel)

theorem wf_Tenma72_2930 : WellFormed gen_Tenma72_2930 := wf_of_syn gen_Tenma72_2930 (by decide +kernel)

theorem wf_Tenma72_2935 : WellFormed gen_Tenma72_2935 := wf_of_syn gen_Tenma72_2935 (by decide +kernel)

theorem wf_Tenma72_2940 : WellFormed gen_Tenma72_2940 := wf_of_syn gen_Tenma72_2940 (by decide +kernel)

theorem wf_Tenma72_Base : WellFormed gen_Tenma72_Base := wf_of_syn gen_Tenma72_Base (by decide +kernel)

theorem wf_Teraxion_TFN : WellFormed gen_Teraxion_TFN := wf_of_syn gen_Teraxion_TFN (by decide +kernel)

theorem wf_Thorlabs_K10CR1 : WellFormed gen_Thorlabs_K10CR1 := wf_of_syn gen_Thorlabs_K10CR1 (by decide +kernel)

theorem wf_Thorlabs_MFF10X : WellFormed gen_Thorlabs_MFF10X := wf_of_syn gen_Thorlabs_MFF10X (by decide +kernel)

theorem wf_Thorlabs_Mpc320 : WellFormed gen_Thorlabs_Mpc320 := wf_of_syn gen_Thorlabs_Mpc320 (by decide +kernel)

theorem wf_Thorlabs_PM100D : WellFormed gen_Thorlabs_PM100D := wf_of_syn gen_Thorlabs_PM100D (by decide +kernel)

theorem wf_Thorlabs_PM100USB : WellFormed gen_Thorlabs_PM100USB := wf_of_syn gen_Thorlabs_PM100USB (by decide +kernel)

theorem wf_Thorlabs_PM101U : WellFormed gen_Thorlabs_PM101U := wf_of_syn gen_Thorlabs_PM101U (by decide +kernel)

theorem wf_Thorlabs_PM10x : WellFormed gen_Thorlabs_PM10x := wf_of_syn gen_Thorlabs_PM10x (by decide +kernel)

theorem wf_Thorlabs_PM16_120 : WellFormed gen_Thorlabs_PM16_120 := wf_of_syn gen_Thorlabs_PM16_120 (by decide +kernel)

theorem wf_Thorlabs_TC200 : WellFormed gen_Thorlabs_TC200 := wf_of_syn gen_Thorlabs_TC200 (by decide +kernel)

theorem wf_Thorlabs_TSP01 : WellFormed gen_Thorlabs_TSP01 := wf_of_syn gen_Thorlabs_TSP01 (by decide +kernel)

theorem wf_Thorlabs_TSP01B : WellFormed gen_Thorlabs_TSP01B := wf_of_syn gen_Thorlabs_TSP01B (by decide +kernel)

theorem wf_TimeBase_DIM3000 : WellFormed gen_TimeBase_DIM3000 := wf_of_syn gen_TimeBase_DIM3000 (by decide +kernel)

theorem wf_Toptica_DLC : WellFormed gen_Toptica_DLC := wf_of_syn gen_Toptica_DLC (by decide +kernel)

theorem wf_TT_TGF3162 : WellFormed gen_TT_TGF3162 := wf_of_syn gen_TT_TGF3162 (by decide +kernel)

theorem wf_TT_TGF_3000_4000_Series : WellFormed gen_TT_TGF_3000_4000_Series := wf_of_syn gen_TT_TGF_3000_4000_Series (by decide +kernel)

theorem wf_Wavelength_TC_Lab : WellFormed gen_Wavelength_TC_Lab := wf_of_syn gen_Wavelength_TC_Lab (by decide +kernel)

theorem wf_Wieserlabs_FlexDDS_NG_Dual : WellFormed gen_Wieserlabs_FlexDDS_NG_Dual := wf_of_syn gen_Wieserlabs_FlexDDS_NG_Dual (by decide +kernel)

theorem wf_WlPhotonics_WltfN : WellFormed gen_WlPhotonics_WltfN := wf_of_syn gen_WlPhotonics_WltfN (by decide +kernel)

theorem wf_ZurichInstruments_HDAWG : WellFormed gen_ZurichInstruments_HDAWG := wf_of_syn gen_ZurichInstruments_HDAWG (by decide +kernel)

end QmiModel.Gen
