import QmiModel.Props.C05
import QmiModel.Gen.RpcClasses
/-! GENERATED on every run by harness/props/c05.py (`translate`) — do not edit.
Per shipped class the obligation `WellFormed gen_<Class>` (hypothesis of `dispatch_sound`), discharged by
kernel evaluation.  Should a class not be well-formed on the tree under test, the exceptions are listed
(`wf_except_…`) and each exception gets a computed witness `not_ok_…` of the failure at that name. -/
namespace QmiModel.Gen
open QmiModel.RpcClass

/-- the protected-name list of the code under test is the one the model (and the property) uses -/
theorem protected_list_matches : genProtected = protectedNames := by decide +kernel

theorem wf__ContextRpcObject : WellFormed gen__ContextRpcObject := wf_of_syn gen__ContextRpcObject (by decide +kernel)
theorem full__ContextRpcObject : gateProxyOkB gen__ContextRpcObject = true ∧ assigned__ContextRpcObject.all (fun n => !isAdvertised gen__ContextRpcObject n) = true := by decide +kernel

theorem wf_QMI_Instrument : WellFormed gen_QMI_Instrument := wf_of_syn gen_QMI_Instrument (by decide +kernel)
theorem full_QMI_Instrument : gateProxyOkB gen_QMI_Instrument = true ∧ assigned_QMI_Instrument.all (fun n => !isAdvertised gen_QMI_Instrument n) = true := by decide +kernel

theorem wf_QMI_RpcObject : WellFormed gen_QMI_RpcObject := wf_of_syn gen_QMI_RpcObject (by decide +kernel)
theorem full_QMI_RpcObject : gateProxyOkB gen_QMI_RpcObject = true ∧ assigned_QMI_RpcObject.all (fun n => !isAdvertised gen_QMI_RpcObject n) = true := by decide +kernel

theorem wf_QMI_TaskRunner : WellFormed gen_QMI_TaskRunner := wf_of_syn gen_QMI_TaskRunner (by decide +kernel)
theorem full_QMI_TaskRunner : gateProxyOkB gen_QMI_TaskRunner = true ∧ assigned_QMI_TaskRunner.all (fun n => !isAdvertised gen_QMI_TaskRunner n) = true := by decide +kernel

theorem wf_Adwin_Base : WellFormed gen_Adwin_Base := wf_of_syn gen_Adwin_Base (by decide +kernel)
theorem full_Adwin_Base : gateProxyOkB gen_Adwin_Base = true ∧ assigned_Adwin_Base.all (fun n => !isAdvertised gen_Adwin_Base n) = true := by decide +kernel

theorem wf_Adwin_GoldII : WellFormed gen_Adwin_GoldII := wf_of_syn gen_Adwin_GoldII (by decide +kernel)
theorem full_Adwin_GoldII : gateProxyOkB gen_Adwin_GoldII = true ∧ assigned_Adwin_GoldII.all (fun n => !isAdvertised gen_Adwin_GoldII n) = true := by decide +kernel

theorem wf_Adwin_ProII : WellFormed gen_Adwin_ProII := wf_of_syn gen_Adwin_ProII (by decide +kernel)
theorem full_Adwin_ProII : gateProxyOkB gen_Adwin_ProII = true ∧ assigned_Adwin_ProII.all (fun n => !isAdvertised gen_Adwin_ProII n) = true := by decide +kernel

theorem wf_Agiltron_FF1x4 : WellFormed gen_Agiltron_FF1x4 := wf_of_syn gen_Agiltron_FF1x4 (by decide +kernel)
theorem full_Agiltron_FF1x4 : gateProxyOkB gen_Agiltron_FF1x4 = true ∧ assigned_Agiltron_FF1x4.all (fun n => !isAdvertised gen_Agiltron_FF1x4 n) = true := by decide +kernel

theorem wf_Anapico_APSIN : WellFormed gen_Anapico_APSIN := wf_of_syn gen_Anapico_APSIN (by decide +kernel)
theorem full_Anapico_APSIN : gateProxyOkB gen_Anapico_APSIN = true ∧ assigned_Anapico_APSIN.all (fun n => !isAdvertised gen_Anapico_APSIN n) = true := by decide +kernel

theorem wf_IPPower9850 : WellFormed gen_IPPower9850 := wf_of_syn gen_IPPower9850 (by decide +kernel)
theorem full_IPPower9850 : gateProxyOkB gen_IPPower9850 = true ∧ assigned_IPPower9850.all (fun n => !isAdvertised gen_IPPower9850 n) = true := by decide +kernel

theorem wf_BostonMicromachines_MultiDM : WellFormed gen_BostonMicromachines_MultiDM := wf_of_syn gen_BostonMicromachines_MultiDM (by decide +kernel)
theorem full_BostonMicromachines_MultiDM : gateProxyOkB gen_BostonMicromachines_MultiDM = true ∧ assigned_BostonMicromachines_MultiDM.all (fun n => !isAdvertised gen_BostonMicromachines_MultiDM n) = true := by decide +kernel

theorem wf_Bristol_871A : WellFormed gen_Bristol_871A := wf_of_syn gen_Bristol_871A (by decide +kernel)
theorem full_Bristol_871A : gateProxyOkB gen_Bristol_871A = true ∧ assigned_Bristol_871A.all (fun n => !isAdvertised gen_Bristol_871A n) = true := by decide +kernel

theorem wf_Bristol_Fos : WellFormed gen_Bristol_Fos := wf_of_syn gen_Bristol_Fos (by decide +kernel)
theorem full_Bristol_Fos : gateProxyOkB gen_Bristol_Fos = true ∧ assigned_Bristol_Fos.all (fun n => !isAdvertised gen_Bristol_Fos n) = true := by decide +kernel

theorem wf_Cobolt_Laser_06_01 : WellFormed gen_Cobolt_Laser_06_01 := wf_of_syn gen_Cobolt_Laser_06_01 (by decide +kernel)
theorem full_Cobolt_Laser_06_01 : gateProxyOkB gen_Cobolt_Laser_06_01 = true ∧ assigned_Cobolt_Laser_06_01.all (fun n => !isAdvertised gen_Cobolt_Laser_06_01 n) = true := by decide +kernel

theorem wf_AnalogDiscovery2 : WellFormed gen_AnalogDiscovery2 := wf_of_syn gen_AnalogDiscovery2 (by decide +kernel)
theorem full_AnalogDiscovery2 : gateProxyOkB gen_AnalogDiscovery2 = true ∧ assigned_AnalogDiscovery2.all (fun n => !isAdvertised gen_AnalogDiscovery2 n) = true := by decide +kernel

theorem wf_NoisySineGenerator : WellFormed gen_NoisySineGenerator := wf_of_syn gen_NoisySineGenerator (by decide +kernel)
theorem full_NoisySineGenerator : gateProxyOkB gen_NoisySineGenerator = true ∧ assigned_NoisySineGenerator.all (fun n => !isAdvertised gen_NoisySineGenerator n) = true := by decide +kernel

theorem wf_Edwards_TurboInstrumentController : WellFormed gen_Edwards_TurboInstrumentController := wf_of_syn gen_Edwards_TurboInstrumentController (by decide +kernel)
theorem full_Edwards_TurboInstrumentController : gateProxyOkB gen_Edwards_TurboInstrumentController = true ∧ assigned_Edwards_TurboInstrumentController.all (fun n => !isAdvertised gen_Edwards_TurboInstrumentController n) = true := by decide +kernel

theorem wf_HighFinesse_Wlm : WellFormed gen_HighFinesse_Wlm := wf_of_syn gen_HighFinesse_Wlm (by decide +kernel)
theorem full_HighFinesse_Wlm : gateProxyOkB gen_HighFinesse_Wlm = true ∧ assigned_HighFinesse_Wlm.all (fun n => !isAdvertised gen_HighFinesse_Wlm n) = true := by decide +kernel

theorem wf_ImagineEyes_Mirao52e : WellFormed gen_ImagineEyes_Mirao52e := wf_of_syn gen_ImagineEyes_Mirao52e (by decide +kernel)
theorem full_ImagineEyes_Mirao52e : gateProxyOkB gen_ImagineEyes_Mirao52e = true ∧ assigned_ImagineEyes_Mirao52e.all (fun n => !isAdvertised gen_ImagineEyes_Mirao52e n) = true := by decide +kernel

theorem wf_InstruTech_AGC302 : WellFormed gen_InstruTech_AGC302 := wf_of_syn gen_InstruTech_AGC302 (by decide +kernel)
theorem full_InstruTech_AGC302 : gateProxyOkB gen_InstruTech_AGC302 = true ∧ assigned_InstruTech_AGC302.all (fun n => !isAdvertised gen_InstruTech_AGC302 n) = true := by decide +kernel

theorem wf_JPE_CPSC : WellFormed gen_JPE_CPSC := wf_of_syn gen_JPE_CPSC (by decide +kernel)
theorem full_JPE_CPSC : gateProxyOkB gen_JPE_CPSC = true ∧ assigned_JPE_CPSC.all (fun n => !isAdvertised gen_JPE_CPSC n) = true := by decide +kernel

theorem wf_MCC_USB1808X : WellFormed gen_MCC_USB1808X := wf_of_syn gen_MCC_USB1808X (by decide +kernel)
theorem full_MCC_USB1808X : gateProxyOkB gen_MCC_USB1808X = true ∧ assigned_MCC_USB1808X.all (fun n => !isAdvertised gen_MCC_USB1808X n) = true := by decide +kernel

theorem wf_Montana_Cryostation : WellFormed gen_Montana_Cryostation := wf_of_syn gen_Montana_Cryostation (by decide +kernel)
theorem full_Montana_Cryostation : gateProxyOkB gen_Montana_Cryostation = true ∧ assigned_Montana_Cryostation.all (fun n => !isAdvertised gen_Montana_Cryostation n) = true := by decide +kernel

theorem wf_Montana_CryostationS50 : WellFormed gen_Montana_CryostationS50 := wf_of_syn gen_Montana_CryostationS50 (by decide +kernel)
theorem full_Montana_CryostationS50 : gateProxyOkB gen_Montana_CryostationS50 = true ∧ assigned_Montana_CryostationS50.all (fun n => !isAdvertised gen_Montana_CryostationS50 n) = true := by decide +kernel

theorem wf_Newport_AG_UC8 : WellFormed gen_Newport_AG_UC8 := wf_of_syn gen_Newport_AG_UC8 (by decide +kernel)
theorem full_Newport_AG_UC8 : gateProxyOkB gen_Newport_AG_UC8 = true ∧ assigned_Newport_AG_UC8.all (fun n => !isAdvertised gen_Newport_AG_UC8 n) = true := by decide +kernel

theorem wf_Newport_ConexCC : WellFormed gen_Newport_ConexCC := wf_of_syn gen_Newport_ConexCC (by decide +kernel)
theorem full_Newport_ConexCC : gateProxyOkB gen_Newport_ConexCC = true ∧ assigned_Newport_ConexCC.all (fun n => !isAdvertised gen_Newport_ConexCC n) = true := by decide +kernel

theorem wf_Newport_843R : WellFormed gen_Newport_843R := wf_of_syn gen_Newport_843R (by decide +kernel)
theorem full_Newport_843R : gateProxyOkB gen_Newport_843R = true ∧ assigned_Newport_843R.all (fun n => !isAdvertised gen_Newport_843R n) = true := by decide +kernel

theorem wf_Newport_SingleAxisMotionController : WellFormed gen_Newport_SingleAxisMotionController := wf_of_syn gen_Newport_SingleAxisMotionController (by decide +kernel)
theorem full_Newport_SingleAxisMotionController : gateProxyOkB gen_Newport_SingleAxisMotionController = true ∧ assigned_Newport_SingleAxisMotionController.all (fun n => !isAdvertised gen_Newport_SingleAxisMotionController n) = true := by decide +kernel

theorem wf_Newport_SMC100CC : WellFormed gen_Newport_SMC100CC := wf_of_syn gen_Newport_SMC100CC (by decide +kernel)
theorem full_Newport_SMC100CC : gateProxyOkB gen_Newport_SMC100CC = true ∧ assigned_Newport_SMC100CC.all (fun n => !isAdvertised gen_Newport_SMC100CC n) = true := by decide +kernel

theorem wf_Newport_SMC100PP : WellFormed gen_Newport_SMC100PP := wf_of_syn gen_Newport_SMC100PP (by decide +kernel)
theorem full_Newport_SMC100PP : gateProxyOkB gen_Newport_SMC100PP = true ∧ assigned_Newport_SMC100PP.all (fun n => !isAdvertised gen_Newport_SMC100PP n) = true := by decide +kernel

theorem wf_NewFocus_TLB670X : WellFormed gen_NewFocus_TLB670X := wf_of_syn gen_NewFocus_TLB670X (by decide +kernel)
theorem full_NewFocus_TLB670X : gateProxyOkB gen_NewFocus_TLB670X = true ∧ assigned_NewFocus_TLB670X.all (fun n => !isAdvertised gen_NewFocus_TLB670X n) = true := by decide +kernel

theorem wf_KoherasAdjustikLaser : WellFormed gen_KoherasAdjustikLaser := wf_of_syn gen_KoherasAdjustikLaser (by decide +kernel)
theorem full_KoherasAdjustikLaser : gateProxyOkB gen_KoherasAdjustikLaser = true ∧ assigned_KoherasAdjustikLaser.all (fun n => !isAdvertised gen_KoherasAdjustikLaser n) = true := by decide +kernel

theorem wf_KoherasBoostikLaserAmplifier : WellFormed gen_KoherasBoostikLaserAmplifier := wf_of_syn gen_KoherasBoostikLaserAmplifier (by decide +kernel)
theorem full_KoherasBoostikLaserAmplifier : gateProxyOkB gen_KoherasBoostikLaserAmplifier = true ∧ assigned_KoherasBoostikLaserAmplifier.all (fun n => !isAdvertised gen_KoherasBoostikLaserAmplifier n) = true := by decide +kernel

theorem wf_OZOptics_DD100MC : WellFormed gen_OZOptics_DD100MC := wf_of_syn gen_OZOptics_DD100MC (by decide +kernel)
theorem full_OZOptics_DD100MC : gateProxyOkB gen_OZOptics_DD100MC = true ∧ assigned_OZOptics_DD100MC.all (fun n => !isAdvertised gen_OZOptics_DD100MC n) = true := by decide +kernel

theorem wf_OzOptics_EpcDriver : WellFormed gen_OzOptics_EpcDriver := wf_of_syn gen_OzOptics_EpcDriver (by decide +kernel)
theorem full_OzOptics_EpcDriver : gateProxyOkB gen_OzOptics_EpcDriver = true ∧ assigned_OzOptics_EpcDriver.all (fun n => !isAdvertised gen_OzOptics_EpcDriver n) = true := by decide +kernel

theorem wf_Parallax_UsbPropeller : WellFormed gen_Parallax_UsbPropeller := wf_of_syn gen_Parallax_UsbPropeller (by decide +kernel)
theorem full_Parallax_UsbPropeller : gateProxyOkB gen_Parallax_UsbPropeller = true ∧ assigned_Parallax_UsbPropeller.all (fun n => !isAdvertised gen_Parallax_UsbPropeller n) = true := by decide +kernel

theorem wf_PI_E873 : WellFormed gen_PI_E873 := wf_of_syn gen_PI_E873 (by decide +kernel)
theorem full_PI_E873 : gateProxyOkB gen_PI_E873 = true ∧ assigned_PI_E873.all (fun n => !isAdvertised gen_PI_E873 n) = true := by decide +kernel

theorem wf__PicoquantHarp : WellFormed gen__PicoquantHarp := wf_of_syn gen__PicoquantHarp (by decide +kernel)
theorem full__PicoquantHarp : gateProxyOkB gen__PicoquantHarp = true ∧ assigned__PicoquantHarp.all (fun n => !isAdvertised gen__PicoquantHarp n) = true := by decide +kernel

theorem wf_PicoQuant_HydraHarp400 : WellFormed gen_PicoQuant_HydraHarp400 := wf_of_syn gen_PicoQuant_HydraHarp400 (by decide +kernel)
theorem full_PicoQuant_HydraHarp400 : gateProxyOkB gen_PicoQuant_HydraHarp400 = true ∧ assigned_PicoQuant_HydraHarp400.all (fun n => !isAdvertised gen_PicoQuant_HydraHarp400 n) = true := by decide +kernel

theorem wf_PicoQuant_MultiHarp150 : WellFormed gen_PicoQuant_MultiHarp150 := wf_of_syn gen_PicoQuant_MultiHarp150 (by decide +kernel)
theorem full_PicoQuant_MultiHarp150 : gateProxyOkB gen_PicoQuant_MultiHarp150 = true ∧ assigned_PicoQuant_MultiHarp150.all (fun n => !isAdvertised gen_PicoQuant_MultiHarp150 n) = true := by decide +kernel

theorem wf_PicoQuant_PicoHarp300 : WellFormed gen_PicoQuant_PicoHarp300 := wf_of_syn gen_PicoQuant_PicoHarp300 (by decide +kernel)
theorem full_PicoQuant_PicoHarp300 : gateProxyOkB gen_PicoQuant_PicoHarp300 = true ∧ assigned_PicoQuant_PicoHarp300.all (fun n => !isAdvertised gen_PicoQuant_PicoHarp300 n) = true := by decide +kernel

theorem wf_PicoTech_PicoScope : WellFormed gen_PicoTech_PicoScope := wf_of_syn gen_PicoTech_PicoScope (by decide +kernel)
theorem full_PicoTech_PicoScope : gateProxyOkB gen_PicoTech_PicoScope = true ∧ assigned_PicoTech_PicoScope.all (fun n => !isAdvertised gen_PicoTech_PicoScope n) = true := by decide +kernel

theorem wf_PicoTech_PicoScope3403 : WellFormed gen_PicoTech_PicoScope3403 := wf_of_syn gen_PicoTech_PicoScope3403 (by decide +kernel)
theorem full_PicoTech_PicoScope3403 : gateProxyOkB gen_PicoTech_PicoScope3403 = true ∧ assigned_PicoTech_PicoScope3403.all (fun n => !isAdvertised gen_PicoTech_PicoScope3403 n) = true := by decide +kernel

theorem wf_PicoTech_PicoScope4824 : WellFormed gen_PicoTech_PicoScope4824 := wf_of_syn gen_PicoTech_PicoScope4824 (by decide +kernel)
theorem full_PicoTech_PicoScope4824 : gateProxyOkB gen_PicoTech_PicoScope4824 = true ∧ assigned_PicoTech_PicoScope4824.all (fun n => !isAdvertised gen_PicoTech_PicoScope4824 n) = true := by decide +kernel

theorem wf_Pololu_Maestro : WellFormed gen_Pololu_Maestro := wf_of_syn gen_Pololu_Maestro (by decide +kernel)
theorem full_Pololu_Maestro : gateProxyOkB gen_Pololu_Maestro = true ∧ assigned_Pololu_Maestro.all (fun n => !isAdvertised gen_Pololu_Maestro n) = true := by decide +kernel

theorem wf_PtGrey_BlackFly_Aravis : WellFormed gen_PtGrey_BlackFly_Aravis := wf_of_syn gen_PtGrey_BlackFly_Aravis (by decide +kernel)
theorem full_PtGrey_BlackFly_Aravis : gateProxyOkB gen_PtGrey_BlackFly_Aravis = true ∧ assigned_PtGrey_BlackFly_Aravis.all (fun n => !isAdvertised gen_PtGrey_BlackFly_Aravis n) = true := by decide +kernel

theorem wf_QuantumComposers_PulseGenerator9530 : WellFormed gen_QuantumComposers_PulseGenerator9530 := wf_of_syn gen_QuantumComposers_PulseGenerator9530 (by decide +kernel)
theorem full_QuantumComposers_PulseGenerator9530 : gateProxyOkB gen_QuantumComposers_PulseGenerator9530 = true ∧ assigned_QuantumComposers_PulseGenerator9530.all (fun n => !isAdvertised gen_QuantumComposers_PulseGenerator9530 n) = true := by decide +kernel

theorem wf_AmpSimModule : WellFormed gen_AmpSimModule := wf_of_syn gen_AmpSimModule (by decide +kernel)
theorem full_AmpSimModule : gateProxyOkB gen_AmpSimModule = true ∧ assigned_AmpSimModule.all (fun n => !isAdvertised gen_AmpSimModule n) = true := by decide +kernel

theorem wf_RaspberryPiGPIO : WellFormed gen_RaspberryPiGPIO := wf_of_syn gen_RaspberryPiGPIO (by decide +kernel)
theorem full_RaspberryPiGPIO : gateProxyOkB gen_RaspberryPiGPIO = true ∧ assigned_RaspberryPiGPIO.all (fun n => !isAdvertised gen_RaspberryPiGPIO n) = true := by decide +kernel

theorem wf_Rigol_Dg4102 : WellFormed gen_Rigol_Dg4102 := wf_of_syn gen_Rigol_Dg4102 (by decide +kernel)
theorem full_Rigol_Dg4102 : gateProxyOkB gen_Rigol_Dg4102 = true ∧ assigned_Rigol_Dg4102.all (fun n => !isAdvertised gen_Rigol_Dg4102 n) = true := by decide +kernel

theorem wf_RohdeSchwarz_Base : WellFormed gen_RohdeSchwarz_Base := wf_of_syn gen_RohdeSchwarz_Base (by decide +kernel)
theorem full_RohdeSchwarz_Base : gateProxyOkB gen_RohdeSchwarz_Base = true ∧ assigned_RohdeSchwarz_Base.all (fun n => !isAdvertised gen_RohdeSchwarz_Base n) = true := by decide +kernel

theorem wf_RohdeSchwarz_SGS100A : WellFormed gen_RohdeSchwarz_SGS100A := wf_of_syn gen_RohdeSchwarz_SGS100A (by decide +kernel)
theorem full_RohdeSchwarz_SGS100A : gateProxyOkB gen_RohdeSchwarz_SGS100A = true ∧ assigned_RohdeSchwarz_SGS100A.all (fun n => !isAdvertised gen_RohdeSchwarz_SGS100A n) = true := by decide +kernel

theorem wf_RohdeSchwarz_SMBV100A : WellFormed gen_RohdeSchwarz_SMBV100A := wf_of_syn gen_RohdeSchwarz_SMBV100A (by decide +kernel)
theorem full_RohdeSchwarz_SMBV100A : gateProxyOkB gen_RohdeSchwarz_SMBV100A = true ∧ assigned_RohdeSchwarz_SMBV100A.all (fun n => !isAdvertised gen_RohdeSchwarz_SMBV100A n) = true := by decide +kernel

theorem wf_Santec_Tsl570 : WellFormed gen_Santec_Tsl570 := wf_of_syn gen_Santec_Tsl570 (by decide +kernel)
theorem full_Santec_Tsl570 : gateProxyOkB gen_Santec_Tsl570 = true ∧ assigned_Santec_Tsl570.all (fun n => !isAdvertised gen_Santec_Tsl570 n) = true := by decide +kernel

theorem wf_SDS1202XE : WellFormed gen_SDS1202XE := wf_of_syn gen_SDS1202XE (by decide +kernel)
theorem full_SDS1202XE : gateProxyOkB gen_SDS1202XE = true ∧ assigned_SDS1202XE.all (fun n => !isAdvertised gen_SDS1202XE n) = true := by decide +kernel

theorem wf_SSA3000X : WellFormed gen_SSA3000X := wf_of_syn gen_SSA3000X (by decide +kernel)
theorem full_SSA3000X : gateProxyOkB gen_SSA3000X = true ∧ assigned_SSA3000X.all (fun n => !isAdvertised gen_SSA3000X n) = true := by decide +kernel

theorem wf_SRS_DC205 : WellFormed gen_SRS_DC205 := wf_of_syn gen_SRS_DC205 (by decide +kernel)
theorem full_SRS_DC205 : gateProxyOkB gen_SRS_DC205 = true ∧ assigned_SRS_DC205.all (fun n => !isAdvertised gen_SRS_DC205 n) = true := by decide +kernel

theorem wf_Sim900 : WellFormed gen_Sim900 := wf_of_syn gen_Sim900 (by decide +kernel)
theorem full_Sim900 : gateProxyOkB gen_Sim900 = true ∧ assigned_Sim900.all (fun n => !isAdvertised gen_Sim900 n) = true := by decide +kernel

theorem wf_SIM922 : WellFormed gen_SIM922 := wf_of_syn gen_SIM922 (by decide +kernel)
theorem full_SIM922 : gateProxyOkB gen_SIM922 = true ∧ assigned_SIM922.all (fun n => !isAdvertised gen_SIM922 n) = true := by decide +kernel

theorem wf_Tektronix_AFG31000 : WellFormed gen_Tektronix_AFG31000 := wf_of_syn gen_Tektronix_AFG31000 (by decide +kernel)
theorem full_Tektronix_AFG31000 : gateProxyOkB gen_Tektronix_AFG31000 = true ∧ assigned_Tektronix_AFG31000.all (fun n => !isAdvertised gen_Tektronix_AFG31000 n) = true := by decide +kernel

theorem wf_Tektronix_Awg5014 : WellFormed gen_Tektronix_Awg5014 := wf_of_syn gen_Tektronix_Awg5014 (by decide +kernel)
theorem full_Tektronix_Awg5014 : gateProxyOkB gen_Tektronix_Awg5014 = true ∧ assigned_Tektronix_Awg5014.all (fun n => !isAdvertised gen_Tektronix_Awg5014 n) = true := by decide +kernel

theorem wf_Tektronix_FCA3000 : WellFormed gen_Tektronix_FCA3000 := wf_of_syn gen_Tektronix_FCA3000 (by decide +kernel)
theorem full_Tektronix_FCA3000 : gateProxyOkB gen_Tektronix_FCA3000 = true ∧ assigned_Tektronix_FCA3000.all (fun n => !isAdvertised gen_Tektronix_FCA3000 n) = true := by decide +kernel

theorem wf_Tenma72_10480 : WellFormed gen_Tenma72_10480 := wf_of_syn gen_Tenma72_10480 (by decide +kernel)
theorem full_Tenma72_10480 : gateProxyOkB gen_Tenma72_10480 = true ∧ assigned_Tenma72_10480.all (fun n => !isAdvertised gen_Tenma72_10480 n) = true := by decide +kernel

theorem wf_Tenma72_13350 : WellFormed gen_Tenma72_13350 := wf_of_syn gen_Tenma72_13350 (by decide +kernel)
theorem full_Tenma72_13350 : gateProxyOkB gen_Tenma72_13350 = true ∧ assigned_Tenma72_13350.all (fun n => !isAdvertised gen_Tenma72_13350 n) = true := by decide +kernel

theorem wf_Tenma72_13360 : WellFormed gen_Tenma72_13360 := wf_of_syn gen_Tenma72_13360 (by decide +kernel)
theorem full_Tenma72_13360 : gateProxyOkB gen_Tenma72_13360 = true ∧ assigned_Tenma72_13360.all (fun n => !isAdvertised gen_Tenma72_13360 n) = true := by decide +kernel

theorem wf_Tenma72_2535 : WellFormed gen_Tenma72_2535 := wf_of_syn gen_Tenma72_2535 (by decide +kernel)
theorem full_Tenma72_2535 : gateProxyOkB gen_Tenma72_2535 = true ∧ assigned_Tenma72_2535.all (fun n => !isAdvertised gen_Tenma72_2535 n) = true := by decide +kernel

theorem wf_Tenma72_2540 : WellFormed gen_Tenma72_2540 := wf_of_syn gen_Tenma72_2540 (by decide +kernel)
theorem full_Tenma72_2540 : gateProxyOkB gen_Tenma72_2540 = true ∧ assigned_Tenma72_2540.all (fun n => !isAdvertised gen_Tenma72_2540 n) = true := by decide +kernel

theorem wf_Tenma72_2545 : WellFormed gen_Tenma72_2545 := wf_of_syn gen_Tenma72_2545 (by decide +kernel)
theorem full_Tenma72_2545 : gateProxyOkB gen_Tenma72_2545 = true ∧ assigned_Tenma72_2545.all (fun n => !isAdvertised gen_Tenma72_2545 n) = true := by decide +kernel

theorem wf_Tenma72_2550 : WellFormed gen_Tenma72_2550 := wf_of_syn gen_Tenma72_2550 (by decide +kernel)
theorem full_Tenma72_2550 : gateProxyOkB gen_Tenma72_2550 = true ∧ assigned_Tenma72_2550.all (fun n => !isAdvertised gen_Tenma72_2550 n) = true := by decide +kernel

theorem wf_Tenma72_2925 : WellFormed gen_Tenma72_2925 := wf_of_syn gen_Tenma72_2925 (by decide +kernel)
theorem full_Tenma72_2925 : gateProxyOkB gen_Tenma72_2925 = true ∧ assigned_Tenma72_2925.all (fun n => !isAdvertised gen_Tenma72_2925 n) = true := by decide +kernel

theorem wf_Tenma72_2930 : WellFormed gen_Tenma72_2930 := wf_of_syn gen_Tenma72_2930 (by decide +kernel)
theorem full_Tenma72_2930 : gateProxyOkB gen_Tenma72_2930 = true ∧ assigned_Tenma72_2930.all (fun n => !isAdvertised gen_Tenma72_2930 n) = true := by decide +kernel

theorem wf_Tenma72_2935 : WellFormed gen_Tenma72_2935 := wf_of_syn gen_Tenma72_2935 (by decide +kernel)
theorem full_Tenma72_2935 : gateProxyOkB gen_Tenma72_2935 = true ∧ assigned_Tenma72_2935.all (fun n => !isAdvertised gen_Tenma72_2935 n) = true := by decide +kernel

theorem wf_Tenma72_2940 : WellFormed gen_Tenma72_2940 := wf_of_syn gen_Tenma72_2940 (by decide +kernel)
theorem full_Tenma72_2940 : gateProxyOkB gen_Tenma72_2940 = true ∧ assigned_Tenma72_2940.all (fun n => !isAdvertised gen_Tenma72_2940 n) = true := by decide +kernel

theorem wf_Tenma72_Base : WellFormed gen_Tenma72_Base := wf_of_syn gen_Tenma72_Base (by decide +kernel)
theorem full_Tenma72_Base : gateProxyOkB gen_Tenma72_Base = true ∧ assigned_Tenma72_Base.all (fun n => !isAdvertised gen_Tenma72_Base n) = true := by decide +kernel

theorem wf_Teraxion_TFN : WellFormed gen_Teraxion_TFN := wf_of_syn gen_Teraxion_TFN (by decide +kernel)
theorem full_Teraxion_TFN : gateProxyOkB gen_Teraxion_TFN = true ∧ assigned_Teraxion_TFN.all (fun n => !isAdvertised gen_Teraxion_TFN n) = true := by decide +kernel

theorem wf_Thorlabs_K10CR1 : WellFormed gen_Thorlabs_K10CR1 := wf_of_syn gen_Thorlabs_K10CR1 (by decide +kernel)
theorem full_Thorlabs_K10CR1 : gateProxyOkB gen_Thorlabs_K10CR1 = true ∧ assigned_Thorlabs_K10CR1.all (fun n => !isAdvertised gen_Thorlabs_K10CR1 n) = true := by decide +kernel

theorem wf_Thorlabs_MFF10X : WellFormed gen_Thorlabs_MFF10X := wf_of_syn gen_Thorlabs_MFF10X (by decide +kernel)
theorem full_Thorlabs_MFF10X : gateProxyOkB gen_Thorlabs_MFF10X = true ∧ assigned_Thorlabs_MFF10X.all (fun n => !isAdvertised gen_Thorlabs_MFF10X n) = true := by decide +kernel

theorem wf_Thorlabs_Mpc320 : WellFormed gen_Thorlabs_Mpc320 := wf_of_syn gen_Thorlabs_Mpc320 (by decide +kernel)
theorem full_Thorlabs_Mpc320 : gateProxyOkB gen_Thorlabs_Mpc320 = true ∧ assigned_Thorlabs_Mpc320.all (fun n => !isAdvertised gen_Thorlabs_Mpc320 n) = true := by decide +kernel

theorem wf_Thorlabs_PM100D : WellFormed gen_Thorlabs_PM100D := wf_of_syn gen_Thorlabs_PM100D (by decide +kernel)
theorem full_Thorlabs_PM100D : gateProxyOkB gen_Thorlabs_PM100D = true ∧ assigned_Thorlabs_PM100D.all (fun n => !isAdvertised gen_Thorlabs_PM100D n) = true := by decide +kernel

theorem wf_Thorlabs_PM100USB : WellFormed gen_Thorlabs_PM100USB := wf_of_syn gen_Thorlabs_PM100USB (by decide +kernel)
theorem full_Thorlabs_PM100USB : gateProxyOkB gen_Thorlabs_PM100USB = true ∧ assigned_Thorlabs_PM100USB.all (fun n => !isAdvertised gen_Thorlabs_PM100USB n) = true := by decide +kernel

theorem wf_Thorlabs_PM101U : WellFormed gen_Thorlabs_PM101U := wf_of_syn gen_Thorlabs_PM101U (by decide +kernel)
theorem full_Thorlabs_PM101U : gateProxyOkB gen_Thorlabs_PM101U = true ∧ assigned_Thorlabs_PM101U.all (fun n => !isAdvertised gen_Thorlabs_PM101U n) = true := by decide +kernel

theorem wf_Thorlabs_PM10x : WellFormed gen_Thorlabs_PM10x := wf_of_syn gen_Thorlabs_PM10x (by decide +kernel)
theorem full_Thorlabs_PM10x : gateProxyOkB gen_Thorlabs_PM10x = true ∧ assigned_Thorlabs_PM10x.all (fun n => !isAdvertised gen_Thorlabs_PM10x n) = true := by decide +kernel

theorem wf_Thorlabs_PM16_120 : WellFormed gen_Thorlabs_PM16_120 := wf_of_syn gen_Thorlabs_PM16_120 (by decide +kernel)
theorem full_Thorlabs_PM16_120 : gateProxyOkB gen_Thorlabs_PM16_120 = true ∧ assigned_Thorlabs_PM16_120.all (fun n => !isAdvertised gen_Thorlabs_PM16_120 n) = true := by decide +kernel

theorem wf_Thorlabs_TC200 : WellFormed gen_Thorlabs_TC200 := wf_of_syn gen_Thorlabs_TC200 (by decide +kernel)
theorem full_Thorlabs_TC200 : gateProxyOkB gen_Thorlabs_TC200 = true ∧ assigned_Thorlabs_TC200.all (fun n => !isAdvertised gen_Thorlabs_TC200 n) = true := by decide +kernel

theorem wf_Thorlabs_TSP01 : WellFormed gen_Thorlabs_TSP01 := wf_of_syn gen_Thorlabs_TSP01 (by decide +kernel)
theorem full_Thorlabs_TSP01 : gateProxyOkB gen_Thorlabs_TSP01 = true ∧ assigned_Thorlabs_TSP01.all (fun n => !isAdvertised gen_Thorlabs_TSP01 n) = true := by decide +kernel

theorem wf_Thorlabs_TSP01B : WellFormed gen_Thorlabs_TSP01B := wf_of_syn gen_Thorlabs_TSP01B (by decide +kernel)
theorem full_Thorlabs_TSP01B : gateProxyOkB gen_Thorlabs_TSP01B = true ∧ assigned_Thorlabs_TSP01B.all (fun n => !isAdvertised gen_Thorlabs_TSP01B n) = true := by decide +kernel

theorem wf_TimeBase_DIM3000 : WellFormed gen_TimeBase_DIM3000 := wf_of_syn gen_TimeBase_DIM3000 (by decide +kernel)
theorem full_TimeBase_DIM3000 : gateProxyOkB gen_TimeBase_DIM3000 = true ∧ assigned_TimeBase_DIM3000.all (fun n => !isAdvertised gen_TimeBase_DIM3000 n) = true := by decide +kernel

theorem wf_Toptica_DLC : WellFormed gen_Toptica_DLC := wf_of_syn gen_Toptica_DLC (by decide +kernel)
theorem full_Toptica_DLC : gateProxyOkB gen_Toptica_DLC = true ∧ assigned_Toptica_DLC.all (fun n => !isAdvertised gen_Toptica_DLC n) = true := by decide +kernel

theorem wf_TT_TGF3162 : WellFormed gen_TT_TGF3162 := wf_of_syn gen_TT_TGF3162 (by decide +kernel)
theorem full_TT_TGF3162 : gateProxyOkB gen_TT_TGF3162 = true ∧ assigned_TT_TGF3162.all (fun n => !isAdvertised gen_TT_TGF3162 n) = true := by decide +kernel

theorem wf_TT_TGF_3000_4000_Series : WellFormed gen_TT_TGF_3000_4000_Series := wf_of_syn gen_TT_TGF_3000_4000_Series (by decide +kernel)
theorem full_TT_TGF_3000_4000_Series : gateProxyOkB gen_TT_TGF_3000_4000_Series = true ∧ assigned_TT_TGF_3000_4000_Series.all (fun n => !isAdvertised gen_TT_TGF_3000_4000_Series n) = true := by decide +kernel

theorem wf_Wavelength_TC_Lab : WellFormed gen_Wavelength_TC_Lab := wf_of_syn gen_Wavelength_TC_Lab (by decide +kernel)
theorem full_Wavelength_TC_Lab : gateProxyOkB gen_Wavelength_TC_Lab = true ∧ assigned_Wavelength_TC_Lab.all (fun n => !isAdvertised gen_Wavelength_TC_Lab n) = true := by decide +kernel

theorem wf_Wieserlabs_FlexDDS_NG_Dual : WellFormed gen_Wieserlabs_FlexDDS_NG_Dual := wf_of_syn gen_Wieserlabs_FlexDDS_NG_Dual (by decide +kernel)
theorem full_Wieserlabs_FlexDDS_NG_Dual : gateProxyOkB gen_Wieserlabs_FlexDDS_NG_Dual = true ∧ assigned_Wieserlabs_FlexDDS_NG_Dual.all (fun n => !isAdvertised gen_Wieserlabs_FlexDDS_NG_Dual n) = true := by decide +kernel

theorem wf_WlPhotonics_WltfN : WellFormed gen_WlPhotonics_WltfN := wf_of_syn gen_WlPhotonics_WltfN (by decide +kernel)
theorem full_WlPhotonics_WltfN : gateProxyOkB gen_WlPhotonics_WltfN = true ∧ assigned_WlPhotonics_WltfN.all (fun n => !isAdvertised gen_WlPhotonics_WltfN n) = true := by decide +kernel

theorem wf_ZurichInstruments_HDAWG : WellFormed gen_ZurichInstruments_HDAWG := wf_of_syn gen_ZurichInstruments_HDAWG (by decide +kernel)
theorem full_ZurichInstruments_HDAWG : gateProxyOkB gen_ZurichInstruments_HDAWG = true ∧ assigned_ZurichInstruments_HDAWG.all (fun n => !isAdvertised gen_ZurichInstruments_HDAWG n) = true := by decide +kernel

end QmiModel.Gen
