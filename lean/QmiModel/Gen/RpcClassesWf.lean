import QmiModel.Props.C05
import QmiModel.Gen.RpcClasses
/-! GENERATED on every run by harness/props/c05.py (`translate`) — do not edit.
Per shipped class the obligation `WellFormed gen_<Class>` (hypothesis of `dispatch_sound`), discharged by
kernel evaluation.  Should a class not be well-formed on the tree under test, the exceptions are listed
(`wf_except_…`) and each exception gets a computed witness `not_ok_…` of the failure at that name. -/
namespace QmiModel.Gen
open QmiModel.RpcClass

/-- the protected-name list of the code under test is the one the model (and the property) uses -/
theorem protected_list_matches : genProtected = protectedNames := by decide +kernel

theorem wf__ContextRpcObject : WellFormed gen__ContextRpcObject := wf_of_syn gen__ContextRpcObject (by decide +kernel)

theorem wf_QMI_Instrument : WellFormed gen_QMI_Instrument := wf_of_syn gen_QMI_Instrument (by decide +kernel)

theorem wf_QMI_RpcObject : WellFormed gen_QMI_RpcObject := wf_of_syn gen_QMI_RpcObject (by decide +kernel)

theorem wf_QMI_TaskRunner : WellFormed gen_QMI_TaskRunner := wf_of_syn gen_QMI_TaskRunner (by decide +kernel)

theorem wf_Adwin_Base : WellFormed gen_Adwin_Base := wf_of_syn gen_Adwin_Base (by decide +kernel)

theorem wf_Adwin_GoldII : WellFormed gen_Adwin_GoldII := wf_of_syn gen_Adwin_GoldII (by decide +kernel)

theorem wf_Adwin_ProII : WellFormed gen_Adwin_ProII := wf_of_syn gen_Adwin_ProII (by decide +kernel)

theorem wf_Agiltron_FF1x4 : WellFormed gen_Agiltron_FF1x4 := wf_of_syn gen_Agiltron_FF1x4 (by decide +kernel)

theorem wf_Anapico_APSIN : WellFormed gen_Anapico_APSIN := wf_of_syn gen_Anapico_APSIN (by decide +kernel)

theorem wf_IPPower9850 : WellFormed gen_IPPower9850 := wf_of_syn gen_IPPower9850 (by decide +kernel)

theorem wf_BostonMicromachines_MultiDM : WellFormed gen_BostonMicromachines_MultiDM := wf_of_syn gen_BostonMicromachines_MultiDM (by decide +kernel)

theorem wf_Bristol_871A : WellFormed gen_Bristol_871A := wf_of_syn gen_Bristol_871A (by decide +kernel)

theorem wf_Bristol_Fos : WellFormed gen_Bristol_Fos := wf_of_syn gen_Bristol_Fos (by decide +kernel)

theorem wf_Cobolt_Laser_06_01 : WellFormed gen_Cobolt_Laser_06_01 := wf_of_syn gen_Cobolt_Laser_06_01 (by decide +kernel)

theorem wf_AnalogDiscovery2 : WellFormed gen_AnalogDiscovery2 := wf_of_syn gen_AnalogDiscovery2 (by decide +kernel)

theorem wf_NoisySineGenerator : WellFormed gen_NoisySineGenerator := wf_of_syn gen_NoisySineGenerator (by decide +kernel)

theorem wf_Edwards_TurboInstrumentController : WellFormed gen_Edwards_TurboInstrumentController := wf_of_syn gen_Edwards_TurboInstrumentController (by decide +kernel)

theorem wf_HighFinesse_Wlm : WellFormed gen_HighFinesse_Wlm := wf_of_syn gen_HighFinesse_Wlm (by decide +kernel)

theorem wf_ImagineEyes_Mirao52e : WellFormed gen_ImagineEyes_Mirao52e := wf_of_syn gen_ImagineEyes_Mirao52e (by decide +kernel)

theorem wf_InstruTech_AGC302 : WellFormed gen_InstruTech_AGC302 := wf_of_syn gen_InstruTech_AGC302 (by decide +kernel)

theorem wf_JPE_CPSC : WellFormed gen_JPE_CPSC := wf_of_syn gen_JPE_CPSC (by decide +kernel)

theorem wf_MCC_USB1808X : WellFormed gen_MCC_USB1808X := wf_of_syn gen_MCC_USB1808X (by decide +kernel)

theorem wf_Montana_Cryostation : WellFormed gen_Montana_Cryostation := wf_of_syn gen_Montana_Cryostation (by decide +kernel)

theorem wf_Montana_CryostationS50 : WellFormed gen_Montana_CryostationS50 := wf_of_syn gen_Montana_CryostationS50 (by decide +kernel)

theorem wf_Newport_AG_UC8 : WellFormed gen_Newport_AG_UC8 := wf_of_syn gen_Newport_AG_UC8 (by decide +kernel)

theorem wf_Newport_ConexCC : WellFormed gen_Newport_ConexCC := wf_of_syn gen_Newport_ConexCC (by decide +kernel)

theorem wf_Newport_843R : WellFormed gen_Newport_843R := wf_of_syn gen_Newport_843R (by decide +kernel)

theorem wf_Newport_SingleAxisMotionController : WellFormed gen_Newport_SingleAxisMotionController := wf_of_syn gen_Newport_SingleAxisMotionController (by decide +kernel)

theorem wf_Newport_SMC100CC : WellFormed gen_Newport_SMC100CC := wf_of_syn gen_Newport_SMC100CC (by decide +kernel)

theorem wf_Newport_SMC100PP : WellFormed gen_Newport_SMC100PP := wf_of_syn gen_Newport_SMC100PP (by decide +kernel)

theorem wf_NewFocus_TLB670X : WellFormed gen_NewFocus_TLB670X := wf_of_syn gen_NewFocus_TLB670X (by decide +kernel)

theorem wf_KoherasAdjustikLaser : WellFormed gen_KoherasAdjustikLaser := wf_of_syn gen_KoherasAdjustikLaser (by decide +kernel)

theorem wf_KoherasBoostikLaserAmplifier : WellFormed gen_KoherasBoostikLaserAmplifier := wf_of_syn gen_KoherasBoostikLaserAmplifier (by decide +kernel)

theorem wf_OZOptics_DD100MC : WellFormed gen_OZOptics_DD100MC := wf_of_syn gen_OZOptics_DD100MC (by decide +kernel)

theorem wf_OzOptics_EpcDriver : WellFormed gen_OzOptics_EpcDriver := wf_of_syn gen_OzOptics_EpcDriver (by decide +kernel)

theorem wf_Parallax_UsbPropeller : WellFormed gen_Parallax_UsbPropeller := wf_of_syn gen_Parallax_UsbPropeller (by decide +kernel)

theorem wf_PI_E873 : WellFormed gen_PI_E873 := wf_of_syn gen_PI_E873 (by decide +kernel)

theorem wf__PicoquantHarp : WellFormed gen__PicoquantHarp := wf_of_syn gen__PicoquantHarp (by decide +kernel)

theorem wf_PicoQuant_HydraHarp400 : WellFormed gen_PicoQuant_HydraHarp400 := wf_of_syn gen_PicoQuant_HydraHarp400 (by decide +kernel)

theorem wf_PicoQuant_MultiHarp150 : WellFormed gen_PicoQuant_MultiHarp150 := wf_of_syn gen_PicoQuant_MultiHarp150 (by decide +kernel)

theorem wf_PicoQuant_PicoHarp300 : WellFormed gen_PicoQuant_PicoHarp300 := wf_of_syn gen_PicoQuant_PicoHarp300 (by decide +kernel)

theorem wf_PicoTech_PicoScope : WellFormed gen_PicoTech_PicoScope := wf_of_syn gen_PicoTech_PicoScope (by decide +kernel)

theorem wf_PicoTech_PicoScope3403 : WellFormed gen_PicoTech_PicoScope3403 := wf_of_syn gen_PicoTech_PicoScope3403 (by decide +kernel)

theorem wf_PicoTech_PicoScope4824 : WellFormed gen_PicoTech_PicoScope4824 := wf_of_syn gen_PicoTech_PicoScope4824 (by decide +kernel)

theorem wf_Pololu_Maestro : WellFormed gen_Pololu_Maestro := wf_of_syn gen_Pololu_Maestro (by decide +kernel)

theorem wf_PtGrey_BlackFly_Aravis : WellFormed gen_PtGrey_BlackFly_Aravis := wf_of_syn gen_PtGrey_BlackFly_Aravis (by decide +kernel)

theorem wf_QuantumComposers_PulseGenerator9530 : WellFormed gen_QuantumComposers_PulseGenerator9530 := wf_of_syn gen_QuantumComposers_PulseGenerator9530 (by decide +kernel)

theorem wf_AmpSimModule : WellFormed gen_AmpSimModule := wf_of_syn gen_AmpSimModule (by decide +kernel)

theorem wf_RaspberryPiGPIO : WellFormed gen_RaspberryPiGPIO := wf_of_syn gen_RaspberryPiGPIO (by decide +kernel)

theorem wf_Rigol_Dg4102 : WellFormed gen_Rigol_Dg4102 := wf_of_syn gen_Rigol_Dg4102 (by decide +kernel)

theorem wf_RohdeSchwarz_Base : WellFormed gen_RohdeSchwarz_Base := wf_of_syn gen_RohdeSchwarz_Base (by decide +kernel)

theorem wf_RohdeSchwarz_SGS100A : WellFormed gen_RohdeSchwarz_SGS100A := wf_of_syn gen_RohdeSchwarz_SGS100A (by decide +kernel)

theorem wf_RohdeSchwarz_SMBV100A : WellFormed gen_RohdeSchwarz_SMBV100A := wf_of_syn gen_RohdeSchwarz_SMBV100A (by decide +kernel)

theorem wf_Santec_Tsl570 : WellFormed gen_Santec_Tsl570 := wf_of_syn gen_Santec_Tsl570 (by decide +kernel)

theorem wf_SDS1202XE : WellFormed gen_SDS1202XE := wf_of_syn gen_SDS1202XE (by decide +kernel)

theorem wf_SSA3000X : WellFormed gen_SSA3000X := wf_of_syn gen_SSA3000X (by decide +kernel)

theorem wf_SRS_DC205 : WellFormed gen_SRS_DC205 := wf_of_syn gen_SRS_DC205 (by decide +kernel)

theorem wf_Sim900 : WellFormed gen_Sim900 := wf_of_syn gen_Sim900 (by decide +kernel)

theorem wf_SIM922 : WellFormed gen_SIM922 := wf_of_syn gen_SIM922 (by decide +kernel)

theorem wf_Tektronix_AFG31000 : WellFormed gen_Tektronix_AFG31000 := wf_of_syn gen_Tektronix_AFG31000 (by decide +kernel)

theorem wf_Tektronix_Awg5014 : WellFormed gen_Tektronix_Awg5014 := wf_of_syn gen_Tektronix_Awg5014 (by decide +kernel)

theorem wf_Tektronix_FCA3000 : WellFormed gen_Tektronix_FCA3000 := wf_of_syn gen_Tektronix_FCA3000 (by decide +kernel)

theorem wf_Tenma72_10480 : WellFormed gen_Tenma72_10480 := wf_of_syn gen_Tenma72_10480 (by decide +kernel)

theorem wf_Tenma72_13350 : WellFormed gen_Tenma72_13350 := wf_of_syn gen_Tenma72_13350 (by decide +kernel)

theorem wf_Tenma72_13360 : WellFormed gen_Tenma72_13360 := wf_of_syn gen_Tenma72_13360 (by decide +kernel)

theorem wf_Tenma72_2535 : WellFormed gen_Tenma72_2535 := wf_of_syn gen_Tenma72_2535 (by decide +kernel)

theorem wf_Tenma72_2540 : WellFormed gen_Tenma72_2540 := wf_of_syn gen_Tenma72_2540 (by decide +kernel)

theorem wf_Tenma72_2545 : WellFormed gen_Tenma72_2545 := wf_of_syn gen_Tenma72_2545 (by decide +kernel)

theorem wf_Tenma72_2550 : WellFormed gen_Tenma72_2550 := wf_of_syn gen_Tenma72_2550 (by decide +kernel)

theorem wf_Tenma72_2925 : WellFormed gen_Tenma72_2925 := wf_of_syn gen_Tenma72_2925 (by decide +kernel)

theorem wf_Tenma72_2930 : WellFormed gen_Tenma72_2930 := wf_of_syn gen_Tenma72_2930 (by decide +kernel)

theorem wf_Tenma72_2935 : WellFormed gen_Tenma72_2935 := wf_of_syn gen_Tenma72_2935 (by decide +kernel)

theorem wf_Tenma72_2940 : WellFormed gen_Tenma72_2940 := wf_of_syn gen_Tenma72_2940 (by decide +kernel)

theorem wf_Tenma72_Base : WellFormed gen_Tenma72_Base := wf_of_syn gen_Tenma72_Base (by decide +kernel)

theorem wf_Teraxion_TFN : WellFormed gen_Teraxion_TFN := wf_of_syn gen_Teraxion_TFN (by decide +kernel)

theorem wf_Thorlabs_K10CR1 : WellFormed gen_Thorlabs_K10CR1 := wf_of_syn gen_Thorlabs_K10CR1 (by decide +kernel)

theorem wf_Thorlabs_MFF10X : WellFormed gen_Thorlabs_MFF10X := wf_of_syn gen_Thorlabs_MFF10X (by decide +kernel)

theorem wf_Thorlabs_Mpc320 : WellFormed gen_Thorlabs_Mpc320 := wf_of_syn gen_Thorlabs_Mpc320 (by decide +kernel)

theorem wf_Thorlabs_PM100D : WellFormed gen_Thorlabs_PM100D := wf_of_syn gen_Thorlabs_PM100D (by decide +kernel)

theorem wf_Thorlabs_PM100USB : WellFormed gen_Thorlabs_PM100USB := wf_of_syn gen_Thorlabs_PM100USB (by decide +kernel)

theorem wf_Thorlabs_PM101U : WellFormed gen_Thorlabs_PM101U := wf_of_syn gen_Thorlabs_PM101U (by decide +kernel)

theorem wf_Thorlabs_PM10x : WellFormed gen_Thorlabs_PM10x := wf_of_syn gen_Thorlabs_PM10x (by decide +kernel)

theorem wf_Thorlabs_PM16_120 : WellFormed gen_Thorlabs_PM16_120 := wf_of_syn gen_Thorlabs_PM16_120 (by decide +kernel)

theorem wf_Thorlabs_TC200 : WellFormed gen_Thorlabs_TC200 := wf_of_syn gen_Thorlabs_TC200 (by decide +kernel)

theorem wf_Thorlabs_TSP01 : WellFormed gen_Thorlabs_TSP01 := wf_of_syn gen_Thorlabs_TSP01 (by decide +kernel)

theorem wf_Thorlabs_TSP01B : WellFormed gen_Thorlabs_TSP01B := wf_of_syn gen_Thorlabs_TSP01B (by decide +kernel)

theorem wf_TimeBase_DIM3000 : WellFormed gen_TimeBase_DIM3000 := wf_of_syn gen_TimeBase_DIM3000 (by decide +kernel)

theorem wf_Toptica_DLC : WellFormed gen_Toptica_DLC := wf_of_syn gen_Toptica_DLC (by decide +kernel)

theorem wf_TT_TGF3162 : WellFormed gen_TT_TGF3162 := wf_of_syn gen_TT_TGF3162 (by decide +kernel)

theorem wf_TT_TGF_3000_4000_Series : WellFormed gen_TT_TGF_3000_4000_Series := wf_of_syn gen_TT_TGF_3000_4000_Series (by decide +kernel)

theorem wf_Wavelength_TC_Lab : WellFormed gen_Wavelength_TC_Lab := wf_of_syn gen_Wavelength_TC_Lab (by decide +kernel)

theorem wf_Wieserlabs_FlexDDS_NG_Dual : WellFormed gen_Wieserlabs_FlexDDS_NG_Dual := wf_of_syn gen_Wieserlabs_FlexDDS_NG_Dual (by decide +kernel)

theorem wf_WlPhotonics_WltfN : WellFormed gen_WlPhotonics_WltfN := wf_of_syn gen_WlPhotonics_WltfN (by decide +kernel)

theorem wf_ZurichInstruments_HDAWG : WellFormed gen_ZurichInstruments_HDAWG := wf_of_syn gen_ZurichInstruments_HDAWG (by decide +kernel)

end QmiModel.Gen
