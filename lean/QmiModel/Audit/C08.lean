import QmiModel.Props.C08
#print axioms QmiModel.PubSub.init_no_subscriptions
