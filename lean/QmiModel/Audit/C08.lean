import QmiModel.Props.C08
#print axioms QmiModel.PubSub.failed_local_subscribe_changes_nothing
#print axioms QmiModel.PubSub.failed_reply_leaves_nothing
#print axioms QmiModel.PubSub.failed_subscribe_leaves_nothing
#print axioms QmiModel.PubSub.rejected_request_leaves_no_remote_subscriber
#print axioms QmiModel.PubSub.removal_ends_publisher_side
#print axioms QmiModel.PubSub.removal_notice_is_sent
#print axioms QmiModel.PubSub.removal_notice_ends_subscriber_side
#print axioms QmiModel.PubSub.disconnect_ends_this_side
#print axioms QmiModel.PubSub.disconnect_runs_cleanup
#print axioms QmiModel.PubSub.close_is_seen_by_other_end
#print axioms QmiModel.PubSub.raceTrace_below
#print axioms QmiModel.PubSub.quiescent_consistency_false
#print axioms QmiModel.PubSub.reply_releases_waiters
#print axioms QmiModel.PubSub.send_failure_answers_request
#print axioms QmiModel.PubSub.closing_answers_registered_requests
#print axioms QmiModel.PubSub.sent_request_is_registered
#print axioms QmiModel.PubSub.subscribe_terminates_partial
