import QmiModel.Props.C20
#print axioms QmiModel.Adbasic.binding_injective
#print axioms QmiModel.Adbasic.binding_complete
#print axioms QmiModel.Adbasic.conflicting_definitions_rejected
#print axioms QmiModel.Adbasic.violation_rejected_with_position
#print axioms QmiModel.Adbasic.analyze_outcomes
#print axioms QmiModel.Adbasic.ranges_partition
#print axioms QmiModel.Adbasic.batch_set_eq_single
#print axioms QmiModel.Adbasic.batch_get_eq_single
#print axioms QmiModel.Adbasic.batch_get_any_names
#print axioms QmiModel.Adbasic.batch_get_drops_repeated_spelling
#print axioms QmiModel.Adbasic.touches_exactly_bound_registers
#print axioms QmiModel.Adbasic.start_with_params_eq_single
#print axioms QmiModel.Adbasic.name_denotes_one_register
#print axioms QmiModel.Adbasic.names_resolve_injectively
#print axioms QmiModel.Adbasic.batch_get_eq_single_on_parsed_program
#print axioms QmiModel.Adbasic.parse_terminates
#print axioms QmiModel.Adbasic.include_cycle_parsed_once
