import QmiModel.Props.C12
#print axioms QmiModel.Context.placeholder_c12
