import QmiModel.Props.C07
#print axioms QmiModel.PubSub.validName_no_dot
#print axioms QmiModel.PubSub.key_injective
#print axioms QmiModel.PubSub.remote_key_injective
#print axioms QmiModel.PubSub.prefix_iff_same_context
