import QmiModel.Props.C07
#print axioms QmiModel.PubSub.validName_no_dot
#print axioms QmiModel.PubSub.key_injective
#print axioms QmiModel.PubSub.remote_key_injective
#print axioms QmiModel.PubSub.prefix_iff_same_context
#print axioms QmiModel.PubSub.delivered_iff_in_snapshot
#print axioms QmiModel.PubSub.delivered_iff_in_snapshot_done
#print axioms QmiModel.PubSub.one_thread_per_snapshot
#print axioms QmiModel.PubSub.unsubscribe_takes_effect
#print axioms QmiModel.PubSub.quiet_preserved
#print axioms QmiModel.PubSub.no_delivery_after_unsubscribe
#print axioms QmiModel.PubSub.snaps_append_only
#print axioms QmiModel.PubSub.deliveries_in_snapshot_order
#print axioms QmiModel.PubSub.own_snapshots_in_publication_order
#print axioms QmiModel.PubSub.per_publisher_thread_order_local
#print axioms QmiModel.PubSub.per_publisher_thread_order_partial
#print axioms QmiModel.PubSub.network_fifo
#print axioms QmiModel.PubSub.per_publisher_thread_order
