import QmiModel.Props.C09
import QmiModel.Props.C09Conc
#print axioms QmiModel.RecvQueue.inv_init
#print axioms QmiModel.RecvQueue.inv_step
#print axioms QmiModel.RecvQueue.cap_gstep
#print axioms QmiModel.RecvQueue.cap_grun
#print axioms QmiModel.RecvQueue.inv_reachable
#print axioms QmiModel.RecvQueue.len_le_cap
#print axioms QmiModel.RecvQueue.queue_sorted
#print axioms QmiModel.RecvQueue.getNext_total
#print axioms QmiModel.RecvQueue.seq_strict_mono_out
#print axioms QmiModel.RecvQueue.accounting
#print axioms QmiModel.RecvQueue.accounting_nodup
#print axioms QmiModel.RecvQueue.gap_is_lost
#print axioms QmiModel.RecvQueue.gap_count
#print axioms QmiModel.RecvQueue.policy_new
#print axioms QmiModel.RecvQueue.policy_old
#print axioms QmiModel.RecvQueue.recv_not_full
#print axioms QmiModel.RecvQueue.grun_r
#print axioms QmiModel.RecvConc.gen_progs
