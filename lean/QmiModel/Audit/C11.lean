import QmiModel.Props.C11
#print axioms QmiModel.C11.cert_sleep
#print axioms QmiModel.C11.cert_recvN
#print axioms QmiModel.C11.cert_recvT
#print axioms QmiModel.C11.cert_loop
#print axioms QmiModel.C11.cert_sleep2
#print axioms QmiModel.C11.waiter_good
#print axioms QmiModel.C11.loop_good
#print axioms QmiModel.C11.closure_sound
#print axioms QmiModel.C11.no_lost_wakeup
#print axioms QmiModel.C11.no_thread_error_and_flag_set
#print axioms QmiModel.C11.no_deadlock
#print axioms QmiModel.C11.wait_after_stop_does_not_park
#print axioms QmiModel.C11.released_with_stop_exception
#print axioms QmiModel.C11.released_reaches_stop_exception
#print axioms QmiModel.C11.sleep_interruptible
#print axioms QmiModel.C11.loop_task_finalises
#print axioms QmiModel.C11.lookup_before_flag_loses_wakeup
