import QmiModel.Props.C10
#print axioms QmiModel.Task.run_at_most_once
#print axioms QmiModel.Task.run_at_most_once_hist
#print axioms QmiModel.Task.run_only_after_start
#print axioms QmiModel.Task.run_only_after_start_hist
#print axioms QmiModel.Task.stop_first_never_runs
#print axioms QmiModel.Task.stop_first_never_runs_hist
#print axioms QmiModel.Task.second_start_refused
#print axioms QmiModel.Task.start_after_stop_refused
#print axioms QmiModel.Task.first_start_accepted
#print axioms QmiModel.Task.start_never_asserts
#print axioms QmiModel.Task.join_returns_only_when_finished
#print axioms QmiModel.Task.join_raises_iff_exception
#print axioms QmiModel.Task.is_running_iff_running
#print axioms QmiModel.Task.update_true_iff_posted_since_last
#print axioms QmiModel.Task.settings_newest_wins
#print axioms QmiModel.Task.pending_is_newest
#print axioms QmiModel.Task.settings_change_only_by_update
