/-!
# C19 — abstract `open()` / `close()` programs of instrument drivers

The translator (`harness/tr_openprogs.py`) reads the AST of `open`/`close` of every transport-based driver
class and emits one `Driver` per class (`Gen/OpenProgs.lean`).  This file is the language and its semantics.

State: the instrument flag (`QMI_Instrument._is_open`), the set of open device links
(`QMI_Transport._is_open` per transport attribute, numbered `0 … nlinks-1`), the log of steps that reached the
device, the trace of executed statements (for the line-trace correspondence with the real code) and the number
of fault points passed so far.

Fault plan: a function from the index of a potentially-raising step (counted from 0 within one call, link opening
included) to the exception kind it raises, if any — so a plan may contain any number of faults; `noFault` is the
empty plan, `single k κ` the plan of the property statement ("the k-th device I/O raises κ").  Potentially-raising
steps are `tOpen`, `io` (every statement the translator cannot show to be pure) and `tClose` (a transport's
`close()` clears its open flag first — `QMI_Transport.close` — and may then fail while releasing the OS resource:
the link counts as released, the exception propagates).  `checkClosed`/`checkOpen`/`superOpen`/`superClose`/
`tOpen`/`tClose` raise `invalidOp` in the wrong state exactly like `QMI_Instrument._check_is_*` and
`QMI_Transport.open/close`.

Evaluation is by `Nat` fuel (one unit per list cell and nesting level) because `Stmt` is a nested inductive:
structural recursion through it would be compiled by well-founded recursion and not reduce under `decide`.
Core Lean only.
-/
namespace QmiModel.OpenProg

/-- exception classes a handler in a driver can tell apart -/
inductive Kind
  | timeout      -- QMI_TimeoutException
  | instr        -- QMI_InstrumentException
  | os           -- OSError
  | value        -- ValueError (typical for a malformed reply)
  | other        -- any other `Exception`
  | invalidOp    -- QMI_InvalidOperationException (wrong-state refusal by instrument or transport)
  deriving DecidableEq, Repr

def allKinds : List Kind := [.timeout, .instr, .os, .value, .other, .invalidOp]

theorem mem_allKinds (κ : Kind) : κ ∈ allKinds := by cases κ <;> decide

inductive Atom
  | pure                 -- cannot raise, no effect on flag/links
  | io                   -- potentially-raising step (device I/O or anything not known to be pure)
  | checkClosed          -- `self._check_is_closed()`
  | checkOpen            -- `self._check_is_open()`
  | tOpen (t : Nat)      -- `self.<transport t>.open()`   (fault point: link-open failure)
  | tClose (t : Nat)     -- `self.<transport t>.close()`
  | superOpen            -- `QMI_Instrument.open`:  check closed; flag := true
  | superClose           -- `QMI_Instrument.close`: check open; flag := false
  deriving DecidableEq, Repr

/-- how an `except` block ends -/
inductive Exit
  | reraise              -- `raise`
  | raiseK (κ : Kind)    -- `raise SomeException(...)`
  | swallow              -- falls off the end: the exception is gone, execution continues after the `try`
  deriving DecidableEq, Repr

inductive Stmt
  | atom (id : Nat) (a : Atom)
  | try_ (body : List Stmt) (catches : List Kind) (handler : List Stmt) (exit : Exit)
  deriving Repr

abbrev Prog := List Stmt

structure St where
  instrOpen : Bool
  links : List Nat          -- open links
  ioLog : List Nat          -- ids of the steps that reached a device (most recent first)
  trace : List Nat          -- ids of the executed atoms (most recent first)
  cnt : Nat                 -- fault points passed so far
  deriving DecidableEq, Repr

inductive Res
  | ok
  | raised (κ : Kind)
  | outOfFuel
  deriving DecidableEq, Repr

/-- fault plan: `P k = some κ` = the k-th fault point of the call raises κ (any number of faults) -/
abbrev Plan := Nat → Option Kind

/-- no fault at all -/
def noFault : Plan := fun _ => none

/-- exactly one fault: the k-th fault point raises κ -/
def single (k : Nat) (κ : Kind) : Plan := fun c => if c = k then some κ else none

def init : St := ⟨false, [], [], [], 0⟩

def linkOpen (s : St) (t : Nat) : Bool := s.links.contains t

/-- does the plan fire at the fault point reached in state `s`? -/
def fault (P : Plan) (s : St) : Option Kind := P s.cnt

/-- device I/O is only possible through an open link (`QMI_Transport._check_is_open`) -/
def logIO (id : Nat) (s : St) : List Nat := if s.links.isEmpty then s.ioLog else id :: s.ioLog

def stepAtom (P : Plan) (id : Nat) (a : Atom) (s0 : St) : St × Res :=
  let s := { s0 with trace := id :: s0.trace }
  match a with
  | .pure => (s, .ok)
  | .checkClosed => if s.instrOpen then (s, .raised .invalidOp) else (s, .ok)
  | .checkOpen => if s.instrOpen then (s, .ok) else (s, .raised .invalidOp)
  | .superOpen => if s.instrOpen then (s, .raised .invalidOp) else ({ s with instrOpen := true }, .ok)
  | .superClose => if s.instrOpen then ({ s with instrOpen := false }, .ok) else (s, .raised .invalidOp)
  | .tOpen t =>
      if s.links.contains t then (s, .raised .invalidOp)
      else match fault P s with
        | some κ => ({ s with cnt := s.cnt + 1 }, .raised κ)
        | none => ({ s with cnt := s.cnt + 1, links := t :: s.links, ioLog := id :: s.ioLog }, .ok)
  | .tClose t =>
      if s.links.contains t then
        match fault P s with
        | some κ => ({ s with cnt := s.cnt + 1, links := s.links.filter (· != t), ioLog := id :: s.ioLog }, .raised κ)
        | none => ({ s with cnt := s.cnt + 1, links := s.links.filter (· != t), ioLog := id :: s.ioLog }, .ok)
      else (s, .raised .invalidOp)
  | .io =>
      match fault P s with
      | some κ => ({ s with cnt := s.cnt + 1, ioLog := logIO id s }, .raised κ)
      | none => ({ s with cnt := s.cnt + 1, ioLog := logIO id s }, .ok)

/-- how an `except` block that ran to its end leaves: the result seen by the enclosing code -/
def Exit.apply (ex : Exit) (κ : Kind) : Res :=
  match ex with
  | .reraise => .raised κ
  | .raiseK κ' => .raised κ'
  | .swallow => .ok

/-- sequencing: continue with `k` only after a normal completion -/
def andThen (r : St × Res) (k : St → St × Res) : St × Res :=
  match r.2 with
  | .ok => k r.1
  | _ => r

/-- `try: body except cs: handler; exit` given the result of the body and the handler as a function -/
def handleRes (cs : List Kind) (ex : Exit) (r1 : St × Res) (runH : St → St × Res) : St × Res :=
  match r1.2 with
  | .raised κ =>
      if cs.contains κ then
        let r2 := runH r1.1
        match r2.2 with
        | .ok => (r2.1, ex.apply κ)
        | _ => r2
      else r1
  | _ => r1

/-- run a statement list; fuel-based (see the header) -/
def exec (P : Plan) : Nat → Prog → St → St × Res
  | 0, _, s => (s, .outOfFuel)
  | _ + 1, [], s => (s, .ok)
  | f + 1, .atom id a :: rest, s => andThen (stepAtom P id a s) (exec P f rest)
  | f + 1, .try_ body cs h ex :: rest, s =>
      andThen (handleRes cs ex (exec P f body s) (exec P f h)) (exec P f rest)

/-- the fuel every generated program is run with (the obligations check that it is never exhausted) -/
def fuel0 : Nat := 400

structure Driver where
  name : String
  nlinks : Nat
  openP : Prog
  closeP : Prog
  deriving Repr

/-- `open()` on a fresh (closed) instrument under a fault plan -/
def runOpen (d : Driver) (P : Plan) : St × Res := exec P fuel0 d.openP init

/-- start of a new call: per-call counters cleared, flag and links kept -/
def fresh (s : St) : St := { s with ioLog := [], trace := [], cnt := 0 }

/-- `close()` under a fault plan, after a fault-free `open()` -/
def runClose (d : Driver) (P : Plan) : St × Res := exec P fuel0 d.closeP (fresh (runOpen d noFault).1)

/-- number of fault points passed by the fault-free `open()` -/
def freeCount (d : Driver) : Nat := (runOpen d noFault).1.cnt

/-- is_open() true exactly when the driver holds (all of) its device link(s) -/
def consistentB (n : Nat) (s : St) : Bool :=
  if s.instrOpen then (List.range n).all (fun t => s.links.contains t) else s.links.isEmpty

def fullyOpenB (n : Nat) (s : St) : Bool := s.instrOpen && (List.range n).all (fun t => s.links.contains t)
def fullyClosedB (s : St) : Bool := !s.instrOpen && s.links.isEmpty

/-- one row of the per-class table: the run is consistent and the fuel sufficed -/
def rowOK (d : Driver) (P : Plan) : Bool :=
  let r := runOpen d P
  consistentB d.nlinks r.1 && r.2 != .outOfFuel

/-- the finite table `∀ plan` reduces to: no fault, and every fault point of the fault-free run × every kind -/
def checkAll (d : Driver) : Bool :=
  rowOK d noFault &&
  (List.range (freeCount d)).all fun k => allKinds.all fun κ => rowOK d (single k κ)

/-- the same table with a finite list of excused plans -/
def checkAllExcept (d : Driver) (bad : List (Nat × Kind)) : Bool :=
  rowOK d noFault &&
  (List.range (freeCount d)).all fun k => allKinds.all fun κ => bad.contains (k, κ) || rowOK d (single k κ)

/-- same flag and same open links (what the future behaviour depends on) -/
def sameCore (a b : St) : Bool :=
  a.instrOpen == b.instrOpen && (a.links.all b.links.contains) && (b.links.all a.links.contains)

/-- open / close / is_open histories of one class, fault-free:
    open works and opens every link exactly once; open on open is refused and changes nothing; close works and
    releases every link; close on closed is refused; a second open/close round behaves like the first. -/
def histOK (d : Driver) : Bool :=
  let o1 := exec noFault fuel0 d.openP init
  let o2 := exec noFault fuel0 d.openP o1.1
  let c1 := exec noFault fuel0 d.closeP o1.1
  let c2 := exec noFault fuel0 d.closeP c1.1
  let o3 := exec noFault fuel0 d.openP c1.1
  let c0 := exec noFault fuel0 d.closeP init
  o1.2 == .ok && fullyOpenB d.nlinks o1.1 && o1.1.links.length == d.nlinks &&
  o2.2 == .raised .invalidOp && sameCore o2.1 o1.1 && o2.1.ioLog == o1.1.ioLog &&
  c1.2 == .ok && fullyClosedB c1.1 &&
  c2.2 == .raised .invalidOp && fullyClosedB c2.1 && c2.1.ioLog == c1.1.ioLog &&
  o3.2 == .ok && fullyOpenB d.nlinks o3.1 &&
  c0.2 == .raised .invalidOp && fullyClosedB c0.1 && c0.1.ioLog == []

/-- after `open()` under any tabulated plan: if the instrument ended marked open, `close()` works and releases
    everything; if it ended marked closed and consistent, a fault-free `open()` succeeds (retry). -/
def recoverRow (d : Driver) (P : Plan) : Bool :=
  let r := runOpen d P
  if r.1.instrOpen then
    (let c := exec noFault fuel0 d.closeP r.1; !consistentB d.nlinks r.1 || (c.2 == .ok && fullyClosedB c.1))
  else
    (let o := exec noFault fuel0 d.openP r.1; !consistentB d.nlinks r.1 || (o.2 == .ok && fullyOpenB d.nlinks o.1))

def recoverAll (d : Driver) : Bool :=
  recoverRow d noFault &&
  (List.range (freeCount d)).all fun k => allKinds.all fun κ => recoverRow d (single k κ)

/-- what the static analysis found at the start of an RPC method (other than open/close) -/
inductive Guard
  | guard     -- `self._check_is_open()` (directly or through the self-method called first) precedes any link access
  | noio      -- never touches a link object
  | bare      -- may reach a link object before any instrument-level check: stopped only by the transport's own check
  deriving DecidableEq, Repr

/-- the abstract program of such a method -/
def Guard.prog : Guard → Prog
  | .guard => [.atom 9001 .checkOpen, .atom 9002 .io]
  | .noio => [.atom 9003 .pure]
  | .bare => [.atom 9002 .io]

/-- names of the methods that rely on the transport-level refusal -/
def bareMethods (l : List (String × Guard)) : List String := (l.filter (fun m => m.2 == .bare)).map (·.1)

end QmiModel.OpenProg
