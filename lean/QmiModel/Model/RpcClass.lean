/-!
# C05 — which names can be invoked through a method-request message

Model of `qmi/core/rpc.py` (repaired tree, commit b296ced):

* `rpc_method` / `is_rpc_method`            → the `marked` flag of a member (runtime attribute `_rpc_method`)
* `make_interface_descriptor`               → `advertised`, `construct` (protected names ⇒ `QMI_UsageException`)
* `_RpcThread._check_and_get_method`        → `instLookup`: the name is resolved with `inspect.getattr_static(obj, name)`
                                               — a class-level *data descriptor* (property, `__class__`) is returned as
                                               the descriptor object itself, otherwise the instance `__dict__` entry,
                                               otherwise the class member; no descriptor is evaluated and `__getattr__`
                                               is never consulted —, a `staticmethod` is unwrapped and the result is
                                               tested with `is_rpc_method` (plain function ∧ marker), the very test of
                                               `make_interface_descriptor`; only then is the attribute bound by `getattr`
                                               and called.  `invokable`, `effects`, `reply`.

A class is its MRO: a list of member tables (`vars(K)` for every `K` in `type(obj).__mro__`, most derived first),
plus the instance `__dict__` after construction.  Names are natural numbers: the injective encoding `encodeName`
of the code-point list of the Python string (all theorems quantify over *all* naturals, hence over all strings).

Core Lean only.
-/
namespace QmiModel.RpcClass

abbrev Name := Nat

/-- bijective base-`0x110001` numeration of a code-point list (code points are `< 0x110000`, so every digit
`cp+1` is in `1 … 0x110000`): injective on lists of code points. -/
def nameBase : Nat := 0x110001

def encodeName : List Nat → Nat
  | [] => 0
  | c :: cs => (c + 1) + nameBase * encodeName cs

/-- what `vars(K)[name]` is (classification done by the translator with `inspect.getattr_static` semantics) -/
inductive Kind where
  /-- plain Python function; `marked` = truthiness of its `_rpc_method` attribute; `declared` = the statement that
  binds the name in the class body carries the `@rpc_method` decorator (or is an alias of such a name) -/
  | func (marked declared : Bool)
  /-- `staticmethod` wrapping a plain function (marker read off the inner function) -/
  | staticfn (marked declared : Bool)
  /-- `classmethod` wrapping a plain function -/
  | classfn (marked declared : Bool)
  /-- `property` (or another Python-level *data* descriptor): the static lookup yields the descriptor object, its
  getter does not run -/
  | prop
  /-- Python-level *non-data* descriptor (`functools.cached_property`): the static lookup yields the descriptor
  object unless the instance dict shadows it -/
  | ndprop
  /-- plain value / C-level descriptor: lookup runs no Python code, the result carries no marker -/
  | data
  /-- non-function class-level value that is not a descriptor (callable object, nested class, partial …) whose
  `_rpc_method` attribute has the given truthiness -/
  | callableObj (marked : Bool)
  /-- `object.__class__`: a C-level data descriptor; the static lookup yields the descriptor object -/
  | classRef
  deriving DecidableEq, Repr

abbrev Table := List (Name × Kind)

structure RpcClass where
  /-- `[vars(K) for K in type(obj).__mro__]` -/
  mro : List Table
  /-- instance `__dict__`: name ↦ "`is_rpc_method(value)`: the value is a plain function with a truthy `_rpc_method`" -/
  inst : List (Name × Bool) := []
  /-- names of the signals the object publishes (`signal_declaration_class._qmi_signals`) -/
  sigs : List Name := []
  /-- union of the `_rpc_constants` lists along the MRO -/
  consts : List Name := []
  /-- some class of the MRO (other than `object`) overrides `__getattribute__`: every *dynamic* attribute access on the
  object runs that code (the static lookup does not) -/
  getattributeOverride : Bool := false
  deriving Repr

def lookup {β : Type} : List (Name × β) → Name → Option β
  | [], _ => none
  | (k, v) :: r, n => if k = n then some v else lookup r n

/-- `_PyType_Lookup`: first hit along the MRO -/
def resolve : List Table → Name → Option Kind
  | [], _ => none
  | t :: ts, n =>
    match lookup t n with
    | some k => some k
    | none => resolve ts n

def tableKeys {β : Type} : List (Name × β) → List Name
  | [] => []
  | (k, _) :: r => k :: tableKeys r

/-- `dir(cls)` (with repetitions; the metaclass contributes nothing to `dir`) -/
def keysOf : List Table → List Name
  | [] => []
  | t :: ts => tableKeys t ++ keysOf ts

def keys (C : RpcClass) : List Name := keysOf C.mro

/-- every name the object knows about: class members along the MRO and instance attributes -/
def allNames (C : RpcClass) : List Name := keys C ++ tableKeys C.inst

def dedup : List Name → List Name
  | [] => []
  | a :: l => if a ∈ l then dedup l else a :: dedup l

/-! ## what `make_interface_descriptor` lists -/

/-- `is_rpc_method(getattr(cls, name))`: class-level `getattr` unwraps a `staticmethod` to its function, turns a
`classmethod` into a bound method (not `isfunction`), returns a `property` object itself. -/
def isRpcMember : Kind → Bool
  | .func m _ => m
  | .staticfn m _ => m
  | _ => false

def isAdvertised (C : RpcClass) (n : Name) : Bool :=
  match resolve C.mro n with
  | some k => isRpcMember k
  | none => false

/-- the method names of the interface descriptor (the real list is this one sorted by name) -/
def advertised (C : RpcClass) : List Name := dedup ((keys C).filter (isAdvertised C))

def n_lock : Name := encodeName [108, 111, 99, 107]
def n_unlock : Name := encodeName [117, 110, 108, 111, 99, 107]
def n_force_unlock : Name := encodeName [102, 111, 114, 99, 101, 95, 117, 110, 108, 111, 99, 107]
def n_is_locked : Name := encodeName [105, 115, 95, 108, 111, 99, 107, 101, 100]

def protectedNames : List Name := [n_lock, n_unlock, n_force_unlock, n_is_locked]

inductive PyExc where
  | usage           -- QMI_UsageException("`name` is a protected method name")
  | assertion       -- AssertionError: an `_rpc_constants` entry is missing on the class or is a function
  | attributeError  -- AttributeError: `QMI_RpcProxy.address` is a property without setter
  deriving DecidableEq, Repr

/-- `inspect.isfunction(getattr(cls, name))` -/
def isFunctionOnClass : Kind → Bool
  | .func _ _ => true
  | .staticfn _ _ => true
  | _ => false

/-- the two `assert`s of the constants section: `hasattr(cls, c)` and `not isfunction(getattr(cls, c))` -/
def constOk (C : RpcClass) (c : Name) : Bool :=
  match resolve C.mro c with
  | none => false
  | some k => !isFunctionOnClass k

/-- the signals loop (commit 5a19713): a signal — for a task runner declared by the *task* class — must not have the
name of an RPC method of the object or of a lock-control method -/
def sigOk (C : RpcClass) (s : Name) : Bool := !isAdvertised C s && !protectedNames.contains s

/-- `make_interface_descriptor(cls)` as called from `QMI_RpcObject.__init__`: the object exists only if this is `ok`.
Methods first (protected names ⇒ `QMI_UsageException`), then signals (name of a method / lock-control name ⇒
`QMI_UsageException`), then constants (two `assert`s). -/
def construct (C : RpcClass) : Except PyExc (List Name) :=
  if (advertised C).any (fun n => protectedNames.contains n) then .error .usage
  else if !C.sigs.all (sigOk C) then .error .usage
  else if C.consts.all (constOk C) then .ok (advertised C)
  else .error .assertion

/-! ## what `_check_and_get_method` does for a method-name string -/

inductive Got where
  | absent                  -- `getattr_static` raises AttributeError: "does not have method …"
  | value (marked : Bool)   -- static lookup found an object; `is_rpc_method(unwrap staticmethod)` has this value
  deriving DecidableEq, Repr

/-- `inspect.getattr_static(obj, n)`, then `staticmethod` unwrapping, then `is_rpc_method` -/
def instLookup (C : RpcClass) (n : Name) : Got :=
  match resolve C.mro n with
  | some .prop => .value false       -- data descriptor beats the instance dict; the property object is no function
  | some .classRef => .value false   -- likewise (`__class__` getset descriptor)
  | r =>
    match lookup C.inst n with
    | some m => .value m
    | none =>
      match r with
      | some k => .value (isRpcMember k)
      | none => .absent

inductive Effect where
  | called (n : Name)        -- the attribute was bound with `getattr` and called with the request's arguments
  | attrCodeRan (n : Name)   -- a *dynamic* attribute access `obj.<n>` by the dispatcher ran code of the object
  deriving DecidableEq, Repr

inductive Reply where
  | unknownRpc               -- QMI_UnknownRpcException
  | methodResult             -- whatever the invoked method returned / raised
  | objectLocked             -- state OBJECT_IS_LOCKED, result None
  deriving DecidableEq, Repr

/-- the request passes `_check_and_get_method` and the result is called -/
def invokable (C : RpcClass) (n : Name) : Bool :=
  match instLookup C n with
  | .value true => true
  | _ => false

/-- code of the object that runs while the request is handled: nothing at all unless the method is invoked -/
def effects (C : RpcClass) (n : Name) : List Effect :=
  match instLookup C n with
  | .absent => []
  | .value false => []
  | .value true => [.called n]

def reply (C : RpcClass) (n : Name) : Reply :=
  match instLookup C n with
  | .absent => .unknownRpc
  | .value false => .unknownRpc
  | .value true => .methodResult

/-! ## the whole of `_handle_method_rpc_request`: the lock-token test precedes the dispatch -/

abbrev Token := Nat

/-- `self._locking_token is None or self._locking_token == request.lock_token` -/
def admitted (lock req : Option Token) : Bool :=
  match lock with
  | none => true
  | some t => req == some t

def n__name : Name := encodeName [95, 110, 97, 109, 101]

/-- does the *dynamic* access `obj.<n>` (`object.__getattribute__`, or an override of it) run Python code of the object? -/
def dynAttrRunsCode (C : RpcClass) (n : Name) : Bool :=
  C.getattributeOverride ||
  match resolve C.mro n with
  | some .prop => true
  | some .ndprop => (lookup C.inst n).isNone
  | _ => false

/-- the refused branch logs `self._rpc_object._name` — the only attribute access on the object it makes -/
def refusedEffects (C : RpcClass) : List Effect :=
  if dynAttrRunsCode C n__name then [.attrCodeRan n__name] else []

/-- `_handle_method_rpc_request`: (reply, code of the object that ran) for lock state `lock`, request token `req`
and method name `n` -/
def handle (C : RpcClass) (lock req : Option Token) (n : Name) : Reply × List Effect :=
  if admitted lock req then (reply C n, effects C n) else (.objectLocked, refusedEffects C)

/-! ## the proxy built from the descriptor (`QMI_RpcProxy.__init__`) -/

def n_address : Name := encodeName [97, 100, 100, 114, 101, 115, 115]
def n_rpc_nonblocking : Name :=
  encodeName [114, 112, 99, 95, 110, 111, 110, 98, 108, 111, 99, 107, 105, 110, 103]

/-- The proxy sets, in this order and on the *same* instance: constants, one forwarding stub per descriptor method,
one subscriber per signal, then `rpc_nonblocking`.  `address` is a property of `QMI_RpcProxy` without setter, so a
constant / method / signal of that name makes `setattr` raise.  Result: the names that end up as forwarding stubs. -/
def proxyBuild (ms consts sigs : List Name) : Except PyExc (List Name) :=
  if (consts ++ ms ++ sigs).contains n_address then .error .attributeError
  else .ok (ms.filter (fun n => !sigs.contains n && n != n_rpc_nonblocking))

/-- what `construct` does not already exclude: `address` / `rpc_nonblocking` is not an advertised method, `address` is
neither a constant nor a signal, no constant has a lock-control name -/
def proxyCleanB (C : RpcClass) : Bool :=
  [n_address, n_rpc_nonblocking].all (fun n => !isAdvertised C n)
  && !(C.consts ++ C.sigs).contains n_address
  && !C.consts.any (fun c => protectedNames.contains c)

/-- the side conditions of the per-class obligation `full_<Class>` beyond `WellFormed`: the refused branch runs no code
of the object, every constant passes the asserts, the proxy forwards exactly the advertised methods -/
def gateProxyOkB (C : RpcClass) : Bool :=
  !dynAttrRunsCode C n__name && C.sigs.all (sigOk C) && C.consts.all (constOk C) && proxyCleanB C

/-- the member that resolves for `n` was explicitly declared with `@rpc_method` in its class body -/
def declared (C : RpcClass) (n : Name) : Bool :=
  match resolve C.mro n with
  | some (.func _ d) => d
  | some (.staticfn _ d) => d
  | some (.classfn _ d) => d
  | _ => false

/-! ## well-formedness (decidable: a finite check over the names in the tables) -/

/-- the property at one name: dispatch agrees with the advertised list, only declared methods are invokable (and
not through an instance attribute), and a rejected name ran nothing -/
def nameOk (C : RpcClass) (n : Name) : Bool :=
  match instLookup C n with
  | .absent => true
  | .value m => (m == isAdvertised C n) && (!m || (declared C n && (lookup C.inst n).isNone))

/-- well-formed except for the listed names -/
def wfExceptB (C : RpcClass) (bad : List Name) : Bool :=
  (allNames C).all (fun n => bad.contains n || nameOk C n)
  && protectedNames.all (fun n => !isAdvertised C n)

def WellFormedExcept (C : RpcClass) (bad : List Name) : Prop := wfExceptB C bad = true

def WellFormed (C : RpcClass) : Prop := WellFormedExcept C []

instance (C : RpcClass) (bad : List Name) : Decidable (WellFormedExcept C bad) :=
  inferInstanceAs (Decidable (wfExceptB C bad = true))

instance (C : RpcClass) : Decidable (WellFormed C) :=
  inferInstanceAs (Decidable (wfExceptB C [] = true))

/-- the names of a class at which the property fails in the model (for the driver / counter-examples) -/
def badNames (C : RpcClass) : List Name := dedup ((allNames C).filter (fun n => !nameOk C n))

/-! ## a syntactic sufficient condition (cheap to evaluate: one linear pass over the tables) -/

/-- member kinds that can never break the property, whatever shadows what along the MRO: the class-level test of
`make_interface_descriptor` and the static test of `_check_and_get_method` are the same function of the kind, so the
only thing left to demand is that a marked function was declared with `@rpc_method` -/
def cleanKind : Kind → Bool
  | .func m d => !m || d
  | .staticfn m d => !m || d
  | _ => true

def tableCleanExcept (bad : List Name) : Table → Bool
  | [] => true
  | (n, k) :: r => (bad.contains n || cleanKind k) && tableCleanExcept bad r

def tablesCleanExcept (bad : List Name) : List Table → Bool
  | [] => true
  | t :: ts => tableCleanExcept bad t && tablesCleanExcept bad ts

def instCleanExcept (C : RpcClass) (bad : List Name) : List (Name × Bool) → Bool
  | [] => true
  | (n, m) :: r => (bad.contains n || (!m && !isAdvertised C n)) && instCleanExcept C bad r

/-- every member of every table clean (or excepted), instance attributes not marked functions and not shadowing an
advertised method, no protected name advertised -/
def synWfB (C : RpcClass) (bad : List Name) : Bool :=
  tablesCleanExcept bad C.mro && instCleanExcept C bad C.inst
  && protectedNames.all (fun n => !isAdvertised C n)

/-! ## the statement of the property at one name -/

/-- the statement of C05 for class `C` at name `n` -/
def PropertyAt (C : RpcClass) (n : Name) : Prop :=
  (invokable C n = true ↔ n ∈ advertised C)
  ∧ (invokable C n = true → declared C n = true ∧ lookup C.inst n = none)
  ∧ (¬ invokable C n = true → effects C n = [] ∧ reply C n = .unknownRpc)

end QmiModel.RpcClass
