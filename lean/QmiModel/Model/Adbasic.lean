/-!
# Model of `qmi/utils/adbasic_parser.py` and the parameter accessors of
# `qmi/utils/adwin_manager.py:AdwinProcess` — property C20

Mirrors, branch by branch:

* `_parse_single_adbasic_file`  — `scanFile` (text-mode universal newlines, `str.splitlines`, the two
  regexes `re_define` / `re_include` written out as functions);
* `_resolve_include_path`       — `resolveInclude` (`posixpath.join`, `dirname`, `normpath` written out);
* `parse_adbasic_program`       — `parseLoop` (a FIFO work-list plus the set `files_parsed` of normalised
  paths; entries already parsed are skipped. The function is written with fuel — one unit = one `open()`
  of the real parser, which is what the harness' watchdog counts — and `Props/C20.lean` proves that
  `length fs + 1` units always suffice);
* `_extract_data_defines`, `_extract_par_defines`, `analyze_parameter_info` — `extractData`,
  `extractPar`, `analyze` (Python dicts are insertion-ordered association lists). Both loops have the same
  shape: classify the symbol (`dataClass` / `parClass`: prefix test, value regexes, `int()`), then run the
  three duplicate checks and the three stores (`bindOne`), so they share `stepCls` / `loopCls`;
* `AdwinProcess.get_par / set_par / _find_sequential_ranges / get_par_multiple / set_par_multiple /
  start_with_params` against a simulated ADwin register file with an access log.

Strings are `List Char` (the harness only feeds code points the model treats like CPython does:
ASCII, the non-ASCII line separators, and the eleven non-ASCII code points with an ASCII case partner, see `upperS`). Python exceptions are values.

Core Lean only (the driver exe links this file).
-/
namespace QmiModel.Adbasic

abbrev Str := List Char

/-! ## Characters -/

/-- `\s` of a regex compiled with `re.ASCII` -/
def isSpace (c : Char) : Bool :=
  c == ' ' || c == '\t' || c == '\n' || c == '\r' || c == '\x0b' || c == '\x0c'

/-- `\s` of a `str` regex compiled *without* `re.ASCII` (restricted to code points < 128):
the ASCII separators FS, GS, RS, US count as white space too -/
def isSpaceU (c : Char) : Bool :=
  isSpace c || c == '\x1c' || c == '\x1d' || c == '\x1e' || c == '\x1f'

def isDigit (c : Char) : Bool := '0' ≤ c && c ≤ '9'

/-- ASCII letter case (what a regex literal under `re.IGNORECASE` and the prefix tests see) -/
def upperC (c : Char) : Char := if 'a' ≤ c ∧ c ≤ 'z' then Char.ofNat (c.toNat - 32) else c
def lowerC (c : Char) : Char := if 'A' ≤ c ∧ c ≤ 'Z' then Char.ofNat (c.toNat + 32) else c

/-- `str.upper()` of one code point, on the admitted alphabet: ASCII plus every non-ASCII code point whose
`upper()` or `lower()` is pure ASCII (these are exactly the ones that can collide with an ASCII name):
U+00DF ß → "SS", U+0131 ı → "I", U+017F ſ → "S", U+FB00..FB06 (ligatures) → "FF" "FI" "FL" "FFI" "FFL" "ST" "ST";
U+212A (Kelvin sign) is its own upper case. Other code points are outside the modelled alphabet (identity). -/
def upperS (c : Char) : Str :=
  if c = Char.ofNat 0xDF then ['S', 'S']
  else if c = Char.ofNat 0x131 then ['I']
  else if c = Char.ofNat 0x17F then ['S']
  else if c = Char.ofNat 0xFB00 then ['F', 'F']
  else if c = Char.ofNat 0xFB01 then ['F', 'I']
  else if c = Char.ofNat 0xFB02 then ['F', 'L']
  else if c = Char.ofNat 0xFB03 then ['F', 'F', 'I']
  else if c = Char.ofNat 0xFB04 then ['F', 'F', 'L']
  else if c = Char.ofNat 0xFB05 then ['S', 'T']
  else if c = Char.ofNat 0xFB06 then ['S', 'T']
  else [upperC c]

/-- `str.lower()` of one code point on the same alphabet: only U+212A (Kelvin sign) → "k" is special -/
def lowerS (c : Char) : Str :=
  if c = Char.ofNat 0x212A then ['k'] else [lowerC c]

/-- `str.upper()` -/
def upper (s : Str) : Str := s.flatMap upperS
/-- `str.lower()` -/
def lower (s : Str) : Str := s.flatMap lowerS

/-- every code point is ASCII -/
def isAscii (s : Str) : Prop := ∀ c ∈ s, c.toNat < 128

/-- does `s` start with the lower-case literal `pat`, ignoring ASCII case?
(a case-insensitive regex literal without letters that have non-ASCII case partners, and
`s.upper().startswith(PAT)` for `PAT` ∈ {"DATA_", "PAR_"}: no non-ASCII code point has D, A, P, R or _ in its
upper case, and T only as the second letter of "ST") -/
def startsWithCI : (pat s : Str) → Bool
  | [], _ => true
  | _ :: _, [] => false
  | p :: ps, c :: cs => lowerC c == p && startsWithCI ps cs

def spanP (p : Char → Bool) : Str → Str × Str
  | [] => ([], [])
  | c :: cs => if p c then let (a, b) := spanP p cs; (c :: a, b) else ([], c :: cs)

def dropWhileP (p : Char → Bool) : Str → Str
  | [] => []
  | c :: cs => if p c then dropWhileP p cs else c :: cs

/-- `str.split(sep)` for a one-character separator -/
def splitOnChar (sep : Char) : Str → List Str
  | [] => [[]]
  | c :: cs =>
    match splitOnChar sep cs with
    | [] => [[]]            -- unreachable: the result is never empty
    | w :: ws => if c == sep then [] :: w :: ws else (c :: w) :: ws

def joinWith (sep : Str) : List Str → Str
  | [] => []
  | [w] => w
  | w :: ws => w ++ sep ++ joinWith sep ws

/-- decimal value of a digit string (`int()` on `[0-9]+`) -/
def natOfDigits (ds : Str) : Nat := ds.foldl (fun acc c => 10 * acc + (c.toNat - '0'.toNat)) 0

/-! ## Reading and splitting a source file -/

/-- text-mode `read()` with universal newlines: `\r\n` and `\r` become `\n` -/
def universalNewlines : Str → Str
  | [] => []
  | c :: cs =>
    if c == '\r' then
      match cs with
      | d :: ds => if d == '\n' then '\n' :: universalNewlines ds else '\n' :: universalNewlines (d :: ds)
      | [] => ['\n']
    else c :: universalNewlines cs

/-- line boundaries of `str.splitlines()` -/
def isLineBreak (c : Char) : Bool :=
  c == '\n' || c == '\r' || c == '\x0b' || c == '\x0c' || c == '\x1c' || c == '\x1d' || c == '\x1e' ||
  c == Char.ofNat 0x85 || c == Char.ofNat 0x2028 || c == Char.ofNat 0x2029

/-- `str.splitlines()`; `cur` is the current line, reversed -/
def splitLinesAux : Str → Str → List Str
  | [], cur => if cur.isEmpty then [] else [cur.reverse]
  | c :: cs, cur =>
    if c == '\r' then
      match cs with
      | d :: ds =>
        if d == '\n' then cur.reverse :: splitLinesAux ds [] else cur.reverse :: splitLinesAux (d :: ds) []
      | [] => [cur.reverse]
    else if isLineBreak c then cur.reverse :: splitLinesAux cs []
    else splitLinesAux cs (c :: cur)

def splitLines (s : Str) : List Str := splitLinesAux s []

/-- the tail shared by both regexes: `\s*(?:'.*)?$` -/
def tailOk (s : Str) : Bool :=
  match dropWhileP isSpace s with
  | [] => true
  | c :: _ => c == '\''

/-- `([^\s']+)\s*(?:'.*)?$` : the value token and the check of what follows -/
def valueToken (s : Str) : Option Str :=
  let (v, rest) := spanP (fun c => !isSpace c && c != '\'') s
  if v.isEmpty then none else if tailOk rest then some v else none

/-- `re_define = ^\s*#Define\s+(\S+)\s+([^\s']+)\s*(?:'.*)?$` (`re.ASCII | re.IGNORECASE`), `.match(line)` -/
def matchDefine (line : Str) : Option (Str × Str) :=
  let s := dropWhileP isSpace line
  if !startsWithCI "#define".toList s then none else
  let s := s.drop 7
  let (w1, s) := spanP isSpace s
  if w1.isEmpty then none else
  let (sym, s) := spanP (fun c => !isSpace c) s
  if sym.isEmpty then none else
  let (w2, s) := spanP isSpace s
  if w2.isEmpty then none else
  match valueToken s with
  | none => none
  | some v => some (sym, v)

/-- `re_include = ^\s*#Include\s+([^\s']+)\s*(?:'.*)?$` -/
def matchInclude (line : Str) : Option Str :=
  let s := dropWhileP isSpace line
  if !startsWithCI "#include".toList s then none else
  let s := s.drop 8
  let (w1, s) := spanP isSpace s
  if w1.isEmpty then none else
  valueToken s

/-- `SymbolInfo` -/
structure Sym where
  file  : Str
  line  : Nat
  label : Str
  value : Str
  deriving DecidableEq, Repr

/-- the loop over `enumerate(source.splitlines())`; `nr` is the 1-based line number -/
def scanLines (file : Str) : Nat → List Str → List Sym × List Str
  | _, [] => ([], [])
  | nr, l :: ls =>
    let (syms, incs) := scanLines file (nr + 1) ls
    let syms := match matchDefine l with
      | some (lab, v) => { file := file, line := nr, label := lab, value := v } :: syms
      | none => syms
    let incs := match matchInclude l with
      | some p => p :: incs
      | none => incs
    (syms, incs)

/-- `_parse_single_adbasic_file` on the raw text of the file -/
def scanFile (file : Str) (raw : Str) : List Sym × List Str :=
  scanLines file 1 (splitLines (universalNewlines raw))

/-! ## Include path resolution (`os.path` = `posixpath`) -/

/-- one step of `posixpath.join` -/
def joinOne (path b : Str) : Str :=
  if b.head? == some '/' then b
  else if path.isEmpty || path.getLast? == some '/' then path ++ b
  else path ++ ['/'] ++ b

def posixJoin (a : Str) (ps : List Str) : Str := ps.foldl joinOne a

/-- `posixpath.dirname` -/
def dirname (p : Str) : Str :=
  -- head = p[: p.rfind('/') + 1]
  let head := (dropWhileP (fun c => c != '/') p.reverse).reverse
  if !head.isEmpty && head.any (fun c => c != '/') then (dropWhileP (fun c => c == '/') head.reverse).reverse
  else head

def normComps : List Str → Bool → List Str → List Str   -- `acc` is `new_comps`, reversed
  | [], _, acc => acc.reverse
  | c :: cs, rooted, acc =>
    if c.isEmpty || c == ['.'] then normComps cs rooted acc
    else if c != ['.', '.'] || (!rooted && acc.isEmpty) || (acc.head? == some ['.', '.']) then
      normComps cs rooted (c :: acc)
    else match acc with
      | [] => normComps cs rooted acc
      | _ :: acc' => normComps cs rooted acc'

/-- `posixpath.normpath` -/
def normpath (p : Str) : Str :=
  if p.isEmpty then ['.'] else
  let slashes : Nat :=
    match p with
    | '/' :: '/' :: '/' :: _ => 1
    | '/' :: '/' :: _ => 2
    | '/' :: _ => 1
    | _ => 0
  let comps := normComps (splitOnChar '/' p) (slashes != 0) []
  let body := joinWith ['/'] comps
  let res := List.replicate slashes '/' ++ body
  if res.isEmpty then ['.'] else res

/-- `_resolve_include_path` -/
def resolveInclude (incPath sourceFile includeDir : Str) : Option Str :=
  let comps := splitOnChar '/' (incPath.map (fun c => if c == '\\' then '/' else c))
  if comps.length ≤ 1 then none
  else if comps.head? == some [] then none
  else if comps.any (fun c => c.head? == some '.') then
    some (normpath (posixJoin (dirname sourceFile) comps))
  else some (posixJoin includeDir comps)

/-! ## The include walk -/

inductive PyExc
  | osError          -- FileNotFoundError / IsADirectoryError / NotADirectoryError from `open`
  | valueError
  | typeError
  | keyError
  deriving DecidableEq, Repr

/-- abstract file system: normalised path ↦ raw text -/
abbrev Files := List (Str × Str)

def filesGet : Files → Str → Option Str
  | [], _ => none
  | (k, v) :: rest, p => if k == p then some v else filesGet rest p

/-- `open(path, "r").read()`: a path with a trailing slash never names a regular file; otherwise the
kernel's resolution is approximated by `normpath` (no symlinks, every `..` is applied to an existing directory) -/
def openFile (fs : Files) (path : Str) : Except PyExc Str :=
  if path.getLast? == some '/' then .error .osError else
  match filesGet fs (normpath path) with
  | some raw => .ok raw
  | none => .error .osError

inductive ParseRes
  | ok (syms : List Sym)
  | exc (e : PyExc)
  | outOfFuel            -- the open() budget is used up and files remain on the work-list
  deriving Repr

/-- the includes of one file, resolved (falsy results are skipped by `if resolved_include_path:`) -/
def resolvedIncludes (incDir file : Str) (incs : List Str) : List Str :=
  incs.filterMap (fun p => match resolveInclude p file incDir with
    | some r => if r.isEmpty then none else some r
    | none => none)

/-- the iterations that only `continue`: pop entries whose normalised path is in `files_parsed` -/
def dropSeen (seen : List Str) : List Str → List Str
  | [] => []
  | f :: rest => if normpath f ∈ seen then dropSeen seen rest else f :: rest

/-- `parse_adbasic_program`: `while files_remaining: pop(0); skip if normpath in files_parsed; parse; queue includes` -/
def parseLoop (fs : Files) (incDir : Str) : Nat → List Str → List Str → List Sym → ParseRes
  | 0, wl, seen, acc =>
    match dropSeen seen wl with
    | [] => .ok acc
    | _ :: _ => .outOfFuel
  | n + 1, wl, seen, acc =>
    match dropSeen seen wl with
    | [] => .ok acc
    | f :: rest =>
      match openFile fs f with
      | .error e => .exc e
      | .ok raw =>
        let (syms, incs) := scanFile f raw
        parseLoop fs incDir n (rest ++ resolvedIncludes incDir f incs) (normpath f :: seen) (acc ++ syms)

def parseProgram (fuel : Nat) (fs : Files) (file incDir : Str) : ParseRes :=
  parseLoop fs incDir fuel [file] [] []

/-! ## Symbol analysis -/

/-- `ParDesc | FParDesc | ArrayElemDesc`; also the name of a hardware register -/
inductive Desc
  | par (i : Nat)
  | fpar (i : Nat)
  | elem (d e : Nat)
  deriving DecidableEq, Repr

inductive ErrKind
  | dupCase        -- "Duplicate definition of symbol {} with different case"
  | dupIndex       -- "... for different data array" / "... for different parameter"
  | dupRef         -- "Symbol {} is a duplicate reference to {}"
  | unknownArray   -- "Symbol {} refers to unknown array {}"
  | invalidIndex   -- "Invalid index in definition of symbol {}" (`_parse_index`: `int()` raised ValueError)
  deriving DecidableEq, Repr

/-- `ParseException(filename, line_nr, message)`; `extra` is the second `{}` of the message, if any -/
structure ParseErr where
  file  : Str
  line  : Nat
  kind  : ErrKind
  label : Str
  extra : Str
  deriving DecidableEq, Repr

/-- what `analyze_parameter_info` can raise: only `ParseException` -/
inductive AErr
  | parse (e : ParseErr)
  deriving DecidableEq, Repr

/-- insertion-ordered Python dict -/
abbrev Dict (α β : Type) := List (α × β)

def dictGet {α β : Type} [DecidableEq α] : Dict α β → α → Option β
  | [], _ => none
  | (k, v) :: rest, a => if k = a then some v else dictGet rest a

def dictSet {α β : Type} [DecidableEq α] : Dict α β → α → β → Dict α β
  | [], a, b => [(a, b)]
  | (k, v) :: rest, a, b => if k = a then (k, b) :: rest else (k, v) :: dictSet rest a b

/-- CPython refuses `int(s)` for more than 4300 digits (ValueError, turned into ParseException by `_parse_index`) -/
def maxDigits : Nat := 4300

inductive IdxRes
  | noMatch
  | tooLong
  | idx (n : Nat)
  deriving DecidableEq, Repr

/-- `re.match(r'^<Prefix>([0-9]+)$', value, re.IGNORECASE)` followed by `int(group 1)`;
`pre` is the prefix in lower case -/
def matchIndexed (pre : Str) (value : Str) : IdxRes :=
  if !startsWithCI pre value then .noMatch else
  let ds := value.drop pre.length
  if ds.isEmpty || !ds.all isDigit then .noMatch
  else if ds.length > maxDigits then .tooLong
  else .idx (natOfDigits ds)

/-- `label.split("_", maxsplit=1)[1]` -/
def afterUnderscore (label : Str) : Str := (dropWhileP (fun c => c != '_') label).drop 1

/-- the three dictionaries kept by both extraction loops (`τ` = data index, resp. parameter descriptor) -/
structure BState (τ : Type) where
  info : Dict Str τ         -- data_info / param_info
  ref  : Dict τ Str         -- ref_to_name
  ncm  : Dict Str Str       -- name_case_map
  deriving Repr

def BState.empty {τ : Type} : BState τ := { info := [], ref := [], ncm := [] }

/-- `(prev is not None) and (prev != x)` -/
def differs {β : Type} [DecidableEq β] (prev : Option β) (x : β) : Bool :=
  match prev with
  | some p => p != x
  | none => false

/-- the three duplicate checks, in the order of the code, then the three stores -/
def bindOne {τ : Type} [DecidableEq τ] (st : BState τ) (name : Str) (t : τ) : Except ErrKind (BState τ) :=
  -- prev_name = name_case_map.get(name.upper())
  if differs (dictGet st.ncm (upper name)) name then .error .dupCase
  -- prev = info.get(name)
  else if differs (dictGet st.info name) t then .error .dupIndex
  -- prev_name = ref_to_name.get(target)
  else if differs (dictGet st.ref t) name then .error .dupRef
  else .ok { info := dictSet st.info name t, ref := dictSet st.ref t name, ncm := dictSet st.ncm (upper name) name }

/-- what one symbol means to an extraction loop -/
inductive Cls (τ : Type)
  | skip                          -- other prefix, or unrecognised value (warning + `continue`)
  | tooLong                       -- `_parse_index` raises ParseException (index has too many digits)
  | unknownArray (a : Str)        -- element of an array nobody named
  | defn (name : Str) (t : τ)     -- a definition `name ↦ t`
  deriving Repr

def mkErr (s : Sym) (k : ErrKind) (extra : Str) : AErr :=
  .parse { file := s.file, line := s.line, kind := k, label := s.label, extra := extra }

/-- one loop iteration, given the classification of the symbol -/
def stepCls {τ : Type} [DecidableEq τ] (st : BState τ) (s : Sym) : Cls τ → Except AErr (BState τ)
  | .skip => .ok st
  | .tooLong => .error (mkErr s .invalidIndex [])
  | .unknownArray a => .error (mkErr s .unknownArray a)
  | .defn name t =>
    match bindOne st name t with
    | .ok st' => .ok st'
    | .error k => .error (mkErr s k (if k = .dupRef then s.value else []))

def loopCls {τ : Type} [DecidableEq τ] (cls : Sym → Cls τ) : BState τ → List Sym → Except AErr (BState τ)
  | st, [] => .ok st
  | st, s :: ss =>
    match stepCls st s (cls s) with
    | .error e => .error e
    | .ok st' => loopCls cls st' ss

/-- `_extract_data_defines`, up to the duplicate checks: which array does the symbol define? -/
def dataClass (s : Sym) : Cls Nat :=
  if !startsWithCI "data_".toList s.label then .skip else
  match matchIndexed "data_".toList s.value with
  | .noMatch => .skip
  | .tooLong => .tooLong
  | .idx i => .defn (afterUnderscore s.label) i

def extractData (syms : List Sym) : Except AErr (Dict Str Nat) :=
  match loopCls dataClass BState.empty syms with
  | .error e => .error e
  | .ok st => .ok st.info

inductive ElemRes
  | noMatch
  | tooLong
  | elem (name : Str) (idx : Nat)
  deriving DecidableEq, Repr

/-- `re.match(r'^Data_(\S+)\s*\[\s*([0-9]+)\s*]$', value, re.IGNORECASE)` (a `str` pattern without
`re.ASCII`), decomposed from the right end, then `int(group 2)` -/
def matchElem (value : Str) : ElemRes :=
  if !startsWithCI "data_".toList value then .noMatch else
  let body := (value.drop 5).reverse
  match body with
  | ']' :: r1 =>
    let r2 := dropWhileP isSpaceU r1
    let (dsRev, r3) := spanP isDigit r2
    if dsRev.isEmpty then .noMatch else
    match dropWhileP isSpaceU r3 with
    | '[' :: r4 =>
      let nameRev := dropWhileP isSpaceU r4
      if nameRev.isEmpty || nameRev.any isSpaceU then .noMatch
      else if dsRev.length > maxDigits then .tooLong
      else .elem nameRev.reverse (natOfDigits dsRev.reverse)
    | _ => .noMatch
  | _ => .noMatch

inductive ValRes
  | none                      -- unrecognised: warning, `continue`
  | tooLong                   -- `_parse_index` fails
  | unknownArray (name : Str) -- ParseException
  | desc (d : Desc)
  deriving DecidableEq, Repr

/-- the three value forms, tried in the order Par, FPar, array element -/
def parseValue (dataUpper : Dict Str Nat) (value : Str) : ValRes :=
  match matchIndexed "par_".toList value with
  | .idx i => .desc (.par i)
  | .tooLong => .tooLong
  | .noMatch =>
    match matchIndexed "fpar_".toList value with
    | .idx i => .desc (.fpar i)
    | .tooLong => .tooLong
    | .noMatch =>
      match matchElem value with
      | .noMatch => .none
      | .tooLong => .tooLong
      | .elem name e =>
        match dictGet dataUpper (upper name) with
        | none => .unknownArray name
        | some d => .desc (.elem d e)

/-- `_extract_par_defines`, up to the duplicate checks: which register does the symbol define? -/
def parClass (dataUpper : Dict Str Nat) (s : Sym) : Cls Desc :=
  if !startsWithCI "par_".toList s.label then .skip else
  match parseValue dataUpper s.value with
  | .none => .skip
  | .tooLong => .tooLong
  | .unknownArray a => .unknownArray a
  | .desc d => .defn (afterUnderscore s.label) d

/-- `dict((name.upper(), value) for (name, value) in data_info.items())`:
the comprehension inserts in order, later entries overwrite earlier ones -/
def dataInfoUpper (d : Dict Str Nat) : Dict Str Nat :=
  d.foldl (fun acc kv => dictSet acc (upper kv.1) kv.2) []

def extractPar (syms : List Sym) (dataInfo : Dict Str Nat) : Except AErr (Dict Str Desc) :=
  match loopCls (parClass (dataInfoUpper dataInfo)) BState.empty syms with
  | .error e => .error e
  | .ok st => .ok st.info

/-- `ParameterInfo` -/
structure Binding where
  param : Dict Str Desc
  data  : Dict Str Nat
  deriving Repr

/-- `analyze_parameter_info` -/
def analyze (syms : List Sym) : Except AErr Binding :=
  match extractData syms with
  | .error e => .error e
  | .ok di =>
    match extractPar syms di with
    | .error e => .error e
    | .ok pi => .ok { param := pi, data := di }

/-! ## Simulated ADwin -/

/-- a Python number handed to / returned by the accessors: an `int`, or a `float` carried as an opaque
numerator of halves (so `2.5` is `flt 5`; the device never does arithmetic) -/
inductive Val
  | int (i : Int)
  | flt (h : Int)
  deriving DecidableEq, Repr

/-- numeric reading in half units (the harness compares register contents numerically) -/
def Val.num : Val → Int
  | .int i => 2 * i
  | .flt h => h

/-- one call on the `Adwin_Base` interface -/
inductive Access
  | getPar (i : Nat)
  | getFPar (i : Nat)
  | getData (d first count : Nat)
  | setPar (i : Nat)
  | setFPar (i : Nat)
  | setData (d first count : Nat)
  deriving DecidableEq, Repr

structure Dev where
  par  : Nat → Val
  fpar : Nat → Val
  data : Nat → Nat → Val
  log  : List Access          -- newest first

def Dev.init : Dev :=
  { par := fun i => .int (100000 + i), fpar := fun i => .int (200000 + i),
    data := fun d e => .int (1000 * d + e), log := [] }

def Dev.readReg (dv : Dev) : Desc → Val
  | .par i => dv.par i
  | .fpar i => dv.fpar i
  | .elem d e => dv.data d e

def Dev.doGetPar (dv : Dev) (i : Nat) : Dev × Val := ({ dv with log := .getPar i :: dv.log }, dv.par i)
def Dev.doGetFPar (dv : Dev) (i : Nat) : Dev × Val := ({ dv with log := .getFPar i :: dv.log }, dv.fpar i)
def Dev.doGetData (dv : Dev) (d first count : Nat) : Dev × List Val :=
  ({ dv with log := .getData d first count :: dv.log }, (List.range count).map (fun k => dv.data d (first + k)))
def Dev.doSetPar (dv : Dev) (i : Nat) (v : Val) : Dev :=
  { dv with log := .setPar i :: dv.log, par := fun j => if j = i then v else dv.par j }
def Dev.doSetFPar (dv : Dev) (i : Nat) (v : Val) : Dev :=
  { dv with log := .setFPar i :: dv.log, fpar := fun j => if j = i then v else dv.fpar j }
def Dev.doSetData (dv : Dev) (d first : Nat) (vs : List Val) : Dev :=
  { dv with log := .setData d first vs.length :: dv.log,
            data := fun d' e => if d' = d ∧ first ≤ e ∧ e < first + vs.length then vs.getD (e - first) (dv.data d' e)
                                else dv.data d' e }

/-- does the call touch register `r`? -/
def Access.touches : Access → Desc → Bool
  | .getPar i, .par j => i == j
  | .setPar i, .par j => i == j
  | .getFPar i, .fpar j => i == j
  | .setFPar i, .fpar j => i == j
  | .getData d f c, .elem d' e => d == d' && f ≤ e && e < f + c
  | .setData d f c, .elem d' e => d == d' && f ≤ e && e < f + c
  | _, _ => false

/-! ## `AdwinProcess` accessors -/

/-- `_get_dict_item_case_insensitive`: the first key (in dict order) with `key.upper() == dict_item_key.upper()`
(the folding the parser's duplicate checks use) -/
def lookupCI {β : Type} : Dict Str β → Str → Option β
  | [], _ => none
  | (k, v) :: rest, key => if upper key = upper k then some v else lookupCI rest key

/-- what an accessor leaves behind: the device, and a value or the exception that escaped -/
structure Out (α : Type) where
  dev : Dev
  res : Except PyExc α

/-- `AdwinProcess.get_par` -/
def getPar (b : Dict Str Desc) (dv : Dev) (name : Str) : Out Val :=
  match lookupCI b name with
  | none => ⟨dv, .error .valueError⟩
  | some (.par i) => let (dv', v) := dv.doGetPar i; ⟨dv', .ok v⟩
  | some (.fpar i) => let (dv', v) := dv.doGetFPar i; ⟨dv', .ok v⟩
  | some (.elem d e) =>
    let (dv', vs) := dv.doGetData d e 1
    match vs with
    | v :: _ => ⟨dv', .ok v⟩
    | [] => ⟨dv', .error .keyError⟩     -- unreachable (`elems[0]` of a one-element read)

/-- `AdwinProcess.set_par` -/
def setPar (b : Dict Str Desc) (dv : Dev) (name : Str) (v : Val) : Out Unit :=
  match lookupCI b name with
  | none => ⟨dv, .error .valueError⟩
  | some (.par i) =>
    match v with
    | .int _ => ⟨dv.doSetPar i v, .ok ()⟩
    | .flt _ => ⟨dv, .error .typeError⟩
  | some (.fpar i) => ⟨dv.doSetFPar i v, .ok ()⟩
  | some (.elem d e) => ⟨dv.doSetData d e [v], .ok ()⟩

def insertSorted (x : Nat) : List Nat → List Nat
  | [] => [x]
  | y :: ys => if x ≤ y then x :: y :: ys else y :: insertSorted x ys

/-- `sorted(...)` on integers -/
def sortNat : List Nat → List Nat
  | [] => []
  | x :: xs => insertSorted x (sortNat xs)

/-- the loop of `_find_sequential_ranges` over `sorted_seq[1:]` -/
def rangesAux : Nat → Nat → List Nat → List (Nat × Nat)
  | s, e, [] => [(s, e)]
  | s, e, v :: vs =>
    if v = e + 1 then rangesAux s v vs
    else if v > e then (s, e) :: rangesAux v v vs
    else rangesAux s e vs

/-- `AdwinProcess._find_sequential_ranges` -/
def findRanges (seq : List Nat) : List (Nat × Nat) :=
  match sortNat seq with
  | [] => []
  | x :: xs => rangesAux x x xs

def dictKeys {α β : Type} (d : Dict α β) : List α := d.map Prod.fst

/-- `params_data[data_index][elem_index] = x` with the `if data_index not in params_data` guard -/
def pdataSet {γ : Type} (pd : Dict Nat (Dict Nat γ)) (d e : Nat) (x : γ) : Dict Nat (Dict Nat γ) :=
  match dictGet pd d with
  | none => dictSet pd d [(e, x)]
  | some m => dictSet pd d (dictSet m e x)

structure GState where
  dev    : Dev
  result : Dict Str Val
  pdata  : Dict Nat (Dict Nat Str)

/-- first loop of `get_par_multiple` -/
def getPhase1 (b : Dict Str Desc) : List Str → GState → Except (Dev × PyExc) GState
  | [], st => .ok st
  | n :: ns, st =>
    match lookupCI b n with
    | none => .error (st.dev, .valueError)
    | some (.par i) =>
      let (dv', v) := st.dev.doGetPar i
      getPhase1 b ns { st with dev := dv', result := dictSet st.result n v }
    | some (.fpar i) =>
      let (dv', v) := st.dev.doGetFPar i
      getPhase1 b ns { st with dev := dv', result := dictSet st.result n v }
    | some (.elem d e) =>
      getPhase1 b ns { st with pdata := pdataSet st.pdata d e n }

/-- `for k in range(num_elems): result[data_elems[start + k]] = values[k]` -/
def storeValues (elems : Dict Nat Str) (start : Nat) : Nat → List Val → Dict Str Val → Except PyExc (Dict Str Val)
  | _, [], res => .ok res
  | k, v :: vs, res =>
    match dictGet elems (start + k) with
    | none => .error .keyError
    | some name => storeValues elems start (k + 1) vs (dictSet res name v)

/-- inner loop of the second phase of `get_par_multiple`: one `get_data` per range -/
def getRanges (d : Nat) (elems : Dict Nat Str) : List (Nat × Nat) → Dev → Dict Str Val → Except (Dev × PyExc) (Dev × Dict Str Val)
  | [], dv, res => .ok (dv, res)
  | (s, e) :: rs, dv, res =>
    let (dv', vals) := dv.doGetData d s (e + 1 - s)
    match storeValues elems s 0 vals res with
    | .error x => .error (dv', x)
    | .ok res' => getRanges d elems rs dv' res'

/-- outer loop of the second phase: `for data_index in sorted(params_data.keys())` -/
def getArrays (pd : Dict Nat (Dict Nat Str)) : List Nat → Dev → Dict Str Val → Except (Dev × PyExc) (Dev × Dict Str Val)
  | [], dv, res => .ok (dv, res)
  | d :: ds, dv, res =>
    match dictGet pd d with
    | none => .error (dv, .keyError)
    | some elems =>
      match getRanges d elems (findRanges (dictKeys elems)) dv res with
      | .error x => .error x
      | .ok (dv', res') => getArrays pd ds dv' res'

/-- `AdwinProcess.get_par_multiple` -/
def getParMultiple (b : Dict Str Desc) (dv : Dev) (names : List Str) : Out (Dict Str Val) :=
  match getPhase1 b names { dev := dv, result := [], pdata := [] } with
  | .error (dv', x) => ⟨dv', .error x⟩
  | .ok st =>
    match getArrays st.pdata (sortNat (dictKeys st.pdata)) st.dev st.result with
    | .error (dv', x) => ⟨dv', .error x⟩
    | .ok (dv', res) => ⟨dv', .ok res⟩

structure SState where
  dev   : Dev
  pdata : Dict Nat (Dict Nat Val)

/-- first loop of `set_par_multiple` -/
def setPhase1 (b : Dict Str Desc) : List (Str × Val) → SState → Except (Dev × PyExc) SState
  | [], st => .ok st
  | (n, v) :: ps, st =>
    match lookupCI b n with
    | none => .error (st.dev, .valueError)
    | some (.par i) =>
      match v with
      | .int _ => setPhase1 b ps { st with dev := st.dev.doSetPar i v }
      | .flt _ => .error (st.dev, .typeError)
    | some (.fpar i) => setPhase1 b ps { st with dev := st.dev.doSetFPar i v }
    | some (.elem d e) => setPhase1 b ps { st with pdata := pdataSet st.pdata d e v }

/-- `[data_elems[i] for i in range(start, end + 1)]`, as `count` look-ups from `start` -/
def collectValues (elems : Dict Nat Val) : Nat → Nat → Except PyExc (List Val)
  | _, 0 => .ok []
  | i, c + 1 =>
    match dictGet elems i with
    | none => .error .keyError
    | some v =>
      match collectValues elems (i + 1) c with
      | .error x => .error x
      | .ok vs => .ok (v :: vs)

def setRanges (d : Nat) (elems : Dict Nat Val) : List (Nat × Nat) → Dev → Except (Dev × PyExc) Dev
  | [], dv => .ok dv
  | (s, e) :: rs, dv =>
    match collectValues elems s (e + 1 - s) with
    | .error x => .error (dv, x)
    | .ok vals => setRanges d elems rs (dv.doSetData d s vals)

def setArrays (pd : Dict Nat (Dict Nat Val)) : List Nat → Dev → Except (Dev × PyExc) Dev
  | [], dv => .ok dv
  | d :: ds, dv =>
    match dictGet pd d with
    | none => .error (dv, .keyError)
    | some elems =>
      match setRanges d elems (findRanges (dictKeys elems)) dv with
      | .error x => .error x
      | .ok dv' => setArrays pd ds dv'

/-- `AdwinProcess.set_par_multiple` (`params.items()` in dict order) -/
def setParMultiple (b : Dict Str Desc) (dv : Dev) (params : List (Str × Val)) : Out Unit :=
  match setPhase1 b params { dev := dv, pdata := [] } with
  | .error (dv', x) => ⟨dv', .error x⟩
  | .ok st =>
    match setArrays st.pdata (sortNat (dictKeys st.pdata)) st.dev with
    | .error (dv', x) => ⟨dv', .error x⟩
    | .ok dv' => ⟨dv', .ok ()⟩

/-- the parameter part of `start_with_params(**kwargs)`: every bound name gets the keyword value found
case-insensitively, or `0` -/
def startParams (b : Dict Str Desc) (kwargs : Dict Str Val) : List (Str × Val) :=
  b.map (fun kv => (kv.1, match lookupCI kwargs kv.1 with | some v => v | none => .int 0))

/-! ## The same accessors with the argument validation of `Adwin_Base` (qmi/instruments/adwin/adwin.py)

`Adwin_Base.get_par/get_fpar/set_par/set_fpar` raise ValueError unless `1 ≤ index ≤ MAX_PAR (80)`;
`get_data/set_data` raise ValueError unless `1 ≤ data_idx ≤ MAX_DATA (200)` and `first_index ≥ 1`
(`get_data` also wants `count ≥ 1`); `set_data` on an integer array raises ValueError unless the numpy array
it is given has an integer dtype — `np.array(values)` of a merged range has one as soon as every value is an
`int`, and a float dtype as soon as one value is a `float`.  Every check precedes the library call, so a
refused call leaves no trace in the access log.  `ty d = true` says `Data_d` is an integer array
(`Data_Type`, a fact about the device).  The unvalidated functions above are the semantics of the ADwin
library underneath; `Props/C20.lean` proves that on existing registers and well-typed values the validated
accessors coincide with them. -/

def parOk (i : Nat) : Bool := decide (1 ≤ i) && decide (i ≤ 80)
def dataOk (d : Nat) : Bool := decide (1 ≤ d) && decide (d ≤ 200)

/-- does the register exist as far as `Adwin_Base` can tell (array lengths are the library's business) -/
def regOk : Desc → Bool
  | .par i => parOk i
  | .fpar i => parOk i
  | .elem d e => dataOk d && decide (1 ≤ e)

def Val.isFlt : Val → Bool
  | .flt _ => true
  | .int _ => false

/-- `Adwin_Base.set_data` refuses a float-dtype array for an integer `Data` array -/
def dtypeOk (ty : Nat → Bool) (d : Nat) (vs : List Val) : Bool := !(ty d && vs.any Val.isFlt)

/-- `AdwinProcess.get_par` over the validating driver -/
def getParC (b : Dict Str Desc) (dv : Dev) (name : Str) : Out Val :=
  match lookupCI b name with
  | none => ⟨dv, .error .valueError⟩
  | some r => if regOk r then getPar b dv name else ⟨dv, .error .valueError⟩

/-- `AdwinProcess.set_par` over the validating driver (the `isinstance(value, int)` test for a Par comes first) -/
def setParC (b : Dict Str Desc) (ty : Nat → Bool) (dv : Dev) (name : Str) (v : Val) : Out Unit :=
  match lookupCI b name with
  | none => ⟨dv, .error .valueError⟩
  | some (.par i) =>
    match v with
    | .flt _ => ⟨dv, .error .typeError⟩
    | .int _ => if parOk i then ⟨dv.doSetPar i v, .ok ()⟩ else ⟨dv, .error .valueError⟩
  | some (.fpar i) => if parOk i then ⟨dv.doSetFPar i v, .ok ()⟩ else ⟨dv, .error .valueError⟩
  | some (.elem d e) =>
    if regOk (.elem d e) && dtypeOk ty d [v] then ⟨dv.doSetData d e [v], .ok ()⟩ else ⟨dv, .error .valueError⟩

def getPhase1C (b : Dict Str Desc) : List Str → GState → Except (Dev × PyExc) GState
  | [], st => .ok st
  | n :: ns, st =>
    match lookupCI b n with
    | none => .error (st.dev, .valueError)
    | some (.par i) =>
      if parOk i then
        let (dv', v) := st.dev.doGetPar i
        getPhase1C b ns { st with dev := dv', result := dictSet st.result n v }
      else .error (st.dev, .valueError)
    | some (.fpar i) =>
      if parOk i then
        let (dv', v) := st.dev.doGetFPar i
        getPhase1C b ns { st with dev := dv', result := dictSet st.result n v }
      else .error (st.dev, .valueError)
    | some (.elem d e) =>
      getPhase1C b ns { st with pdata := pdataSet st.pdata d e n }

def getRangesC (d : Nat) (elems : Dict Nat Str) : List (Nat × Nat) → Dev → Dict Str Val → Except (Dev × PyExc) (Dev × Dict Str Val)
  | [], dv, res => .ok (dv, res)
  | (s, e) :: rs, dv, res =>
    if dataOk d && decide (1 ≤ s) && decide (1 ≤ e + 1 - s) then
      let (dv', vals) := dv.doGetData d s (e + 1 - s)
      match storeValues elems s 0 vals res with
      | .error x => .error (dv', x)
      | .ok res' => getRangesC d elems rs dv' res'
    else .error (dv, .valueError)

def getArraysC (pd : Dict Nat (Dict Nat Str)) : List Nat → Dev → Dict Str Val → Except (Dev × PyExc) (Dev × Dict Str Val)
  | [], dv, res => .ok (dv, res)
  | d :: ds, dv, res =>
    match dictGet pd d with
    | none => .error (dv, .keyError)
    | some elems =>
      match getRangesC d elems (findRanges (dictKeys elems)) dv res with
      | .error x => .error x
      | .ok (dv', res') => getArraysC pd ds dv' res'

/-- `AdwinProcess.get_par_multiple` over the validating driver -/
def getParMultipleC (b : Dict Str Desc) (dv : Dev) (names : List Str) : Out (Dict Str Val) :=
  match getPhase1C b names { dev := dv, result := [], pdata := [] } with
  | .error (dv', x) => ⟨dv', .error x⟩
  | .ok st =>
    match getArraysC st.pdata (sortNat (dictKeys st.pdata)) st.dev st.result with
    | .error (dv', x) => ⟨dv', .error x⟩
    | .ok (dv', res) => ⟨dv', .ok res⟩

def setPhase1C (b : Dict Str Desc) : List (Str × Val) → SState → Except (Dev × PyExc) SState
  | [], st => .ok st
  | (n, v) :: ps, st =>
    match lookupCI b n with
    | none => .error (st.dev, .valueError)
    | some (.par i) =>
      match v with
      | .int _ => if parOk i then setPhase1C b ps { st with dev := st.dev.doSetPar i v } else .error (st.dev, .valueError)
      | .flt _ => .error (st.dev, .typeError)
    | some (.fpar i) =>
      if parOk i then setPhase1C b ps { st with dev := st.dev.doSetFPar i v } else .error (st.dev, .valueError)
    | some (.elem d e) => setPhase1C b ps { st with pdata := pdataSet st.pdata d e v }

def setRangesC (ty : Nat → Bool) (d : Nat) (elems : Dict Nat Val) : List (Nat × Nat) → Dev → Except (Dev × PyExc) Dev
  | [], dv => .ok dv
  | (s, e) :: rs, dv =>
    match collectValues elems s (e + 1 - s) with
    | .error x => .error (dv, x)
    | .ok vals =>
      if dataOk d && decide (1 ≤ s) && dtypeOk ty d vals then setRangesC ty d elems rs (dv.doSetData d s vals)
      else .error (dv, .valueError)

def setArraysC (ty : Nat → Bool) (pd : Dict Nat (Dict Nat Val)) : List Nat → Dev → Except (Dev × PyExc) Dev
  | [], dv => .ok dv
  | d :: ds, dv =>
    match dictGet pd d with
    | none => .error (dv, .keyError)
    | some elems =>
      match setRangesC ty d elems (findRanges (dictKeys elems)) dv with
      | .error x => .error x
      | .ok dv' => setArraysC ty pd ds dv'

/-- `AdwinProcess.set_par_multiple` over the validating driver -/
def setParMultipleC (b : Dict Str Desc) (ty : Nat → Bool) (dv : Dev) (params : List (Str × Val)) : Out Unit :=
  match setPhase1C b params { dev := dv, pdata := [] } with
  | .error (dv', x) => ⟨dv', .error x⟩
  | .ok st =>
    match setArraysC ty st.pdata (sortNat (dictKeys st.pdata)) st.dev with
    | .error (dv', x) => ⟨dv', .error x⟩
    | .ok dv' => ⟨dv', .ok ()⟩

/-! ## `ProgramInfo.from_config` with explicitly configured parameters (`parse_parameters = False`) -/

/-- the loop `for (name, desc) in param_items: if any(name.upper() == other.upper() for other in param): raise …;
param[name] = desc`; `.error n` = `QMI_ConfigurationException("Duplicate use of parameter name n …")` -/
def cfgInsert (param : Dict Str Desc) : List (Str × Desc) → Except Str (Dict Str Desc)
  | [] => .ok param
  | (n, d) :: rest => if (lookupCI param n).isSome then .error n else cfgInsert (dictSet param n d) rest

/-- `param_items`: first `config.par`, then `config.fpar`, then `config.par_array` (each a dict, in its own order) -/
def cfgItems (par fpar : Dict Str Nat) (parArray : Dict Str (Nat × Nat)) : List (Str × Desc) :=
  par.map (fun kv => (kv.1, Desc.par kv.2)) ++ fpar.map (fun kv => (kv.1, Desc.fpar kv.2)) ++
  parArray.map (fun kv => (kv.1, Desc.elem kv.2.1 kv.2.2))

def fromConfig (par fpar : Dict Str Nat) (parArray : Dict Str (Nat × Nat)) : Except Str (Dict Str Desc) :=
  cfgInsert [] (cfgItems par fpar parArray)

/-! ## The one-at-a-time reference folds (what the batch accessors are compared with) -/

/-- `for n in names: result[n] = get_par(n)`; stops at the first exception -/
def getFold (b : Dict Str Desc) : List Str → Dev → Dict Str Val → Out (Dict Str Val)
  | [], dv, res => ⟨dv, .ok res⟩
  | n :: ns, dv, res =>
    match getPar b dv n with
    | ⟨dv', .error x⟩ => ⟨dv', .error x⟩
    | ⟨dv', .ok v⟩ => getFold b ns dv' (dictSet res n v)

/-- `for (n, v) in params.items(): set_par(n, v)`; stops at the first exception -/
def setFold (b : Dict Str Desc) : List (Str × Val) → Dev → Out Unit
  | [], dv => ⟨dv, .ok ()⟩
  | (n, v) :: ps, dv =>
    match setPar b dv n v with
    | ⟨dv', .error x⟩ => ⟨dv', .error x⟩
    | ⟨dv', .ok _⟩ => setFold b ps dv'

/-- the one-at-a-time folds over the validating driver -/
def getFoldC (b : Dict Str Desc) : List Str → Dev → Dict Str Val → Out (Dict Str Val)
  | [], dv, res => ⟨dv, .ok res⟩
  | n :: ns, dv, res =>
    match getParC b dv n with
    | ⟨dv', .error x⟩ => ⟨dv', .error x⟩
    | ⟨dv', .ok v⟩ => getFoldC b ns dv' (dictSet res n v)

def setFoldC (b : Dict Str Desc) (ty : Nat → Bool) : List (Str × Val) → Dev → Out Unit
  | [], dv => ⟨dv, .ok ()⟩
  | (n, v) :: ps, dv =>
    match setParC b ty dv n v with
    | ⟨dv', .error x⟩ => ⟨dv', .error x⟩
    | ⟨dv', .ok _⟩ => setFoldC b ty ps dv'

end QmiModel.Adbasic
