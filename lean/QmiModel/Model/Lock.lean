import QmiModel.Gen.LockFsm
/-!
# Model of the RPC object lock (qmi/core/rpc.py, qmi/core/context.py) — property C04

Interface (kept small; `Model/Rpc` of C01 imports this file):

* `Token`, `mkToken`                       — `QMI_LockTokenDescriptor`, `QMI_Context.make_unique_token`
* `lockStep srv owner act req`             — `_RpcThread._handle_lock_rpc_request`, a lookup in the **generated**
                                             table `Gen.LockFsm.table` interpreted on real tokens
* `lockSpec srv owner act req`             — hand-written reference (what the property demands)
* `guardStep owner req` / `dispatchGuard`  — token test of `_handle_method_rpc_request` (generated / reference)
* `Sys`, `Op`, `Out`, `step`, `run`        — one RPC object, any number of context instances and proxies;
                                             `proxyLock/Unlock/ForceUnlock/IsLocked/Call` mirror `QMI_RpcProxy`
* `retryLoop`, `iters`, `proxyLockRetry`   — `lock(timeout > 0)`: the retry loop and its clock

Python exceptions are values: an exception escaping a handler kills the worker thread
(`_RpcThread.run` has no handler), after which no request is ever answered (`Sys.dead`).  On the current tree no
request a proxy can issue does that (`Props/C04.lean: gen_eq_spec`, `lock_requests_total`); the state component is
kept so that a regression shows up as a false theorem, not as an unmodellable behaviour.

Core Lean only (the driver exe links this file).
-/
namespace QmiModel.Lock

/-- `QMI_LockTokenDescriptor(context_id, token)` -/
structure Token where
  ctx : String
  tok : String
  deriving DecidableEq, Repr

/-- `QMI_Context.make_unique_token(prefix="$lock_")` of a context instance with name `ctxName` and instance identifier
`nonce` (`_instance_id`, drawn from `os.urandom` when the context is created), for counter value `n`:
`QMI_LockTokenDescriptor(self.name, prefix + self._instance_id + "_" + str(nr))` -/
def mkToken (ctxName nonce : String) (n : Nat) : Token := ⟨ctxName, "$lock_" ++ nonce ++ "_" ++ toString n⟩

/-- `QMI_LockTokenDescriptor(self._context.name, ACCESS_DENIED_TOKEN_PLACEHOLDER)` -/
def deniedTok (srv : String) : Token := ⟨srv, Gen.LockFsm.deniedPlaceholder⟩
/-- `QMI_LockTokenDescriptor(self._context.name, OBJECT_LOCKED_TOKEN_PLACEHOLDER)` -/
def lockedTok (srv : String) : Token := ⟨srv, Gen.LockFsm.lockedPlaceholder⟩

/-! ## The server side: one lock request -/

/-- relation of the request token to the owner token -/
def relOf (owner req : Option Token) : Rel :=
  match req with
  | none => .none
  | some r => if owner = some r then .same else .other

def interpSt (owner req : Option Token) : NewSt → Option Token
  | .unlocked => none
  | .keep => owner
  | .setReq => req

def interpRep (srv : String) (owner req : Option Token) : Rep → Option Token
  | .none => none
  | .req => req
  | .owner => owner
  | .denied => some (deniedTok srv)
  | .lockedPh => some (lockedTok srv)

/-- a lock table interpreted on real tokens: `(new _locking_token, reply.lock_token)` or the escaping exception -/
def lockStepWith (tbl : Act → Bool → Rel → Cell) (srv : String) (owner : Option Token) (a : Act)
    (req : Option Token) : Except PyExc (Option Token × Option Token) :=
  match tbl a owner.isSome (relOf owner req) with
  | .ok st rep => .ok (interpSt owner req st, interpRep srv owner req rep)
  | .crash e => .error e

/-- `_RpcThread._handle_lock_rpc_request` as it is in the tree (generated table) -/
def lockStep : String → Option Token → Act → Option Token → Except PyExc (Option Token × Option Token) :=
  lockStepWith Gen.LockFsm.table

/-- Reference lock, written by hand from the property statement: `(new owner, reply token)`.
`acquire` without a token cannot be issued through a proxy; the reference treats it as denied. -/
def lockSpec (srv : String) (owner : Option Token) (a : Act) (req : Option Token) : Option Token × Option Token :=
  match a, owner with
  | .acquire, none => (req, req)
  | .acquire, some o => if req = some o then (some o, some o) else (some o, some (deniedTok srv))
  | .release, none => (none, none)
  | .release, some o => if req = some o then (none, none) else (some o, some (deniedTok srv))
  | .forceRelease, _ => (none, none)
  | .query, none => (none, none)
  | .query, some o => (some o, some (lockedTok srv))

/-- requests a proxy can issue: `lock()` always sends a token -/
def issuable (a : Act) (req : Option Token) : Prop := a = .acquire → req ≠ none

/-- token test of `_handle_method_rpc_request` as it is in the tree (generated table) -/
def guardStep (owner req : Option Token) : GCell :=
  Gen.LockFsm.guard owner.isSome (relOf owner req)

/-- reference: `self._locking_token is None or self._locking_token == request.lock_token` -/
def dispatchGuard (owner req : Option Token) : Bool :=
  match owner with
  | none => true
  | some o => decide (req = some o)

/-! ## The whole system: one object, its worker, contexts, proxies -/

/-- a context *instance*; two instances may carry the same name -/
structure Ctx where
  name : String
  nonce : String         -- `_instance_id`
  counter : Nat          -- `_unique_counters["$lock_"]`
  deriving DecidableEq, Repr

structure Proxy where
  ctx : Nat              -- index of the context instance the proxy lives in
  tok : Option Token     -- `QMI_RpcProxy._lock_token`
  nbTok : Option Token   -- `QMI_RpcProxy.rpc_nonblocking._lock_token`
  deriving DecidableEq, Repr

/-- ghost record of one automatic token generation (`lock()` without custom token) -/
structure GenRec where
  ctx : Nat
  n : Nat
  tok : Token
  proxy : Nat
  deriving DecidableEq, Repr

structure Sys where
  srv : String                 -- name of the owning context (appears in the placeholder tokens)
  ctxs : List Ctx              -- instance 0 is the owning context
  proxies : List Proxy
  owner : Option Token         -- `_RpcThread._locking_token`
  dead : Option PyExc          -- `some e`: exception `e` escaped the worker thread, nothing is served any more
  count : Nat                  -- side-effect counter of the test object (number of executed method bodies)
  gens : List GenRec           -- ghost: every automatically generated token, newest first
  deriving DecidableEq, Repr

def init (srv nonce : String) : Sys :=
  { srv, ctxs := [⟨srv, nonce, 0⟩], proxies := [], owner := none, dead := none, count := 0, gens := [] }

inductive Op
  | newCtx (name : String) (nonce : String)
  | newProxy (ctx : Nat)
  | lock (p : Nat) (custom : Option String)
  | unlock (p : Nat) (custom : Option String)
  | forceUnlock (p : Nat)
  | isLocked (p : Nat)
  | call (p : Nat) (nonblocking : Bool)
  | burn (ctx : Nat)       -- `make_unique_token()` consumed on behalf of some *other* object
  | recreate               -- owning context: `remove_rpc_object(proxy)` then `make_rpc_object` under the same name
  | stopCtx (ctx : Nat)    -- a client context stops (disconnects); its proxies are not used afterwards
  deriving DecidableEq, Repr

inductive Out
  | idx (n : Nat)
  | unit
  | bool (b : Bool)
  | ran (count : Nat)      -- the method body ran; its return value (the counter)
  | locked                 -- `QMI_RuntimeException("The object is locked by another proxy")`, nothing ran
  | hang                   -- no reply: the worker is dead, the caller waits for ever
  | usage                  -- `QMI_UsageException` raised by the proxy before anything is sent
  | bad
  deriving DecidableEq, Repr

/-- deliver one lock request to the worker; `none` = no reply ever -/
def lockRequest (s : Sys) (a : Act) (req : Option Token) : Sys × Option (Option Token) :=
  match s.dead with
  | some _ => (s, none)
  | none =>
    match lockStep s.srv s.owner a req with
    | .ok (o', rep) => ({ s with owner := o' }, some rep)
    | .error e => ({ s with dead := some e }, none)

/-- deliver one method request to the worker -/
def callRequest (s : Sys) (req : Option Token) : Sys × Out :=
  match s.dead with
  | some _ => (s, .hang)
  | none =>
    match guardStep s.owner req with
    | .exec => ({ s with count := s.count + 1 }, .ran (s.count + 1))
    | .refused => (s, .locked)
    | .crash e => ({ s with dead := some e }, .hang)

def setProxyTok (s : Sys) (p : Nat) (px : Proxy) (t : Option Token) : Sys :=
  { s with proxies := s.proxies.set p { px with tok := t, nbTok := t } }

/-- `self._context.make_unique_token(prefix="$lock_")` called by proxy `p` (living in context instance `px.ctx`,
whose record is `c`): the counter is incremented first, the new value goes into the token -/
def freshToken (s : Sys) (p : Nat) (px : Proxy) (c : Ctx) : Sys × Token :=
  ({ s with ctxs := s.ctxs.set px.ctx { c with counter := c.counter + 1 },
            gens := ⟨px.ctx, c.counter + 1, mkToken c.name c.nonce (c.counter + 1), p⟩ :: s.gens },
   mkToken c.name c.nonce (c.counter + 1))

/-- `my_lock_token` of `QMI_RpcProxy.lock`: the state in which the ACQUIRE request is sent, and the token it carries -/
def lockPre (s : Sys) (p : Nat) (px : Proxy) (c : Ctx) : Option String → Sys × Token
  | some t => (s, ⟨c.name, t⟩)          -- `QMI_LockTokenDescriptor(self._context.name, lock_token)`
  | none => freshToken s p px c

/-- `lock_token in (ACCESS_DENIED_TOKEN_PLACEHOLDER, OBJECT_LOCKED_TOKEN_PLACEHOLDER)`: the strings used in lock replies
may not be used as custom tokens -/
def reservedCustom : Option String → Bool
  | some t => t == Gen.LockFsm.deniedPlaceholder || t == Gen.LockFsm.lockedPlaceholder
  | none => false

/-- `QMI_RpcProxy.lock(timeout=0, lock_token=custom)` -/
def proxyLock (s : Sys) (p : Nat) (custom : Option String) : Sys × Out :=
  match s.proxies[p]? with
  | none => (s, .bad)
  | some px =>
    match s.ctxs[px.ctx]? with
    | none => (s, .bad)
    | some c =>
      if reservedCustom custom then (s, .usage) else      -- `raise QMI_UsageException(... is a reserved lock token)`
      let sm : Sys × Token := lockPre s p px c custom
      match lockRequest sm.1 .acquire (some sm.2) with
      | (s2, none) => (s2, .hang)
      | (s2, some their) =>
        if their = some sm.2 then (setProxyTok s2 p px (some sm.2), .bool true) else (s2, .bool false)

/-- the token an `unlock` request carries: the custom one, else the proxy's remembered token -/
def unlockReq (px : Proxy) (c : Ctx) : Option String → Option Token
  | some t => some ⟨c.name, t⟩
  | none => px.tok

/-- `QMI_RpcProxy.unlock(lock_token=custom)` -/
def proxyUnlock (s : Sys) (p : Nat) (custom : Option String) : Sys × Out :=
  match s.proxies[p]? with
  | none => (s, .bad)
  | some px =>
    match s.ctxs[px.ctx]? with
    | none => (s, .bad)
    | some c =>
      match lockRequest s .release (unlockReq px c custom) with
      | (s2, none) => (s2, .hang)
      | (s2, some their) =>
        if their = none then (setProxyTok s2 p px none, .bool true) else (s2, .bool false)

/-- `QMI_RpcProxy.force_unlock()` -/
def proxyForceUnlock (s : Sys) (p : Nat) : Sys × Out :=
  match s.proxies[p]? with
  | none => (s, .bad)
  | some px =>
    match lockRequest s .forceRelease px.tok with
    | (s2, none) => (s2, .hang)
    | (s2, some their) =>
      if their = none then (setProxyTok s2 p px none, .unit) else (s2, .unit)

/-- `QMI_RpcProxy.is_locked()` -/
def proxyIsLocked (s : Sys) (p : Nat) : Sys × Out :=
  match s.proxies[p]? with
  | none => (s, .bad)
  | some px =>
    match lockRequest s .query px.tok with
    | (s2, none) => (s2, .hang)
    | (s2, some their) => (s2, .bool their.isSome)

/-- a method call through the blocking proxy or through `rpc_nonblocking` (+ `future.wait()`) -/
def proxyCall (s : Sys) (p : Nat) (nb : Bool) : Sys × Out :=
  match s.proxies[p]? with
  | none => (s, .bad)
  | some px => callRequest s (if nb then px.nbTok else px.tok)

def step (s : Sys) : Op → Sys × Out
  | .newCtx name nonce => ({ s with ctxs := s.ctxs ++ [⟨name, nonce, 0⟩] }, .idx s.ctxs.length)
  | .newProxy c =>
    if c < s.ctxs.length then ({ s with proxies := s.proxies ++ [⟨c, none, none⟩] }, .idx s.proxies.length)
    else (s, .bad)
  | .lock p custom => proxyLock s p custom
  | .unlock p custom => proxyUnlock s p custom
  | .forceUnlock p => proxyForceUnlock s p
  | .isLocked p => proxyIsLocked s p
  | .call p nb => proxyCall s p nb
  | .burn c =>
    match s.ctxs[c]? with
    | none => (s, .bad)
    | some cx => ({ s with ctxs := s.ctxs.set c { cx with counter := cx.counter + 1 } }, .unit)
  -- a new `_RpcThread` with `_locking_token = None` and a new object instance; proxies keep what they remember
  | .recreate => ({ s with owner := none, dead := none, count := 0 }, .unit)
  -- nothing on the server side reacts to a disconnect: the lock stays (documented: use `force_unlock()` if the proxy
  -- that owns the lock no longer exists)
  | .stopCtx _ => (s, .unit)

def run (s : Sys) : List Op → Sys × List Out
  | [] => (s, [])
  | o :: os =>
    let (s1, out) := step s o
    let (s2, outs) := run s1 os
    (s2, out :: outs)

/-- final state only -/
def exec (s : Sys) (ops : List Op) : Sys := ops.foldl (fun s o => (step s o).1) s

/-- loop of `QMI_RpcProxy.lock(timeout > 0)` after the token `my` has been made: one ACQUIRE per iteration with the
*same* token; `envs` has one entry per iteration the clock allows: what the rest of the world does to the system while
the proxy sleeps after a denied attempt.  Returns the state, the result and the number of requests sent. -/
def retryLoop (p : Nat) (px : Proxy) (my : Token) : Sys → List (List Op) → Nat → Sys × Out × Nat
  | s, [], n => (s, .bool false, n)
  | s, env :: rest, n =>
    match lockRequest s .acquire (some my) with
    | (s2, none) => (s2, .hang, n + 1)
    | (s2, some their) =>
      if their = some my then (setProxyTok s2 p px (some my), .bool true, n + 1)
      else retryLoop p px my (exec s2 env) rest (n + 1)

/-- number of loop iterations the clock allows: `while (now - start) < timeout`, every iteration lasting
`max period (dur i)` (the RPC round trip, or the 0.1 s the proxy sleeps up to); all in one unit (ms) -/
def iters (timeout period : Nat) (dur : Nat → Nat) : (fuel elapsed i : Nat) → Nat
  | 0, _, i => i
  | fuel + 1, elapsed, i => if elapsed < timeout then iters timeout period dur fuel (elapsed + max period (dur i)) (i + 1) else i

/-- `QMI_RpcProxy.lock(timeout > 0, lock_token=custom)`: the token is made once, then `retryLoop` -/
def proxyLockRetry (s : Sys) (p : Nat) (custom : Option String) (envs : List (List Op)) : Sys × Out × Nat :=
  match s.proxies[p]? with
  | none => (s, .bad, 0)
  | some px =>
    match s.ctxs[px.ctx]? with
    | none => (s, .bad, 0)
    | some c =>
      if reservedCustom custom then (s, .usage, 0) else
      retryLoop p px (lockPre s p px c custom).2 (lockPre s p px c custom).1 envs 0

end QmiModel.Lock
