/-!
# Shape of the code that makes "one worker per object, only the worker executes" structural — property C03

`CodeShape` is filled in by the translator `harness/tr_rpcshape.py` from the AST of the `qmi` package
(`Gen/RpcShape.lean`, regenerated on every run).  `CodeShape.ok` lists what the interleaving model
`QmiModel.Pipeline` takes for granted:

* `start o w` is guarded and creates ONE worker: `RpcObjectManager.start` is exactly
  `assert self._rpc_thread is None; self._rpc_thread = _RpcThread(…); self._rpc_thread.start(); self._running = True`,
  it is the only place in the package where an `_RpcThread` is constructed, and `rpc.py` starts no other thread;
* only `workerFinish` executes: the request handlers `_handle_method_rpc_request` / `_handle_lock_rpc_request` are called
  from `_RpcThread.run` and nowhere else in the package; `_check_and_get_method` (which yields the bound method that is then
  invoked) only from `_handle_method_rpc_request`;
* `workerPop` takes the *oldest* request, only when the worker holds none: the request loop of `run` is one `while True`
  whose body pops exactly once, with `popleft`, under `_cv`, after the shutdown test, and calls the handlers later in the
  same iteration, outside `_cv`, not from a nested function;
* the fifo is only ever `append`ed to (in `push_rpc_request`) and `popleft`ed (in `run` and `_reject_remaining_requests`);
* `push_rpc_request` is called only by `RpcObjectManager.handle_message`, under `_stop_lock`, after the `_running` test;
* all code of the object runs in its worker: in `rpc.py` and `context.py` the only *calls* on the live object are
  `get_name()` inside `_handle_lock_rpc_request` (worker, while handling a request) and the life-cycle hook
  `release_rpc_object()` in the epilogue of `_RpcThread.run` (the constructor runs through `_rpc_object_maker()` in `run`
  too); everything else only reads the immutable `rpc_object_descriptor` / `_name` or passes the object to
  `getattr` / `getattr_static` / `type` / `isinstance`;
* the proxy never hands out anything that could be the object: `QMI_RpcProxy.__enter__` returns `self` (the proxy) and
  nothing else, every generated method of the two proxy classes is one lambda forwarding to `blocking_rpc_method_call` /
  `non_blocking_rpc_method_call`, and every other method of `QMI_RpcProxy` returns a constant, a comparison or a text.
  (What a *method of the object* returns is passed by reference inside one context — that is C02's subject.)

Core Lean only.
-/
namespace QmiModel.Pipeline

structure CodeShape where
  workerCtorSites : List String
  threadStartsInRpc : List String
  startSkeleton : List String
  handlerCallSites : List (String × String)
  checkAndGetSites : List String
  pushSites : List String
  fifoOps : List (String × String)
  pushUnderStopLock : Bool
  pushAfterRunningTest : Bool
  popsInLoop : Nat
  popKinds : List String
  popsUnderCv : Bool
  popsInLoopBody : Bool
  handlersAfterPopSameIteration : Bool
  handlersNotUnderCv : Bool
  noNestedScope : Bool
  shutdownCheckedBeforePop : Bool
  handlerCallsInRun : Nat
  objectCalls : List (String × String)
  objectReads : List (String × String)
  objectPassedTo : List (String × String)
  proxyEnterReturns : List String
  proxyForwardTargets : List (String × String)
  proxyOtherReturns : List (String × String)
  deriving Repr

def CodeShape.ok (c : CodeShape) : Bool :=
  c.workerCtorSites == ["rpc:RpcObjectManager.start"]
  && c.threadStartsInRpc == ["rpc:RpcObjectManager.start:self._rpc_thread"]
  && c.startSkeleton == ["assert-no-worker-yet", "create-worker", "start-worker", "set-running"]
  && c.handlerCallSites == [("rpc:_RpcThread.run", "_handle_lock_rpc_request"),
                            ("rpc:_RpcThread.run", "_handle_method_rpc_request")]
  && c.checkAndGetSites == ["rpc:_RpcThread._handle_method_rpc_request"]
  && c.pushSites == ["rpc:RpcObjectManager.handle_message"]
  && c.fifoOps == [("rpc:_RpcThread.__init__", "init:deque()"),
                   ("rpc:_RpcThread._reject_remaining_requests", "popleft"),
                   ("rpc:_RpcThread._reject_remaining_requests", "truth"),
                   ("rpc:_RpcThread.push_rpc_request", "append"),
                   ("rpc:_RpcThread.run", "popleft"),
                   ("rpc:_RpcThread.run", "truth")]
  && c.pushUnderStopLock && c.pushAfterRunningTest
  && c.popsInLoop == 1 && c.popKinds == ["popleft"] && c.popsUnderCv && c.popsInLoopBody
  && c.handlersAfterPopSameIteration && c.handlersNotUnderCv && c.noNestedScope && c.shutdownCheckedBeforePop
  && c.handlerCallsInRun == 2
  && c.objectCalls == [("rpc:_RpcThread._handle_lock_rpc_request", "get_name"),
                       ("rpc:_RpcThread.run", "release_rpc_object")]
  && c.objectReads.all (fun p => p.2 == "rpc_object_descriptor" || p.2 == "_name")
  && c.objectPassedTo.all (fun p =>
       (p.1 == "rpc:_RpcThread._check_and_get_method" && (p.2 == "getattr" || p.2 == "inspect.getattr_static" || p.2 == "type"))
       || ((p.1 == "rpc:_RpcThread.run" || p.1 == "rpc:_RpcThread.rpc_object") && (p.2 == "isinstance" || p.2 == "type")))
  && c.proxyEnterReturns == ["self"]
  && c.proxyForwardTargets == [("QMI_RpcProxy", "blocking_rpc_method_call"),
                               ("QMI_RpcNonBlockingProxy", "non_blocking_rpc_method_call")]
  && c.proxyOtherReturns.all (fun p => p.2 == "const" || p.2 == "compare" || p.2 == "text")

end QmiModel.Pipeline
