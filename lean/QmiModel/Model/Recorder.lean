/-!
# HDF5Recorder (qmi/data/hdf5recorder.py) — property C17

Interleaving model of the client calls `record`, `set_attribute`, `close` (= `shutdown` + join)
with the writer thread `_HDF5RecorderThread.run`.

Atomicity is taken from the lock in the code: the `with self._condition:` block of `run`
(wait test, swap of the two dictionaries, read of `_shutdown_requested`) is one action `swap`;
`record` / `set_attribute` each are one action (their body is under the same lock); everything
the writer does after releasing the lock touches only its local dictionaries and the file, so it
is one action `flush`.  `shutdown` sets the flag (outside the lock, as `QMI_Thread.shutdown` does).

Dictionaries are total functions from a dataset id to their entry (`[]` / `none` = key absent);
`keys` keeps the key list of `_recordings` because `run` tests `len(self._recordings) != 0`.
The ghost fields `recorded`, `pre`, `late` remember what the clients passed in.

Core Lean only.
-/
namespace QmiModel.C17

abbrev Blocks := List (List Nat)
abbrev Attrs := Nat → Option Nat

def Attrs.empty : Attrs := fun _ => none
/-- `a.update(b)` -/
def Attrs.upd (a b : Attrs) : Attrs := fun k => match b k with | some v => some v | none => a k
/-- `a[k] = v` -/
def Attrs.set (a : Attrs) (k v : Nat) : Attrs := fun x => if x = k then some v else a x

def fupd {β : Type} (f : Nat → β) (d : Nat) (v : β) : Nat → β := fun x => if x = d then v else f x

inductive PC | idle | flushing | done | failed     -- `failed`: the write loop ended with an exception
  deriving DecidableEq, Repr

structure RecSt where
  shared   : Nat → Blocks           -- self._recordings
  keys     : List Nat               -- keys of self._recordings
  sattrs   : Nat → Option Attrs     -- self._attributes
  loc      : Nat → Blocks           -- run(): recordings
  locKeys  : List Nat
  newA     : Nat → Option Attrs     -- run(): new_attributes
  pendA    : Nat → Option Attrs     -- run(): pending_attributes
  file     : Nat → List Nat         -- dataset contents in the HDF5 file ([] = dataset does not exist)
  fattrs   : Nat → Attrs            -- attributes of the datasets in the file
  shutdown : Bool                   -- self._shutdown_requested
  quit     : Bool                   -- run(): quitflag
  pc       : PC
  recorded : Nat → List Nat         -- ghost: everything passed to record(), per dataset, in call order
  pre      : Nat → List Nat         -- ghost: the part recorded before shutdown was requested
  late     : Nat → List Nat         -- ghost: the part recorded afterwards
  want     : Nat → Attrs            -- ghost: per dataset, all set_attribute calls applied in call order (newest wins)

def RecSt.init : RecSt :=
  { shared := fun _ => [], keys := [], sattrs := fun _ => none, loc := fun _ => [], locKeys := [],
    newA := fun _ => none, pendA := fun _ => none, file := fun _ => [], fattrs := fun _ => Attrs.empty,
    shutdown := false, quit := false, pc := .idle,
    recorded := fun _ => [], pre := fun _ => [], late := fun _ => [], want := fun _ => Attrs.empty }

inductive RecAct
  | record (d : Nat) (b : List Nat)
  | setAttr (d k v : Nat)
  | shutdown
  | swap
  | flush
  | crash        -- the writer cannot open the HDF5 file for this batch (h5py raises): nothing of the batch is written
  deriving DecidableEq, Repr

/-- what one flush cycle does to the attributes of dataset `d` (first loop: datasets with data;
second loop: attributes still in `new_attributes`).  Returns (file attrs, pending attrs). -/
def flushAttrs (s : RecSt) (d : Nat) : Attrs × Option Attrs :=
  let wrote := (s.loc d).flatten ≠ []
  let exists' := (s.file d ++ (s.loc d).flatten) ≠ []
  if wrote then
    -- pending first, then new; both popped
    (((s.fattrs d).upd ((s.pendA d).getD Attrs.empty)).upd ((s.newA d).getD Attrs.empty), none)
  else
    match s.newA d with
    | none => (s.fattrs d, s.pendA d)
    | some a =>
      match s.pendA d with
      | some p => (s.fattrs d, some (p.upd a))
      | none => if exists' then ((s.fattrs d).upd a, none) else (s.fattrs d, some a)

def recStep (s : RecSt) : RecAct → Option RecSt
  | .record d b =>
    if b = [] then some s
    else some { s with
      shared := fupd s.shared d (s.shared d ++ [b]),
      keys := if s.keys.contains d then s.keys else s.keys ++ [d],
      recorded := fupd s.recorded d (s.recorded d ++ b),
      pre := if s.shutdown then s.pre else fupd s.pre d (s.pre d ++ b),
      late := if s.shutdown then fupd s.late d (s.late d ++ b) else s.late }
  | .setAttr d k v =>
    some { s with sattrs := fupd s.sattrs d (some (((s.sattrs d).getD Attrs.empty).set k v)),
                  want := fupd s.want d ((s.want d).set k v) }
  | .shutdown => some { s with shutdown := true }
  | .swap =>
    if s.pc = .idle ∧ (s.shutdown = true ∨ s.keys ≠ []) then
      some { s with
        loc := s.shared, locKeys := s.keys, shared := s.loc, keys := s.locKeys,
        newA := s.sattrs, sattrs := s.newA,
        quit := s.shutdown, pc := .flushing }
    else none
  | .flush =>
    if s.pc = .flushing then
      some { s with
        file := fun d => s.file d ++ (s.loc d).flatten,
        fattrs := fun d => (flushAttrs s d).1,
        pendA := fun d => (flushAttrs s d).2,
        loc := fun _ => [], locKeys := [], newA := fun _ => none,
        pc := if s.quit then .done else .idle }
    else none
  | .crash =>
    if s.pc = .flushing then some { s with pc := .failed } else none

/-- the attributes dataset `d` will have once everything queued has been written:
file attributes, then the pending ones, then the writer's batch, then the hand-off queue (each a `dict.update`) -/
def effAttrs (s : RecSt) (d : Nat) : Attrs :=
  (((s.fattrs d).upd ((s.pendA d).getD Attrs.empty)).upd ((s.newA d).getD Attrs.empty)).upd ((s.sattrs d).getD Attrs.empty)

/-- `HDF5Recorder.close()` after the thread has ended (fix 342cad2): the write loop's exception is kept in
`_exception` and re-raised as QMI_RuntimeException; `none` while the thread is still running (join blocks) -/
inductive CloseOut | ok | runtimeError      -- returns normally / raises QMI_RuntimeException
  deriving DecidableEq, Repr

def closeResult (s : RecSt) : Option CloseOut :=
  match s.pc with
  | .done => some .ok
  | .failed => some .runtimeError
  | _ => none

/-- run an action list; `none` as soon as an action is not enabled -/
def recRun (s : RecSt) : List RecAct → Option RecSt
  | [] => some s
  | a :: as => match recStep s a with
    | some s' => recRun s' as
    | none => none

/-- states reachable from the initial state by any interleaving -/
inductive RecReach : RecSt → Prop
  | init : RecReach RecSt.init
  | step {s s' : RecSt} (a : RecAct) : RecReach s → recStep s a = some s' → RecReach s'

end QmiModel.C17
