/-!
# Model of the RPC call life cycle (qmi/core/rpc.py, messaging.py, context.py) — property C01

An interleaving transition system for **one RPC object `O` living in context `B`**, called by any number
of local callers (threads of `B`) and any number of remote callers in a client context `A` connected to `B`
through one peer connection.  Requests are unbounded; every stage is the FIFO queue the code uses.

Stages of a remote call (messaging.py / rpc.py):

    caller thread --send--> A.loop queue --loopA--> wire A→B (+ A.pending) --recvB--> O.fifo --pop--> worker
        --finish--> B.loop queue --loopB--> wire B→A --recvA--> future

A local call goes `send` → `O.fifo` directly (synchronous delivery in the caller's thread), and the worker
sets the future directly.

Granularity = the locks in the code: `handle_message` under `_stop_lock` (test `_running` + push) is one
action, the worker's pop under `_cv` is one action, one callback of an event loop is one action.

The paths on which a request is lost are switched by `Cfg` (`Cfg.pinned` = the tree before the repairs
5177c53 / dc3d515, `Cfg.sound` = the source now; the harness probes the bits on every run):
* `lockCrash`     — a lock request whose cell of `_handle_lock_rpc_request` raises kills the worker thread
                    (pinned tree: FORCE_RELEASE on an unlocked object → `UnboundLocalError`);
* `pickleEscapes` — a serialisation error in `_PeerTcpConnection.send_message` is not in
                    `except (ValueError, OSError)` of `_SocketManager.send_message`: the message is dropped
                    and nobody is told;
* `oversizeReplyDropped` — `ValueError("Message exceeds maximum size")` for a *reply* is caught and logged,
                    no error reply is sent to the requester.
The loss of a request handed to the caller's own event loop after `stop()` ran is always in the model
(`send` with the loop down, `loopExitA`); the liveness theorems assume the client context is not stopped.

Core Lean only (the driver exe links this file).
-/
namespace QmiModel.Rpc

abbrev ReqId := Nat

inductive Outcome | value | exc | locked | deliveryErr
  deriving DecidableEq, Repr, Hashable

inductive Place | loc | rem
  deriving DecidableEq, Repr, Hashable

/-- fixed attributes of a request, chosen by the environment when it is issued -/
structure Attr where
  place  : Place
  argsOk : Bool     -- request (arguments) can be serialised
  resOk  : Bool     -- a value/exception reply can be serialised
  resBig : Bool     -- the serialised reply exceeds MAX_MESSAGE_SIZE
  crash  : Bool     -- a lock request hitting a cell of `_handle_lock_rpc_request` that raises
  deriving DecidableEq, Repr

structure Cfg where
  lockCrash : Bool
  pickleEscapes : Bool
  oversizeReplyDropped : Bool
  deriving DecidableEq, Repr

/-- the pinned tree -/
def Cfg.pinned : Cfg := ⟨true, true, true⟩
/-- all loss paths repaired -/
def Cfg.sound : Cfg := ⟨false, false, false⟩

inductive Msg | req (r : ReqId) | rep (r : ReqId) (o : Outcome)
  deriving DecidableEq, Repr, Hashable

/-- a callback waiting in an event-loop ready queue -/
inductive Cb | sendReq (r : ReqId) | sendRep (r : ReqId) (o : Outcome) | closeAll | stopLoop
  deriving DecidableEq, Repr, Hashable

inductive Sock | up | stopping | down
  deriving DecidableEq, Repr, Hashable

inductive Phase | idle | busy (r : ReqId) | drained | crashed
  deriving DecidableEq, Repr, Hashable

structure State where
  -- object O (RpcObjectManager + _RpcThread)
  registered : Bool            -- manager registered as message handler of B
  running    : Bool            -- RpcObjectManager._running
  shutdown   : Bool            -- _RpcThread._shutdown_requested
  phase      : Phase
  fifo       : List ReqId
  -- context B
  bRouter    : Bool            -- MessageRouter._socket_manager is not None
  bSock      : Sock
  bQ         : List Cb
  -- context A
  aRouter    : Bool
  aSock      : Sock
  aQ         : List Cb
  aStop      : Bool            -- ghost: stop() of the client context was called
  -- the peer connection
  connA      : Bool            -- A's side: in A's peer map, socket open
  connB      : Bool
  pendA      : List ReqId      -- A's _pending_requests
  wireAB     : List Msg
  wireBA     : List Msg
  -- futures
  issued     : List ReqId
  unsent     : List ReqId      -- future created, send_message not entered yet
  checked    : List ReqId      -- remote: router checks passed, hand-over to the loop still to come
  result     : ReqId → Option Outcome
  executed   : List (ReqId × Outcome)   -- ghost: what the worker produced, in order
  lost       : List ReqId               -- ghost: requests dropped silently by the caller's own stopping context

/-- the requests whose send callbacks sit in an event-loop queue -/
def reqsOf : List Cb → List ReqId
  | [] => []
  | .sendReq r :: q => r :: reqsOf q
  | _ :: q => reqsOf q

def init : State :=
  { registered := true, running := true, shutdown := false, phase := .idle, fifo := [],
    bRouter := true, bSock := .up, bQ := [], aRouter := true, aSock := .up, aQ := [], aStop := false,
    connA := true, connB := true, pendA := [], wireAB := [], wireBA := [],
    issued := [], unsent := [], checked := [], result := fun _ => none, executed := [], lost := [] }

/-- `QMI_RpcFuture._set_result`: only the first result sticks -/
def setRes (f : ReqId → Option Outcome) (r : ReqId) (o : Outcome) : ReqId → Option Outcome :=
  fun x => if x = r then (match f r with | none => some o | some v => some v) else f x

def setAll (f : ReqId → Option Outcome) (rs : List ReqId) (o : Outcome) : ReqId → Option Outcome :=
  rs.foldl (fun g r => setRes g r o) f

inductive Act
  -- environment
  | issue (r : ReqId)
  | unregister | stop1 | stop2          -- remove_rpc_object / context stop: unregister, _running := False, shutdown()
  | stopB | stopA | discA               -- MessageRouter.stop of either side; disconnect_from_peer on A
  -- internal
  | send (r : ReqId) | enq (r : ReqId)
  | loopA | loopExitA | recvA | eofA
  | loopB | loopExitB | recvB | eofB
  | pop | finish (o : Outcome) | drain
  deriving DecidableEq, Repr

variable (cfg : Cfg) (attr : ReqId → Attr)

/-- what the worker does with the reply for `r` (`self._context.send_message(reply)` in `_RpcThread.run`,
    `_reject_remaining_requests`): a local future is set directly; a remote one goes through B's loop,
    or is dropped (`QMI_MessageDeliveryException` caught and logged) when B's router is down or the peer gone -/
def route (s : State) (r : ReqId) (o : Outcome) : State :=
  match (attr r).place with
  | .loc => { s with result := setRes s.result r o }
  | .rem =>
    if s.bRouter ∧ s.connB ∧ s.bSock ≠ .down then { s with bQ := s.bQ ++ [.sendRep r o] } else s

def routeAll (s : State) (rs : List ReqId) (o : Outcome) : State :=
  rs.foldl (fun t r => route attr t r o) s

def step (s : State) : Act → Option State
  | .issue r => if r ∈ s.issued then none else some { s with issued := s.issued ++ [r], unsent := s.unsent ++ [r] }
  | .unregister => some { s with registered := false }
  | .stop1 => if s.registered then none else some { s with running := false }
  | .stop2 => if s.running then none else some { s with shutdown := true }
  | .stopB =>
      if s.bRouter then some { s with bRouter := false, bQ := s.bQ ++ [.closeAll, .stopLoop] } else none
  | .stopA =>
      if s.aRouter then some { s with aRouter := false, aStop := true, aQ := s.aQ ++ [.closeAll, .stopLoop] } else none
  | .discA =>
      if s.aRouter ∧ s.aSock = .up then some { s with aQ := s.aQ ++ [.closeAll] } else none
  | .send r =>
      if r ∈ s.unsent then
        match (attr r).place with
        | .loc =>
          -- MessageRouter.deliver_message + RpcObjectManager.handle_message (under _stop_lock)
          if s.registered ∧ s.running then some { s with unsent := s.unsent.erase r, fifo := s.fifo ++ [r] }
          else some { s with unsent := s.unsent.erase r, result := setRes s.result r .deliveryErr }
        | .rem =>
          -- MessageRouter.send_message: router inactive / unknown peer => QMI_MessageDeliveryException
          if ¬ (s.aRouter ∧ s.connA) then
            some { s with unsent := s.unsent.erase r, result := setRes s.result r .deliveryErr }
          else some { s with unsent := s.unsent.erase r, checked := r :: s.checked }
      else none
  | .enq r =>
      -- _EventDrivenThread.run_in_thread_arg (a separate step: the router may be stopped in between)
      if r ∈ s.checked then
        if s.aSock = .down then some { s with checked := s.checked.erase r, lost := r :: s.lost }   -- thread finished: silently dropped
        else some { s with checked := s.checked.erase r, aQ := s.aQ ++ [.sendReq r] }
      else none
  | .loopA =>
      if s.aSock = .down then none else
      match s.aQ with
      | [] => none
      | .sendReq r :: q =>
        -- _SocketManager.send_message
        if ¬ s.connA then some { s with aQ := q, result := setRes s.result r .deliveryErr }
        else if ¬ (attr r).argsOk then
          if cfg.pickleEscapes then some { s with aQ := q }         -- exception escapes into the loop; request lost
          else some { s with aQ := q, result := setRes s.result r .deliveryErr }
        else if ¬ s.connB then some { s with aQ := q, result := setRes s.result r .deliveryErr }   -- OSError
        else some { s with aQ := q, wireAB := s.wireAB ++ [.req r], pendA := s.pendA ++ [r] }
      | .sendRep _ _ :: q => some { s with aQ := q }
      | .closeAll :: q =>
        some { s with aQ := q, connA := false, pendA := [], result := setAll s.result s.pendA .deliveryErr }
      | .stopLoop :: q => some { s with aQ := q, aSock := .stopping }
  | .loopExitA =>
      -- callbacks still queued when the loop leaves run_forever() are never run
      if s.aSock = .stopping then some { s with aSock := .down, aQ := [], lost := reqsOf s.aQ ++ s.lost } else none
  | .recvA =>
      if s.aSock = .down ∨ ¬ s.connA then none else
      match s.wireBA with
      | .rep r o :: w => some { s with wireBA := w, pendA := s.pendA.erase r, result := setRes s.result r o }
      | .req _ :: w => some { s with wireBA := w }
      | [] => none
  | .eofA =>
      if s.aSock ≠ .down ∧ s.connA ∧ ¬ s.connB ∧ s.wireBA = [] then
        some { s with connA := false, pendA := [], result := setAll s.result s.pendA .deliveryErr }
      else none
  | .loopB =>
      if s.bSock = .down then none else
      match s.bQ with
      | [] => none
      | .sendRep r o :: q =>
        if ¬ s.connB then some { s with bQ := q }
        else if (o = .value ∨ o = .exc) ∧ ¬ (attr r).resOk then
          if cfg.pickleEscapes then some { s with bQ := q }
          else some { s with bQ := q, wireBA := s.wireBA ++ [.rep r .deliveryErr] }
        else if (o = .value ∨ o = .exc) ∧ (attr r).resBig then
          if cfg.oversizeReplyDropped then some { s with bQ := q }
          else some { s with bQ := q, wireBA := s.wireBA ++ [.rep r .deliveryErr] }
        else if ¬ s.connA then some { s with bQ := q }             -- OSError: peer closed
        else some { s with bQ := q, wireBA := s.wireBA ++ [.rep r o] }
      | .sendReq _ :: q => some { s with bQ := q }
      | .closeAll :: q => some { s with bQ := q, connB := false }
      | .stopLoop :: q => some { s with bQ := q, bSock := .stopping }
  | .loopExitB => if s.bSock = .stopping then some { s with bSock := .down, bQ := [] } else none
  | .recvB =>
      if s.bSock = .down ∨ ¬ s.connB then none else
      match s.wireAB with
      | .req r :: w =>
        -- _process_message -> deliver_message -> handle_message; failure => send_error_reply on this connection
        if s.registered ∧ s.running then some { s with wireAB := w, fifo := s.fifo ++ [r] }
        else some { s with wireAB := w, wireBA := s.wireBA ++ [.rep r .deliveryErr] }
      | .rep _ _ :: w => some { s with wireAB := w }
      | [] => none
  | .eofB =>
      if s.bSock ≠ .down ∧ s.connB ∧ ¬ s.connA ∧ s.wireAB = [] then some { s with connB := false } else none
  | .pop =>
      match s.phase, s.fifo with
      | .idle, r :: rest => if s.shutdown then none else some { s with phase := .busy r, fifo := rest }
      | _, _ => none
  | .finish o =>
      match s.phase with
      | .busy r =>
        if o = .deliveryErr then none
        else if (attr r).crash ∧ cfg.lockCrash then some { s with phase := .crashed }
        else some (route attr { s with phase := .idle, executed := s.executed ++ [(r, o)] } r o)
      | _ => none
  | .drain =>
      match s.phase with
      | .idle =>
        if s.shutdown then some (routeAll attr { s with phase := .drained, fifo := [] } s.fifo .deliveryErr)
        else none
      | _ => none

/-- actions taken by the system itself (threads of QMI), as opposed to the environment (users, faults) -/
def Internal : Act → Bool
  | .issue _ | .unregister | .stop1 | .stop2 | .stopB | .stopA | .discA => false
  | _ => true

inductive Reach : State → Prop
  | init : Reach init
  | step {s s' a} : Reach s → step cfg attr s a = some s' → Reach s'

def run (s : State) : List Act → Option State
  | [] => some s
  | a :: as => match step cfg attr s a with
    | some s' => run s' as
    | none => none

end QmiModel.Rpc
