/-!
# Model of the peer-connection layer of `qmi/core/messaging.py` — property C06

Mirrors, branch by branch,

* `_PeerTcpConnection._receive_data`   → `consume` / `feed` / `onRecv`
* `_PeerTcpConnection._process_message` → `processMessage`
* `_PeerTcpConnection.close` + `_clear_pending_requests` → `closeConn` / `clearPending`
* `_PeerTcpConnection.send_message` (framing, destination rewrite, pending table) → `frame`, `World.send`
* `_PeerTcpConnection.receive_handshake` (blocking client side) → `recvHs`
* `_SocketManager.add_incoming_connection / add_outgoing_connection / remove_peer_connection /
  disconnect_from_peer / send_message`, `MessageRouter.connect_to_peer / deliver_message` → `World.*`

Payloads are opaque byte strings: `Env.decode` says what `pickle.loads` + the `isinstance` tests make of a
payload (the harness pickles real `QMI_Message` objects and tells the driver).  Python exceptions are values
(`Why`, `HsErr`).  Core Lean only (the driver exe links this file).

Mirrors /repo after the fixes 849271e (a handshake without a string context name is rejected), 6a33dc7
(`_clear_pending_requests` contains any handler exception and always clears the table) and dc3d515
(`_SocketManager.send_message` catches every exception of `conn.send_message` and answers an unsendable reply
with an error reply to the peer).  Mirrored details: the peer name is stored before the handshake direction is
checked; the pending table stores the peer's *real* name as destination, so the error replies made on close
carry the real name, not the alias.  Normalised (unobservable) state: the receive buffer of a closed connection
is set to empty.
-/
namespace QmiModel.Frame

abbrev Bytes := List UInt8

/-- context names: an interned ordinary name, or the local alias `"$client_<n>"` of an incoming peer -/
inductive Name
  | ctx (n : Nat)
  | client (n : Nat)
  | dollar (n : Nat)   -- any other name that starts with "$" (connect_to_peer refuses those too)
  deriving DecidableEq, Repr

/-- `QMI_MessageHandlerAddress(context_id, object_id)` (object ids interned) -/
structure Addr where
  ctx : Name
  obj : Nat
  deriving DecidableEq, Repr

/-- the `isinstance` classes `_process_message` distinguishes (`errReply ⊂ reply`) -/
inductive Kind | request | reply | errReply | other
  deriving DecidableEq, Repr

def Kind.isReply : Kind → Bool
  | .reply => true
  | .errReply => true
  | _ => false

/-- everything of a message that the connection layer does not look at -/
inductive Body
  | tag (n : Nat)                        -- contents of a message made by a peer / a local object (opaque)
  | closedWaiting (peer : Option Name)   -- "Connection to {peer} closed while waiting for reply"
  | unknownDest                          -- deliver_message: "... unknown destination ..."
  | nonLocal                             -- deliver_message: "... non-local destination ..."
  | refused                              -- str(exc) of a handler's QMI_MessageDeliveryException
  | unknownCtx                           -- _SocketManager.send_message: "Unknown message destination context"
  | sendFailed                           -- _SocketManager.send_message: ValueError / OSError while sending
  deriving DecidableEq, Repr

structure Msg where
  kind : Kind
  rid  : Nat           -- request_id (0 for `other`)
  src  : Addr
  dst  : Addr
  body : Body
  deriving DecidableEq, Repr

/-- what `pickle.loads(payload)` and the first `isinstance` tests give -/
inductive Decoded
  | undecodable                                                   -- pickle.loads raises
  | notMessage                                                    -- not a QMI_Message → ValueError
  | handshake (name : Option Name) (ver : Nat) (server : Bool)    -- QMI_InitialHandshakeMessage
  | msg (m : Msg)
  deriving DecidableEq, Repr

/-- what a handler's `handle_message` does with a message -/
inductive Behaviour
  | accept      -- returns
  | refuse      -- raises QMI_MessageDeliveryException
  | crash       -- raises some other Exception
  deriving DecidableEq, Repr

/-- handler kinds the harness can register -/
inductive HKind | accept | refuse | crash | crashOnErr | refuseReq
  deriving DecidableEq, Repr

def HKind.on : HKind → Msg → Behaviour
  | .accept, _ => .accept
  | .refuse, _ => .refuse
  | .crash, _ => .crash
  | .crashOnErr, m => if m.kind = .errReply then .crash else .accept
  | .refuseReq, m => if m.kind = .request then .refuse else .accept

/-- why a connection was closed by the receive path (the exception raised inside `_receive_data`) -/
inductive Why
  | marker | oversize | undecodable | notMessage | expectedHandshake
  | serverHsFromClient | clientHsAsClient | secondHandshake | badDestination | badSource
  | badHandshakeName      -- handshake whose context name is not a string (`None`)
  deriving DecidableEq, Repr

inductive Ev
  | deliver (m : Msg) (b : Behaviour)       -- handler.handle_message(m) was called; what it did
  | undeliverable (m : Msg) (b : Body)      -- deliver_message raised without calling a handler
  | sentErr (m : Msg)                       -- send_error_reply: error reply written to the peer socket
  | sent (frame : Bytes)                    -- send_message: bytes written to the peer socket
  | sentHs (server : Bool)                  -- send_handshake
  | versionWarning                          -- connect_to_peer: peer runs another QMI version (logged)
  | violation (w : Why)                     -- `_handle_read` caught an exception
  | eof                                     -- recv returned b""
  | removed (alias : Name)                  -- remove_peer_connection (peer map entry dropped, callback)
  | escaped                                 -- an exception left the callback (reaches the event loop)
  deriving DecidableEq, Repr

/-- the read-only surroundings of a connection: `MessageRouter.context_name`, `MAX_MESSAGE_SIZE`,
    pickle, and the router's handler table (`_address_to_messagehandler_map`) -/
structure Env where
  ctxName  : Name
  maxSize  : Nat
  decode   : Bytes → Decoded
  handlers : List (Nat × HKind)
  version  : Nat := 0                          -- `qmi.__version__` (interned)
  /-- `len(pickle.dumps(reply))` of the error reply `send_error_reply` would make for the request in payload
      `p` when its delivery fails the way `b` says (told by the harness, like `decode`) -/
  errSize  : Bytes → Body → Nat := fun _ _ => 0

/-- the per-connection state `_process_message` reads and writes -/
structure PState where
  alias    : Name                       -- peer_context_alias
  incoming : Bool                       -- _is_incoming
  peer     : Option Name                -- peer_context_name
  ver      : Option Nat                 -- peer_context_version
  pending  : List (Nat × Addr × Addr)   -- _pending_requests (insertion-ordered dict)
  deriving DecidableEq, Repr

/-! ### framing -/

/-- `int.from_bytes(bs, 'little')` -/
def leNat (bs : Bytes) : Nat := bs.foldr (fun b acc => b.toNat + 256 * acc) 0

/-- `n.to_bytes(k, 'little')` (for `n < 256^k`) -/
def leBytes : Nat → Nat → Bytes
  | 0, _ => []
  | k + 1, n => UInt8.ofNat (n % 256) :: leBytes k (n / 256)

/-- `b'P' + len(p).to_bytes(8,'little') + p` -/
def frame (p : Bytes) : Bytes := 0x50 :: (leBytes 8 p.length ++ p)

/-! ### local delivery (`MessageRouter.deliver_message`) -/

inductive Outcome
  | nonLocal | unknown | handled (b : Behaviour)
  deriving DecidableEq, Repr

def deliverLocal (env : Env) (m : Msg) : Outcome :=
  if m.dst.ctx ≠ env.ctxName then .nonLocal
  else match env.handlers.lookup m.dst.obj with
    | none => .unknown
    | some h => .handled (h.on m)

/-- the event a call of `deliver_message(m)` leaves -/
def Outcome.ev (m : Msg) : Outcome → Ev
  | .nonLocal => .undeliverable m .nonLocal
  | .unknown => .undeliverable m .unknownDest
  | .handled b => .deliver m b

/-! ### `_process_message` -/

structure PRes where
  st  : PState
  evs : List Ev
  err : Option Why
  deriving DecidableEq, Repr

def erasePending (rid : Nat) : List (Nat × Addr × Addr) → List (Nat × Addr × Addr)
  | [] => []
  | e :: rest => if e.1 = rid then rest else e :: erasePending rid rest

/-- the error reply `send_error_reply` writes back (destination already rewritten to the peer's real name);
    `fits = false`: its pickle exceeds `MAX_MESSAGE_SIZE`, `send_message` raises ValueError, which is swallowed -/
def errBack (fits : Bool) (pn : Name) (m' : Msg) (b : Body) : List Ev :=
  if m'.kind = .request ∧ fits then
    [.sentErr { kind := .errReply, rid := m'.rid, src := m'.dst, dst := ⟨pn, m'.src.obj⟩, body := b }]
  else []

def processMessage (env : Env) (s : PState) (p : Bytes) : PRes :=
  match env.decode p with
  | .undecodable => ⟨s, [], some .undecodable⟩
  | .notMessage => ⟨s, [], some .notMessage⟩
  | .handshake name ver server =>
    match s.peer with
    | none =>
      match name with
      | none => ⟨s, [], some .badHandshakeName⟩        -- `not isinstance(context_id, str)`
      | some pn =>
        -- peer name and version are stored *before* the direction checks
        let s' := { s with peer := some pn, ver := some ver }
        if server && s.incoming then ⟨s', [], some .serverHsFromClient⟩
        else if !server && !s.incoming then ⟨s', [], some .clientHsAsClient⟩
        else ⟨s', [], none⟩
    | some _ => ⟨s, [], some .secondHandshake⟩
  | .msg m =>
    match s.peer with
    | none => ⟨s, [], some .expectedHandshake⟩
    | some pn =>
      if m.dst.ctx ≠ env.ctxName then ⟨s, [], some .badDestination⟩
      else if m.src.ctx ≠ pn then ⟨s, [], some .badSource⟩
      else
        let m' : Msg := { m with src := ⟨s.alias, m.src.obj⟩ }
        let s' := if m.kind.isReply then { s with pending := erasePending m.rid s.pending } else s
        match deliverLocal env m' with
        | .handled .accept => ⟨s', [.deliver m' .accept], none⟩
        | .handled .crash => ⟨s', [.deliver m' .crash], none⟩            -- logged, swallowed
        | .handled .refuse => ⟨s', .deliver m' .refuse :: errBack (env.errSize p .refused ≤ env.maxSize) pn m' .refused, none⟩
        | .unknown => ⟨s', .undeliverable m' .unknownDest :: errBack (env.errSize p .unknownDest ≤ env.maxSize) pn m' .unknownDest, none⟩
        | .nonLocal => ⟨s', .undeliverable m' .nonLocal :: errBack (env.errSize p .nonLocal ≤ env.maxSize) pn m' .nonLocal, none⟩

/-! ### the `while True` loop of `_receive_data` -/

structure CRes where
  st  : PState
  buf : Bytes
  evs : List Ev
  err : Option Why
  deriving DecidableEq, Repr

/-- fuelled version (structural, so it reduces in the kernel); `consume` supplies enough fuel -/
def consumeF (env : Env) : Nat → PState → Bytes → CRes
  | 0, s, buf => ⟨s, buf, [], none⟩
  | fuel + 1, s, buf =>
    match buf with
    | [] => ⟨s, [], [], none⟩
    | b :: rest =>
      if b ≠ 0x50 then ⟨s, b :: rest, [], some .marker⟩
      else if rest.length < 8 then ⟨s, b :: rest, [], none⟩
      else if leNat (rest.take 8) > env.maxSize then ⟨s, b :: rest, [], some .oversize⟩
      else if (rest.drop 8).length < leNat (rest.take 8) then ⟨s, b :: rest, [], none⟩
      else
        let r := processMessage env s ((rest.drop 8).take (leNat (rest.take 8)))
        match r.err with
        | some w => ⟨r.st, (rest.drop 8).drop (leNat (rest.take 8)), r.evs, some w⟩
        | none =>
          let r2 := consumeF env fuel r.st ((rest.drop 8).drop (leNat (rest.take 8)))
          ⟨r2.st, r2.buf, r.evs ++ r2.evs, r2.err⟩

def consume (env : Env) (s : PState) (buf : Bytes) : CRes := consumeF env (buf.length + 1) s buf

/-! ### `close` / `_clear_pending_requests` -/

def errReplyFor (peer : Option Name) (e : Nat × Addr × Addr) : Msg :=
  { kind := .errReply, rid := e.1, src := e.2.2, dst := e.2.1, body := .closedWaiting peer }

/-- the event `_clear_pending_requests` leaves for one table entry: `deliver_message(error reply)`; whatever
    the handler does (return, `QMI_MessageDeliveryException`, any other exception) is caught and logged -/
def clearEv (env : Env) (peer : Option Name) (e : Nat × Addr × Addr) : Ev :=
  (deliverLocal env (errReplyFor peer e)).ev (errReplyFor peer e)

/-- one `deliver_message(reply)` per entry, in table order -/
def clearPending (env : Env) (peer : Option Name) : List (Nat × Addr × Addr) → List Ev
  | [] => []
  | e :: rest => clearEv env peer e :: clearPending env peer rest

structure Conn where
  st     : PState
  buf    : Bytes
  closed : Bool
  deriving DecidableEq, Repr

def Conn.fresh (alias : Name) (incoming : Bool) : Conn :=
  { st := { alias, incoming, peer := none, ver := none, pending := [] }, buf := [], closed := false }

structure CloseRes where
  conn : Conn
  evs  : List Ev
  deriving DecidableEq, Repr

/-- `conn.close()`: error replies for the pending requests, then `_pending_requests.clear()`.  The receive
    buffer of a closed connection is dead state (the reader is removed); it is normalised to empty. -/
def closeConn (env : Env) (c : Conn) : CloseRes :=
  ⟨{ st := { c.st with pending := [] }, buf := [], closed := true }, clearPending env c.st.peer c.st.pending⟩

/-- `remove_peer_connection(self); self.close()` — the common tail of every loss -/
def shutdown (env : Env) (c : Conn) : CloseRes :=
  ⟨(closeConn env c).conn, .removed c.st.alias :: (closeConn env c).evs⟩

/-- data arrived (`recv` returned `data`, non-empty): extend the buffer, consume complete frames;
    an exception is caught by `_handle_read`, which removes and closes the connection.
    A closed connection has no reader any more. -/
def feed (env : Env) (c : Conn) (data : Bytes) : Conn × List Ev :=
  if c.closed then (c, [])
  else
    let r := consume env c.st (c.buf ++ data)
    match r.err with
    | none => ({ st := r.st, buf := r.buf, closed := false }, r.evs)
    | some w =>
      let z := shutdown env { st := r.st, buf := r.buf, closed := false }
      (z.conn, r.evs ++ .violation w :: z.evs)

/-- one `_handle_read`: `recv` returned `data` (`[]` = connection closed by the other side) -/
def onRecv (env : Env) (c : Conn) (data : Bytes) : Conn × List Ev :=
  if c.closed then (c, [])
  else if data.isEmpty then
    let z := shutdown env c
    (z.conn, .eof :: z.evs)
  else feed env c data

def feedAll (env : Env) (c : Conn) : List Bytes → Conn × List Ev
  | [] => (c, [])
  | d :: ds =>
    let r := feed env c d
    let r2 := feedAll env r.1 ds
    (r2.1, r.2 ++ r2.2)

/-! ### `receive_handshake` (blocking, client side) -/

inductive HsErr
  | marker | oversize | eofBeforeHandshake
  | proc (w : Why)          -- `_process_message` raised
  | peerNone                -- `assert self.peer_context_name is not None`
  | needMore                -- (model only) the chunk list ran out: the real call would still block
  deriving DecidableEq, Repr

/-- `(len(buf) > 0) and (buf[0] != ord(b'P'))` -/
def badHead : Bytes → Bool
  | b :: _ => b != 0x50
  | [] => false

/-- `need_len` of `receive_handshake` for the current buffer (the size check is done separately) -/
def hsNeed (buf : Bytes) : Nat := if buf.length < 9 then 9 else 9 + leNat ((buf.drop 1).take 8)

structure HsRes where
  st  : PState
  buf : Bytes
  err : Option HsErr
  deriving DecidableEq, Repr

/-- `chunks` are the successive return values of `sock.recv(need_len - len(buf))` -/
def recvHs (env : Env) (s : PState) : Bytes → List Bytes → HsRes
  | buf, chunks =>
    if badHead buf then ⟨s, buf, some .marker⟩
    else if buf.length ≥ 9 ∧ leNat ((buf.drop 1).take 8) > env.maxSize then ⟨s, buf, some .oversize⟩
    else
      if buf.length ≥ hsNeed buf then
        let r := processMessage env s ((buf.drop 9).take (hsNeed buf - 9))
        match r.err with
        | some w => ⟨r.st, buf.drop (hsNeed buf), some (.proc w)⟩
        | none =>
          if r.st.peer.isNone then ⟨r.st, buf.drop (hsNeed buf), some .peerNone⟩
          else ⟨r.st, buf.drop (hsNeed buf), none⟩
      else
        match chunks with
        | [] => ⟨s, buf, some .needMore⟩
        | ch :: rest => if ch.isEmpty then ⟨s, buf, some .eofBeforeHandshake⟩ else recvHs env s (buf ++ ch) rest

/-- the byte counts `receive_handshake` asks `sock.recv` for, one per chunk it consumes -/
def recvHsReqs (env : Env) : Bytes → List Bytes → List Nat
  | buf, chunks =>
    if badHead buf then []
    else if buf.length ≥ 9 ∧ leNat ((buf.drop 1).take 8) > env.maxSize then []
    else if buf.length ≥ hsNeed buf then []
    else
      match chunks with
      | [] => []
      | ch :: rest => (hsNeed buf - buf.length) :: (if ch.isEmpty then [] else recvHsReqs env (buf ++ ch) rest)

/-! ### the socket manager: several connections, the peer map, the handler table -/

structure World where
  env     : Env
  conns   : List (Nat × Conn)      -- every connection object the harness ever created, by id
  peers   : List (Name × Nat)      -- `_peer_context_map`: alias ↦ connection id
  counter : Nat                    -- `_peer_name_counter`

def setConn (id : Nat) (c : Conn) : List (Nat × Conn) → List (Nat × Conn)
  | [] => [(id, c)]
  | e :: rest => if e.1 = id then (id, c) :: rest else e :: setConn id c rest

def erasePeer (a : Name) : List (Name × Nat) → List (Name × Nat)
  | [] => []
  | e :: rest => if e.1 = a then erasePeer a rest else e :: erasePeer a rest

def World.init (ctx : Name) (maxSize : Nat) (version : Nat := 0) : World :=
  { env := { ctxName := ctx, maxSize, decode := fun _ => .undecodable, handlers := [], version },
    conns := [], peers := [], counter := 0 }

/-- `add_incoming_connection`: new alias `$client_<n>`, server handshake sent, registered.
    `sendOk = false`: `sendall` raised → the connection is closed and not registered. -/
def World.accept (w : World) (id : Nat) (sendOk : Bool) : World × List Ev :=
  let n := w.counter + 1
  let c := Conn.fresh (.client n) true
  if sendOk then
    ({ w with counter := n, conns := setConn id c w.conns, peers := w.peers ++ [(.client n, id)] }, [.sentHs true])
  else
    let z := closeConn w.env c
    ({ w with counter := n, conns := setConn id z.conn w.conns }, z.evs)

/-- one `_handle_read` of connection `id` -/
def World.recv (w : World) (id : Nat) (data : Bytes) : World × List Ev :=
  match w.conns.lookup id with
  | none => (w, [])
  | some c =>
    let r := onRecv w.env c data
    let peers := if r.1.closed && !c.closed then erasePeer c.st.alias w.peers else w.peers
    ({ w with conns := setConn id r.1 w.conns, peers }, r.2)

/-- `_SocketManager.disconnect_from_peer(name)`; `none` = QMI_UnknownNameException -/
def World.disconnect (w : World) (name : Name) : Option (World × List Ev) :=
  match w.peers.lookup name with
  | none => none
  | some id =>
    match w.conns.lookup id with
    | none => none
    | some c =>
      let z := shutdown w.env c
      some ({ w with conns := setConn id z.conn w.conns, peers := erasePeer name w.peers }, z.evs)

/-- the local error reply `_SocketManager.send_message` generates for an unroutable *request* -/
def localErr (env : Env) (m : Msg) (b : Body) : List Ev :=
  if m.kind = .request then
    let reply : Msg := { kind := .errReply, rid := m.rid, src := m.dst, dst := m.src, body := b }
    [(deliverLocal env reply).ev reply]
  else []

/-- `_SocketManager.send_message` after `conn.send_message(m)` raised: a request is answered by a local error
    reply; for a reply (not itself an error reply) an error reply is sent to the peer in its place — which
    works only if the connection knows the peer's name (`pn`) and the socket still takes data (`canSend`) -/
def sendFailure (env : Env) (m : Msg) (pn : Option Name) (canSend : Bool) : List Ev :=
  if m.kind = .request then localErr env m .sendFailed
  else if m.kind = .reply then
    match pn with
    | some n =>
      if canSend then
        [.sentErr { kind := .errReply, rid := m.rid, src := m.src, dst := ⟨n, m.dst.obj⟩, body := .sendFailed }]
      else []
    | none => []
  else []

def hasPending (rid : Nat) (l : List (Nat × Addr × Addr)) : Bool := l.any (fun e => e.1 == rid)

/-- `_SocketManager.send_message(m)`; `payload` = `pickle.dumps` of the copy whose destination context
    has been rewritten to the peer's real name; `sendOk = false`: `sendall` raises OSError -/
def World.send (w : World) (m : Msg) (payload : Bytes) (sendOk : Bool) : World × List Ev :=
  match w.peers.lookup m.dst.ctx with
  | none => (w, localErr w.env m .unknownCtx)
  | some id =>
    match w.conns.lookup id with
    | none => (w, [.escaped])
    | some c =>
      match c.st.peer with
      | none => (w, sendFailure w.env m none sendOk)     -- `assert self.peer_context_name is not None`, caught
      | some pn =>
        if payload.length > w.env.maxSize then (w, sendFailure w.env m (some pn) sendOk)     -- ValueError
        else if !sendOk then (w, sendFailure w.env m (some pn) false)                        -- OSError
        else
          let c' : Conn :=
            if m.kind = .request ∧ !hasPending m.rid c.st.pending then
              { c with st := { c.st with pending := c.st.pending ++ [(m.rid, m.src, ⟨pn, m.dst.obj⟩)] } }
            else c
          ({ w with conns := setConn id c' w.conns }, [.sent (frame payload)])

/-- `close()` of the connections with the given ids, one after the other -/
def closeIds (env : Env) : List (Nat × Conn) → List Nat → List (Nat × Conn) × List Ev
  | conns, [] => (conns, [])
  | conns, id :: ids =>
    match conns.lookup id with
    | none => closeIds env conns ids
    | some c =>
      ((closeIds env (setConn id (closeConn env c).conn conns) ids).1,
       (closeConn env c).evs ++ (closeIds env (setConn id (closeConn env c).conn conns) ids).2)

/-- `_SocketManager.close_all()` (router / context stop): the peer map is cleared, then every registered
    connection is closed in registration order (`_socket_wrappers`; the peer map keeps that order) — pending
    requests are failed as in every `close()`; `remove_peer_connection` is not called (no removal callback) -/
def World.closeAll (w : World) : World × List Ev :=
  ({ w with conns := (closeIds w.env w.conns (w.peers.map (·.2))).1, peers := [] },
   (closeIds w.env w.conns (w.peers.map (·.2))).2)

/-- any sequence of `_handle_read` calls, on any connections in any order; events tagged with the connection -/
def World.run (w : World) : List (Nat × Bytes) → World × List (Nat × Ev)
  | [] => (w, [])
  | (i, d) :: ops =>
    ((World.run (w.recv i d).1 ops).1, (w.recv i d).2.map (fun e => (i, e)) ++ (World.run (w.recv i d).1 ops).2)

inductive ConnectErr
  | invalidName               -- QMI_UsageException: peer context name starts with "$"
  | duplicate                 -- QMI_UsageException: already connected
  | hs (e : HsErr)            -- send_handshake / receive_handshake raised
  | wrongName                 -- "Got handshake from context {} while expecting {}"
  deriving DecidableEq, Repr

/-- `MessageRouter.connect_to_peer(name, …)`: client handshake out, blocking `receive_handshake`, name check,
    `add_outgoing_connection`.  On failure the connection object is closed and never registered. -/
def World.connect (w : World) (id : Nat) (name : Name) (chunks : List Bytes) :
    World × List Ev × Option ConnectErr :=
  if (match name with | .client _ => true | .dollar _ => true | .ctx _ => false) then (w, [], some .invalidName)
  else if (w.peers.lookup name).isSome then (w, [], some .duplicate)
  else
    let c := Conn.fresh name false
    let h := recvHs w.env c.st [] chunks
    match h.err with
    | some e =>
      let z := closeConn w.env { st := h.st, buf := h.buf, closed := false }
      ({ w with conns := setConn id z.conn w.conns }, .sentHs false :: z.evs, some (.hs e))
    | none =>
      if h.st.peer ≠ some name then
        let z := closeConn w.env { st := h.st, buf := h.buf, closed := false }
        ({ w with conns := setConn id z.conn w.conns }, .sentHs false :: z.evs, some .wrongName)
      else
        ({ w with conns := setConn id { st := h.st, buf := h.buf, closed := false } w.conns,
                  peers := w.peers ++ [(name, id)] },
         .sentHs false :: (if h.st.ver ≠ some w.env.version then [.versionWarning] else []), none)

end QmiModel.Frame
