/-!
# Model of `QMI_SignalReceiver` (qmi/core/pubsub.py) — property C09

Mirrors `_receive_signal`, `get_next_signal(timeout=0)`, `discard_all`,
`get_queue_length`, `has_signal_ready`.  The queue is a Python
`deque(maxlen=max_queue_length)`; `dequeAppend` is the semantics of
`deque.append` for *every* maxlen (including the over-full case).

Core Lean only (the driver exe links this file).
-/
namespace QmiModel.RecvQueue

inductive Policy | old | new
  deriving DecidableEq, Repr

/-- a queued signal: the receiver sequence number and an opaque payload tag -/
structure Sig where
  seq : Nat
  tag : Nat
  deriving DecidableEq, Repr

structure RQ where
  cap  : Nat
  pol  : Policy
  q    : List Sig      -- oldest first
  next : Nat           -- `_receiver_seqnr`
  deriving Repr

def init (cap : Nat) (pol : Policy) : RQ := { cap, pol, q := [], next := 0 }

/-- `collections.deque(maxlen=m).append(x)` -/
def dequeAppend (m : Nat) (q : List Sig) (x : Sig) : List Sig :=
  (q ++ [x]).drop ((q ++ [x]).length - m)

/-- `_receive_signal` -/
def recv (r : RQ) (tag : Nat) : RQ :=
  let s : Sig := ⟨r.next, tag⟩
  if r.q.length = r.cap ∧ r.pol = .new then
    { r with next := r.next + 1 }
  else
    { r with next := r.next + 1, q := dequeAppend r.cap r.q s }

/-- `get_next_signal(timeout=0)`: `none` = `QMI_TimeoutException` -/
def getNext (r : RQ) : RQ × Option Sig :=
  match r.q with
  | [] => (r, none)
  | s :: rest => ({ r with q := rest }, some s)

def discardAll (r : RQ) : RQ := { r with q := [] }

inductive Op
  | recv (tag : Nat)
  | get
  | discard
  | len
  | ready
  deriving Repr

inductive Out
  | unit
  | sig (s : Sig)
  | timeout
  | nat (n : Nat)
  | bool (b : Bool)
  deriving DecidableEq, Repr

def step (r : RQ) : Op → RQ × Out
  | .recv t  => (recv r t, .unit)
  | .get     => match getNext r with
                | (r', some s) => (r', .sig s)
                | (r', none)   => (r', .timeout)
  | .discard => (discardAll r, .unit)
  | .len     => (r, .nat r.q.length)
  | .ready   => (r, .bool (r.q.length != 0))

def run (r : RQ) : List Op → RQ × List Out
  | [] => (r, [])
  | o :: os =>
    let (r1, out) := step r o
    let (r2, outs) := run r1 os
    (r2, out :: outs)

/-! ### Ghost-instrumented run (for the accounting theorems): every arrival
number ends in exactly one of `delivered`, `dropped`, `discarded`, or is still queued. -/

structure Ghost where
  r         : RQ
  delivered : List Nat   -- seq numbers handed out, oldest first
  dropped   : List Nat   -- lost to the full-queue policy
  discarded : List Nat   -- lost to `discard_all`
  deriving Repr

def ginit (cap : Nat) (pol : Policy) : Ghost :=
  { r := init cap pol, delivered := [], dropped := [], discarded := [] }

def gstep (g : Ghost) : Op → Ghost
  | .recv t =>
    let r' := recv g.r t
    if g.r.q.length = g.r.cap ∧ g.r.pol = .new then
      { g with r := r', dropped := g.dropped ++ [g.r.next] }
    else
      -- whatever `dequeAppend` pushed out on the left was dropped
      { g with r := r',
               dropped := g.dropped ++ ((g.r.q ++ [(⟨g.r.next, t⟩ : Sig)]).take
                  ((g.r.q ++ [(⟨g.r.next, t⟩ : Sig)]).length - g.r.cap)).map Sig.seq }
  | .get =>
    match getNext g.r with
    | (r', some s) => { g with r := r', delivered := g.delivered ++ [s.seq] }
    | (r', none)   => { g with r := r' }
  | .discard => { g with r := discardAll g.r, discarded := g.discarded ++ g.r.q.map Sig.seq }
  | .len   => g
  | .ready => g

def grun (g : Ghost) (ops : List Op) : Ghost := ops.foldl gstep g

end QmiModel.RecvQueue
