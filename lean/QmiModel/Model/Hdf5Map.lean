import QmiModel.Model.TextAttr
/-!
# DataSet ↔ HDF5 attribute mapping (qmi/data/dataset.py) — property C17

`write_dataset_to_hdf5` / `read_dataset_from_hdf5` minus the array itself: which HDF5 attributes
carry the timestamp, axis / column labels and units and the custom attributes; dimension labels and
attached dimension scales; the marker attribute; the reserved name prefixes.

The attribute store of an HDF5 dataset is an association list used as a dictionary (`put`
replaces).  Numbers are opaque (`HVal.n`): h5py keeps their value.  Core Lean only.
-/
namespace QmiModel.C17

inductive HVal
  | s (v : Str)
  | n (v : Nat)
  deriving DecidableEq, Repr

abbrev HAttrs := List (Str × HVal)

def HAttrs.get (m : HAttrs) (k : Str) : Option HVal := (m.find? (fun e => e.1 = k)).map (·.2)

def HAttrs.put (m : HAttrs) (k : Str) (v : HVal) : HAttrs :=
  match m with
  | [] => [(k, v)]
  | e :: rest => if e.1 = k then (k, v) :: rest else e :: HAttrs.put rest k v

def kPrefix : Str := [81, 77, 73, 95, 68, 97, 116, 97, 83, 101, 116]        -- "QMI_DataSet"
def kDimension : Str := [68, 73, 77, 69, 78, 83, 73, 79, 78, 95]      -- "DIMENSION_"
def sTimestamp : Str := [95, 116, 105, 109, 101, 115, 116, 97, 109, 112]      -- "_timestamp"
def sTimeStr : Str := [95, 116, 105, 109, 101, 95, 115, 116, 114]         -- "_time_str"
def sAxis : Str := [95, 97, 120, 105, 115]                -- "_axis"
def sColumn : Str := [95, 99, 111, 108, 117, 109, 110]            -- "_column"
def sLabel : Str := [95, 108, 97, 98, 101, 108]              -- "_label"
def sUnit : Str := [95, 117, 110, 105, 116]                -- "_unit"

def kMarker : Str := kPrefix
def kTimestamp : Str := kPrefix ++ sTimestamp
def kTimeStr : Str := kPrefix ++ sTimeStr
/-- `"QMI_DataSet_axis{}_label".format(i)` etc. -/
def kAxisLabel (i : Nat) : Str := kPrefix ++ sAxis ++ natDigits i ++ sLabel
def kAxisUnit (i : Nat) : Str := kPrefix ++ sAxis ++ natDigits i ++ sUnit
def kColLabel (i : Nat) : Str := kPrefix ++ sColumn ++ natDigits i ++ sLabel
def kColUnit (i : Nat) : Str := kPrefix ++ sColumn ++ natDigits i ++ sUnit

def startsWith (s p : Str) : Bool := p.isPrefixOf s

/-- names the HDF5 writer refuses / the reader skips -/
def reservedH5 (name : Str) : Bool := startsWith name kPrefix || startsWith name kDimension

/-- a DataSet without its array -/
structure DSMeta where
  name      : Str
  ts        : HVal
  axisLabel : List Str
  axisUnit  : List Str
  colLabel  : List Str
  colUnit   : List Str
  scales    : List (Option Nat)        -- opaque scale arrays
  attrs     : List (Str × HVal)        -- dict: keys distinct
  deriving DecidableEq, Repr

/-- an HDF5 dataset without its array -/
structure H5DS where
  name     : Str
  attrs    : HAttrs
  dimLabel : List Str                  -- ds.dims[axis].label
  dimScale : List (Option Nat)         -- scale attached to ds.dims[axis]
  deriving DecidableEq, Repr

/-- `if label: ds.attrs[key] = label` -/
def putNonEmpty (m : HAttrs) (k : Str) (v : Str) : HAttrs := if v.isEmpty then m else m.put k (.s v)

/-- the label / unit loop over `range(n)` -/
def putLabels (kl ku : Nat → Str) (labels units : List Str) : Nat → Nat → HAttrs → HAttrs
  | 0, _, m => m
  | cnt + 1, i, m =>
    putLabels kl ku labels units cnt (i + 1)
      (putNonEmpty (putNonEmpty m (kl i) (labels.getD i [])) (ku i) (units.getD i []))

/-- the custom attribute loop; a reserved name raises ValueError -/
def putCustom (m : HAttrs) : List (Str × HVal) → Except PyExc HAttrs
  | [] => .ok m
  | (k, v) :: rest => if reservedH5 k then .error .valueError else putCustom (m.put k v) rest

def writeH (d : DSMeta) (naxes ncol : Nat) (timeStr : Str) : Except PyExc H5DS :=
  let a0 : HAttrs := HAttrs.put (HAttrs.put [] kTimestamp d.ts) kTimeStr (.s timeStr)
  let a1 := putLabels kAxisLabel kAxisUnit d.axisLabel d.axisUnit naxes 0 a0
  let a2 := putLabels kColLabel kColUnit d.colLabel d.colUnit ncol 0 a1
  match putCustom a2 d.attrs with
  | .error e => .error e
  | .ok a3 =>
    .ok { name := d.name, attrs := a3.put kMarker (.n 1),
          dimLabel := (List.range naxes).map (fun i => d.axisLabel.getD i []),
          dimScale := (List.range naxes).map (fun i => d.scales.getD i none) }

/-- `ds.attrs.get(key, "")` for a label -/
def getLabel (m : HAttrs) (k : Str) : Str :=
  match m.get k with
  | some (.s v) => v
  | _ => []

def readH (h : H5DS) (naxes ncol : Nat) : Except PyExc DSMeta :=
  if h.attrs.get kMarker ≠ some (.n 1) then .error .valueError else
  match h.attrs.get kTimestamp with
  | none => .error .keyError
  | some ts =>
    .ok { name := h.name, ts := ts,
          axisLabel := (List.range naxes).map (fun i => getLabel h.attrs (kAxisLabel i)),
          axisUnit := (List.range naxes).map (fun i => getLabel h.attrs (kAxisUnit i)),
          colLabel := (List.range ncol).map (fun i => getLabel h.attrs (kColLabel i)),
          colUnit := (List.range ncol).map (fun i => getLabel h.attrs (kColUnit i)),
          scales := (List.range naxes).map (fun i => h.dimScale.getD i none),
          attrs := h.attrs.filter (fun e => !reservedH5 e.1) }

end QmiModel.C17
