/-!
# Model of the Thorlabs APT packet layer — property C15 (part B)

Mirrors `qmi/instruments/thorlabs/apt_protocol.py` (`AptProtocol.write_param_command`,
`write_data_command`, `ask`) and the ctypes packet classes of `apt_packets.py`.

A ctypes `LittleEndianStructure` with `_pack_ = True` is modelled as the
concatenation, in field order, of the little-endian encodings of its scalar
cells (arrays flattened).  The layouts themselves (cell sizes, signedness,
offsets, `sizeof`, `MESSAGE_ID`, `HEADER_ONLY`) are *not* written here: they are
regenerated from the live classes into `QmiModel/Gen/Layouts.lean`, and the
contiguity of the generated offsets is an obligation closed by `decide`.

The transport is the scripted fake of the harness: `read(nbytes)` returns
exactly `nbytes` from the buffer or raises QMI_TimeoutException (buffer kept).

Core Lean only.
-/
namespace QmiModel.Apt

abbrev Bytes := List UInt8

inductive Exc
  | valueError      -- ValueError (ctypes `from_buffer_copy`: buffer too small)
  | timeout         -- QMI_TimeoutException
  | instrument      -- QMI_InstrumentException
  deriving DecidableEq, Repr

/-- one scalar cell of a packed structure -/
structure Cell where
  size : Nat
  signed : Bool
  deriving DecidableEq, Repr

/-- a ctypes field as introspected: name, byte offset, element cell, element count (1 for scalars), char array? -/
structure Field where
  name : String
  off : Nat
  cell : Cell
  count : Nat
  isChar : Bool
  deriving DecidableEq, Repr

structure Layout where
  name : String
  msgId : Nat           -- `MESSAGE_ID` (0 for the two header structures)
  headerOnly : Bool     -- `HEADER_ONLY`
  size : Nat            -- `ctypes.sizeof`
  fields : List Field
  deriving DecidableEq, Repr

def Field.cells (f : Field) : List Cell := List.replicate f.count f.cell

def Layout.cells (l : Layout) : List Cell := l.fields.flatMap Field.cells

def cellsSize (cs : List Cell) : Nat := (cs.map Cell.size).sum

/-- index (in the flattened cell list) of the first cell of the field called `nm` -/
def cellIndexFrom (nm : String) : Nat → List Field → Option Nat
  | _, [] => none
  | i, f :: fs => if f.name = nm then some i else cellIndexFrom nm (i + f.count) fs

def Layout.cellIndex (l : Layout) (nm : String) : Nat := (cellIndexFrom nm 0 l.fields).getD 0

/-- offsets are the running sums of the sizes and `sizeof` is the total: no padding, no overlap -/
def contiguousFrom : Nat → List Field → Option Nat
  | o, [] => some o
  | o, f :: fs => if f.off = o then contiguousFrom (o + f.count * f.cell.size) fs else none

def Layout.Contiguous (l : Layout) : Prop := contiguousFrom 0 l.fields = some l.size

instance (l : Layout) : Decidable l.Contiguous := by unfold Layout.Contiguous; infer_instance

/-! ## little-endian cells -/

/-- `n` bytes, least significant first, of `v mod 256^n` -/
def leBytes : Nat → Nat → Bytes
  | 0, _ => []
  | n + 1, v => UInt8.ofNat (v % 256) :: leBytes n (v / 256)

def leVal : Bytes → Nat
  | [] => 0
  | b :: bs => b.toNat + 256 * leVal bs

/-- ctypes stores an out-of-range Python int modulo 2^bits, without an exception -/
def encCell (c : Cell) (v : Int) : Bytes := leBytes c.size (v % (256 ^ c.size : Nat)).toNat

def decCell (c : Cell) (bs : Bytes) : Int :=
  let u := leVal bs
  if c.signed ∧ 2 * u ≥ 256 ^ c.size then (u : Int) - (256 ^ c.size : Nat) else (u : Int)

/-- `bytes(Struct(*vals))`; missing initialisers leave the field zero -/
def pack : List Cell → List Int → Bytes
  | [], _ => []
  | c :: cs, [] => encCell c 0 ++ pack cs []
  | c :: cs, v :: vs => encCell c v ++ pack cs vs

/-- the field values of `Struct.from_buffer_copy(bs)` -/
def unpack : List Cell → Bytes → List Int
  | [], _ => []
  | c :: cs, bs => decCell c (bs.take c.size) :: unpack cs (bs.drop c.size)

/-! ## `AptProtocol` -/

/-- the protocol object's constants and the two header layouts -/
structure Proto where
  headerSize : Nat            -- `HEADER_SIZE_BYTES`
  hdrParams : Layout          -- `AptMessageHeaderWithParams`
  hdrData : Layout            -- `AptMessageHeaderForData`
  dataFlag : Nat              -- the literal in `self._apt_device_address | 0x80`
  devAddr : Nat
  hostAddr : Nat
  deriving Repr

/-- `write_param_command`: the bytes handed to `transport.write` -/
def writeParam (pr : Proto) (msgId p1 p2 : Int) : Bytes :=
  pack pr.hdrParams.cells [msgId, p1, p2, pr.devAddr, pr.hostAddr]

/-- `write_data_command`: `data` = `bytearray(data)` of the packet object -/
def writeData (pr : Proto) (msgId : Int) (data : Bytes) : Bytes :=
  pack pr.hdrData.cells [msgId, data.length, ((pr.devAddr ||| pr.dataFlag : Nat) : Int), pr.hostAddr] ++ data

/-- `transport.read(nbytes)` of the fake: `none` = QMI_TimeoutException, buffer kept -/
def readN (n : Nat) (buf : Bytes) : Option Bytes × Bytes :=
  if buf.length < n then (none, buf) else (some (buf.take n), buf.drop n)

/-- `Struct.from_buffer_copy(bs)` -/
def fromBuffer (l : Layout) (bs : Bytes) : Except Exc (List Int) :=
  if bs.length < l.size then .error .valueError else .ok (unpack l.cells (bs.take l.size))

/-- `ask(data_type)`: result (field values, arrays flattened) and the remaining receive buffer -/
def ask (pr : Proto) (l : Layout) (buf : Bytes) : Except Exc (List Int) × Bytes :=
  match readN pr.headerSize buf with
  | (none, b) => (.error .timeout, b)
  | (some hb, b1) =>
    if l.headerOnly then (fromBuffer l hb, b1)
    else
      match fromBuffer pr.hdrData hb with
      | .error e => (.error e, b1)
      | .ok hv =>
        let msgId := hv.getD (pr.hdrData.cellIndex "message_id") 0    -- `header.message_id`
        let len := (hv.getD (pr.hdrData.cellIndex "data_length") 0).toNat   -- `header.data_length`
        match readN len b1 with
        | (none, b) => (.error .timeout, b)
        | (some db, b2) =>
          if (l.msgId : Int) ≠ msgId then (.error .instrument, b2)
          else (fromBuffer l db, b2)

end QmiModel.Apt
