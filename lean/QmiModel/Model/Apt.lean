/-!
# Model of the Thorlabs APT packet layer — property C15 (part B)

Mirrors `qmi/instruments/thorlabs/apt_protocol.py` (`AptProtocol.write_param_command`,
`write_data_command`, `ask`) and the ctypes packet classes of `apt_packets.py`.

A ctypes `LittleEndianStructure` with `_pack_ = True` is modelled as the
concatenation, in field order, of the little-endian encodings of its scalar
cells (arrays flattened).  The layouts themselves (cell sizes, signedness,
offsets, `sizeof`, `MESSAGE_ID`, `HEADER_ONLY`) are *not* written here: they are
regenerated from the live classes into `QmiModel/Gen/Layouts.lean`, and the
contiguity of the generated offsets is an obligation closed by `decide`.

The transport is the scripted fake of the harness: `read(nbytes)` returns
exactly `nbytes` from the buffer or raises QMI_TimeoutException (buffer kept).

Core Lean only.
-/
namespace QmiModel.Apt

abbrev Bytes := List UInt8

inductive Exc
  | valueError      -- ValueError (ctypes `from_buffer_copy`: buffer too small)
  | timeout         -- QMI_TimeoutException
  | instrument      -- QMI_InstrumentException
  deriving DecidableEq, Repr

/-- one scalar cell of a packed structure -/
structure Cell where
  size : Nat
  signed : Bool
  deriving DecidableEq, Repr

/-- a ctypes field as introspected: name, byte offset, element cell, element count (1 for scalars), char array? -/
structure Field where
  name : String
  off : Nat
  cell : Cell
  count : Nat
  isChar : Bool
  deriving DecidableEq, Repr

structure Layout where
  name : String
  msgId : Nat           -- `MESSAGE_ID` (0 for the two header structures)
  headerOnly : Bool     -- `HEADER_ONLY`
  size : Nat            -- `ctypes.sizeof`
  fields : List Field
  deriving DecidableEq, Repr

def Field.cells (f : Field) : List Cell := List.replicate f.count f.cell

def Layout.cells (l : Layout) : List Cell := l.fields.flatMap Field.cells

def cellsSize (cs : List Cell) : Nat := (cs.map Cell.size).sum

/-- index (in the flattened cell list) of the first cell of the field called `nm` -/
def cellIndexFrom (nm : String) : Nat → List Field → Option Nat
  | _, [] => none
  | i, f :: fs => if f.name = nm then some i else cellIndexFrom nm (i + f.count) fs

def Layout.cellIndex (l : Layout) (nm : String) : Nat := (cellIndexFrom nm 0 l.fields).getD 0

/-- offsets are the running sums of the sizes and `sizeof` is the total: no padding, no overlap -/
def contiguousFrom : Nat → List Field → Option Nat
  | o, [] => some o
  | o, f :: fs => if f.off = o then contiguousFrom (o + f.count * f.cell.size) fs else none

def Layout.Contiguous (l : Layout) : Prop := contiguousFrom 0 l.fields = some l.size

instance (l : Layout) : Decidable l.Contiguous := by unfold Layout.Contiguous; infer_instance

/-! ## little-endian cells -/

/-- `n` bytes, least significant first, of `v mod 256^n` -/
def leBytes : Nat → Nat → Bytes
  | 0, _ => []
  | n + 1, v => UInt8.ofNat (v % 256) :: leBytes n (v / 256)

def leVal : Bytes → Nat
  | [] => 0
  | b :: bs => b.toNat + 256 * leVal bs

/-- ctypes stores an out-of-range Python int modulo 2^bits, without an exception -/
def encCell (c : Cell) (v : Int) : Bytes := leBytes c.size (v % (256 ^ c.size : Nat)).toNat

def decCell (c : Cell) (bs : Bytes) : Int :=
  let u := leVal bs
  if c.signed ∧ 2 * u ≥ 256 ^ c.size then (u : Int) - (256 ^ c.size : Nat) else (u : Int)

/-- `bytes(Struct(*vals))`; missing initialisers leave the field zero -/
def pack : List Cell → List Int → Bytes
  | [], _ => []
  | c :: cs, [] => encCell c 0 ++ pack cs []
  | c :: cs, v :: vs => encCell c v ++ pack cs vs

/-- the field values of `Struct.from_buffer_copy(bs)` -/
def unpack : List Cell → Bytes → List Int
  | [], _ => []
  | c :: cs, bs => decCell c (bs.take c.size) :: unpack cs (bs.drop c.size)

/-! ## `AptProtocol` -/

/-- the protocol object's constants and the two header layouts -/
structure Proto where
  headerSize : Nat            -- `HEADER_SIZE_BYTES`
  hdrParams : Layout          -- `AptMessageHeaderWithParams`
  hdrData : Layout            -- `AptMessageHeaderForData`
  dataFlag : Nat              -- the literal in `self._apt_device_address | 0x80`
  devAddr : Nat
  hostAddr : Nat
  deriving Repr

/-- `write_param_command`: the bytes handed to `transport.write` -/
def writeParam (pr : Proto) (msgId p1 p2 : Int) : Bytes :=
  pack pr.hdrParams.cells [msgId, p1, p2, pr.devAddr, pr.hostAddr]

/-- `write_data_command`: `data` = `bytearray(data)` of the packet object -/
def writeData (pr : Proto) (msgId : Int) (data : Bytes) : Bytes :=
  pack pr.hdrData.cells [msgId, data.length, ((pr.devAddr ||| pr.dataFlag : Nat) : Int), pr.hostAddr] ++ data

/-- `transport.read(nbytes)` of the fake: `none` = QMI_TimeoutException, buffer kept -/
def readN (n : Nat) (buf : Bytes) : Option Bytes × Bytes :=
  if buf.length < n then (none, buf) else (some (buf.take n), buf.drop n)

/-- `Struct.from_buffer_copy(bs)` -/
def fromBuffer (l : Layout) (bs : Bytes) : Except Exc (List Int) :=
  if bs.length < l.size then .error .valueError else .ok (unpack l.cells (bs.take l.size))

/-- `ask(data_type)`: result (field values, arrays flattened) and the remaining receive buffer -/
def ask (pr : Proto) (l : Layout) (buf : Bytes) : Except Exc (List Int) × Bytes :=
  match readN pr.headerSize buf with
  | (none, b) => (.error .timeout, b)
  | (some hb, b1) =>
    if l.headerOnly then (fromBuffer l hb, b1)
    else
      match fromBuffer pr.hdrData hb with
      | .error e => (.error e, b1)
      | .ok hv =>
        let msgId := hv.getD (pr.hdrData.cellIndex "message_id") 0    -- `header.message_id`
        let len := (hv.getD (pr.hdrData.cellIndex "data_length") 0).toNat   -- `header.data_length`
        match readN len b1 with
        | (none, b) => (.error .timeout, b)
        | (some db, b2) =>
          if (l.msgId : Int) ≠ msgId then (.error .instrument, b2)
          else (fromBuffer l db, b2)


/-- the timeout both `transport.read` calls of `ask` receive: `if timeout is None: timeout = self._timeout` -/
def askTimeout (dflt t : Option Nat) : Option Nat :=
  match t with
  | none => dflt
  | some x => some x

/-- the `transport.read(nbytes, timeout)` calls `ask` makes, in order -/
def askReads (pr : Proto) (l : Layout) (dflt t : Option Nat) (buf : Bytes) : List (Nat × Option Nat) :=
  let tmo := askTimeout dflt t
  match readN pr.headerSize buf with
  | (none, _) => [(pr.headerSize, tmo)]
  | (some hb, _) =>
    if l.headerOnly then [(pr.headerSize, tmo)]
    else match fromBuffer pr.hdrData hb with
      | .error _ => [(pr.headerSize, tmo)]
      | .ok hv => [(pr.headerSize, tmo), ((hv.getD (pr.hdrData.cellIndex "data_length") 0).toNat, tmo)]

/-! ## The second APT implementation: `Thorlabs_K10CR1._read_message`, `_wait_message`, `_send_message`, `_AptMessage.create`
(`qmi/instruments/thorlabs/k10cr1.py`).  Message classes here *contain* the six header bytes. -/

structure K10 where
  table : List Layout        -- `_apt_message_type_table` (a dict: one class per message id)
  hdr : Layout               -- `_AptMessageHeader`
  hdrLen : Nat               -- the literal 6 of `read(nbytes=6)`, `message_size > 6`, `message_size - 6`
  longFlag : Nat             -- the literal 0x80 of `hdr.dest & 0x80` / `_APT_DEVICE_ADDRESS | 0x80`
  devAddr : Nat              -- `_APT_DEVICE_ADDRESS`
  hostAddr : Nat             -- `_APT_HOST_ADDRESS`
  deriving Repr

/-- `_read_message`: (message class, field values) and the receive buffer afterwards; `discard_read()` empties it -/
def k10Read (k : K10) (buf : Bytes) : Except Exc (Layout × List Int) × Bytes :=
  match readN k.hdrLen buf with
  | (none, b) => (.error .timeout, b)
  | (some hb, b1) =>
    match fromBuffer k.hdr hb with
    | .error e => (.error e, b1)
    | .ok hv =>
      let msgId := hv.getD (k.hdr.cellIndex "message_id") 0
      let len := (hv.getD (k.hdr.cellIndex "data_length") 0).toNat
      let dest := (hv.getD (k.hdr.cellIndex "dest") 0).toNat
      -- long message: read the payload; a partial message discards pending data and raises
      let got : Option (Bytes × Bytes) :=
        if dest &&& k.longFlag ≠ 0 then
          match readN len b1 with
          | (none, _) => none
          | (some db, b2) => some (hb ++ db, b2)
        else some (hb, b1)
      match got with
      | none => (.error .instrument, [])
      | some (data, b2) =>
        match k.table.find? (fun l => (l.msgId : Int) == msgId) with
        | none => (.error .instrument, [])
        | some mt =>
          if data.length ≠ mt.size then (.error .instrument, [])
          else match fromBuffer mt data with
            | .error e => (.error e, b2)
            | .ok vs => (.ok (mt, vs), b2)

/-- the clock of `_wait_message`: the `n`-th call of `time.monotonic()` returns `t0 + n * step` -/
structure Clock where
  t0 : Nat
  step : Nat
  deriving Repr

def Clock.at (c : Clock) (n : Nat) : Nat := c.t0 + n * c.step

/-- the `while True` loop of `_wait_message`; `n` = `time.monotonic()` calls so far; returns also the `timeout=` values
handed to `_read_message`.  Every successful read consumes at least the header, so `fuel = buf.length + 1` suffices. -/
def k10WaitLoop (k : K10) (want : String) (clk : Clock) (endT : Nat) :
    Nat → Nat → Bytes → List Nat → Except Exc (Layout × List Int) × Bytes × List Nat
  | 0, _, buf, tmos => (.error .timeout, buf, tmos)
  | fuel + 1, n, buf, tmos =>
    let tmo := endT - clk.at n                -- `max(end_time - time.monotonic(), 0)`
    match k10Read k buf with
    | (.error e, b) => (.error e, b, tmos ++ [tmo])
    | (.ok (mt, vs), b) =>
      if mt.name = want then (.ok (mt, vs), b, tmos ++ [tmo])
      else if clk.at (n + 1) > endT then (.error .timeout, b, tmos ++ [tmo])
      else k10WaitLoop k want clk endT fuel (n + 2) b (tmos ++ [tmo])

/-- `_wait_message(message_type, timeout)` -/
def k10Wait (k : K10) (want : String) (clk : Clock) (timeout : Nat) (buf : Bytes) :
    Except Exc (Layout × List Int) × Bytes × List Nat :=
  k10WaitLoop k want clk (clk.at 0 + timeout) (buf.length + 1) 1 buf []

/-- `_send_message(msg)`: consume one pending message (a timeout is suppressed, any other error propagates and nothing
is written), then write.  Returns (error?, written?, buffer) -/
def k10Send (k : K10) (msg : Bytes) (buf : Bytes) : Option Exc × Option Bytes × Bytes :=
  match k10Read k buf with
  | (.error .timeout, b) => (none, some msg, b)
  | (.error e, b) => (some e, none, b)
  | (.ok _, b) => (none, some msg, b)

/-- the initialiser list of `cls.create(**kwargs)`: header fields filled in, the remaining cells from `kwargs` in field order -/
def k10CreateVals (k : K10) (l : Layout) : List Field → List Int → List Int
  | [], _ => []
  | f :: fs, kw =>
    if f.name = "message_id" then (l.msgId : Int) :: k10CreateVals k l fs kw
    else if f.name = "data_length" ∧ l.size > k.hdrLen then ((l.size - k.hdrLen : Nat) : Int) :: k10CreateVals k l fs kw
    else if f.name = "dest" then
      ((if l.size > k.hdrLen then k.devAddr ||| k.longFlag else k.devAddr : Nat) : Int) :: k10CreateVals k l fs kw
    else if f.name = "source" then (k.hostAddr : Int) :: k10CreateVals k l fs kw
    else if f.name = "_dummy" then List.replicate f.count 0 ++ k10CreateVals k l fs kw    -- never a keyword: stays zero
    else kw.take f.count ++ List.replicate (f.count - kw.length) 0 ++ k10CreateVals k l fs (kw.drop f.count)

/-- `bytes(cls.create(**kwargs))` -/
def k10Create (k : K10) (l : Layout) (kw : List Int) : Bytes := pack l.cells (k10CreateVals k l l.fields kw)

end QmiModel.Apt
