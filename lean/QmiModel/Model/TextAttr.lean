/-!
# Text-format attribute values (qmi/data/dataset.py) — property C17

`write_dataset_to_text` writes every header value as `"# {}: {!r}\n".format(name, value)`;
`read_dataset_from_text` reads it back with `_parse_attribute_value`.

* `pyRepr`   : what `repr()` produces for the value kinds that reach the writer
               (`str`, `int`, `bool`, `float`; since fix 4c93d47 `read_dataset_from_hdf5` hands back
               plain Python numbers, so numpy scalars no longer reach the text writer).
* `parseAttr`: `_parse_attribute_value`, branch by branch; Python exceptions are values.

Strings are lists of code points (`Nat`).  `isPrintable` (CPython's `Py_UNICODE_ISPRINTABLE`
for code points ≥ 0x80) is an abstract parameter `pr`.  Floats are opaque: the model carries
the literal text.

Core Lean only (the driver exe links this file).
-/
namespace QmiModel.C17

abbrev Str := List Nat

/-- Python exception types that can escape the modelled functions -/
inductive PyExc
  | valueError | fileExistsError | fileNotFoundError | notADirectoryError | usageException | keyError | runtimeException
  deriving DecidableEq, Repr

def PyExc.name : PyExc → String
  | .valueError => "ValueError"
  | .fileExistsError => "FileExistsError"
  | .fileNotFoundError => "FileNotFoundError"
  | .notADirectoryError => "NotADirectoryError"
  | .usageException => "QMI_UsageException"
  | .keyError => "KeyError"
  | .runtimeException => "QMI_RuntimeException"

deriving instance DecidableEq for Except

inductive AttrVal
  | str (s : Str)
  | int (i : Int)
  | bool (b : Bool)
  | float (lit : Str)       -- a Python float, carried as its literal
  deriving DecidableEq, Repr

/-! ## decimal integers -/

def isDigit (c : Nat) : Bool := 48 ≤ c && c ≤ 57

/-- decimal digits of `n`, most significant first, as code points (fuel = n+1 is always enough) -/
def natDigitsAux : Nat → Nat → Str → Str
  | 0, _, acc => acc
  | fuel + 1, n, acc =>
    if n < 10 then (48 + n) :: acc else natDigitsAux fuel (n / 10) ((48 + n % 10) :: acc)

def natDigits (n : Nat) : Str := natDigitsAux (n + 1) n []

def parseNat (s : Str) : Nat := s.foldl (fun acc c => acc * 10 + (c - 48)) 0

/-- `repr(i)` for a Python int -/
def reprInt (i : Int) : Str :=
  match i with
  | .ofNat n => natDigits n
  | .negSucc n => 45 :: natDigits (n + 1)

/-! ## `repr(str)` (CPython `unicode_repr`) -/

def hexDigit (n : Nat) : Nat := if n < 10 then 48 + n else 87 + n

/-- fixed-width lower-case hex, most significant first -/
def hexN : Nat → Nat → Str
  | 0, _ => []
  | w + 1, n => hexN w (n / 16) ++ [hexDigit (n % 16)]

/-- the quote `repr` chooses: `"` iff the string has a `'` and no `"` -/
def quoteOf (s : Str) : Nat := if s.contains 39 && !s.contains 34 then 34 else 39

def escChar (pr : Nat → Bool) (q c : Nat) : Str :=
  if c = q || c = 92 then [92, c]
  else if c = 9 then [92, 116]
  else if c = 10 then [92, 110]
  else if c = 13 then [92, 114]
  else if c < 32 || c = 127 then 92 :: 120 :: hexN 2 c
  else if c < 127 then [c]
  else if pr c then [c]
  else if c ≤ 255 then 92 :: 120 :: hexN 2 c
  else if c ≤ 65535 then 92 :: 117 :: hexN 4 c
  else 92 :: 85 :: hexN 8 c

def escBody (pr : Nat → Bool) (q : Nat) (s : Str) : Str := s.flatMap (escChar pr q)

def reprStr (pr : Nat → Bool) (s : Str) : Str :=
  quoteOf s :: (escBody pr (quoteOf s) s ++ [quoteOf s])

def strTrue : Str := [84, 114, 117, 101]
def strFalse : Str := [70, 97, 108, 115, 101]

/-- `repr(value)` as the text writer produces it -/
def pyRepr (pr : Nat → Bool) : AttrVal → Str
  | .str s => reprStr pr s
  | .int i => reprInt i
  | .bool true => strTrue
  | .bool false => strFalse
  | .float l => l

/-! ## `_parse_attribute_value` -/

def isOct (c : Nat) : Bool := 48 ≤ c && c ≤ 55
def isHex (c : Nat) : Bool := (48 ≤ c && c ≤ 57) || (97 ≤ c && c ≤ 102) || (65 ≤ c && c ≤ 70)
def hexVal (c : Nat) : Nat := if c ≤ 57 then c - 48 else if c ≤ 70 then c - 55 else c - 87

/-- the one-character escapes `['"abfnrtv]` of the substitution regex and their replacement -/
def simpleEsc (c : Nat) : Option Nat :=
  if c = 39 then some 39 else if c = 34 then some 34
  else if c = 97 then some 7 else if c = 98 then some 8 else if c = 102 then some 12
  else if c = 110 then some 10 else if c = 114 then some 13 else if c = 116 then some 9
  else if c = 118 then some 11 else none

/-- scanner state of the substitution
`re.sub("\\\\(['\"abfnrtv]|\\\\|[0-7]{1,3}|x[0-9a-fA-F]{2}|u[0-9a-fA-F]{4}|U00(?:0[0-9a-fA-F]|10)[0-9a-fA-F]{4})", replace_esc, s)` -/
inductive EscSt
  | norm
  | bs                                         -- a backslash was read
  | oct (val digits : Nat)                     -- `\` + 1 or 2 octal digits read
  | hex (need val : Nat) (lit : Str)           -- `\x` / `\u` + some hex digits read; `lit` = chars after the backslash
  | uni (pos val : Nat) (lit : Str)            -- `\U` + `pos` of the 8 digits `00(0h|10)hhhh` read
  deriving DecidableEq, Repr

/-- one input character: new state and the characters emitted.  A backslash that starts no
alternative of the regex is copied and scanning resumes right after it; the characters held in
`lit` (`x`/`u`/hex digits) are never backslashes, so they are copied too. -/
def escStep (st : EscSt) (c : Nat) : EscSt × Str :=
  match st with
  | .norm => if c = 92 then (.bs, []) else (.norm, [c])
  | .bs =>
    match simpleEsc c with
    | some v => (.norm, [v])
    | none =>
      if c = 92 then (.norm, [92])
      else if isOct c then (.oct (c - 48) 1, [])
      else if c = 120 then (.hex 2 0 [120], [])
      else if c = 117 then (.hex 4 0 [117], [])
      else if c = 85 then (.uni 0 0 [85], [])
      else (.norm, [92, c])
  | .oct v k =>
    if isOct c then
      (if k = 2 then (.norm, [v * 8 + (c - 48)]) else (.oct (v * 8 + (c - 48)) (k + 1), []))
    else if c = 92 then (.bs, [v]) else (.norm, [v, c])
  | .hex need v lit =>
    if isHex c then
      (if need = 1 then (.norm, [v * 16 + hexVal c]) else (.hex (need - 1) (v * 16 + hexVal c) (lit ++ [c]), []))
    else if c = 92 then (.bs, 92 :: lit) else (.norm, 92 :: lit ++ [c])
  | .uni pos v lit =>
    -- digits 0,1 must be `0`; digits 2,3 are `0h` or `10`; digits 4..7 are any hex digits
    let ok : Option Nat :=
      if pos < 2 then (if c = 48 then some 0 else none)
      else if pos = 2 then (if c = 48 then some 0 else if c = 49 then some 1 else none)
      else if pos = 3 then (if v = 0 then (if isHex c then some (hexVal c) else none) else (if c = 48 then some 16 else none))
      else if isHex c then some (v * 16 + hexVal c) else none
    match ok with
    | some v' => if pos = 7 then (.norm, [v']) else (.uni (pos + 1) v' (lit ++ [c]), [])
    | none => if c = 92 then (.bs, 92 :: lit) else (.norm, 92 :: lit ++ [c])

def escFinish : EscSt → Str
  | .norm => []
  | .bs => [92]
  | .oct v _ => [v]
  | .hex _ _ lit => 92 :: lit
  | .uni _ _ lit => 92 :: lit

def unescapeFrom (st : EscSt) : Str → Str
  | [] => escFinish st
  | c :: rest => (escStep st c).2 ++ unescapeFrom (escStep st c).1 rest

def unescape (s : Str) : Str := unescapeFrom .norm s

/-- `re.sub("\\\\.", "", s)` (`.` does not match a newline) -/
def stripEsc : Str → Str
  | [] => []
  | [c] => [c]
  | c :: d :: rest => if c = 92 && d ≠ 10 then stripEsc rest else c :: stripEsc (d :: rest)

/-- `re.match(r"^[+-]?[0-9]*$", s)`; `$` also matches before one trailing newline -/
def intRegex (s : Str) : Bool :=
  let s1 := if s.getLast? = some 10 then s.dropLast else s
  let s2 := match s1 with
    | c :: r => if c = 43 || c = 45 then r else s1
    | [] => s1
  s2.all isDigit

/-- `int(s)` for a string that matched `intRegex` (`none` = ValueError: no digit at all) -/
def pyInt (s : Str) : Option Int :=
  let s1 := if s.getLast? = some 10 then s.dropLast else s
  match s1 with
  | [] => none
  | c :: r =>
    if c = 45 then (if r.isEmpty then none else some (- (Int.ofNat (parseNat r))))
    else if c = 43 then (if r.isEmpty then none else some (Int.ofNat (parseNat r)))
    else some (Int.ofNat (parseNat s1))

/-! ### `float(s)` on ASCII input: strip, sign, `inf|infinity|nan`, or a decimal literal with
optional `_` between digits, fraction and exponent -/

def isSpace (c : Nat) : Bool := (9 ≤ c && c ≤ 13) || c = 32 || (28 ≤ c && c ≤ 31)

def lower (c : Nat) : Nat := if 65 ≤ c && c ≤ 90 then c + 32 else c

/-- digits with single underscores between digits; returns the rest; `none` if no leading digit -/
def spanDigitsU : Nat → Str → Option Str
  | 0, _ => none
  | fuel + 1, s =>
    match s with
    | c :: r =>
      if isDigit c then
        match r with
        | 95 :: d :: r2 => if isDigit d then spanDigitsU fuel (d :: r2) else some r
        | d :: r2 => if isDigit d then spanDigitsU fuel (d :: r2) else some r
        | [] => some []
      else none
    | [] => none

def expPart (s : Str) : Bool :=
  match s with
  | [] => true
  | c :: r =>
    if c = 101 || c = 69 then
      let r1 := match r with
        | x :: r' => if x = 43 || x = 45 then r' else r
        | [] => r
      match spanDigitsU (r1.length + 1) r1 with
      | some [] => true
      | _ => false
    else false

def isFloatBody (s : Str) : Bool :=
  let n := s.length + 1
  match s with
  | 46 :: r =>            -- ".5"
    (match spanDigitsU n r with
     | some rest => expPart rest
     | none => false)
  | _ =>
    match spanDigitsU n s with
    | none => false
    | some (46 :: r) =>   -- "1." / "1.5"
      (match spanDigitsU n r with
       | some rest => expPart rest
       | none => expPart r)
    | some rest => expPart rest

def strInf : Str := [105, 110, 102]
def strInfinity : Str := [105, 110, 102, 105, 110, 105, 116, 121]
def strNan : Str := [110, 97, 110]

def dropWhileEnd (p : Nat → Bool) (s : Str) : Str := (s.reverse.dropWhile p).reverse

/-- does `float(s)` succeed (ASCII subset of CPython's grammar) -/
def isFloatLit (s : Str) : Bool :=
  let t := dropWhileEnd isSpace (s.dropWhile isSpace)
  let u := match t with
    | c :: r => if c = 43 || c = 45 then r else t
    | [] => t
  let l := u.map lower
  l == strInf || l == strInfinity || l == strNan || isFloatBody u

def parseAttr (s : Str) : Except PyExc AttrVal :=
  if s.contains 39 || s.contains 34 then
    match s with
    | [] => .error .valueError
    | q :: rest =>
      if q ≠ 39 && q ≠ 34 then .error .valueError
      else if rest.getLast? ≠ some q then .error .valueError
      else
        let body := rest.dropLast
        if (stripEsc body).contains q then .error .valueError
        else .ok (.str (unescape body))
  else if intRegex s then
    match pyInt s with
    | some i => .ok (.int i)
    | none => .error .valueError
  else if s = strTrue then .ok (.bool true)
  else if s = strFalse then .ok (.bool false)
  else if isFloatLit s then .ok (.float s)
  else .error .valueError

/-! ### the shape of `float.__repr__` (what the writer emits for a Python float):
`[-]D+.D+`, `[-]D+[.D+]e(+|-)DD+`, `[-]inf`, `nan` -/

def spanDigits : Str → Str × Str
  | [] => ([], [])
  | c :: r => if isDigit c then ((c :: (spanDigits r).1), (spanDigits r).2) else ([], c :: r)

def isExpRepr (s : Str) : Bool :=
  match s with
  | 101 :: sg :: ds => (sg = 43 || sg = 45) && decide (2 ≤ ds.length) && ds.all isDigit
  | _ => false

def isFloatRepr (l : Str) : Bool :=
  let u := match l with
    | 45 :: r => r
    | _ => l
  if u = strInf then true
  else if l = strNan then true
  else
    match spanDigits u with
    | ([], _) => false
    | (_, 46 :: r) =>
      (match spanDigits r with
       | ([], _) => false
       | (_, []) => true
       | (_, t) => isExpRepr t)
    | (_, t) => isExpRepr t

end QmiModel.C17
