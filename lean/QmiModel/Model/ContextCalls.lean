/-!
# Calls through proxies racing `RpcObjectManager.stop()` (property C12, "stale proxies fail promptly")

Mirrors, at lock granularity, `qmi/core/rpc.py`:

* `RpcObjectManager.handle_message` — `with self._stop_lock:` test `_running`, then either raise
  `QMI_MessageDeliveryException` or `self._rpc_thread.push_rpc_request(message)` **inside the same block** (`deliver`);
* `RpcObjectManager.stop` — `with self._stop_lock: self._running = False` (`stopFlag`), then
  `self._rpc_thread.shutdown()` (`shutdown`: `_shutdown_requested = True` + notify), then `join()`;
* `_RpcThread.run` — the request loop pops the head of the queue and answers it (`exec r`); once it has seen the
  shutdown flag it leaves the loop (`see`), `_reject_remaining_requests` pops every remaining request and answers it
  with an error reply (`reject r`), then `release_rpc_object()` and the thread ends (`exit`).

Any number of callers, any interleaving: a trace is a list of actions, `mstep` says which are enabled.
Core Lean only.
-/
namespace QmiModel.Context.Mgr

/-- how a delivered request was answered -/
inductive Ans
  | value        -- executed; reply message with the result
  | refused      -- `handle_message` raised QMI_MessageDeliveryException ("already stopped")
  | errorReply   -- QMI_ErrorReplyMessage from `_reject_remaining_requests`
  deriving DecidableEq, Repr

structure MState where
  running   : Bool                 -- `RpcObjectManager._running` (guarded by `_stop_lock`)
  shutdown  : Bool                 -- `_RpcThread._shutdown_requested`
  seen      : Bool                 -- the worker has left its request loop
  exited    : Bool                 -- the worker thread has ended
  fifo      : List Nat             -- `_RpcThread._fifo`, oldest first
  answered  : List (Nat × Ans)
  delivered : List Nat             -- ghost: every request handed to `handle_message`
  deriving DecidableEq, Repr

def MState.init : MState :=
  { running := true, shutdown := false, seen := false, exited := false, fifo := [], answered := [], delivered := [] }

inductive MAct
  | deliver (r : Nat)
  | stopFlag
  | shutdown
  | see
  | exec (r : Nat)
  | reject (r : Nat)
  | exit
  deriving DecidableEq, Repr

/-- `none` = the action is not enabled in this state -/
def mstep (s : MState) : MAct → Option MState
  | .deliver r =>
    if r ∈ s.delivered then none
    else if s.running then some { s with fifo := s.fifo ++ [r], delivered := s.delivered ++ [r] }
    else some { s with answered := s.answered ++ [(r, .refused)], delivered := s.delivered ++ [r] }
  | .stopFlag => if s.running then some { s with running := false } else none
  | .shutdown => if !s.running && !s.shutdown then some { s with shutdown := true } else none
  | .see => if s.shutdown && !s.seen then some { s with seen := true } else none
  | .exec r =>
    match s.fifo with
    | h :: t => if h = r && !s.seen then some { s with fifo := t, answered := s.answered ++ [(r, .value)] } else none
    | [] => none
  | .reject r =>
    match s.fifo with
    | h :: t => if h = r && s.seen && !s.exited then some { s with fifo := t, answered := s.answered ++ [(r, .errorReply)] } else none
    | [] => none
  | .exit => if s.seen && !s.exited && s.fifo.isEmpty then some { s with exited := true } else none

def mrun (s : MState) : List MAct → Option MState
  | [] => some s
  | a :: as => match mstep s a with
    | some s' => mrun s' as
    | none => none

/-- what the worker still has to do before `join()` returns -/
def MState.rank (s : MState) : Nat :=
  (if s.seen then 0 else 1) + s.fifo.length + (if s.exited then 0 else 1)

/-- the worker's next action once shutdown was requested -/
def workerNext (s : MState) : Option MAct :=
  if s.exited then none
  else if !s.seen then (if s.shutdown then some .see else none)
  else match s.fifo with
    | r :: _ => some (.reject r)
    | [] => some .exit

/-- A variant of `handle_message` that tests `_running` under the lock but pushes after releasing it (two actions):
only used for the illustration `push_outside_lock_loses_request` of why the push must stay inside the block. -/
inductive SAct
  | check (r : Nat)
  | push (r : Nat)
  | act (a : MAct)
  deriving DecidableEq, Repr

def sstep (st : MState × List Nat) : SAct → Option (MState × List Nat)
  | .check r =>
    if r ∈ st.1.delivered then none
    else if st.1.running then some ({ st.1 with delivered := st.1.delivered ++ [r] }, st.2 ++ [r])
    else some ({ st.1 with answered := st.1.answered ++ [(r, .refused)], delivered := st.1.delivered ++ [r] }, st.2)
  | .push r => if r ∈ st.2 then some ({ st.1 with fifo := st.1.fifo ++ [r] }, st.2.filter (· != r)) else none
  | .act (.deliver _) => none
  | .act a => (mstep st.1 a).map (fun s => (s, st.2))

def srun (st : MState × List Nat) : List SAct → Option (MState × List Nat)
  | [] => some st
  | a :: as => match sstep st a with
    | some st' => srun st' as
    | none => none

end QmiModel.Context.Mgr
