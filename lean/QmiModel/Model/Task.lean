/-!
# Model of the task lifecycle (qmi/core/task.py) — property C10

An interleaving transition system `step : State → Act → Option State`
(`none` = the action is not enabled: wrong program counter, or a blocking
primitive whose condition is false) together with `res : State → Act → Res`
(what the action returns / raises when taken in that state).

Actors

* the **task thread** (`_TaskThread.run`): every `with self._state_cond:` region
  is one action; the call of `task.run()`, its end, the two halves of
  `QMI_Task.update_settings` (`if self._settings_fifo:` / `.pop()`) and the end
  of the thread are actions of their own;
* the **runner constructor** (`QMI_TaskRunner.__init__`: `wait_until_initialized`,
  `get_state`) — the runner's RPC methods exist only after it returned normally;
* the **runner operations**, serialised on the runner's RPC worker thread
  (program counter `rpc`): `start` = `get_state` region + `start_task` region,
  `stop` = `stop_task` region + `_stop_requested.set()`, `join` (blocking:
  enabled only when the task thread has ended; `get_state` region, then `_joined = True`), `is_running`, `set_settings`,
  `get_settings`, `get_pending_settings`, `get_status`.
  `__enter__` = `start`.  The compositions `__exit__` (= `stop(); join()`) and `release_rpc_object`
  (= `if not _joined: stop(); join()`, run by the RPC worker when the object is removed from the context; whatever
  `join` raises there is logged and dropped, and the runner is gone afterwards: `phase = removed`) are sequenced by
  the worker's program counter (`compStop c` → `stopMid c` → `compJoin c`).
* `stop_task` called **outside** the RPC worker (`extStopRegion`, `extStopSet`): by `_request_shutdown`
  (`QMI_Thread.shutdown()`, any thread, any time) and by the task itself (`QMI_LoopTask` with policy TERMINATE calls
  `self._task_runner.stop()` from the task thread).  These are not serialised with the runner operations; `extMid`
  counts such calls that are between their region and the flag write.
* `update_settings` = `if fifo` / `fifo.pop()` + assignment / `sig_settings_updated.publish(self.settings)`;
  the task body may also write `self.status` (`setStatus`).

Python exceptions are values of `Res`.  Branches that the code has but that
turn out to be unreachable (failing `assert`s) are modelled as they are and
proved unreachable in `Props/C10.lean`.

Ghost fields (never read by a guard): `runs`, `started`, `stopFirst`,
`runOutcome`, `posted`, `lastPosted`, `adopted`, `published`, `shut`.

Core Lean only (the driver exe links this file).
-/
namespace QmiModel.Task

/-- `_TaskThread.State` -/
inductive TS
  | initial | excInit | ready | running | excRun | completed | stopped
  deriving DecidableEq, Repr

/-- how `task.run()` ended -/
inductive Outcome
  | ret        -- returned
  | stopExc    -- raised `QMI_TaskStopException`
  | otherExc   -- raised any other `BaseException`
  deriving DecidableEq, Repr

/-- program counter of the task thread -/
inductive Pc
  | init      -- constructing the task instance
  | waiting   -- initialised; before / inside the `while state == READY_TO_RUN: wait()` region
  | goRun     -- left that region with RUNNING; about to call `task.run()`
  | inRun     -- inside `task.run()`
  | inUpd     -- inside `update_settings`, between `if self._settings_fifo:` and `.pop()`
  | inPub     -- inside `update_settings`, value adopted, `sig_settings_updated.publish` not yet called
  | ranOut (o : Outcome)  -- `run()` has ended, final region not yet entered
  | exiting   -- after the last region; thread function returning
  | ended     -- thread has ended (`Thread.join` returns)
  deriving DecidableEq, Repr

/-- the runner object: under construction, available, or construction raised -/
inductive Phase
  | ctor0 | ctor1 | up | failed
  | removed     -- `release_rpc_object` has run: the runner was removed from the context
  deriving DecidableEq, Repr

/-- in which composition a `stop` / `join` is running -/
inductive Comp
  | plain      -- `stop()` / `join()` called as such
  | exit       -- inside `__exit__`
  | release    -- inside `release_rpc_object`
  deriving DecidableEq, Repr

/-- program counter of the runner's RPC worker inside a multi-region operation or a composition -/
inductive Rpc
  | idle
  | startMid                -- `start`: between the `get_state` and the `start_task` region
  | compStop (c : Comp)     -- composition entered, its `stop()` not yet begun
  | stopMid (c : Comp)      -- `stop`: between the `stop_task` region and `_stop_requested.set()`
  | compJoin (c : Comp)     -- the composition's `stop()` returned, its `join()` not yet done
  | joinMid (c : Comp)      -- `join`: past `thread.join()` and the `get_state` region, `_joined` not yet written
  deriving DecidableEq, Repr

/-- where the worker continues when a `stop()` returns -/
def Rpc.afterStop : Comp → Rpc
  | .plain => .idle
  | c      => .compJoin c

inductive Res
  | none                      -- internal action, nothing returned
  | unit                      -- returned `None`
  | pending                   -- the operation continues with its next region
  | bool (b : Bool)
  | val (v : Option Nat)
  | usageError                -- `QMI_UsageException`
  | taskRunError              -- `QMI_TaskRunException`
  | taskInitError             -- `QMI_TaskInitException`
  | assertionError
  | indexError
  deriving DecidableEq, Repr

structure State where
  st        : TS
  exc       : Bool            -- `_exception is not None`
  pc        : Pc
  phase     : Phase
  rpc       : Rpc
  stopReq   : Bool            -- `task._stop_requested.is_set()`
  slot      : Option Nat      -- `task._settings_fifo` (deque, maxlen 1)
  settings  : Option Nat      -- `task.settings`
  joined    : Bool            -- `runner._joined`
  status    : Option Nat      -- `task.status`
  extMid    : Nat             -- `stop_task` calls from outside the RPC worker, past their region, flag not yet written
  -- ghost
  runs       : Nat            -- number of invocations of `task.run()`
  started    : Bool           -- a `start_task` region moved READY_TO_RUN → RUNNING
  stopFirst  : Bool           -- a `stop_task` region moved INITIAL/READY_TO_RUN → STOPPED_BEFORE_START
  runOutcome : Option Outcome -- how `run()` ended
  posted     : Bool           -- a value was posted since the last successful update
  lastPosted : Option Nat     -- the most recently posted value
  adopted    : List Nat       -- values the task adopted (`self.settings = fifo.pop()`), oldest first
  published  : List Nat       -- values handed to `sig_settings_updated.publish`, oldest first
  shut       : Bool           -- some `stop_task` region ran outside the RPC worker (shutdown / self-stop)
  deriving DecidableEq, Repr

def init : State :=
  { st := .initial, exc := false, pc := .init, phase := .ctor0, rpc := .idle, stopReq := false,
    slot := none, settings := none, joined := false, status := none, extMid := 0,
    runs := 0, started := false, stopFirst := false, runOutcome := none, posted := false, lastPosted := none,
    adopted := [], published := [], shut := false }

/-- the same with the settings the task class gave itself in `__init__` (`self.settings = …`; `none` if it did not) -/
def initS (v0 : Option Nat) : State := { init with settings := v0 }

inductive Act
  -- task thread
  | initOk | initFail | wake | runEnter | updCheck | updPop | updPub | setStatus (v : Nat)
  | runEnd (o : Outcome) | mark | threadEnd
  -- runner constructor
  | ctorWait | ctorGet
  -- runner operations
  | startCheck | startKick | stopRegion | stopSet | join | joinSet | isRunning
  | setSettings (v : Nat) | getSettings | getPending | getStatus
  | exitBegin | releaseBegin
  -- `stop_task` from outside the RPC worker
  | extStopRegion | extStopSet
  deriving DecidableEq, Repr

/-- runner operations may begin only on an available runner whose worker is idle -/
def State.free (s : State) : Bool := s.phase == .up && s.rpc == .idle

/-- may a `stop()` begin now, and in which composition? -/
def State.stopCtx (s : State) : Option Comp :=
  if s.phase = .up then
    match s.rpc with
    | .idle => some .plain
    | .compStop c => some c
    | _ => none
  else none

/-- may a `join()` begin now, and in which composition? -/
def State.joinCtx (s : State) : Option Comp :=
  if s.phase = .up then
    match s.rpc with
    | .idle => some .plain
    | .compJoin c => some c
    | _ => none
  else none

def step (s : State) : Act → Option State
  -- ---------------------------------------------------------------- task thread
  | .initOk =>
    -- `with cond: assert state in (INITIAL, STOPPED_BEFORE_START); if state == INITIAL: state = READY_TO_RUN`
    if s.pc = .init then
      match s.st with
      | .initial => some { s with st := .ready, pc := .waiting }
      | .stopped => some { s with pc := .waiting }
      | _        => some { s with pc := .exiting }        -- AssertionError kills the thread
    else none
  | .initFail =>
    if s.pc = .init then some { s with exc := true, st := .excInit, pc := .exiting } else none
  | .wake =>
    -- `with cond: while state == READY_TO_RUN: wait(); if state != RUNNING: return`
    if s.pc = .waiting ∧ s.st ≠ .ready then
      if s.st = .running then some { s with pc := .goRun } else some { s with pc := .exiting }
    else none
  | .runEnter =>
    if s.pc = .goRun then some { s with pc := .inRun, runs := s.runs + 1 } else none
  | .updCheck =>
    if s.pc = .inRun then
      if s.slot.isSome then some { s with pc := .inUpd } else some s
    else none
  | .updPop =>
    if s.pc = .inUpd then
      match s.slot with
      | some v => some { s with pc := .inPub, slot := none, settings := some v, posted := false,
                                adopted := s.adopted ++ [v] }
      | none   => some { s with pc := .inRun }              -- IndexError into the task body
    else none
  | .updPub =>
    -- `self.sig_settings_updated.publish(self.settings)`; then `return True`
    if s.pc = .inPub then
      match s.settings with
      | some v => some { s with pc := .inRun, published := s.published ++ [v] }
      | none   => some { s with pc := .inRun }
    else none
  | .setStatus v =>
    if s.pc = .inRun then some { s with status := some v } else none
  | .runEnd o =>
    if s.pc = .inRun then some { s with pc := .ranOut o, runOutcome := some o } else none
  | .mark =>
    match s.pc with
    | .ranOut .otherExc => some { s with exc := true, st := .excRun, pc := .exiting }
    | .ranOut _         => some { s with st := .completed, pc := .exiting }
    | _ => none
  | .threadEnd =>
    if s.pc = .exiting then some { s with pc := .ended } else none
  -- ---------------------------------------------------------------- runner constructor
  | .ctorWait =>
    -- `wait_until_initialized`: `while state == INITIAL: wait()`
    if s.phase = .ctor0 ∧ s.st ≠ .initial then some { s with phase := .ctor1 } else none
  | .ctorGet =>
    if s.phase = .ctor1 then
      if s.st = .ready then some { s with phase := .up } else some { s with phase := .failed }
    else none
  -- ---------------------------------------------------------------- runner operations
  | .startCheck =>
    -- `(state, _) = get_state(); if state != READY_TO_RUN: raise QMI_UsageException`
    if s.free then
      if s.st = .ready then some { s with rpc := .startMid } else some s
    else none
  | .startKick =>
    -- `with cond: while state == INITIAL: wait(); assert state == READY_TO_RUN; state = RUNNING`
    if s.phase = .up ∧ s.rpc = .startMid ∧ s.st ≠ .initial then
      if s.st = .ready then some { s with st := .running, rpc := .idle, started := true }
      else some { s with rpc := .idle }
    else none
  | .stopRegion =>
    match s.stopCtx with
    | none => none
    | some c =>
      match s.st with
      | .excInit => some { s with rpc := Rpc.afterStop c }
      | .initial => some { s with st := .stopped, stopFirst := true, rpc := Rpc.afterStop c }
      | .ready   => some { s with st := .stopped, stopFirst := true, rpc := Rpc.afterStop c }
      | _        => if s.pc = .init then some { s with rpc := .idle }   -- `assert self.task is not None`
                    else some { s with rpc := .stopMid c }
  | .stopSet =>
    match s.rpc with
    | .stopMid c => if s.phase = .up then some { s with stopReq := true, rpc := Rpc.afterStop c } else none
    | _ => none
  | .join =>
    -- `thread.join()` blocks until the thread has ended; then `get_state`, asserts, `_joined = True`
    match s.joinCtx with
    | none => none
    | some c => if s.pc = .ended then some { s with rpc := .joinMid c } else none
  | .joinSet =>
    -- `assert state in (...)`; `self._joined = True`; raise / return (inside `release_rpc_object` whatever is
    -- raised is logged and dropped, and the runner is gone)
    match s.rpc with
    | .joinMid c =>
      if s.phase = .up then
        let ph : Phase := if c = .release then .removed else s.phase
        match s.st with
        | .completed => some { s with joined := true, rpc := .idle, phase := ph }
        | .stopped   => some { s with joined := true, rpc := .idle, phase := ph }
        | .excRun    => some { s with joined := true, rpc := .idle, phase := ph }
        | _          => some { s with rpc := .idle, phase := ph }
      else none
    | _ => none
  | .exitBegin =>
    -- `__exit__`: `self.stop(); self.join()`
    if s.free then some { s with rpc := .compStop .exit } else none
  | .releaseBegin =>
    -- `release_rpc_object`: `if not self._joined: self.stop(); self.join()`
    if s.free then
      if s.joined then some { s with phase := .removed } else some { s with rpc := .compStop .release }
    else none
  | .isRunning => if s.free then some s else none
  | .setSettings v =>
    if s.free then some { s with slot := some v, posted := true, lastPosted := some v } else none
  | .getSettings => if s.free then some s else none
  | .getPending  => if s.free then some s else none
  | .getStatus   => if s.free then some s else none
  -- ---------------------------------------------------------------- stop_task outside the RPC worker
  | .extStopRegion =>
    match s.st with
    | .excInit => some { s with shut := true }
    | .initial => some { s with st := .stopped, stopFirst := true, shut := true }
    | .ready   => some { s with st := .stopped, stopFirst := true, shut := true }
    | _        => if s.pc = .init then some { s with shut := true }      -- `assert self.task is not None`
                  else some { s with extMid := s.extMid + 1, shut := true }
  | .extStopSet =>
    if 0 < s.extMid then some { s with stopReq := true, extMid := s.extMid - 1 } else none

/-- what the action returns / raises when taken in state `s` (meaningful when `step s a ≠ none`) -/
def res (s : State) : Act → Res
  | .initOk     => match s.st with | .initial => .none | .stopped => .none | _ => .assertionError
  | .initFail   => .none
  | .wake       => .none
  | .runEnter   => .none
  | .updCheck   => .bool s.slot.isSome
  | .updPop     => match s.slot with | some _ => .bool true | none => .indexError
  | .updPub     => .val s.settings
  | .setStatus _ => .none
  | .runEnd _   => .none
  | .mark       => .none
  | .threadEnd  => .none
  | .ctorWait   => .pending
  | .ctorGet    => match s.st with | .ready => .unit | .excInit => .taskInitError | _ => .assertionError
  | .startCheck => if s.st = .ready then .pending else .usageError
  | .startKick  => if s.st = .ready then .unit else .assertionError
  | .stopRegion =>
    match s.st with
    | .excInit | .initial | .ready => .unit
    | _ => if s.pc = .init then .assertionError else .pending
  | .stopSet    => .unit
  | .join       =>
    match s.st with
    | .completed => .unit | .stopped => .unit | .excRun => .taskRunError | _ => .assertionError
  | .joinSet    => .none
  | .isRunning  => .bool (s.st == .running)
  | .setSettings _ => .unit
  | .getSettings => .val s.settings
  | .getPending  => .val s.slot
  | .getStatus   => .val s.status
  | .exitBegin   => .none
  | .releaseBegin => .none
  | .extStopRegion =>
    match s.st with
    | .excInit | .initial | .ready => .unit
    | _ => if s.pc = .init then .assertionError else .pending
  | .extStopSet => .unit

/-- run a whole history -/
def exec (s : State) : List Act → Option State
  | []      => some s
  | a :: as => match step s a with
               | some s' => exec s' as
               | none    => none

/-- states reachable from an initial state (any initial settings) by some finite interleaving -/
def Reachable (s : State) : Prop := ∃ v0 tr, exec (initS v0) tr = some s

/-- is some action of the task thread enabled that does not depend on the task body?
(used by the driver to judge a reported deadlock) -/
def threadCanMove (s : State) : Bool :=
  match s.pc with
  | .init => true
  | .waiting => s.st != .ready
  | .goRun => true
  | .inRun => false          -- depends on the task body (it may be blocked until a stop request)
  | .inUpd => true
  | .inPub => true
  | .ranOut _ => true
  | .exiting => true
  | .ended => false

end QmiModel.Task
