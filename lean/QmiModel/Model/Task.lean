/-!
# Model of the task lifecycle (qmi/core/task.py) — property C10

An interleaving transition system `step : State → Act → Option State`
(`none` = the action is not enabled: wrong program counter, or a blocking
primitive whose condition is false) together with `res : State → Act → Res`
(what the action returns / raises when taken in that state).

Actors

* the **task thread** (`_TaskThread.run`): every `with self._state_cond:` region
  is one action; the call of `task.run()`, its end, the two halves of
  `QMI_Task.update_settings` (`if self._settings_fifo:` / `.pop()`) and the end
  of the thread are actions of their own;
* the **runner constructor** (`QMI_TaskRunner.__init__`: `wait_until_initialized`,
  `get_state`) — the runner's RPC methods exist only after it returned normally;
* the **runner operations**, serialised on the runner's RPC worker thread
  (program counter `rpc`): `start` = `get_state` region + `start_task` region,
  `stop` = `stop_task` region + `_stop_requested.set()`, `join` (blocking:
  enabled only when the task thread has ended), `is_running`, `set_settings`,
  `get_settings`, `get_pending_settings`.
  `__enter__` = `start`; `__exit__` and `release_rpc_object` = `stop` ; `join`.

Python exceptions are values of `Res`.  Branches that the code has but that
turn out to be unreachable (failing `assert`s) are modelled as they are and
proved unreachable in `Props/C10.lean`.

Ghost fields (never read by a guard): `runs`, `started`, `stopFirst`,
`runOutcome`, `posted`, `lastPosted`.

Core Lean only (the driver exe links this file).
-/
namespace QmiModel.Task

/-- `_TaskThread.State` -/
inductive TS
  | initial | excInit | ready | running | excRun | completed | stopped
  deriving DecidableEq, Repr

/-- how `task.run()` ended -/
inductive Outcome
  | ret        -- returned
  | stopExc    -- raised `QMI_TaskStopException`
  | otherExc   -- raised any other `BaseException`
  deriving DecidableEq, Repr

/-- program counter of the task thread -/
inductive Pc
  | init      -- constructing the task instance
  | waiting   -- initialised; before / inside the `while state == READY_TO_RUN: wait()` region
  | goRun     -- left that region with RUNNING; about to call `task.run()`
  | inRun     -- inside `task.run()`
  | inUpd     -- inside `update_settings`, between `if self._settings_fifo:` and `.pop()`
  | ranOut (o : Outcome)  -- `run()` has ended, final region not yet entered
  | exiting   -- after the last region; thread function returning
  | ended     -- thread has ended (`Thread.join` returns)
  deriving DecidableEq, Repr

/-- the runner object: under construction, available, or construction raised -/
inductive Phase
  | ctor0 | ctor1 | up | failed
  deriving DecidableEq, Repr

/-- program counter of the runner's RPC worker inside a multi-region operation -/
inductive Rpc
  | idle | startMid | stopMid
  deriving DecidableEq, Repr

inductive Res
  | none                      -- internal action, nothing returned
  | unit                      -- returned `None`
  | pending                   -- the operation continues with its next region
  | bool (b : Bool)
  | val (v : Option Nat)
  | usageError                -- `QMI_UsageException`
  | taskRunError              -- `QMI_TaskRunException`
  | taskInitError             -- `QMI_TaskInitException`
  | assertionError
  | indexError
  deriving DecidableEq, Repr

structure State where
  st        : TS
  exc       : Bool            -- `_exception is not None`
  pc        : Pc
  phase     : Phase
  rpc       : Rpc
  stopReq   : Bool            -- `task._stop_requested.is_set()`
  slot      : Option Nat      -- `task._settings_fifo` (deque, maxlen 1)
  settings  : Option Nat      -- `task.settings`
  joined    : Bool            -- `runner._joined`
  -- ghost
  runs       : Nat            -- number of invocations of `task.run()`
  started    : Bool           -- a `start_task` region moved READY_TO_RUN → RUNNING
  stopFirst  : Bool           -- a `stop_task` region moved INITIAL/READY_TO_RUN → STOPPED_BEFORE_START
  runOutcome : Option Outcome -- how `run()` ended
  posted     : Bool           -- a value was posted since the last successful update
  lastPosted : Option Nat     -- the most recently posted value
  deriving DecidableEq, Repr

def init : State :=
  { st := .initial, exc := false, pc := .init, phase := .ctor0, rpc := .idle, stopReq := false,
    slot := none, settings := none, joined := false,
    runs := 0, started := false, stopFirst := false, runOutcome := none, posted := false, lastPosted := none }

inductive Act
  -- task thread
  | initOk | initFail | wake | runEnter | updCheck | updPop | runEnd (o : Outcome) | mark | threadEnd
  -- runner constructor
  | ctorWait | ctorGet
  -- runner operations
  | startCheck | startKick | stopRegion | stopSet | join | isRunning
  | setSettings (v : Nat) | getSettings | getPending
  deriving DecidableEq, Repr

/-- runner operations may begin only on an available runner whose worker is idle -/
def State.free (s : State) : Bool := s.phase == .up && s.rpc == .idle

def step (s : State) : Act → Option State
  -- ---------------------------------------------------------------- task thread
  | .initOk =>
    -- `with cond: assert state in (INITIAL, STOPPED_BEFORE_START); if state == INITIAL: state = READY_TO_RUN`
    if s.pc = .init then
      match s.st with
      | .initial => some { s with st := .ready, pc := .waiting }
      | .stopped => some { s with pc := .waiting }
      | _        => some { s with pc := .exiting }        -- AssertionError kills the thread
    else none
  | .initFail =>
    if s.pc = .init then some { s with exc := true, st := .excInit, pc := .exiting } else none
  | .wake =>
    -- `with cond: while state == READY_TO_RUN: wait(); if state != RUNNING: return`
    if s.pc = .waiting ∧ s.st ≠ .ready then
      if s.st = .running then some { s with pc := .goRun } else some { s with pc := .exiting }
    else none
  | .runEnter =>
    if s.pc = .goRun then some { s with pc := .inRun, runs := s.runs + 1 } else none
  | .updCheck =>
    if s.pc = .inRun then
      if s.slot.isSome then some { s with pc := .inUpd } else some s
    else none
  | .updPop =>
    if s.pc = .inUpd then
      match s.slot with
      | some v => some { s with pc := .inRun, slot := none, settings := some v, posted := false }
      | none   => some { s with pc := .inRun }              -- IndexError into the task body
    else none
  | .runEnd o =>
    if s.pc = .inRun then some { s with pc := .ranOut o, runOutcome := some o } else none
  | .mark =>
    match s.pc with
    | .ranOut .otherExc => some { s with exc := true, st := .excRun, pc := .exiting }
    | .ranOut _         => some { s with st := .completed, pc := .exiting }
    | _ => none
  | .threadEnd =>
    if s.pc = .exiting then some { s with pc := .ended } else none
  -- ---------------------------------------------------------------- runner constructor
  | .ctorWait =>
    -- `wait_until_initialized`: `while state == INITIAL: wait()`
    if s.phase = .ctor0 ∧ s.st ≠ .initial then some { s with phase := .ctor1 } else none
  | .ctorGet =>
    if s.phase = .ctor1 then
      if s.st = .ready then some { s with phase := .up } else some { s with phase := .failed }
    else none
  -- ---------------------------------------------------------------- runner operations
  | .startCheck =>
    -- `(state, _) = get_state(); if state != READY_TO_RUN: raise QMI_UsageException`
    if s.free then
      if s.st = .ready then some { s with rpc := .startMid } else some s
    else none
  | .startKick =>
    -- `with cond: while state == INITIAL: wait(); assert state == READY_TO_RUN; state = RUNNING`
    if s.phase = .up ∧ s.rpc = .startMid ∧ s.st ≠ .initial then
      if s.st = .ready then some { s with st := .running, rpc := .idle, started := true }
      else some { s with rpc := .idle }
    else none
  | .stopRegion =>
    if s.free then
      match s.st with
      | .excInit => some s
      | .initial => some { s with st := .stopped, stopFirst := true }
      | .ready   => some { s with st := .stopped, stopFirst := true }
      | _        => if s.pc = .init then some s               -- `assert self.task is not None`
                    else some { s with rpc := .stopMid }
    else none
  | .stopSet =>
    if s.phase = .up ∧ s.rpc = .stopMid then some { s with stopReq := true, rpc := .idle } else none
  | .join =>
    -- `thread.join()` blocks until the thread has ended; then `get_state`, asserts, `_joined = True`
    if s.free ∧ s.pc = .ended then
      match s.st with
      | .completed => some { s with joined := true }
      | .stopped   => some { s with joined := true }
      | .excRun    => some { s with joined := true }
      | _          => some s
    else none
  | .isRunning => if s.free then some s else none
  | .setSettings v =>
    if s.free then some { s with slot := some v, posted := true, lastPosted := some v } else none
  | .getSettings => if s.free then some s else none
  | .getPending  => if s.free then some s else none

/-- what the action returns / raises when taken in state `s` (meaningful when `step s a ≠ none`) -/
def res (s : State) : Act → Res
  | .initOk     => match s.st with | .initial => .none | .stopped => .none | _ => .assertionError
  | .initFail   => .none
  | .wake       => .none
  | .runEnter   => .none
  | .updCheck   => .bool s.slot.isSome
  | .updPop     => match s.slot with | some _ => .bool true | none => .indexError
  | .runEnd _   => .none
  | .mark       => .none
  | .threadEnd  => .none
  | .ctorWait   => .pending
  | .ctorGet    => match s.st with | .ready => .unit | .excInit => .taskInitError | _ => .assertionError
  | .startCheck => if s.st = .ready then .pending else .usageError
  | .startKick  => if s.st = .ready then .unit else .assertionError
  | .stopRegion =>
    match s.st with
    | .excInit => .unit | .initial => .unit | .ready => .unit
    | _ => if s.pc = .init then .assertionError else .pending
  | .stopSet    => .unit
  | .join       =>
    match s.st with
    | .completed => .unit | .stopped => .unit | .excRun => .taskRunError | _ => .assertionError
  | .isRunning  => .bool (s.st == .running)
  | .setSettings _ => .unit
  | .getSettings => .val s.settings
  | .getPending  => .val s.slot

/-- run a whole history -/
def exec (s : State) : List Act → Option State
  | []      => some s
  | a :: as => match step s a with
               | some s' => exec s' as
               | none    => none

/-- states reachable from `init` by some finite interleaving -/
def Reachable (s : State) : Prop := ∃ tr, exec init tr = some s

/-- is some action of the task thread enabled that does not depend on the task body?
(used by the driver to judge a reported deadlock) -/
def threadCanMove (s : State) : Bool :=
  match s.pc with
  | .init => true
  | .waiting => s.st != .ready
  | .goRun => true
  | .inRun => false          -- depends on the task body (it may be blocked until a stop request)
  | .inUpd => true
  | .ranOut _ => true
  | .exiting => true
  | .ended => false

end QmiModel.Task
