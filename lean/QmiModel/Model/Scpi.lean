/-!
# Model of `ScpiProtocol` (qmi/core/scpi_protocol.py) — property C15, part A

Mirrors `write`, `write_raw`, `ask`, `read_binary_data` statement by statement.
Python exceptions are values (`PyExc`).  The transport underneath is the
*contract* of `QMI_Transport` (qmi/core/transport.py docstrings; the concrete
transports are property C13):

* `write(b)`            records `b`;
* `read(n, timeout)`    returns exactly `n` bytes, or raises `QMI_TimeoutException`
                        leaving the buffer untouched;
* `read_until(t, …)`    returns the bytes up to and including the first occurrence of `t`,
                        or raises `QMI_TimeoutException` leaving the buffer untouched;
                        a *sloppy* transport (flag) instead hands out whatever it holds when no
                        terminator is found — this is the situation the `endswith` test in `ask` exists for;
* `discard_read()`      drops everything buffered.

Every transport call is logged (with the time-out value that was passed), so the
driver output pins down the exact call sequence of the implementation.

Core Lean only (the driver exe links this file).
-/
namespace QmiModel.Scpi

abbrev Bytes := List UInt8

inductive PyExc
  | instrument      -- QMI_InstrumentException
  | timeout         -- QMI_TimeoutException (raised by the transport)
  | unicodeEncode   -- UnicodeEncodeError  (`str.encode("ascii")`)
  | unicodeDecode   -- UnicodeDecodeError  (`bytes.decode("ascii")`)
  | indexError      -- IndexError (`header[0]` on an empty reply; only a transport that breaks its contract gets there)
  deriving DecidableEq, Repr

/-- one call made on the transport -/
inductive Call
  | write (b : Bytes)
  | read (n : Nat) (timeout : Option Nat)
  | readUntil (term : Bytes) (timeout : Option Nat)
  | discard
  deriving DecidableEq, Repr

/-- the transport: bytes the device has sent and that are not consumed yet (`rx`), the bytes the
device will send once it sees the next write (`pending` — a reply follows the command), and the call log -/
structure Tr where
  rx      : Bytes
  pending : Bytes := []
  sloppy  : Bool := false
  message : Bool := false   -- a message-based transport (USBTMC, GPIB, VXI-11 without term char): `read_until` ignores the
                            -- terminator and hands out the whole device message, terminators inside it included
  log    : List Call := []
  deriving Repr

/-- concatenation of everything written, in order (what the device sees) -/
def written : List Call → Bytes
  | [] => []
  | .write b :: cs => b ++ written cs
  | _ :: cs => written cs

def Tr.write (t : Tr) (b : Bytes) : Tr :=
  { t with rx := t.rx ++ t.pending, pending := [], log := t.log ++ [.write b] }

def Tr.discard (t : Tr) : Tr := { t with rx := [], log := t.log ++ [.discard] }

/-- `QMI_Transport.read(n, timeout)` -/
def Tr.read (t : Tr) (n : Nat) (to : Option Nat) : Tr × Except PyExc Bytes :=
  let t' := { t with log := t.log ++ [.read n to] }
  if n ≤ t.rx.length then ({ t' with rx := t.rx.drop n }, .ok (t.rx.take n))
  else (t', .error .timeout)

/-- is `p` a prefix of `l` (as a `Bool`, structural) -/
def isPrefix : Bytes → Bytes → Bool
  | [], _ => true
  | _ :: _, [] => false
  | a :: p, b :: l => a == b && isPrefix p l

/-- split `l` after the first occurrence of `term`: `(prefix including term, rest)` -/
def splitAfter (term : Bytes) : Bytes → Option (Bytes × Bytes)
  | [] => if term.isEmpty then some ([], []) else none
  | b :: l =>
    if isPrefix term (b :: l) then some (term, (b :: l).drop term.length)
    else match splitAfter term l with
      | some (p, r) => some (b :: p, r)
      | none => none

/-- `QMI_Transport.read_until(term, timeout)` -/
def Tr.readUntil (t : Tr) (term : Bytes) (to : Option Nat) : Tr × Except PyExc Bytes :=
  let t' := { t with log := t.log ++ [.readUntil term to] }
  if t.message then
    if t.rx.isEmpty then (t', .error .timeout) else ({ t' with rx := [] }, .ok t.rx)
  else
  match splitAfter term t.rx with
  | some (p, r) => ({ t' with rx := r }, .ok p)
  | none =>
    if t.sloppy && !t.rx.isEmpty then ({ t' with rx := [] }, .ok t.rx)
    else (t', .error .timeout)

/-- configuration fixed by the constructor -/
structure Cfg where
  cmdTerm  : Bytes
  respTerm : Bytes
  defaultTimeout : Option Nat := none
  deriving Repr

/-- `s.encode("ascii")` on a list of code points -/
def encodeAscii (s : List Nat) : Except PyExc Bytes :=
  if s.all (· < 128) then .ok (s.map UInt8.ofNat) else .error .unicodeEncode

/-- `b.decode("ascii")` -/
def decodeAscii (b : Bytes) : Except PyExc (List Nat) :=
  if b.all (fun x => x.toNat < 128) then .ok (b.map UInt8.toNat) else .error .unicodeDecode

/-- `ScpiProtocol.__init__`: both terminators are encoded as ASCII -/
def mkCfg (cmdTerm respTerm : List Nat) (dflt : Option Nat) : Except PyExc Cfg :=
  match encodeAscii cmdTerm with
  | .error e => .error e
  | .ok c =>
    match encodeAscii respTerm with
    | .error e => .error e
    | .ok r => .ok { cmdTerm := c, respTerm := r, defaultTimeout := dflt }

/-- `ScpiProtocol.write(cmd)` -/
def write (cfg : Cfg) (t : Tr) (cmd : List Nat) : Tr × Except PyExc Unit :=
  match encodeAscii cmd with
  | .error e => (t, .error e)
  | .ok b => (t.write (b ++ cfg.cmdTerm), .ok ())

/-- `ScpiProtocol.write_raw(cmd)` -/
def writeRaw (cfg : Cfg) (t : Tr) (cmd : Bytes) : Tr := t.write (cmd ++ cfg.cmdTerm)

/-- `bytes.endswith` -/
def endsWith (b suffix : Bytes) : Bool :=
  suffix.length ≤ b.length && b.drop (b.length - suffix.length) == suffix

/-- `response[:-len(term)]` — note Python: `x[:-0]` is `x[:0]`, the empty string -/
def stripTail (b : Bytes) (k : Nat) : Bytes :=
  if k = 0 then [] else b.take (b.length - k)

/-- what `ask` does with the bytes `read_until` handed back -/
def askPost (cfg : Cfg) (resp : Bytes) : Except PyExc (List Nat) :=
  if !endsWith resp cfg.respTerm then .error .instrument
  else decodeAscii (stripTail resp cfg.respTerm.length)

/-- `timeout if timeout is not None else default` -/
def effTimeout (cfg : Cfg) (to : Option Nat) : Option Nat :=
  match to with
  | none => cfg.defaultTimeout
  | some x => some x

/-- `ScpiProtocol.ask(cmd, timeout, discard)` -/
def ask (cfg : Cfg) (t : Tr) (cmd : List Nat) (to : Option Nat) (discard : Bool) : Tr × Except PyExc (List Nat) :=
  let to := effTimeout cfg to
  let t := if discard then t.discard else t
  match write cfg t cmd with
  | (t, .error e) => (t, .error e)
  | (t, .ok ()) =>
    match t.readUntil cfg.respTerm to with
    | (t, .error e) => (t, .error e)
    | (t, .ok resp) => (t, askPost cfg resp)

def isDigit (b : UInt8) : Bool := 48 ≤ b.toNat && b.toNat ≤ 57

/-- `bytes.isdigit()`: non-empty and all ASCII digits -/
def allDigits (b : Bytes) : Bool := !b.isEmpty && b.all isDigit

/-- `int(b)` for `b` that passed `isdigit()` -/
def parseDec (b : Bytes) : Nat := b.foldl (fun acc d => acc * 10 + (d.toNat - 48)) 0

/-- `ScpiProtocol.read_binary_data(read_terminator_flag, timeout)` -/
def readBinary (cfg : Cfg) (t : Tr) (flag : Bool) (to : Option Nat) : Tr × Except PyExc Bytes :=
  let to := effTimeout cfg to
  match t.read 2 to with
  | (t, .error e) => (t, .error e)
  | (t, .ok header) =>
    match header with
    | [] => (t, .error .indexError)                          -- header[0] on b""
    | h0 :: h1 =>
      if h0 != 35 then (t, .error .instrument)              -- header[0] != ord("#")
      else if !allDigits h1 then (t, .error .instrument)    -- not header[1:].isdigit()
      else
        let numDigits := parseDec h1                          -- int(header[1:])
        if numDigits = 0 then (t, .error .instrument)
        else
          match t.read numDigits to with
          | (t, .error e) => (t, .error e)
          | (t, .ok header2) =>
            if !allDigits header2 then (t, .error .instrument)
            else
              let numBytes := parseDec header2
              match t.read numBytes to with
              | (t, .error e) => (t, .error e)
              | (t, .ok data) =>
                if flag then
                  match t.read cfg.respTerm.length to with
                  | (t, .error e) => (t, .error e)
                  | (t, .ok tail) =>
                    if tail != cfg.respTerm then (t, .error .instrument) else (t, .ok data)
                else (t, .ok data)

/-! ### The device side, written from IEEE 488.2 §8.7.9 (definite length arbitrary block response data):
`#`, one non-zero digit `k`, `k` decimal digits giving the byte count, the bytes. -/

/-- little-endian decimal digits of `n` (at least one) -/
def digitsLE (n : Nat) : List UInt8 :=
  if h : n < 10 then [UInt8.ofNat (48 + n)]
  else UInt8.ofNat (48 + n % 10) :: digitsLE (n / 10)
termination_by n
decreasing_by omega

/-- decimal representation of `n` -/
def decimal (n : Nat) : Bytes := (digitsLE n).reverse

/-- canonical block header for `n` data bytes -/
def blockHeader (n : Nat) : Bytes :=
  35 :: UInt8.ofNat (48 + (decimal n).length) :: decimal n

/-- device encoder: the block followed by the response terminator -/
def encodeBlock (term d : Bytes) : Bytes := blockHeader d.length ++ d ++ term

end QmiModel.Scpi
