import QmiModel.Model.TextAttr
/-!
# Matrix layout of the text format (qmi/data/dataset.py) — property C17

`write_dataset_to_text` reshapes the N-dimensional array to `(prod shape[:-1], ncol)` rows and
prepends *special columns*: one index column per axis (only when `ndim > 2`) and one scale
column per axis that has a scale, each built as
`np.tile(np.repeat(values, inner_rows), outer_rows)`.
`read_dataset_from_text` drops the special columns, reshapes, re-computes every index column and
recovers a scale as `rawdata[0:n*inner_rows:inner_rows, col]`.

`dims` is `shape[:-1]` (the first N-1 axes); data are flat, row-major (C order), which is what
`reshape` preserves.  `α` is the cell type; `ι : Nat → α` embeds the index numbers
(`np.arange(n)` converted by `column_stack`).  Core Lean only.
-/
namespace QmiModel.C17

def prod (l : List Nat) : Nat := l.foldr (· * ·) 1

/-- `np.repeat(xs, k)` -/
def repeatEach (k : Nat) (xs : List α) : List α := xs.flatMap (List.replicate k)

/-- `np.tile(xs, m)` -/
def tile (m : Nat) (xs : List α) : List α := (List.replicate m xs).flatten

/-- `np.tile(np.repeat(vals, inner_rows), outer_rows)` for axis `ax` -/
def axisColumn (dims : List Nat) (ax : Nat) (vals : List α) : List α :=
  tile (prod (dims.take ax)) (repeatEach (prod (dims.drop (ax + 1))) vals)

/-- tag of a special column (the label `axis{N}_index` / `axis{N}_scale`) -/
inductive ColTag
  | index (ax : Nat)
  | scale (ax : Nat)
  deriving DecidableEq, Repr

structure Layout (α : Type) where
  dims   : List Nat                    -- shape[:-1]
  ncol   : Nat                         -- shape[-1]
  data   : List α                      -- flat, row-major, length = prod dims * ncol
  scales : List (Option (List α))      -- one per axis in dims
  deriving Repr

structure TextMatrix (α : Type) where
  tags : List ColTag                   -- labels of the special columns, in column order
  rows : List (List α)
  deriving Repr

/-- the special columns, in the order the writer creates them -/
def specialColumns (ι : Nat → α) (d : Layout α) : List (ColTag × List α) :=
  let idx := if d.dims.length ≥ 2 then
      (List.range d.dims.length).map (fun ax => (ColTag.index ax, axisColumn d.dims ax ((List.range (d.dims.getD ax 0)).map ι)))
    else []
  let sc := (List.range d.dims.length).filterMap (fun ax =>
      match d.scales.getD ax none with
      | some s => some (ColTag.scale ax, axisColumn d.dims ax s)
      | none => none)
  idx ++ sc

/-- row `r` of the matrix: special cells, then the `ncol` data cells of that row -/
def matrixRow (cols : List (List α)) (ncol : Nat) (data : List α) (r : Nat) : List α :=
  cols.filterMap (fun c => c[r]?) ++ (data.drop (r * ncol)).take ncol

/-- `write_dataset_to_text`: the matrix handed to `np.savetxt` plus the special column labels -/
def writeLayout (ι : Nat → α) (d : Layout α) : TextMatrix α :=
  let sp := specialColumns ι d
  { tags := sp.map (·.1),
    rows := (List.range (prod d.dims)).map (matrixRow (sp.map (·.2)) d.ncol d.data) }

/-- column `j` of a row list (`rawdata[:, j]`) -/
def column (rows : List (List α)) (j : Nat) : List α := rows.filterMap (fun r => r[j]?)

/-- every `k`-th element starting at 0 (`fuel` bounds the number of elements taken) -/
def takeEvery (k : Nat) : Nat → List α → List α
  | 0, _ => []
  | fuel + 1, l =>
    match l with
    | [] => []
    | x :: _ => x :: takeEvery k fuel (l.drop k)

/-- `l[0:stop:step]` for `step ≥ 1` -/
def pySlice (stop step : Nat) (l : List α) : List α :=
  takeEvery step (l.take stop).length (l.take stop)

inductive LayoutErr
  | rows | cols | index (ax : Nat) | scale (ax : Nat)
  deriving DecidableEq, Repr

/-- scan the special columns (reader loop `for col in range(num_special_columns)`) -/
def readSpecial [DecidableEq α] (ι : Nat → α) (dims : List Nat) (rows : List (List α)) :
    List ColTag → Nat → List (Option (List α)) → Except LayoutErr (List (Option (List α)))
  | [], _, scales => .ok scales
  | .index ax :: tags, col, scales =>
    if column rows col = axisColumn dims ax ((List.range (dims.getD ax 0)).map ι) then
      readSpecial ι dims rows tags (col + 1) scales
    else .error (.index ax)
  | .scale ax :: tags, col, scales =>
    let inner := prod (dims.drop (ax + 1))
    let s := pySlice (dims.getD ax 0 * inner) inner (column rows col)
    if column rows col = axisColumn dims ax s then
      readSpecial ι dims rows tags (col + 1) (scales.set ax (some s))
    else .error (.scale ax)

/-- `read_dataset_from_text` after the header: shape from the header attributes, matrix from `np.loadtxt` -/
def readLayout [DecidableEq α] (ι : Nat → α) (dims : List Nat) (ncol : Nat) (m : TextMatrix α) :
    Except LayoutErr (Layout α) :=
  if m.rows.length ≠ prod dims then .error .rows
  else
    let total := (m.rows.headD []).length
    if total < ncol then .error .cols
    else
      let nsp := total - ncol
      let data := (m.rows.map (List.drop nsp)).flatten
      match readSpecial ι dims m.rows (m.tags.take nsp) 0 (List.replicate dims.length none) with
      | .error e => .error e
      | .ok scales => .ok { dims := dims, ncol := ncol, data := data, scales := scales }


/-! ### the text writer's exactness check (fix 37955b4)

Every number of a text-format dataset travels as a float64.  `write_dataset_to_text` refuses integer data
(and integer axis scales) with a value `v` such that `abs v > 2**53` and `int(float(v)) != v`.
`toF64 n` models `int(float(n))` for a natural number below 2^1024: round to 53 significant bits, ties to even. -/

def toF64 (n : Nat) : Nat :=
  let b := Nat.log2 n + 1                  -- bit length (for n > 0)
  if b ≤ 53 then n else
  let k := b - 53
  let q := n / 2 ^ k
  let r := n % 2 ^ k
  let half := 2 ^ (k - 1)
  (if r > half ∨ (r = half ∧ q % 2 = 1) then q + 1 else q) * 2 ^ k

/-- the writer's test on one value (magnitude `n`; the test is symmetric in the sign) -/
def refusedInt (n : Nat) : Bool := decide (n > 2 ^ 53) && toF64 n != n

/-- `write_dataset_to_text` raises ValueError for this integer array (magnitudes) -/
def refusesInts (vals : List Nat) : Bool := vals.any refusedInt

end QmiModel.C17
