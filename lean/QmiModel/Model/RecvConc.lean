import QmiModel.Model.RecvQueue
/-!
# `QMI_SignalReceiver` at statement / lock granularity, any number of threads — property C09

`Gen/RecvProg.lean` is regenerated on every run from the AST of `qmi/core/pubsub.py` (`_receive_signal`,
`get_next_signal`, `discard_all`, `get_queue_length`, `has_signal_ready`, `_wait_for_condition`) and of
`qmi/core/task.py` (`_TaskThread.wait_for_condition`) by `harness/tr_recvprog.py`: every function body as a list of
instructions (a `with self._queue_cond:` block becomes `acquire … release`).

Threads are numbered by `Nat` (unbounded: any number of deliverers and readers).  A thread is idle or inside one call;
`Act.call i c` begins a call, `Act.step i` lets thread `i` execute its next statement (a blocked `acquire`, a parked
reader that is neither notified nor timed out, and an idle thread leave the state unchanged), `Act.stop i` sets the stop
flag of task thread `i` (monotone), `Act.expire i` lets the timer of a `timeout > 0` wait run out, `Act.wake i` is any
other notification of a parked thread (`stop_task`'s `notify_all`, a spurious wake-up).  A schedule is any `List Act`.

`return` / `raise` inside the `with` block release the lock (`finish`).  The shared state is the ghost-instrumented
sequential receiver `RecvQueue.Ghost`; `lin` records the order in which calls take effect (their linearisation).

Core Lean only.
-/
namespace QmiModel.RecvConc
open QmiModel.RecvQueue

/-- statements of `_receive_signal` -/
inductive RI
  | acquire         -- enter `with self._queue_cond:`
  | mkSig           -- `sig = ReceivedSignal(…, receiver_seqnr=self._receiver_seqnr)`: reads the counter
  | incSeq          -- `self._receiver_seqnr += 1`
  | takeSeq         -- an atomic fetch-and-increment of the counter into the local signal (`next(itertools.count)`)
  | dropIfFullNew   -- `if len(self._queue) == self._max_queue_length: if self._discard_policy == DISCARD_NEW: return`
  | append          -- `self._queue.append(sig)` (bounded deque)
  | notifyAll       -- `self._queue_cond.notify_all()`
  | release         -- leave the `with` block
  deriving DecidableEq, Repr

/-- statements of `get_next_signal` -/
inductive GI
  | acquire
  | skipIfNonEmpty (n : Nat)   -- `if len(self._queue) == 0:` with a body of `n` instructions
  | wait                       -- `if not _wait_for_condition(cond, lambda: len(self._queue) > 0, timeout): raise QMI_TimeoutException`
  | pop                        -- `return self._queue.popleft()`
  | release
  deriving DecidableEq, Repr

/-- statements of `discard_all` -/
inductive DI
  | acquire | clear | release
  deriving DecidableEq, Repr

/-- statements of `get_queue_length` / `has_signal_ready` -/
inductive LI
  | acquire | readLen | release
  deriving DecidableEq, Repr

/-- statements of the wait helper (`cond.wait_for` in a plain thread, `_TaskThread.wait_for_condition` in a task) -/
inductive WI
  | waitFor (orStop : Bool)   -- `ret = cond.wait_for(predicate [or stop flag], timeout)`
  | raiseIfStop               -- `if self.task._stop_requested.is_set(): raise QMI_TaskStopException()`
  | retRet                    -- `return ret`
  deriving DecidableEq, Repr

structure Progs where
  recv      : List RI
  get       : List GI
  discard   : List DI
  len       : List LI
  ready     : List LI
  plainWait : List WI
  taskWait  : List WI
  deriving DecidableEq, Repr

/-- the `timeout` argument of `get_next_signal`: `None`, `<= 0`, `> 0` -/
inductive Tmo | none | zero | pos
  deriving DecidableEq, Repr

inductive Call
  | idle
  | recv (tag : Nat)
  | get (task : Bool) (tmo : Tmo)     -- `task`: the caller is a `_TaskThread`
  | discard
  | query (ready : Bool)
  deriving DecidableEq, Repr

/-- how a call ended -/
inductive Res
  | unit
  | sig (s : Sig)
  | timeout        -- QMI_TimeoutException
  | taskStop       -- QMI_TaskStopException
  | indexErr       -- `popleft` on an empty deque
  | nat (n : Nat)
  | bool (b : Bool)
  deriving DecidableEq, Repr

structure Thr where
  call     : Call
  pc       : Nat
  wpc      : Option Nat     -- inside the wait helper: index of its next statement
  parked   : Bool           -- inside `cond.wait`: lock released, waiting for a notification or the timeout
  notified : Bool
  expired  : Bool           -- the timer of this call has run out
  ret      : Bool           -- the helper's local `ret`
  sig      : Sig            -- `_receive_signal`'s local `sig`
  stop     : Bool           -- the task's `_stop_requested` flag (never cleared)
  res      : Option Res     -- result of the last completed call
  got      : List Nat       -- ghost: numbers handed to this thread, in order
  sawEmpty : Bool           -- ghost: this `get` found the queue empty when it first tested it
  deriving Repr

def Thr.init : Thr :=
  { call := .idle, pc := 0, wpc := none, parked := false, notified := false, expired := false, ret := false,
    sig := ⟨0, 0⟩, stop := false, res := none, got := [], sawEmpty := false }

structure St where
  g        : Ghost          -- queue, counter, capacity, policy + delivered / dropped / discarded numbers
  lock     : Option Nat     -- holder of `_queue_cond`
  thr      : Nat → Thr
  lin      : List Op        -- the calls that have taken effect, in that order
  doneRecv : Nat            -- ghost: completed `_receive_signal` calls

def St.init (cap : Nat) (pol : Policy) : St :=
  { g := ginit cap pol, lock := none, thr := fun _ => Thr.init, lin := [], doneRecv := 0 }

def upd (f : Nat → α) (i : Nat) (v : α) : Nat → α := fun j => if j = i then v else f j

def unlock (l : Option Nat) (i : Nat) : Option Nat := if l = some i then none else l

/-- the call of thread `i` ends (`return` / `raise` / end of function); leaving the `with` block releases the lock -/
def finish (s : St) (i : Nat) (r : Res) : St :=
  { s with lock := unlock s.lock i,
           thr := upd s.thr i { (s.thr i) with call := .idle, pc := 0, wpc := none, parked := false, res := some r },
           doneRecv := match (s.thr i).call with | .recv _ => s.doneRecv + 1 | _ => s.doneRecv }

/-- advance the statement counter by `k`; running off the end of the function is `return None` -/
def jump (s : St) (i : Nat) (len k : Nat) : St :=
  if (s.thr i).pc + k < len then
    { s with thr := upd s.thr i { (s.thr i) with pc := (s.thr i).pc + k } }
  else finish s i ((s.thr i).res.getD .unit)

def setQ (g : Ghost) (q : List Sig) : Ghost := { g with r := { g.r with q := q } }
def setNext (g : Ghost) (n : Nat) : Ghost := { g with r := { g.r with next := n } }

/-- thread `i` executes its next statement -/
def stepThr (P : Progs) (s : St) (i : Nat) : St :=
  let t := s.thr i
  match t.call with
  | .idle => s
  | .recv tag =>
    match P.recv[t.pc]? with
    | none => finish s i .unit
    | some .acquire => if s.lock = none then jump { s with lock := some i } i P.recv.length 1 else s
    | some .mkSig => jump { s with thr := upd s.thr i { t with sig := ⟨s.g.r.next, tag⟩ } } i P.recv.length 1
    | some .incSeq => jump { s with g := setNext s.g (s.g.r.next + 1) } i P.recv.length 1
    | some .takeSeq =>
      jump { s with g := setNext s.g (s.g.r.next + 1), thr := upd s.thr i { t with sig := ⟨s.g.r.next, tag⟩ } } i P.recv.length 1
    | some .dropIfFullNew =>
      if s.g.r.q.length = s.g.r.cap ∧ s.g.r.pol = .new then
        finish { s with g := { s.g with dropped := s.g.dropped ++ [t.sig.seq] }, lin := s.lin ++ [.recv tag] } i .unit
      else jump s i P.recv.length 1
    | some .append =>
      jump { s with g := { setQ s.g (dequeAppend s.g.r.cap s.g.r.q t.sig) with
                           dropped := s.g.dropped ++ ((s.g.r.q ++ [t.sig]).take ((s.g.r.q ++ [t.sig]).length - s.g.r.cap)).map Sig.seq },
                    lin := s.lin ++ [.recv tag] } i P.recv.length 1
    | some .notifyAll =>
      jump { s with thr := fun j => if (s.thr j).parked then { (s.thr j) with notified := true } else s.thr j } i P.recv.length 1
    | some .release => jump { s with lock := unlock s.lock i } i P.recv.length 1
  | .get task tmo =>
    match t.wpc with
    | some w =>
      if t.parked then
        -- inside `cond.wait`: woken by a notification or by the timeout, then re-acquires the lock
        if (t.notified ∨ t.expired) ∧ s.lock = none then
          { s with lock := some i, thr := upd s.thr i { t with parked := false } }
        else s
      else
        match (if task then P.taskWait else P.plainWait)[w]? with
        | none => finish s i .timeout          -- helper returns None: `if not None` raises the timeout
        | some (.waitFor orStop) =>
          if s.g.r.q ≠ [] ∨ (orStop = true ∧ t.stop = true) then
            { s with thr := upd s.thr i { t with ret := true, wpc := some (w + 1) } }
          else if t.expired = true ∨ tmo = .zero then
            { s with thr := upd s.thr i { t with ret := false, wpc := some (w + 1) } }
          else
            { s with lock := unlock s.lock i, thr := upd s.thr i { t with parked := true, notified := false } }
        | some .raiseIfStop =>
          if t.stop then finish s i .taskStop
          else { s with thr := upd s.thr i { t with wpc := some (w + 1) } }
        | some .retRet =>
          if t.ret then jump { s with thr := upd s.thr i { t with wpc := none } } i P.get.length 1
          else finish s i .timeout
    | none =>
      match P.get[t.pc]? with
      | none => finish s i .unit
      | some .acquire => if s.lock = none then jump { s with lock := some i } i P.get.length 1 else s
      | some (.skipIfNonEmpty n) =>
        match s.g.r.q with
        | [] => jump { s with thr := upd s.thr i { t with sawEmpty := true } } i P.get.length 1
        | _ :: _ => jump s i P.get.length (n + 1)
      | some .wait => { s with thr := upd s.thr i { t with wpc := some 0 } }
      | some .pop =>
        match s.g.r.q with
        | [] => finish s i .indexErr
        | x :: rest =>
          finish { s with g := { setQ s.g rest with delivered := s.g.delivered ++ [x.seq] }, lin := s.lin ++ [.get],
                          thr := upd s.thr i { t with got := t.got ++ [x.seq] } } i (.sig x)
      | some .release => jump { s with lock := unlock s.lock i } i P.get.length 1
  | .discard =>
    match P.discard[t.pc]? with
    | none => finish s i .unit
    | some .acquire => if s.lock = none then jump { s with lock := some i } i P.discard.length 1 else s
    | some .clear =>
      jump { s with g := { setQ s.g [] with discarded := s.g.discarded ++ s.g.r.q.map Sig.seq }, lin := s.lin ++ [.discard] }
        i P.discard.length 1
    | some .release => jump { s with lock := unlock s.lock i } i P.discard.length 1
  | .query ready =>
    match (if ready then P.ready else P.len)[t.pc]? with
    | none => finish s i .unit
    | some .acquire => if s.lock = none then jump { s with lock := some i } i (if ready then P.ready else P.len).length 1 else s
    | some .readLen =>
      jump { s with thr := upd s.thr i { t with res := some (if ready then .bool (s.g.r.q.length != 0) else .nat s.g.r.q.length) } }
        i (if ready then P.ready else P.len).length 1
    | some .release => jump { s with lock := unlock s.lock i } i (if ready then P.ready else P.len).length 1

inductive Act
  | call (i : Nat) (c : Call)   -- idle thread `i` begins a call
  | step (i : Nat)              -- thread `i` executes its next statement
  | stop (i : Nat)              -- task `i` is asked to stop (flag only; the wake-up protocol is property C11)
  | expire (i : Nat)            -- the timer of a `timeout > 0` wait of thread `i` runs out
  | wake (i : Nat)              -- any other notification of parked thread `i`
  deriving Repr

def cstep (P : Progs) (s : St) : Act → St
  | .call i c =>
    match (s.thr i).call with
    | .idle =>
      let t : Thr := { (s.thr i) with call := c, pc := 0, wpc := none, parked := false, notified := false }
      { s with thr := upd s.thr i { t with expired := false, ret := false, res := none, sawEmpty := false } }
    | _ => s
  | .step i => stepThr P s i
  | .stop i => { s with thr := upd s.thr i { (s.thr i) with stop := true } }
  | .expire i =>
    match (s.thr i).call with
    | .get _ .pos => { s with thr := upd s.thr i { (s.thr i) with expired := true } }
    | _ => s
  | .wake i => if (s.thr i).parked then { s with thr := upd s.thr i { (s.thr i) with notified := true } } else s

def crun (P : Progs) (s : St) (sched : List Act) : St := sched.foldl (cstep P) s

/-- the programs the property needs (what the source is at the pinned commit) -/
def P0 : Progs :=
  { recv := [.acquire, .mkSig, .incSeq, .dropIfFullNew, .append, .notifyAll, .release],
    get := [.acquire, .skipIfNonEmpty 1, .wait, .pop, .release],
    discard := [.acquire, .clear, .release],
    len := [.acquire, .readLen, .release],
    ready := [.acquire, .readLen, .release],
    plainWait := [.waitFor false, .retRet],
    taskWait := [.waitFor true, .raiseIfStop, .retRet] }

/-- for every statement of a list: is the lock held when it executes? (`acq` / `rel` recognise `acquire` / `release`) -/
def lockedFlags (acq rel : α → Bool) : List α → Bool → List (α × Bool)
  | [], _ => []
  | x :: xs, held =>
    (x, held) :: lockedFlags acq rel xs (if acq x then true else if rel x then false else held)

/-! ### Calls out of the receiver code (logging) while the re-entrant lock is held

`threading.Condition()` wraps an `RLock`: a callback reached from inside the `with` block (a logging handler) can call
back into the same receiver on the same thread and sees the intermediate state of the critical section.  The translator
reports every such call as a `CallOut` fact; the programs themselves do not contain them (they have no effect of their
own).  `exposes` says whether a call-out sits where the state is inconsistent: in `_receive_signal` after the counter
was read and before the signal is appended (or dropped), in `get_next_signal` after the queue was tested and before
`popleft`. -/

inductive Fn | recv | get | discard | len | ready | plainWait | taskWait
  deriving DecidableEq, Repr

/-- a call out of function `fn`, executed just before its statement number `before`, with the lock held or not -/
structure CallOut where
  fn     : Fn
  before : Nat
  locked : Bool
  deriving DecidableEq, Repr

def recvWindow (prog : List RI) (k : Nat) : Bool :=
  decide (prog.findIdx (fun x => x == .mkSig || x == .takeSeq) < k) && decide (k ≤ prog.findIdx (· == .append))

def isSkip : GI → Bool
  | .skipIfNonEmpty _ => true
  | _ => false

def getWindow (prog : List GI) (k : Nat) : Bool :=
  decide (prog.findIdx isSkip < k) && decide (k ≤ prog.findIdx (· == .pop))

def exposes (P : Progs) (c : CallOut) : Bool :=
  c.locked && (match c.fn with
    | .recv => recvWindow P.recv c.before
    | .get => getWindow P.get c.before
    | _ => false)

/-- `n` consecutive steps of thread `i` -/
def steps (i n : Nat) : List Act := List.replicate n (.step i)

end QmiModel.RecvConc
