import QmiModel.Model.Config
/-!
# C16 model, part 2: field types as the code meets them, the acceptance test, the entry points

* `RawTy`: every kind of annotation a `@configstruct` field can carry — including the ones
  `_check_config_struct_type` rejects (multi-member `Union`, non-string-key `Dict`, builtin `tuple`, `None`,
  anything else: `set`, `bytes`, a string annotation, `Sequence[int]`, a non-dataclass class …).
* `checkType`: `_check_config_struct_type(cls, path)`, branch by branch, with its own path (`[]`, `[i]`, field).
* `elabTy`: what `_parse_config_value` makes of a raw type: its `Optional` prelude (`for t in __args__`: `None`
  sets `optional`, every other member *overwrites* `field_type`, so the last one wins), `Dict[K, T]` ignoring `K`,
  everything it does not recognise falling through to the final type-mismatch error (`Ty.never`).
  `parseRaw ρ = parseValue (elabTy ρ)`.
* `parseTop` / `fromDictFull`: `config_struct_from_dict` including the part before and around the recursive
  parser: class test, acceptance test, and the *unguarded* top-level use of `data` (`f.name in data`, `data[f.name]`,
  `data.keys()`), which for a non-dict `data` raises `TypeError` / `AttributeError` (API misuse, like the `TypeError`
  for a non-dataclass `cls`).
* `createConfig`: `context_singleton.create_config_from_file` (which file is chosen, what is loaded).

Core Lean only.
-/
namespace QmiModel.Config

inductive RawTy where
  | int | float | str | bool | any
  | noneType                             -- `None` / `type(None)` as a field type
  | bareList | bareTuple | bareDict      -- `list`/`List`, `typing.Tuple`, `dict`/`Dict`
  | builtinTuple                         -- the builtin `tuple`: parsed like `Tuple`, but not an accepted field type
  | union (args : List RawTy)            -- `Union[...]` / `Optional[...]` (`__args__`, `noneType` = `NoneType`)
  | listOf (t : RawTy)
  | tupleVar (t : RawTy)
  | tupleFix (ts : List RawTy)
  | dictOf (key : RawTy) (t : RawTy)
  | struct (name : Str) (fields : List (Str × RawTy × Option PV × Bool))   -- the `Bool` is `f.init`
  | other                                -- anything else

abbrev RawField := Str × RawTy × Option PV × Bool

def RawTy.isNone : RawTy → Bool
  | .noneType => true
  | _ => false

def RawTy.isStr : RawTy → Bool
  | .str => true
  | _ => false

def cfgErr {α : Type} (k : CfgKind) (p : Path) : R α := .error (.config k p)

/-! ## `_check_config_struct_type` -/

mutual
def checkType : RawTy → Path → R Unit
  | .int, _ => .ok ()
  | .float, _ => .ok ()
  | .str, _ => .ok ()
  | .bool, _ => .ok ()
  | .any, _ => .ok ()
  -- `cls in (list, dict, Any, List, Tuple, Dict)` — the builtin `tuple` is not in this list
  | .bareList, _ => .ok ()
  | .bareTuple, _ => .ok ()
  | .bareDict, _ => .ok ()
  | .builtinTuple, p => cfgErr .badType p
  | .noneType, p => cfgErr .badType p
  | .other, p => cfgErr .badType p
  | .union args, p => checkUnion args p
  | .listOf t, p => checkType t (p ++ [.elem])
  | .tupleVar t, p => checkType t (p ++ [.elem])
  | .tupleFix ts, p => checkTuple ts 0 p
  | .dictOf k t, p => if k.isStr then checkType t (p ++ [.elem]) else cfgErr .badKey p
  | .struct _ fs, p => checkFields fs p
/-- "Recognize Optional[T]": `None` members are skipped, the first other member becomes `cls`, a second one is
an error; `cls` is then tested in the same call (same path). No other member at all: the `Union` itself is tested
and rejected. -/
def checkUnion : List RawTy → Path → R Unit
  | [], p => cfgErr .badType p
  | t :: rest, p =>
    if t.isNone then checkUnion rest p
    else if rest.all RawTy.isNone then checkType t p
    else cfgErr .badUnion p
def checkTuple : List RawTy → Nat → Path → R Unit
  | [], _, _ => .ok ()
  | t :: ts, i, p =>
    match checkType t (p ++ [.idx i]) with
    | .error e => .error e
    | .ok _ => checkTuple ts (i + 1) p
/-- only fields with `f.init` are looked at -/
def checkFields : List RawField → Path → R Unit
  | [], _ => .ok ()
  | (n, t, _, init) :: fs, p =>
    if init then
      match checkType t (p ++ [.field n]) with
      | .error e => .error e
      | .ok _ => checkFields fs p
    else checkFields fs p
end

/-! ## what `_parse_config_value` makes of a raw type -/

mutual
def elabTy : RawTy → Option Ty
  | .int => some .int
  | .float => some .float
  | .str => some .str
  | .bool => some .bool
  | .any => some .any
  | .noneType => some (.opt .never)        -- `val is None and field_type == type(None)`: `None` passes, nothing else
  | .bareList => some .listAny
  | .bareTuple => some .tupleAny
  | .builtinTuple => some .tupleAny
  | .bareDict => some .dictAny
  | .other => some .never
  | .union args => elabUnion args false
  | .listOf t => (elabTy t).map .list
  | .tupleVar t => (elabTy t).map .tupleVar
  | .tupleFix ts => (elabL ts).map .tupleFix
  | .dictOf _ t => (elabTy t).map .dict      -- `(_, elem_type) = field_type.__args__`
  | .struct n fs => (elabF fs).map (.struct n)
/-- the `for t in field_type.__args__` prelude: `seenNone` = a `None` member was met so far -/
def elabUnion : List RawTy → Bool → Option Ty
  | [], seenNone => some (if seenNone then .opt .never else .never)
  | t :: rest, seenNone =>
    if t.isNone then elabUnion rest true
    else if rest.all RawTy.isNone then
      (elabTy t).map (fun τ => if seenNone || !rest.isEmpty then .opt τ else τ)
    else elabUnion rest seenNone           -- a later member overwrites `field_type`
def elabL : List RawTy → Option (List Ty)
  | [] => some []
  | t :: ts =>
    match elabTy t, elabL ts with
    | some τ, some τs => some (τ :: τs)
    | _, _ => .none
/-- fields with `init=False` are not modelled in the parser (`none`) -/
def elabF : List RawField → Option (List Field)
  | [] => some []
  | (n, t, d, init) :: fs =>
    if init then
      match elabTy t, elabF fs with
      | some τ, some fs' => some ((n, τ, d) :: fs')
      | _, _ => .none
    else .none
end

/-- `_parse_config_value(val, field_type, path)` for any annotation -/
def parseRaw (ρ : RawTy) (v : PV) (p : Path) : Option (R PV) := (elabTy ρ).map (fun τ => parseValue τ v p)

/-! ## `config_struct_from_dict`, whole -/

/-- Python `needle in hay` for strings -/
def strContains (hay needle : Str) : Bool :=
  (List.range (hay.length + 1)).any (fun i => (hay.drop i).take needle.length == needle)

def isStrLit (n : Str) : PV → Bool
  | .str s => s == n
  | _ => false

/-- `f.name in data`; `none` = `TypeError: argument of type … is not iterable` -/
def inTest : PV → Str → Option Bool
  | .dict kvs, n => some ((keysOf kvs).contains n)
  | .str s, n => some (strContains s n)
  | .list xs, n => some (xs.any (isStrLit n))
  | .tuple xs, n => some (xs.any (isStrLit n))
  | _, _ => .none

/-- the field loop of `_parse_config_struct` on data that is not a dict: the first exception it raises, or
`none` when it runs to its end -/
def topFields : List Field → PV → Option PyExc
  | [], _ => .none
  | (n, _, d) :: fs, data =>
    match inTest data n with
    | .none => some .typeError
    | some true => some .typeError           -- `data[f.name]` on a str / list / tuple
    | some false =>
      match d with
      | .none => some (.config .missing [.field n])
      | some _ => topFields fs data

/-- `_parse_config_struct(data, cls, [])` as `config_struct_from_dict` calls it (no `isinstance(data, dict)` test) -/
def parseTop (name : Str) (fs : List Field) (data : PV) : R PV :=
  match data with
  | .dict kvs => structResult name (fieldNames fs) kvs [] (parseFields fs kvs [])
  | _ =>
    match topFields fs data with
    | some e => .error e
    | .none => .error .attributeError        -- `data.keys()`

/-- `config_struct_from_dict(data, cls)`; `none` = outside the model (a field with `init=False`) -/
def fromDictFull (ρ : RawTy) (data : PV) : Option (R PV) :=
  match ρ with
  | .struct _ _ =>
    match checkType ρ [] with
    | .error e => some (.error e)
    | .ok _ =>
      match elabTy ρ with
      | some (.struct n fs) => some (parseTop n fs data)
      | _ => .none
  | _ => some (.error .typeError)            -- "Configuration class type must be a dataclass"

/-! ## `context_singleton.create_config_from_file` -/

/-- the file that is read: the argument if given, else `$QMI_CONFIG` (read once at import), else none -/
def chooseFile (arg env : Option Str) : Option Str :=
  match arg with
  | some f => some f
  | .none => env

/-- `cfgdict[k] = v` on an ordered dict -/
def setKey (k : Str) (v : PV) : List (Str × PV) → List (Str × PV)
  | [] => [(k, v)]
  | (k', x) :: kvs => if k' = k then (k, v) :: kvs else (k', x) :: setKey k v kvs

def configFileKey : Str := [99, 111, 110, 102, 105, 103, 95, 102, 105, 108, 101]   -- "config_file"

/-- `create_config_from_file(config_file)`. Parameters: the `CfgQmi` descriptor, the file system (`none` = `open`
raised `OSError`), `os.path.abspath`, `json.loads`. -/
def createConfig (cfgQmi : Ty) (readFile : Str → Option (List Nat)) (abspath : Str → Str)
    (jl : List Nat → Option PV) (arg env : Option Str) : R PV :=
  match chooseFile arg env with
  | .none => construct cfgQmi []              -- `CfgQmi()`
  | some f =>
    match readFile f with
    | .none => .error .osError
    | some text =>
      match loadString jl text with
      | .error e => .error e
      | .ok (.dict kvs) => fromDict cfgQmi (.dict (setKey configFileKey (.str (abspath f)) kvs))
      | .ok _ => .error (.config .toplevel [])  -- unreachable: `load_config_string` returns a dict

/-- `qmi.start(context_cfg=…)`: every per-context dict goes through `config_struct_from_dict(·, CfgContext)`, in
order; the result replaces or extends `config.contexts[key]`. `none` = outside the model. -/
def applyContextCfg (ρ : RawTy) : List (Str × PV) → List (Str × PV) → Option (R (List (Str × PV)))
  | contexts, [] => some (.ok contexts)
  | contexts, (k, d) :: rest =>
    match fromDictFull ρ d with
    | .none => .none
    | some (.error e) => some (.error e)
    | some (.ok v) => applyContextCfg ρ (setKey k v contexts) rest

/-! ## files: `load_config_file` / `dump_config_file` over a file system that is just "name ↦ current text" -/

abbrev FS := List (Str × List Nat)

def fsRead : FS → Str → Option (List Nat)
  | [], _ => .none
  | (g, t) :: fs, f => if g = f then some t else fsRead fs f

def fsWrite (fs : FS) (f : Str) (t : List Nat) : FS := (f, t) :: fs

/-- `load_config_file(filename)`: no state besides the file system -/
def loadFile (jl : List Nat → Option PV) (fs : FS) (f : Str) : R PV :=
  match fsRead fs f with
  | .none => .error .osError
  | some t => loadString jl t

/-- `dump_config_file(cfg, filename)` -/
def dumpFile (fs : FS) (cfg : PV) (f : Str) : R FS :=
  match dumpString cfg with
  | .error e => .error e
  | .ok t => .ok (fsWrite fs f t)

/-- `\r` and `\n` are the same thing to `_strip_comments` -/
def nlNorm (s : List Nat) : List Nat := s.map (fun c => if c = 13 then 10 else c)

end QmiModel.Config
