import QmiModel.Gen.DiscoveryLayouts
/-!
# Model of QMI context discovery — property C18

Mirrors, branch by branch (Python exceptions are values):

* `qmi/core/udp_responder_packets.py` — the packed little-endian ctypes packets, `create`, and
  `unpack_qmi_udp_packet` (size / magic / enum lookup / dict lookup / exact size);
* `qmi/core/messaging.py` — `_UdpResponder._handle_read`, `_handle_context_info_request_packet`,
  `_handle_kill_request_packet`;
* `qmi/core/context.py` — the receive loop of `ping_qmi_contexts` and the filter of
  `QMI_Context.discover_peer_contexts`;
* CPython 3.12 `fnmatch.fnmatchcase` (`globMatch`, with the chunk processing of `fnmatch.translate`
  for bracket expressions reproduced step by step) and its declarative counterpart `Matches`.

The packet layout is a parameter (`Layout`); `genLayout` is the one read from the live source by the
translator (`Gen/DiscoveryLayouts.lean`).  Core Lean only (the driver exe links this file).
-/
namespace QmiModel.Discovery

abbrev Bytes := List UInt8

/-! ## bytes, integers, `c_char[N]` -/

/-- little-endian encoding of `v mod 256^n` on `n` bytes (ctypes integer fields wrap silently) -/
def leBytes : Nat → Nat → Bytes
  | 0, _ => []
  | n + 1, v => UInt8.ofNat (v % 256) :: leBytes n (v / 256)

def leNat : Bytes → Nat
  | [] => 0
  | b :: bs => b.toNat + 256 * leNat bs

/-- store a Python int in a signed/unsigned ctypes field of `n` bytes: reduced mod `256^n` -/
def intBytes (n : Nat) (v : Int) : Bytes := leBytes n (v % ((256 : Int) ^ n)).toNat

/-- read a signed ctypes integer field -/
def sintOf (bs : Bytes) : Int :=
  let v := leNat bs
  if 2 * v < 256 ^ bs.length then (v : Int) else (v : Int) - ((256 ^ bs.length : Nat) : Int)

/-- reading a `c_char[N]` field: the value stops at the first NUL; `N` bytes without NUL are allowed -/
def cstr (bs : Bytes) : Bytes := bs.takeWhile (· != 0)

/-- writing `bytes` into a `c_char[N]` field of a fresh (zeroed) structure (`s_set` in `_ctypes`):
`strlen` of the value is what counts; longer than `N` raises `ValueError` (`none`) -/
def cwrite (n : Nat) (v : Bytes) : Option Bytes :=
  if (cstr v).length ≤ n then some (cstr v ++ List.replicate (n - (cstr v).length) 0) else none

/-! ## UTF-8 (strict, as `bytes.decode()` / `str.encode()`; `Char` = Unicode scalar value) -/

def utf8EncodeChar (c : Char) : Bytes :=
  let n := c.toNat
  if n < 0x80 then [UInt8.ofNat n]
  else if n < 0x800 then [UInt8.ofNat (0xC0 + n / 64), UInt8.ofNat (0x80 + n % 64)]
  else if n < 0x10000 then
    [UInt8.ofNat (0xE0 + n / 4096), UInt8.ofNat (0x80 + n / 64 % 64), UInt8.ofNat (0x80 + n % 64)]
  else
    [UInt8.ofNat (0xF0 + n / 262144), UInt8.ofNat (0x80 + n / 4096 % 64),
     UInt8.ofNat (0x80 + n / 64 % 64), UInt8.ofNat (0x80 + n % 64)]

def utf8Encode (s : List Char) : Bytes := s.flatMap utf8EncodeChar

/-- decoder state: `pending` continuation bytes still expected, `acc` the bits so far,
the next continuation byte must lie in `lo..hi` (this is what excludes overlong forms, surrogates
and code points above U+10FFFF) -/
structure U8State where
  pending : Nat
  acc : Nat
  lo : Nat
  hi : Nat
  out : List Char      -- reversed
  deriving Repr

def u8step (st : Option U8State) (byte : UInt8) : Option U8State :=
  match st with
  | none => none
  | some s =>
    let b := byte.toNat
    if s.pending = 0 then
      if b < 0x80 then some { s with out := Char.ofNat b :: s.out }
      else if 0xC2 ≤ b ∧ b ≤ 0xDF then some { s with pending := 1, acc := b - 0xC0, lo := 0x80, hi := 0xBF }
      else if b = 0xE0 then some { s with pending := 2, acc := 0, lo := 0xA0, hi := 0xBF }
      else if b = 0xED then some { s with pending := 2, acc := 0xD, lo := 0x80, hi := 0x9F }
      else if 0xE1 ≤ b ∧ b ≤ 0xEF then some { s with pending := 2, acc := b - 0xE0, lo := 0x80, hi := 0xBF }
      else if b = 0xF0 then some { s with pending := 3, acc := 0, lo := 0x90, hi := 0xBF }
      else if 0xF1 ≤ b ∧ b ≤ 0xF3 then some { s with pending := 3, acc := b - 0xF0, lo := 0x80, hi := 0xBF }
      else if b = 0xF4 then some { s with pending := 3, acc := 4, lo := 0x80, hi := 0x8F }
      else none
    else if s.lo ≤ b ∧ b ≤ s.hi then
      let acc := s.acc * 64 + (b - 0x80)
      if s.pending = 1 then some { pending := 0, acc := 0, lo := 0x80, hi := 0xBF, out := Char.ofNat acc :: s.out }
      else some { s with pending := s.pending - 1, acc := acc, lo := 0x80, hi := 0xBF }
    else none

def u8init : U8State := { pending := 0, acc := 0, lo := 0x80, hi := 0xBF, out := [] }

/-- `bytes.decode()`; `none` = `UnicodeDecodeError` -/
def utf8Decode (bs : Bytes) : Option (List Char) :=
  match bs.foldl u8step (some u8init) with
  | some s => if s.pending = 0 then some s.out.reverse else none
  | none => none

/-! ## shell-style matching: CPython 3.12 `fnmatch.fnmatchcase` -/

/-- body of a bracket expression up to the first `]`, and what follows it -/
def spanClose : List Char → Option (List Char × List Char)
  | [] => none
  | c :: cs =>
    if c = ']' then some ([], cs)
    else match spanClose cs with
      | some (b, r) => some (c :: b, r)
      | none => none

/-- `translate`, case `c == '['`: given the pattern after the `[`, the text `stuff = pat[i:j]`
between the brackets and the pattern after the closing `]`; `none` when there is no closing bracket
(the `[` is then an ordinary character).  A leading `!` and a `]` directly after it (or directly
after the `[`) do not close the expression. -/
def splitBracket (p : List Char) : Option (List Char × List Char) :=
  let a := match p with
    | '!' :: t => (['!'], t)
    | _ => ([], p)
  let b := match a.2 with
    | ']' :: t => ([']'], t)
    | _ => ([], a.2)
  match spanClose b.2 with
  | some (body, rest) => some (a.1 ++ b.1 ++ body, rest)
  | none => none

/-- the `while True: k = pat.find('-', k, j) …` loop: cut `stuff` at hyphens into chunks.
`skip` characters are passed over before a hyphen can cut (1 at the start, 2 after a leading `!`,
2 after each cut: `k = k+3`); a hyphen that is the last character of `stuff` does not cut
(`chunks[-1] += '-'`).  `cur` is the current chunk, reversed. -/
def splitChunks : Nat → List Char → List Char → List (List Char)
  | _, cur, [] => [cur.reverse]
  | skip, cur, c :: t =>
    if skip = 0 ∧ c = '-' ∧ t ≠ [] then cur.reverse :: splitChunks 2 [] t
    else splitChunks (skip - 1) (c :: cur) t

/-- "Remove empty ranges -- invalid in RE": `for k in range(len(chunks)-1, 0, -1)`, right to left;
a pair whose range would be empty loses both end points and is glued together -/
def mergeChunks : List (List Char) → List (List Char)
  | [] => []
  | a :: rest =>
    match mergeChunks rest with
    | [] => [a]
    | b :: more =>
      match a.getLast?, b.head? with
      | some x, some y => if x > y then (a.dropLast ++ b.tail) :: more else a :: b :: more
      | _, _ => a :: b :: more

/-- what ends up between `[` and `]` of the regular expression: literal characters
(escaped where needed) and the unescaped hyphens that `'-'.join(chunks)` puts between chunks -/
inductive STok
  | lit (c : Char)
  | hy
  deriving DecidableEq, Repr

def joinChunks : List (List Char) → List STok
  | [] => []
  | [c] => c.map .lit
  | c :: cs => c.map .lit ++ .hy :: joinChunks cs

def STok.val : STok → Char
  | .lit c => c
  | .hy => '-'

/-- membership in the body of a `re` character set (`sre_parse`, `[`…`]`): `a-b` is a range, a
hyphen that cannot start a range is itself -/
def setMem : List STok → Char → Bool
  | [], _ => false
  | [t], x => t.val == x
  | t :: .hy :: [], x => t.val == x || x == '-'
  | t :: .hy :: u :: rest, x => (decide (t.val ≤ x) && decide (x ≤ u.val)) || setMem rest x
  | t :: .lit c :: rest, x => t.val == x || setMem (.lit c :: rest) x

def bracketToks (stuff : List Char) : List STok :=
  joinChunks (mergeChunks (splitChunks (if stuff.head? = some '!' then 2 else 1) [] stuff))

/-- does character `x` match the bracket expression `[stuff]`?  (`if not stuff: (?!)`,
`elif stuff == '!': .`, `stuff[0] == '!'` → `[^…]`) -/
def classMem (stuff : List Char) (x : Char) : Bool :=
  match bracketToks stuff with
  | .lit '!' :: rest => !(setMem rest x)
  | toks => setMem toks x

/-- derivative of a pattern by one character: the patterns that must match the rest of the name -/
def deriv : List Char → Char → List (List Char)
  | [], _ => []
  | a :: p, c =>
    if a = '*' then (a :: p) :: deriv p c
    else if a = '?' then [p]
    else if a = '[' then
      match splitBracket p with
      | some (stuff, rest) => if classMem stuff c then [rest] else []
      | none => if c = '[' then [p] else []
    else if a = c then [p] else []

/-- matches the empty name -/
def nullable (p : List Char) : Bool := p.all (· == '*')

def addNew (x : List Char) (acc : List (List Char)) : List (List Char) :=
  if acc.contains x then acc else x :: acc

def stepSet (ps : List (List Char)) (c : Char) : List (List Char) :=
  ps.foldr (fun p acc => (deriv p c).foldr addNew acc) []

def matchSet (ps : List (List Char)) (s : List Char) : Bool := (s.foldl stepSet ps).any nullable

/-- `fnmatch.fnmatchcase(name, pat)` (executable; linear state-set simulation, no backtracking) -/
def globMatch (pat name : List Char) : Bool := matchSet [pat] name

/-- declarative semantics of shell-style patterns -/
inductive Matches : List Char → List Char → Prop
  | nil : Matches [] []
  | starSkip {p s} : Matches p s → Matches ('*' :: p) s
  | starTake {p s} (c : Char) : Matches ('*' :: p) s → Matches ('*' :: p) (c :: s)
  | any {p s} (c : Char) : Matches p s → Matches ('?' :: p) (c :: s)
  | cls {p s stuff rest} (c : Char) : splitBracket p = some (stuff, rest) → classMem stuff c = true →
      Matches rest s → Matches ('[' :: p) (c :: s)
  | openLit {p s} : splitBracket p = none → Matches p s → Matches ('[' :: p) ('[' :: s)
  | lit {p s} (a : Char) : a ≠ '*' → a ≠ '?' → a ≠ '[' → Matches p s → Matches (a :: p) (a :: s)

/-! ## packet layouts -/

inductive Kind | infoReq | kill | infoResp
  deriving DecidableEq, Repr

structure Layout where
  magic : Nat
  magicSz : Nat
  tagSz : Nat
  idSz : Nat
  tsSz : Nat
  wgFilterLen : Nat
  ctxFilterLen : Nat
  rIdSz : Nat
  rTsSz : Nat
  pidSz : Nat
  nameLen : Nat
  wgLen : Nat
  portSz : Nat
  tagInfoReq : Nat
  tagKillReq : Nat
  tagInfoResp : Nat
  enumTags : List Nat                    -- values of `QMI_UdpResponderMessageTypeTag`
  lookup : List (Nat × Kind × Nat)       -- `_packet_type_lookup`: tag ↦ (class, `ctypes.sizeof`)
  hdrSizeof : Nat                        -- `ctypes.sizeof(QMI_UdpResponderPacketHeader)`
  recvMax : Nat                          -- `recvfrom(4096)` in the responder
  clientRecvMax : Nat                    -- `recvfrom(4096)` in `ping_qmi_contexts`
  maxNameChars : Nat                     -- `is_valid_object_name`: `len(name) > 63` is refused
  deriving Repr

def kindOfNat : Nat → Kind
  | 0 => .infoReq
  | 1 => .kill
  | _ => .infoResp

def genLayout : Layout :=
  { magic := Gen.DiscoveryLayouts.magic
    magicSz := Gen.DiscoveryLayouts.magicSz
    tagSz := Gen.DiscoveryLayouts.tagSz
    idSz := Gen.DiscoveryLayouts.idSz
    tsSz := Gen.DiscoveryLayouts.tsSz
    wgFilterLen := Gen.DiscoveryLayouts.wgFilterLen
    ctxFilterLen := Gen.DiscoveryLayouts.ctxFilterLen
    rIdSz := Gen.DiscoveryLayouts.respReqIdSz
    rTsSz := Gen.DiscoveryLayouts.respReqTsSz
    pidSz := Gen.DiscoveryLayouts.pidSz
    nameLen := Gen.DiscoveryLayouts.nameLen
    wgLen := Gen.DiscoveryLayouts.wgLen
    portSz := Gen.DiscoveryLayouts.portSz
    tagInfoReq := Gen.DiscoveryLayouts.tagInfoRequest
    tagKillReq := Gen.DiscoveryLayouts.tagKillRequest
    tagInfoResp := Gen.DiscoveryLayouts.tagInfoResponse
    enumTags := Gen.DiscoveryLayouts.enumTags
    lookup := Gen.DiscoveryLayouts.lookup.map (fun e => (e.1, kindOfNat e.2.1, e.2.2))
    hdrSizeof := Gen.DiscoveryLayouts.headerSizeof
    recvMax := Gen.DiscoveryLayouts.responderRecvMax
    clientRecvMax := Gen.DiscoveryLayouts.clientRecvMax
    maxNameChars := Gen.DiscoveryLayouts.maxObjectNameLen }

def hdrSizes (L : Layout) : List Nat := [L.magicSz, L.tagSz, L.idSz, L.tsSz]

/-- field sizes, in order, of the packed (`_pack_ = 1`) structure of each packet class -/
def sizesOf (L : Layout) : Kind → List Nat
  | .infoReq => hdrSizes L ++ [L.wgFilterLen, L.ctxFilterLen]
  | .kill => hdrSizes L
  | .infoResp => hdrSizes L ++ [L.rIdSz, L.rTsSz, L.pidSz, L.nameLen, L.wgLen, L.portSz]

def tagOf (L : Layout) : Kind → Nat
  | .infoReq => L.tagInfoReq
  | .kill => L.tagKillReq
  | .infoResp => L.tagInfoResp

def hdrSize (L : Layout) : Nat := (hdrSizes L).sum
def sizeOf (L : Layout) (k : Kind) : Nat := (sizesOf L k).sum

/-- what the translator's output must satisfy for the model's sequential reading of the fields to be
the ctypes layout, and for the theorems to apply -/
def WellFormed (L : Layout) : Bool :=
  L.lookup == [(L.tagInfoReq, .infoReq, sizeOf L .infoReq), (L.tagKillReq, .kill, sizeOf L .kill),
               (L.tagInfoResp, .infoResp, sizeOf L .infoResp)]
  && L.hdrSizeof == hdrSize L
  && decide (L.magic < 256 ^ L.magicSz)
  && decide (L.tagInfoReq < 256 ^ L.tagSz) && decide (L.tagKillReq < 256 ^ L.tagSz)
  && decide (L.tagInfoResp < 256 ^ L.tagSz)
  && decide (L.tagInfoReq ≠ L.tagKillReq) && decide (L.tagInfoReq ≠ L.tagInfoResp)
  && decide (L.tagKillReq ≠ L.tagInfoResp)
  && L.enumTags.contains L.tagInfoReq && L.enumTags.contains L.tagKillReq && L.enumTags.contains L.tagInfoResp
  && L.rIdSz == L.idSz && L.rTsSz == L.tsSz
  && decide (sizeOf L .infoReq < L.recvMax) && decide (sizeOf L .infoResp < L.clientRecvMax)
  && decide (sizeOf L .infoResp < L.recvMax) && decide (sizeOf L .infoReq < L.clientRecvMax)
  && decide (L.maxNameChars ≤ L.nameLen)

/-- cut a buffer into consecutive fields (`from_buffer_copy` on a packed structure) -/
def splitFields : List Nat → Bytes → List Bytes
  | [], _ => []
  | n :: ns, bs => bs.take n :: splitFields ns (bs.drop n)

/-! ## packets -/

inductive PyExc
  | qmiRuntime            -- `QMI_RuntimeException` (a `QMI_Exception`)
  | valueError
  | unicodeDecodeError
  deriving DecidableEq, Repr

/-- an unpacked packet: its class and the raw bytes of every field, in order
(header: magic, tag, id, timestamp; then the class's own fields) -/
structure Packet where
  kind : Kind
  fields : List Bytes
  deriving DecidableEq, Repr

def Packet.pack (p : Packet) : Bytes := p.fields.flatten
def Packet.fld (p : Packet) (i : Nat) : Bytes := p.fields.getD i []

/-- `unpack_qmi_udp_packet` -/
def unpack (L : Layout) (bs : Bytes) : Except PyExc Packet :=
  if bs.length < L.hdrSizeof then .error .qmiRuntime                       -- too short
  else if leNat (bs.take L.magicSz) ≠ L.magic then .error .qmiRuntime      -- bad magic field
  else
    let tag := leNat ((bs.drop L.magicSz).take L.tagSz)
    if !L.enumTags.contains tag then .error .valueError                    -- enum lookup raises
    else match L.lookup.find? (fun e => e.1 == tag) with
      | none => .error .qmiRuntime                                         -- unknown packet type tag
      | some (_, kind, size) =>
        if bs.length ≠ size then .error .qmiRuntime                        -- unexpected size
        else .ok { kind := kind, fields := splitFields (sizesOf L kind) bs }

/-- `QMI_UdpResponderContextInfoRequestPacket.create` (`none` = `ValueError`: filter too long) -/
def packRequest (L : Layout) (id : Nat) (ts : Bytes) (wgf cnf : Bytes) : Option Bytes :=
  match cwrite L.wgFilterLen wgf, cwrite L.ctxFilterLen cnf with
  | some w, some c =>
    some (leBytes L.magicSz L.magic ++ leBytes L.tagSz L.tagInfoReq ++ leBytes L.idSz id ++ ts ++ w ++ c)
  | _, _ => none

def packKill (L : Layout) (id : Nat) (ts : Bytes) : Bytes :=
  leBytes L.magicSz L.magic ++ leBytes L.tagSz L.tagKillReq ++ leBytes L.idSz id ++ ts

/-- `QMI_UdpResponderContextInfoResponsePacket.create` -/
def packResponse (L : Layout) (id : Nat) (ts : Bytes) (reqId : Nat) (reqTs : Bytes)
    (pid : Int) (name wg : Bytes) (port : Int) : Option Bytes :=
  match cwrite L.nameLen name, cwrite L.wgLen wg with
  | some n, some w =>
    some (leBytes L.magicSz L.magic ++ leBytes L.tagSz L.tagInfoResp ++ leBytes L.idSz id ++ ts
          ++ leBytes L.rIdSz reqId ++ reqTs ++ intBytes L.pidSz pid ++ n ++ w ++ intBytes L.portSz port)
  | _, _ => none

/-! ## the responder -/

/-- what the responding context is -/
structure Ctx where
  name : List Char
  workgroup : List Char
  pid : Int
  port : Int
  deriving DecidableEq, Repr

/-- the character class of `is_valid_object_name`: `[-_a-zA-Z0-9()]` -/
def nameChar (c : Char) : Bool :=
  c == '-' || c == '_' || c == '(' || c == ')' ||
  (decide ('a' ≤ c) && decide (c ≤ 'z')) || (decide ('A' ≤ c) && decide (c ≤ 'Z')) || (decide ('0' ≤ c) && decide (c ≤ '9'))

/-- `is_valid_object_name` (qmi/core/util.py): at most `maxNameChars` characters and
`re.match(r"^[-_a-zA-Z0-9()]+$", name)` — note that `$` also matches before one trailing newline -/
def validObjectName (L : Layout) (name : List Char) : Bool :=
  let body := if name.getLast? = some '\n' then name.dropLast else name
  decide (name.length ≤ L.maxNameChars) && !body.isEmpty && body.all nameChar

/-- `QMI_Context.__init__`: which (context name, workgroup name) pairs a context can be created with
(`false` = `QMI_UsageException`).  The workgroup name must fit the `workgroup_name` field of the
response packet and contain no NUL (fix eeba404). -/
def admitContext (L : Layout) (name workgroup : List Char) : Bool :=
  validObjectName L name && decide ((utf8Encode workgroup).length ≤ L.wgLen) && !(utf8Encode workgroup).contains 0

/-- one datagram event: sender address (opaque), payload, and the two values the responder draws
from its environment when it answers (`random.randint(1, 2**64-1)`, the bits of `time.time()`) -/
structure Dgram where
  addr : Nat
  data : Bytes
  rid : Nat
  now : Bytes
  deriving Repr

inductive Outcome
  | discardedBad                       -- `except QMI_Exception`: "Discarded bad UDP packet."
  | escaped (e : PyExc)                -- exception leaves `_handle_read` (caught by the event loop)
  | noMatch                            -- well-formed request, a filter does not match: no answer
  | sent (addr : Nat) (bs : Bytes)     -- `sendto(bytes(response_packet), incoming_address)`
  | kill                               -- `os._exit(1)`
  | discardedType                      -- packet of a class that is not a request (warning)
  deriving DecidableEq, Repr

/-- `_handle_context_info_request_packet` -/
def handleInfoRequest (L : Layout) (c : Ctx) (d : Dgram) (p : Packet) : Outcome :=
  match utf8Decode (cstr (p.fld 4)) with
  | none => .escaped .unicodeDecodeError
  | some wgf =>
    if !globMatch wgf c.workgroup then .noMatch
    else match utf8Decode (cstr (p.fld 5)) with
      | none => .escaped .unicodeDecodeError
      | some cnf =>
        if !globMatch cnf c.name then .noMatch
        else match packResponse L d.rid d.now (leNat (p.fld 2)) (p.fld 3) c.pid
                     (utf8Encode c.name) (utf8Encode c.workgroup) c.port with
          | some bs => .sent d.addr bs
          | none => .escaped .valueError

/-- `_handle_read` after a successful `recvfrom` -/
def handleRead (L : Layout) (c : Ctx) (d : Dgram) : Outcome :=
  match unpack L (d.data.take L.recvMax) with
  | .error .qmiRuntime => .discardedBad
  | .error e => .escaped e
  | .ok p =>
    match p.kind with
    | .infoReq => handleInfoRequest L c d p
    | .kill => .kill
    | .infoResp => .discardedType

/-- the responder over time: what it is, whether the process still runs, what it has sent -/
structure RState where
  ctx : Ctx
  alive : Bool
  sent : List (Nat × Bytes)
  deriving DecidableEq, Repr

def step (L : Layout) (s : RState) (d : Dgram) : RState :=
  if !s.alive then s
  else match handleRead L s.ctx d with
    | .sent a bs => { s with sent := s.sent ++ [(a, bs)] }
    | .kill => { s with alive := false }
    | _ => s

def run (L : Layout) (s : RState) (ds : List Dgram) : RState := ds.foldl (step L) s

/-! ## the asking side -/

/-- `ping_qmi_contexts`, the receive loop: keep the datagrams that unpack (any failure is ignored:
`except BaseException: continue`) to an info response carrying our request id -/
def pingAccept (L : Layout) (reqId : Nat) (d : Nat × Bytes) : Option (Nat × Packet) :=
  match unpack L (d.2.take L.clientRecvMax) with
  | .ok p => if p.kind = .infoResp ∧ leNat (p.fld 4) = reqId then some (d.1, p) else none
  | .error _ => none

def ping (L : Layout) (reqId : Nat) (ds : List (Nat × Bytes)) : List (Nat × Packet) :=
  ds.filterMap (pingAccept L reqId)

/-- one turn of the receive loop of `ping_qmi_contexts`: the reading of `time.monotonic()` at the top of the
loop (in clock ticks) and what `selector.select(wait_until - t_now)` then reports — a datagram ready on the
socket, or nothing (the time-out elapsed, or a spurious wake-up) -/
structure Turn where
  t : Nat
  ready : Option (Nat × Bytes)
  deriving Repr

/-- `ping_qmi_contexts`, the loop with its clock: `while True: t_now = monotonic(); if t_now >= wait_until: break; …`.
The environment is the list of turns; the loop stops at the first turn whose clock reading has reached the deadline
and looks at nothing after it. -/
def pingLoop (L : Layout) (reqId deadline : Nat) : List Turn → List (Nat × Packet)
  | [] => []
  | u :: rest =>
    if deadline ≤ u.t then []
    else (match u.ready with
          | some d => (pingAccept L reqId d).toList
          | none => []) ++ pingLoop L reqId deadline rest

/-- the datagrams the loop takes from the socket: those of the turns before the first expired one -/
def received (deadline : Nat) (turns : List Turn) : List (Nat × Bytes) :=
  (turns.takeWhile (fun u => decide (u.t < deadline))).filterMap (·.ready)

/-- one entry of the list returned by `discover_peer_contexts`: name, sender address, port -/
structure Peer where
  name : List Char
  addr : Nat
  port : Int
  deriving DecidableEq, Repr

/-- the loop of `discover_peer_contexts` over the responses (`.decode()` may raise) -/
def discoverLoop (self : List Char) : List (Nat × Packet) → Except PyExc (List Peer)
  | [] => .ok []
  | (a, p) :: rest =>
    match utf8Decode (cstr (p.fld 7)) with
    | none => .error .unicodeDecodeError
    | some name =>
      match discoverLoop self rest with
      | .error e => .error e
      | .ok more =>
        if name ≠ self then .ok ({ name := name, addr := a, port := sintOf (p.fld 9) } :: more) else .ok more

def discover (L : Layout) (self : List Char) (reqId : Nat) (ds : List (Nat × Bytes)) : Except PyExc (List Peer) :=
  discoverLoop self (ping L reqId ds)

/-- `discover_peer_contexts` with the clock: `wait_until = monotonic() + timeout` (first reading `t0`) -/
def discoverTimed (L : Layout) (self : List Char) (reqId t0 timeout : Nat) (turns : List Turn) : Except PyExc (List Peer) :=
  discoverLoop self (pingLoop L reqId (t0 + timeout) turns)

/-! ## context start: when the responder becomes reachable

`QMI_Context.start()` is a sequence of calls on the message router.  The responder reports router fields
(`tcp_server_port`, …) *at answer time*; the translator classifies each call of `start()` (in source order):
does it assign a field the responder reports, does it start the responder, or neither. -/

inductive StartCall | other | setsReported | startsResponder
  deriving DecidableEq, Repr

/-- the reported field (the TCP port: 0 until the server socket is bound) and whether the responder is up -/
structure LState where
  port : Nat
  up : Bool
  deriving DecidableEq, Repr

def lstep (bound : Nat) (s : LState) : StartCall → LState
  | .other => s
  | .setsReported => { s with port := bound }
  | .startsResponder => { s with up := true }

def lrun (bound : Nat) (s : LState) (calls : List StartCall) : LState := calls.foldl (lstep bound) s

def orderOk : List StartCall → Bool
  | [] => true
  | .startsResponder :: rest => rest.all (· != .setsReported)
  | _ :: rest => orderOk rest


def startCallOfNat : Nat → StartCall
  | 1 => .setsReported
  | 2 => .startsResponder
  | _ => .other

/-- the calls of the current `QMI_Context.start()` -/
def genStartCalls : List StartCall := Gen.DiscoveryLayouts.startCalls.map startCallOfNat

end QmiModel.Discovery
