/-!
# Model of the NKT Photonics Interbus codec — property C15 (part B)

Mirrors `qmi/instruments/nkt_photonics/nkt_photonics_interbus_protocol.py`
branch by branch:

* `_crc_ccitt`                    ↦ `crcBit`, `crcStep`, `crcOf`
* `_encode_interbus_message`      ↦ `encode`   (range checks, CRC, sequential `bytes.replace` escaping, SOT/EOT)
* `_decode_interbus_message`      ↦ `decode`   (length, SOT/EOT, sequential 2-byte `replace` un-escaping, CRC residue,
                                               `MessageType(...)` lookup)
* `NKTPhotonicsInterbusProtocol._request_response` ↦ `requestResponse` (retry loop with fuel `MAX_RETRY_COUNT`)
* `get_register` / `set_register` ↦ `getRegister` / `setRegister`

Python exceptions are values (`Exc`).  The literal constants of the source
(escape order, address ranges, data limit, retry count, enum values) are the
fields of `Params`; the instance for the current source is regenerated into
`QmiModel/Gen/Layouts.lean` on every run.

The transport is the scripted fake used by the harness: a receive buffer plus a
script of segments (`data` = bytes that arrive, `timeout` = the read times out);
`read_until(b"\n")` returns up to and including the first terminator.

Core Lean only (the driver exe links this file).
-/
namespace QmiModel.Interbus

abbrev Bytes := List UInt8

inductive Exc
  | valueError      -- ValueError
  | timeout         -- QMI_TimeoutException
  | instrument      -- QMI_InstrumentException
  deriving DecidableEq, Repr

/-- literal constants of the source file (regenerated; see `Gen/Layouts.lean`) -/
structure Params where
  escOrder   : List UInt8   -- `for value in [0x5e, 0x0d, 0x0a]` in the encoder
  unescOrder : List UInt8   -- `for value in [0x0a, 0x0d, 0x5e]` in the decoder
  encEsc : UInt8            -- encoder: `bytes([0x5e, value + 0x40])`
  encOff : UInt8
  decEsc : UInt8            -- decoder: `bytes([0x5e, value + 0x40])`
  decOff : UInt8
  encSot : UInt8            -- encoder: `bytes([13]) + … + bytes([10])`
  encEot : UInt8
  decSot : UInt8            -- decoder: `msg[0] == 13 and msg[-1] == 10`
  decEot : UInt8
  readTerm : UInt8          -- `read_until(message_terminator=b"\n")`
  dstLo : Nat
  dstHi : Nat
  srcLo : Nat
  srcHi : Nat
  maxData : Nat
  minFrame : Nat            -- 8: first length test of the decoder
  minBody  : Nat            -- 6: second length test of the decoder
  crcPoly  : Nat            -- 0x1021
  hostBase : Nat            -- HOST_BASE_ADDRESS
  maxRetry : Nat            -- MAX_RETRY_COUNT
  msgTypes : List Nat       -- values of `MessageType`
  tNack : Nat
  tAck : Nat
  tRead : Nat
  tWrite : Nat
  tDatagram : Nat
  deriving Repr, DecidableEq

/-! ## CRC -/

/-- one iteration of the inner `for i in range(8)` loop of `_crc_ccitt` -/
def crcBit (poly : Nat) (crc : Nat) : Nat :=
  let x := (crc <<< 1) &&& 0xffff
  if (crc &&& 0x8000) != 0 then x ^^^ poly else x

/-- `_crc_ccitt(crc, c)` -/
def crcStep (poly : Nat) (crc c : Nat) : Nat :=
  let c0 := crc ^^^ (c <<< 8)
  crcBit poly (crcBit poly (crcBit poly (crcBit poly (crcBit poly (crcBit poly (crcBit poly (crcBit poly c0)))))))

/-- `crc = 0; for b in bs: crc = _crc_ccitt(crc, b)` -/
def crcOf (poly : Nat) (bs : Bytes) : Nat := bs.foldl (fun crc b => crcStep poly crc b.toNat) 0

/-! ## `bytes.replace` for the pattern lengths the code uses -/

/-- `bs.replace(bytes([v]), r)` -/
def replace1 (v : UInt8) (r : Bytes) : Bytes → Bytes
  | [] => []
  | x :: t => if x = v then r ++ replace1 v r t else x :: replace1 v r t

/-- `bs.replace(bytes([a, b]), r)`: left to right, non-overlapping, the output is not rescanned -/
def replace2 (a b : UInt8) (r : Bytes) : Bytes → Bytes
  | [] => []
  | [x] => [x]
  | x :: y :: rest =>
    if x = a ∧ y = b then r ++ replace2 a b r rest else x :: replace2 a b r (y :: rest)

/-- the escaping loop of the encoder -/
def escape (p : Params) (bs : Bytes) : Bytes :=
  p.escOrder.foldl (fun acc v => replace1 v [p.encEsc, v + p.encOff] acc) bs

/-- the un-escaping loop of the decoder -/
def unescape (p : Params) (bs : Bytes) : Bytes :=
  p.unescOrder.foldl (fun acc v => replace2 p.decEsc (v + p.decOff) [v] acc) bs

/-! ## Messages -/

/-- `InterbusMessage`; `mtype` is the *value* of the `MessageType` member; `data = None` is `[]` -/
structure Msg where
  dest : Nat
  src : Nat
  mtype : Nat
  reg : Nat
  data : Bytes
  deriving DecidableEq, Repr

/-- the unescaped frame body without CRC -/
def body (m : Msg) : Bytes :=
  [UInt8.ofNat m.dest, UInt8.ofNat m.src, UInt8.ofNat m.mtype, UInt8.ofNat m.reg] ++ m.data

/-- `_encode_interbus_message` -/
def encode (p : Params) (m : Msg) : Except Exc Bytes :=
  if ¬ (p.dstLo ≤ m.dest ∧ m.dest ≤ p.dstHi) then .error .valueError
  else if ¬ (p.srcLo ≤ m.src ∧ m.src ≤ p.srcHi) then .error .valueError
  else if ¬ (m.data.length ≤ p.maxData) then .error .valueError
  -- `bytearray([dest, source, type, reg])` raises ValueError outside range(256)
  else if ¬ (m.dest < 256 ∧ m.src < 256 ∧ m.mtype < 256 ∧ m.reg < 256) then .error .valueError
  else
    let b := body m
    let crc := crcOf p.crcPoly b
    -- `bytes([crc // 256, crc % 256])` raises ValueError outside range(256)
    if ¬ (crc / 256 < 256) then .error .valueError
    else
      let full := b ++ [UInt8.ofNat (crc / 256), UInt8.ofNat (crc % 256)]
      .ok ([p.encSot] ++ escape p full ++ [p.encEot])

/-- `_decode_interbus_message` -/
def decode (p : Params) (w : Bytes) : Except Exc Msg :=
  if w.length < p.minFrame then .error .valueError
  else if ¬ (w.head? = some p.decSot ∧ w.getLast? = some p.decEot) then .error .valueError
  else
    let inner := (w.drop 1).dropLast
    let u := unescape p inner
    if u.length < p.minBody then .error .valueError
    else if crcOf p.crcPoly u ≠ 0 then .error .valueError
    else
      let b := u.take (u.length - 2)
      let t := (b.getD 2 0).toNat
      -- `MessageType(b[2])` raises ValueError for a value that is no member
      if ¬ (t ∈ p.msgTypes) then .error .valueError
      else .ok { dest := (b.getD 0 0).toNat, src := (b.getD 1 0).toNat, mtype := t,
                 reg := (b.getD 3 0).toNat, data := b.drop 4 }

/-! ## Scripted transport -/

inductive Seg
  | data (bs : Bytes)
  | timeout
  deriving DecidableEq, Repr

structure Tr where
  buf : Bytes := []
  script : List Seg := []
  written : List Bytes := []     -- one entry per `write`, oldest first
  reads : Nat := 0               -- number of `read_until` calls
  deriving DecidableEq, Repr

/-- split after the first `term` -/
def splitTerm (term : UInt8) : Bytes → Option (Bytes × Bytes)
  | [] => none
  | x :: t =>
    if x = term then some ([x], t)
    else match splitTerm term t with
      | some (m, r) => some (x :: m, r)
      | none => none

/-- `read_until(term)` of the fake transport: `none` = QMI_TimeoutException (buffer kept) -/
def readUntil (term : UInt8) : Bytes → List Seg → Option Bytes × Bytes × List Seg
  | buf, script =>
    match splitTerm term buf with
    | some (m, rest) => (some m, rest, script)
    | none =>
      match script with
      | [] => (none, buf, [])
      | .timeout :: s => (none, buf, s)
      | .data d :: s => readUntil term (buf ++ d) s

def Tr.write (t : Tr) (bs : Bytes) : Tr := { t with written := t.written ++ [bs] }

/-- `_read_message` -/
def readMessage (p : Params) (t : Tr) : Except Exc Msg × Tr :=
  match readUntil p.readTerm t.buf t.script with
  | (none, b, s) => (.error .timeout, { t with buf := b, script := s, reads := t.reads + 1 })
  | (some m, b, s) => (decode p m, { t with buf := b, script := s, reads := t.reads + 1 })

/-- the `while True` loop of `_request_response`; `n` = failures still tolerated (`MAX_RETRY_COUNT - failure_counter`) -/
def rrLoop (p : Params) (req : Msg) (enc : Bytes) : Nat → Tr → Except Exc Msg × Tr
  | n, t =>
    match readMessage p t with
    | (.error e, t1) =>
      match n with
      | 0 => (.error (if e = .valueError then .instrument else e), t1)
      | n + 1 => rrLoop p req enc n (t1.write enc)
    | (.ok resp, t1) =>
      if resp.src = req.dest ∧ resp.dest = req.src then (.ok resp, t1)
      else match n with
        | 0 => (.error .instrument, t1)
        | n + 1 => rrLoop p req enc n t1

/-- `_request_response`; returns (result, new `_source_toggle`, transport) -/
def requestResponse (p : Params) (toggle : Nat) (dest mtype reg : Nat) (data : Bytes) (t : Tr) :
    Except Exc Msg × Nat × Tr :=
  let toggle' := (toggle + 1) &&& 1
  let req : Msg := { dest := dest, src := p.hostBase + toggle', mtype := mtype, reg := reg, data := data }
  match encode p req with
  | .error e => (.error e, toggle', t)
  | .ok enc =>
    let (r, t') := rrLoop p req enc p.maxRetry (t.write enc)
    (r, toggle', t')

/-- `get_register` -/
def getRegister (p : Params) (toggle dest reg : Nat) (t : Tr) : Except Exc Bytes × Nat × Tr :=
  match requestResponse p toggle dest p.tRead reg [] t with
  | (.error e, tg, t') => (.error e, tg, t')
  | (.ok r, tg, t') =>
    if r.mtype = p.tNack then (.error .instrument, tg, t')
    else if r.mtype ≠ p.tDatagram then (.error .instrument, tg, t')
    else if r.reg ≠ reg then (.error .instrument, tg, t')
    else (.ok r.data, tg, t')

/-- `set_register` (`data = None` is `[]`) -/
def setRegister (p : Params) (toggle dest reg : Nat) (data : Bytes) (t : Tr) : Except Exc Unit × Nat × Tr :=
  match requestResponse p toggle dest p.tWrite reg data t with
  | (.error e, tg, t') => (.error e, tg, t')
  | (.ok r, tg, t') =>
    if r.mtype = p.tNack then (.error .instrument, tg, t')
    else if r.mtype ≠ p.tAck then (.error .instrument, tg, t')
    else if r.reg ≠ reg then (.error .instrument, tg, t')
    else (.ok (), tg, t')

end QmiModel.Interbus
