/-!
# Model of the RPC forwarding path — property C02

Mirrors, branch by branch (Python exceptions as values):

* `qmi/core/rpc.py`: the generated forwarding stubs of `QMI_RpcProxy` / `QMI_RpcNonBlockingProxy`
  (`make_rpc_forward_function` — one closure per method name), `QMI_RpcFuture.__init__`,
  `send_method_rpc_request_message` (`mkRequest`), `handle_message`, `wait`,
  `_RpcThread._handle_method_rpc_request` + `_check_and_get_method` (`dispatch`, `mkReply`);
* `qmi/core/messaging.py`: `MessageRouter.send_message` (`Node.route`), `MessageRouter.deliver_message`
  (`Node.deliver`), `register/unregister_message_handler`, `_SocketManager.send_message` (`Node.findPeer`),
  `_PeerTcpConnection.send_message` (`Conn.rewriteOut`, `Conn.notePending`),
  `_PeerTcpConnection._process_message` (`Conn.handshakeIn`, `Conn.rewriteIn`, `Conn.popPending`),
  `_SocketManager.add_incoming_connection` (alias `$client_<n>`);
* `qmi/core/context.py`: `QMI_Context.make_unique_address` (`Node.makeUnique`).

Values are opaque (`V` in memory, `W` on the wire); `pickle` is an abstract pair `encode/decode`
(`Pickle`).  Framing is the identity on the payload (property C06 owns the bytes).

Core Lean only (the driver exe links this file).
-/
namespace QmiModel.Forward

/-- `QMI_MessageHandlerAddress(context_id, object_id)` -/
structure Addr where
  ctx : String
  obj : String
  deriving DecidableEq, Repr, Inhabited

/-- `QMI_LockTokenDescriptor(context_id, token)` -/
structure Token where
  ctx : String
  tok : String
  deriving DecidableEq, Repr

/-- `QMI_RpcFutureState` without `NO_RESULT_YET` -/
inductive FState | value | exception | locked
  deriving DecidableEq, Repr

/-- message classes that travel on the forwarding path; what C02 does not own is carried as an opaque tag -/
inductive Body (α : Type) where
  | methodRequest (method : String) (args : List α) (kwargs : List (String × α)) (token : Option Token)
  | methodReply (state : FState) (result : Option α)
  | errorReply (msg : String)
  | otherRequest (tag : String)      -- e.g. `QMI_LockRpcRequestMessage` (C04)
  | lockReply                        -- `QMI_LockRpcReplyMessage` (token payload owned by C04)
  | otherReply (tag : String)        -- any other reply class
  | plain (tag : String)             -- neither request nor reply (signals, C07)
  deriving Repr

/-- `isinstance(message, QMI_RequestMessage)` -/
def Body.isRequest : Body α → Bool
  | .methodRequest .. => true
  | .otherRequest _ => true
  | _ => false

/-- `isinstance(message, QMI_ReplyMessage)` -/
def Body.isReply : Body α → Bool
  | .methodReply .. => true
  | .errorReply _ => true
  | .otherReply _ => true
  | .lockReply => true
  | _ => false

/-- the pickled user values inside a message -/
def Body.values : Body α → List α
  | .methodRequest _ args kwargs _ => args ++ kwargs.map (·.2)
  | .methodReply _ (some r) => [r]
  | _ => []

def Body.map (f : α → β) : Body α → Body β
  | .methodRequest m args kwargs t => .methodRequest m (args.map f) (kwargs.map (fun kv => (kv.1, f kv.2))) t
  | .methodReply s r => .methodReply s (r.map f)
  | .errorReply e => .errorReply e
  | .otherRequest t => .otherRequest t
  | .otherReply t => .otherReply t
  | .lockReply => .lockReply
  | .plain t => .plain t

/-- `List.mapM` in `Option`, written out so that it unfolds in proofs -/
def optMapM (f : α → Option β) : List α → Option (List β)
  | [] => some []
  | a :: as =>
    match f a, optMapM f as with
    | some b, some bs => some (b :: bs)
    | _, _ => none

def Body.mapOpt (f : α → Option β) : Body α → Option (Body β)
  | .methodRequest m args kwargs t =>
    match optMapM f args, optMapM (fun (kv : String × α) => (f kv.2).map (fun b => (kv.1, b))) kwargs with
    | some a, some k => some (.methodRequest m a k t)
    | _, _ => none
  | .methodReply s none => some (.methodReply s none)
  | .methodReply s (some r) => (f r).map (fun b => .methodReply s (some b))
  | .errorReply e => some (.errorReply e)
  | .otherRequest t => some (.otherRequest t)
  | .otherReply t => some (.otherReply t)
  | .lockReply => some .lockReply
  | .plain t => some (.plain t)

/-- `QMI_Message` (+ `request_id` of request / reply messages) -/
structure Msg (α : Type) where
  src : Addr
  dst : Addr
  reqId : String
  body : Body α
  deriving Repr

/-! ## pickle and framing -/

/-- `pickle.dumps` / `pickle.loads` on user values: an abstract pair.  Nothing is assumed here;
the theorems carry `decode (encode v) = some v` for the values of the call as a hypothesis. -/
structure Pickle (V W : Type) where
  encode : V → W
  decode : W → Option V

/-- `pickle.dumps(message)`: the message structure with every user value encoded -/
def Pickle.dumps (P : Pickle V W) (m : Msg V) : Msg W :=
  { src := m.src, dst := m.dst, reqId := m.reqId, body := m.body.map P.encode }

/-- `pickle.loads(packed_message)` -/
def Pickle.loads (P : Pickle V W) (w : Msg W) : Option (Msg V) :=
  (w.body.mapOpt P.decode).map (fun b => { src := w.src, dst := w.dst, reqId := w.reqId, body := b })

/-- `b'P' + size + pickled` … and back: identity on the payload (C06 owns the bytes) -/
def frame (w : Msg W) : Msg W := w
def deframe (w : Msg W) : Option (Msg W) := some w

/-! ## errors -/

inductive Err
  | assertion                    -- AssertionError
  | delivery (why : String)      -- QMI_MessageDeliveryException
  | runtime (why : String)       -- QMI_RuntimeException
  | unpickle                     -- pickle.loads raised / not a QMI_Message
  | duplicateName                -- QMI_DuplicateNameException
  | unknownName                  -- QMI_UnknownNameException
  deriving DecidableEq, Repr

/-! ## `_PeerTcpConnection` -/

structure Conn where
  cid : Nat := 0
  /-- `peer_context_alias`: the peer's real name (outgoing) or `$client_<n>` (incoming) -/
  alias : String
  /-- `peer_context_name`: known after the handshake -/
  peerName : Option String := none
  incoming : Bool := false
  /-- present in `_SocketManager._peer_context_map` -/
  inMap : Bool := true
  /-- `_pending_requests` in insertion order: request id ↦ (source, destination) -/
  pending : List (String × Addr × Addr) := []
  deriving Repr, DecidableEq

/-- first message on a connection: `QMI_InitialHandshakeMessage`; `srcCtx = none` stands for a context name that
is not a string (rejected since 849271e, so that a connection can not stay "waiting for the handshake") -/
def Conn.handshakeIn (c : Conn) (srcCtx : Option String) (isServerHandshake : Bool) : Except Err Conn :=
  match c.peerName with
  | some _ => .error (.runtime "unexpected-handshake")
  | none =>
    match srcCtx with
    | none => .error (.runtime "invalid-context-name")
    | some name =>
      if isServerHandshake && c.incoming then .error (.runtime "server-handshake-from-client")
      else if !isServerHandshake && !c.incoming then .error (.runtime "client-handshake-as-client")
      else .ok { c with peerName := some name }

/-- `_PeerTcpConnection.send_message`, first half: destination alias → real name (on a copy) -/
def Conn.rewriteOut (c : Conn) (m : Msg α) : Except Err (Msg α) :=
  if m.dst.ctx ≠ c.alias then .error .assertion
  else match c.peerName with
    | none => .error .assertion
    | some p => .ok { m with dst := ⟨p, m.dst.obj⟩ }

/-- `_PeerTcpConnection.send_message`, second half (after `sendall`): the pending-request table -/
def Conn.notePending (c : Conn) (m : Msg α) : Conn :=
  if m.body.isRequest then
    if c.pending.any (fun e => e.1 == m.reqId) then c
    else { c with pending := c.pending ++ [(m.reqId, m.src, m.dst)] }
  else c

/-- `_process_message` after the handshake: the two context checks and the source rewrite -/
def Conn.rewriteIn (routerName : String) (c : Conn) (m : Msg α) : Except Err (Msg α) :=
  match c.peerName with
  | none => .error (.runtime "expecting-handshake")
  | some p =>
    if m.dst.ctx ≠ routerName then .error (.delivery "dest")
    else if m.src.ctx ≠ p then .error (.delivery "source")
    else .ok { m with src := ⟨c.alias, m.src.obj⟩ }

/-- `_process_message`: a reply clears its pending entry -/
def Conn.popPending (c : Conn) (m : Msg α) : Conn :=
  if m.body.isReply then { c with pending := c.pending.filter (fun e => e.1 != m.reqId) } else c

/-! ## `QMI_Context` / `MessageRouter` / `_SocketManager` -/

structure Node where
  name : String
  /-- message router started (`_thread` and `_socket_manager` set) -/
  active : Bool := true
  /-- `_unique_counters` -/
  counters : List (String × Nat) := []
  /-- keys of `_address_to_messagehandler_map` -/
  handlers : List String := []
  conns : List Conn := []
  /-- `_peer_name_counter` -/
  peerCounter : Nat := 0
  deriving Repr

def counterGet (cs : List (String × Nat)) (k : String) : Nat :=
  match cs with
  | [] => 0
  | (k', v) :: rest => if k' = k then v else counterGet rest k

def counterSet (cs : List (String × Nat)) (k : String) (v : Nat) : List (String × Nat) :=
  match cs with
  | [] => [(k, v)]
  | (k', v') :: rest => if k' = k then (k, v) :: rest else (k', v') :: counterSet rest k v

/-- `QMI_MessageHandlerAddress(self.name, prefix + str(nr))` -/
def uniqueAddr (name pfx : String) (nr : Nat) : Addr := ⟨name, pfx ++ toString nr⟩

/-- `QMI_Context.make_unique_address(prefix)` -/
def Node.makeUnique (n : Node) (pfx : String) : Node × Addr :=
  let nr := counterGet n.counters pfx + 1
  ({ n with counters := counterSet n.counters pfx nr }, uniqueAddr n.name pfx nr)

/-- `MessageRouter.register_message_handler` -/
def Node.register (n : Node) (obj : String) : Except Err Node :=
  if n.handlers.contains obj then .error .duplicateName
  else .ok { n with handlers := n.handlers ++ [obj] }

/-- `MessageRouter.unregister_message_handler` -/
def Node.unregister (n : Node) (obj : String) : Except Err Node :=
  if n.handlers.contains obj then .ok { n with handlers := n.handlers.filter (· != obj) }
  else .error .unknownName

/-- `_peer_context_map.get(alias)`; the map is a dict: a later `map[alias] = conn` overwrites, so the newest
connection registered under an alias is the one found -/
def Node.findPeer (n : Node) (alias : String) : Option Conn :=
  n.conns.reverse.find? (fun c => c.inMap && c.alias == alias)

inductive Route
  | localDeliver
  | remote (alias : String)        -- handed to the socket thread for the connection of that alias
  deriving DecidableEq, Repr

/-- `MessageRouter.send_message` -/
def Node.route (n : Node) (m : Msg α) : Except Err Route :=
  if m.dst.ctx = n.name then .ok .localDeliver
  else if m.src.ctx ≠ n.name then .error (.delivery "remote-to-remote")
  else if !n.active then .error (.delivery "inactive")
  else if (n.findPeer m.dst.ctx).isNone then .error (.delivery "unknown-context")
  else .ok (.remote m.dst.ctx)

/-- `MessageRouter.deliver_message`: the object id of the handler whose `handle_message` runs -/
def Node.deliver (n : Node) (m : Msg α) : Except Err String :=
  if m.dst.ctx ≠ n.name then .error (.delivery "nonlocal")
  else if n.handlers.contains m.dst.obj then .ok m.dst.obj
  else .error (.delivery "unknown")

/-- `_SocketManager.add_incoming_connection`: the alias of the new connection -/
def Node.acceptConn (n : Node) (cid : Nat) : Node × Conn :=
  let k := n.peerCounter + 1
  let c : Conn := { cid := cid, alias := "$client_" ++ toString k, incoming := true, inMap := true }
  ({ n with peerCounter := k, conns := n.conns ++ [c] }, c)

/-- `_SocketManager.remove_peer_connection` -/
def Node.dropConn (n : Node) (cid : Nat) : Node :=
  { n with conns := n.conns.map (fun c => if c.cid == cid then { c with inMap := false } else c) }

/-- NOT the code: the alias taken from the current *number* of connections instead of the counter.  Here so that
the consequence (an alias still in use is handed out again after a disconnect) is expressible. -/
def Node.acceptConnByMapSize (n : Node) (cid : Nat) : Node × Conn :=
  let k := (n.conns.filter (·.inMap)).length + 1
  let c : Conn := { cid := cid, alias := "$client_" ++ toString k, incoming := true, inMap := true }
  ({ n with conns := n.conns ++ [c] }, c)

/-! ## the proxy side: generated stubs, request construction -/

/-- a generated forwarding function: the method name it captured -/
structure Stub where
  sends : String
  deriving DecidableEq, Repr

/-- `make_rpc_forward_function(method_name)`: a new scope per call, the closure captures *its* `method_name` -/
def mkForward (methodName : String) : Stub := ⟨methodName⟩

/-- the loop of `QMI_RpcProxy.__init__`: `setattr(self, d.name, make_rpc_forward_function(d.name))` -/
def mkStubs (methods : List String) : List (String × Stub) :=
  methods.map (fun n => (n, mkForward n))

/-- the late-binding variant (a lambda closing over the loop variable): every stub sees the variable's
final value, i.e. the last method.  Not what the code does; here so that the bug is expressible. -/
def mkStubsLate (methods : List String) : List (String × Stub) :=
  methods.map (fun n => (n, mkForward (methods.getLast?.getD n)))

/-- how the stubs are bound in the source (extracted from the AST by the translator) -/
inductive Binding | perName | loopVariable
  deriving DecidableEq, Repr

def mkStubsWith : Binding → List String → List (String × Stub)
  | .perName => mkStubs
  | .loopVariable => mkStubsLate

/-- attribute lookup on the proxy instance -/
def stubFor (stubs : List (String × Stub)) (attr : String) : Option Stub :=
  (stubs.find? (fun e => e.1 == attr)).map (·.2)

/-- blocking stub (`blocking_rpc_method_call`) or non-blocking stub (`non_blocking_rpc_method_call` + `wait`) -/
inductive Mode | blocking | nonBlocking
  deriving DecidableEq, Repr

/-- HISTORICAL constant (not read from the source): the positional-or-keyword parameters that the helper called as
`helper(self._context, self._rpc_object_address, method_name, self._lock_token, *args, **kwargs)` had up to commit
04de7e7.  A caller keyword with one of these names collided (`TypeError: got multiple values`); since 266e9a5 the
four parameters are positional-only and the list extracted from the source (`Gen/StubBinding.lean`) is empty. -/
def helperParamsBeforeFix : List String := ["context", "rpc_object_address", "method_name", "rpc_lock_token"]

/-- the keyword the blocking helper keeps for itself (documented proxy-level parameter) -/
def timeoutKw : String := "rpc_timeout"

inductive StubErr | typeError | runtimeError
  deriving DecidableEq, Repr

/-- Python's binding of `**kwargs` against the helper's signature: what reaches `send_method_rpc_request_message` -/
def stubKwargs (mode : Mode) (params : List String) (kwargs : List (String × V)) :
    Except StubErr (List (String × V)) :=
  if kwargs.any (fun kv => params.contains kv.1) then .error .typeError
  else match mode with
    | .blocking => .ok (kwargs.filter (fun kv => kv.1 != timeoutKw))
    | .nonBlocking => if kwargs.any (fun kv => kv.1 == timeoutKw) then .error .runtimeError else .ok kwargs

/-- `QMI_RpcFuture.send_method_rpc_request_message` -/
def mkRequest (futureAddr objAddr : Addr) (reqId : String) (stubName : String)
    (args : List V) (kwargs : List (String × V)) (token : Option Token) : Msg V :=
  { src := futureAddr, dst := objAddr, reqId := reqId, body := .methodRequest stubName args kwargs token }

/-! ## the object side -/

/-- what a method does: returns or raises (the exception object is a value) -/
inductive Res (V : Type) | value (v : V) | exc (e : V)
  deriving Repr

/-- exceptions QMI itself constructs on this path, as values -/
structure Excs (V : Type) where
  unknownRpc : String → V          -- QMI_UnknownRpcException(...)
  delivery : String → V            -- QMI_MessageDeliveryException(error_msg)

/-- the RPC object: lock state and the table of RPC-callable methods -/
structure Obj (V : Type) where
  lock : Option Token
  methods : String → Option (List V → List (String × V) → Res V)

/-- reply construction at the end of `_handle_method_rpc_request` -/
def mkReply (req : Msg V) (st : FState) (result : Option V) : Msg V :=
  { src := req.dst, dst := req.src, reqId := req.reqId, body := .methodReply st result }

inductive Decision | call | unknown | locked
  deriving DecidableEq, Repr

/-- lock check + `_check_and_get_method` (static lookup + `is_rpc_method`: the same test that builds the interface
descriptor, hence `methods` = the interface) -/
def decision (o : Obj V) (method : String) (token : Option Token) : Decision :=
  if o.lock = none ∨ o.lock = token then
    match o.methods method with
    | some _ => .call
    | none => .unknown
  else .locked

/-- `_RpcThread._handle_method_rpc_request` -/
def dispatch (X : Excs V) (o : Obj V) (req : Msg V) : Option (Msg V) :=
  match req.body with
  | .methodRequest method args kwargs token =>
    if o.lock = none ∨ o.lock = token then
      match o.methods method with
      | some f =>
        match f args kwargs with
        | .value v => some (mkReply req .value (some v))
        | .exc e => some (mkReply req .exception (some e))
      | none => some (mkReply req .exception (some (X.unknownRpc method)))
    else some (mkReply req .locked none)
  | _ => none

/-! ## the future -/

inductive FutSt (V : Type)
  | noResult
  | set (st : FState) (result : Option V)
  deriving Repr

/-- `QMI_RpcFuture.handle_message` + `_set_result` (first result wins) -/
def futureHandle (X : Excs V) (f : FutSt V) (m : Msg V) : FutSt V :=
  match f with
  | .set .. => f
  | .noResult =>
    match m.body with
    | .methodReply st r => .set st r
    | .errorReply msg => .set .exception (some (X.delivery msg))
    | .lockReply => .set .value none          -- result = the lock token (C04)
    | _ => .noResult                          -- "received unexpected message type": logged, ignored

/-- what the caller of `future.wait()` / of the blocking stub observes -/
inductive Outcome (V : Type)
  | value (v : V)
  | raised (e : V)
  | lockedError                  -- QMI_RuntimeException("The object is locked by another proxy")
  | invalidException             -- QMI_RuntimeException("Received invalid exception value …")
  | sendFailed (e : Err)         -- raised / recorded at the sending side
  | noAttribute                  -- AttributeError at the proxy
  | stubError (e : StubErr)      -- TypeError / RuntimeError raised by the stub before anything is sent
  | timedOut                     -- QMI_RpcTimeoutException("Timeout in RPC call.")
  | lockToken                    -- a lock request's reply (not a method call)
  | waiting                      -- no result (yet)
  deriving Repr, DecidableEq

/-- `QMI_RpcFuture.wait` on a completed future -/
def wait : FutSt V → Outcome V
  | .noResult => .waiting
  | .set .value (some v) => .value v
  | .set .value none => .lockToken        -- not produced by `dispatch`
  | .set .exception (some e) => .raised e
  | .set .exception none => .invalidException
  | .set .locked _ => .lockedError

/-- `QMI_RpcFuture.wait(timeout)` at the moment the deadline passes: a result that is there is returned as by `wait`,
otherwise `QMI_RpcTimeoutException`; either way the `finally` clause unregisters the future -/
def waitUntilDeadline : FutSt V → Outcome V
  | .noResult => .timedOut
  | f => wait f

/-- the direct call `obj.method(*args, **kwargs)` -/
def directCall (o : Obj V) (name : String) (args : List V) (kwargs : List (String × V)) : Outcome V :=
  match o.methods name with
  | none => .noAttribute
  | some f =>
    match f args kwargs with
    | .value v => .value v
    | .exc e => .raised e

/-! ## one hop between contexts -/

/-- sender side: `MessageRouter.send_message` → `_SocketManager.send_message` → `_PeerTcpConnection.send_message`;
result = the message put on the wire -/
def sendHop (P : Pickle V W) (sender : Node) (m : Msg V) : Except Err (Msg W) :=
  match sender.route m with
  | .error e => .error e
  | .ok .localDeliver => .error (.delivery "local")
  | .ok (.remote a) =>
    match sender.findPeer a with
    | none => .error (.delivery "unknown-context")
    | some c =>
      match c.rewriteOut m with
      | .error e => .error e
      | .ok m' => .ok (frame (P.dumps m'))

/-- receiver side: `_receive_data` → `_process_message` up to the call of `deliver_message` -/
def recvHop (P : Pickle V W) (receiver : Node) (rc : Conn) (w : Msg W) : Except Err (Msg V) :=
  match deframe w with
  | none => .error .unpickle
  | some w' =>
    match P.loads w' with
    | none => .error .unpickle
    | some m => rc.rewriteIn receiver.name m

def transfer (P : Pickle V W) (sender receiver : Node) (rc : Conn) (m : Msg V) : Except Err (Msg V) :=
  match sendHop P sender m with
  | .error e => .error e
  | .ok w => recvHop P receiver rc w

/-! ## a whole call through a proxy -/

inductive Placement | sameContext | peerContext
  deriving DecidableEq, Repr

/-- blocking call (= non-blocking call + `wait`) on a proxy of an object in the caller's own context -/
def localCall (X : Excs V) (mode : Mode) (params : List String) (ctx : Node) (o : Obj V)
    (stubs : List (String × Stub)) (futureAddr objAddr : Addr) (reqId : String)
    (attr : String) (args : List V) (kwargs : List (String × V)) (token : Option Token) : Outcome V :=
  match stubFor stubs attr with
  | none => .noAttribute
  | some stub =>
    match stubKwargs mode params kwargs with
    | .error e => .stubError e
    | .ok kwargs' =>
    let req := mkRequest futureAddr objAddr reqId stub.sends args kwargs' token
    match ctx.route req with
    | .error e => .sendFailed e
    | .ok (.remote _) => .waiting
    | .ok .localDeliver =>
      match ctx.deliver req with
      | .error e => .sendFailed e
      | .ok _ =>
        match dispatch X o req with
        | none => .waiting
        | some reply =>
          match ctx.route reply with
          | .ok .localDeliver =>
            match ctx.deliver reply with
            | .ok h => if h = futureAddr.obj then wait (futureHandle X .noResult reply) else .waiting
            | .error _ => .waiting
          | _ => .waiting

/-- the same call on a proxy of an object in a connected peer context:
`cli` is the caller's context, `srv` the object's; `cc`/`sc` the two ends of the connection -/
def peerCall (P : Pickle V W) (X : Excs V) (mode : Mode) (params : List String) (cli srv : Node) (cc sc : Conn)
    (o : Obj V) (stubs : List (String × Stub)) (futureAddr objAddr : Addr) (reqId : String)
    (attr : String) (args : List V) (kwargs : List (String × V)) (token : Option Token) : Outcome V :=
  match stubFor stubs attr with
  | none => .noAttribute
  | some stub =>
    match stubKwargs mode params kwargs with
    | .error e => .stubError e
    | .ok kwargs' =>
    let req := mkRequest futureAddr objAddr reqId stub.sends args kwargs' token
    match transfer P cli srv sc req with
    | .error e => .sendFailed e
    | .ok req' =>
      match srv.deliver req' with
      | .error e => .sendFailed e
      | .ok _ =>
        match dispatch X o req' with
        | none => .waiting
        | some reply =>
          match transfer P srv cli cc reply with
          | .error _ => .waiting
          | .ok reply' =>
            match cli.deliver reply' with
            | .ok h => if h = futureAddr.obj then wait (futureHandle X .noResult reply') else .waiting
            | .error _ => .waiting

/-- the call through a proxy, for either placement (same context: the caller lives in `srv` itself) -/
def proxyCall (pl : Placement) (P : Pickle V W) (X : Excs V) (mode : Mode) (params : List String)
    (cli srv : Node) (cc sc : Conn) (o : Obj V) (stubs : List (String × Stub)) (futureAddr objAddr : Addr)
    (reqId : String) (attr : String) (args : List V) (kwargs : List (String × V)) (token : Option Token) : Outcome V :=
  match pl with
  | .sameContext => localCall X mode params srv o stubs futureAddr objAddr reqId attr args kwargs token
  | .peerContext => peerCall P X mode params cli srv cc sc o stubs futureAddr objAddr reqId attr args kwargs token

/-! ## limits that live in the source: message size, queue bounds -/

/-- one comparison against `MAX_MESSAGE_SIZE` as it stands in the source: the message is refused iff
`offset + pickledSize > limit` (`strict`) resp. `≥ limit` -/
structure SizeCheck where
  site : String
  sender : Bool
  offset : Nat
  strict : Bool
  deriving DecidableEq, Repr

def SizeCheck.refuses (c : SizeCheck) (limit size : Nat) : Bool :=
  if c.strict then decide (c.offset + size > limit) else decide (c.offset + size ≥ limit)

/-- a queue constructed on the path of a request or reply; `bound = none`: constructed without `maxlen`/`maxsize` -/
structure QueueDecl where
  site : String
  bound : Option Nat
  deriving DecidableEq, Repr

/-- `deque.append` for `deque()` / `deque(maxlen=m)`: the request queue of `_RpcThread` -/
def fifoPush (bound : Option Nat) (q : List α) (r : α) : List α :=
  match bound with
  | none => q ++ [r]
  | some m => (q ++ [r]).drop ((q ++ [r]).length - m)

/-! ## the lock token a proxy forwards -/

/-- `_lock_token` of a `QMI_RpcProxy` and of its `rpc_nonblocking` companion -/
structure ProxyTokens where
  blocking : Option Token := none
  nonBlocking : Option Token := none
  deriving DecidableEq, Repr

/-- what `lock()`, `unlock()` and `force_unlock()` do with the reply of the lock request -/
inductive LockEvent
  | lockReply (mine : Token) (theirs : Option Token)     -- `lock()`: granted iff the reply carries my token
  | unlockReply (theirs : Option Token)                  -- `unlock()`: done iff the reply carries no token
  | forceUnlockReply (theirs : Option Token)             -- `force_unlock()`: likewise

def ProxyTokens.step (p : ProxyTokens) : LockEvent → ProxyTokens
  | .lockReply mine theirs => if theirs = some mine then ⟨some mine, some mine⟩ else p
  | .unlockReply theirs => if theirs = none then ⟨none, none⟩ else p
  | .forceUnlockReply theirs => if theirs = none then ⟨none, none⟩ else p

/-! ## many callers in one context: futures as registered handlers -/

/-- the caller's context, reduced to what reply routing needs: the per-prefix counter and the
registered futures (`object_id ↦ state`) -/
structure Client (V : Type) where
  name : String
  counter : Nat
  futs : List (String × FutSt V)

def futurePrefix : String := "$future_"

/-- `QMI_RpcFuture.__init__`: fresh address from the counter, handler registered -/
def Client.newFuture (c : Client V) : Client V × Addr :=
  let nr := c.counter + 1
  let a := uniqueAddr c.name futurePrefix nr
  ({ c with counter := nr, futs := c.futs ++ [(a.obj, .noResult)] }, a)

def updFirst (k : String) (g : FutSt V → FutSt V) : List (String × FutSt V) → List (String × FutSt V)
  | [] => []
  | (k', f) :: rest => if k' = k then (k', g f) :: rest else (k', f) :: updFirst k g rest

def lookupFut (k : String) : List (String × FutSt V) → Option (FutSt V)
  | [] => none
  | (k', f) :: rest => if k' = k then some f else lookupFut k rest

/-- `deliver_message` + `QMI_RpcFuture.handle_message`: only the handler registered under the
destination object id sees the message -/
def Client.deliverReply (X : Excs V) (c : Client V) (m : Msg V) : Client V :=
  if m.dst.ctx ≠ c.name then c
  else { c with futs := updFirst m.dst.obj (fun f => futureHandle X f m) c.futs }

/-- `unregister_message_handler(future)` in the `finally` of `wait` -/
def Client.unregister (c : Client V) (k : String) : Client V :=
  { c with futs := c.futs.filter (fun e => e.1 != k) }

def Client.deliverAll (X : Excs V) (c : Client V) (ms : List (Msg V)) : Client V :=
  ms.foldl (Client.deliverReply X) c

/-- `n` callers create their futures one after the other (in any thread order: the counter is under a lock) -/
def Client.issue : Nat → Client V → Client V × List Addr
  | 0, c => (c, [])
  | n + 1, c =>
    let (c1, a) := c.newFuture
    let (c2, as) := Client.issue n c1
    (c2, a :: as)

end QmiModel.Forward
