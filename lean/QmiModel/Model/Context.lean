/-!
# Model of the context lifecycle (property C12)

Mirrors, branch by branch, `qmi/core/context.py` (`QMI_Context.__init__/start/stop`,
`_internal_make_rpc_object`, `remove_rpc_object`, `get_rpc_object_by_name`,
`register_stop_handler`), `qmi/core/context_singleton.py` (`start`, `stop`, `context`,
`_connect_to_peers`), `qmi/core/rpc.py` (`RpcObjectManager.start/stop/handle_message`,
the tail of `_RpcThread.run`: `release_rpc_object` inside `try/except BaseException`),
`qmi/core/messaging.py` (`MessageRouter.start/stop/start_tcp_server/start_udp_responder/
register_message_handler/unregister_message_handler/deliver_message`),
`qmi/core/task.py` (`QMI_TaskRunner.__init__/release_rpc_object/start/stop/join`) and
`qmi/core/instrument.py` (`open/close/release_rpc_object`).

Three layers:

* **A** one context: `step : Ctx → Op → Ctx × Out` (every public operation is atomic; this is
  what a single-threaded program sees);
* **B** the process-wide singleton: `pstep : Proc → POp → Proc × Out` (`qmi.start/stop/context`
  and the forwarding functions);
* **C** `stop ‖ make`: the same code cut at its lock boundaries (`_rpc_object_map_lock`, the
  router's handler-map lock, `manager.stop()`), two program counters, a schedule picks who moves.
  Layer A's `make`/`stop` are *defined* as the sequential composition of the layer-C steps.

Abstractions: names are `Nat` (`0` is the internal `"$context"` object created by
`QMI_Context.__init__`); name validity (`is_valid_object_name`) is an input flag; a manager
(`RpcObjectManager` + its `_RpcThread` + the object it owns) is an `Obj` with a creation index
`id`.  Threads are *derived*: one router thread iff `routerUp`, one RPC thread per entry of
`mgrs`, one task thread per task whose `_TaskThread` has not ended.  Python exceptions are
values (`Exc`).  `log` is the per-operation event list (handler registration, release, join)
compared with taps on the real code.

Core Lean only.
-/
namespace QmiModel.Context

abbrev Name := Nat

inductive Kind | rpc | instr | task
  deriving DecidableEq, Repr

/-- what the test task's `run()` does once started: loop until stopped, raise, or return -/
inductive RunB | loop | raise | finish
  deriving DecidableEq, Repr

/-- state of a task: `ready` (thread parked in READY_TO_RUN), `running`, `ended` (run() returned
or raised; thread dead, not joined), `joined` -/
inductive TaskSt | ready | running | ended | joined
  deriving DecidableEq, Repr

structure Obj where
  id     : Nat
  name   : Name
  kind   : Kind
  relF   : Bool      -- `release_rpc_object` raises
  runB   : RunB
  isOpen : Bool      -- instrument `_is_open`
  ts     : TaskSt
  started : Bool     -- `start()` was called (so `run()` ran, and raised if `runB = raise`)
  deriving DecidableEq, Repr

/-- a stop handler: returns, raises an `Exception`, raises a non-`Exception` `BaseException` -/
inductive HF | ok | exc | base
  deriving DecidableEq, Repr

inductive Exc
  | usage | duplicate | unknownName | invalidOp | delivery | value | taskInit | taskRun
  | unknownRpc | os | connRefused | assertion | noActive | boom | base | logging
  deriving DecidableEq, Repr

inductive Out | ok | exc (e : Exc) | hang
  deriving DecidableEq, Repr

inductive Conn | tcp | udp | peer (i : Nat)
  deriving DecidableEq, Repr

inductive Ev
  | reg (n : Name) (id : Nat) | unreg (n : Name) (id : Nat) | rel (id : Nat) | join (id : Nat)
  | handler (i : Nat)
  | warn (id : Nat)      -- `QMI_Instrument.release_rpc_object`: "removed while still open" (the transport is NOT closed)
  | tstop (id : Nat)     -- `QMI_TaskRunner.release_rpc_object`: task not joined, `stop()` + `join()` of its thread
  | relExc (id : Nat)    -- the release step raised; `_RpcThread.run` logs and swallows it
  deriving DecidableEq, Repr

structure Ctx where
  cfgTcp   : Bool                          -- a TCP server port is configured
  objMap   : List (Name × Option Nat)      -- `_rpc_object_map` in dict order; `none` = reserved / being removed
  handlers : List (Name × Nat)             -- router handler map restricted to RPC object managers, dict order
  mgrs     : List Obj                      -- managers whose RPC thread is alive, creation order
  conns    : List Conn                     -- sockets owned by the socket manager
  active   : Bool
  used     : Bool
  routerUp : Bool                          -- `_message_router._thread is not None`
  tcpSet   : Bool                          -- `_message_router.tcp_server_port != 0`
  nextId   : Nat
  released : List Nat                      -- ids in the order their `release_rpc_object` ran
  leftOpen : List Nat                      -- instruments released while open: their transport stays open
  stopH    : List HF
  hcalls   : List Nat                      -- invocation count per stop handler
  log      : List Ev
  deriving DecidableEq, Repr

def ctxObj : Obj := { id := 0, name := 0, kind := .rpc, relF := false, runB := .loop, isOpen := false, ts := .ready, started := false }

/-- `QMI_Context.__init__`: the `$context` object exists (thread, handler, map entry) before `start()` -/
def Ctx.init (cfgTcp : Bool) : Ctx :=
  { cfgTcp, objMap := [(0, some 0)], handlers := [(0, 0)], mgrs := [ctxObj], conns := [],
    active := false, used := false, routerUp := false, tcpSet := false, nextId := 1,
    released := [], leftOpen := [], stopH := [], hcalls := [], log := [.reg 0 0] }

def Obj.taskAlive (o : Obj) : Bool := o.kind == .task && (o.ts == .ready || o.ts == .running)

/-- live threads: (router, RPC threads, task threads) -/
def Ctx.threads (c : Ctx) : Nat × Nat × Nat :=
  ((if c.routerUp then 1 else 0), c.mgrs.length, (c.mgrs.filter Obj.taskAlive).length)

def Ctx.threadCount (c : Ctx) : Nat := c.threads.1 + c.threads.2.1 + c.threads.2.2

/-- what a finished operation may leave behind -/
structure Residue where
  objMap   : List (Name × Option Nat)
  handlers : List (Name × Nat)
  mgrs     : List Obj
  conns    : List Conn
  routerUp : Bool
  deriving DecidableEq, Repr

def Ctx.residue (c : Ctx) : Residue :=
  { objMap := c.objMap, handlers := c.handlers, mgrs := c.mgrs, conns := c.conns, routerUp := c.routerUp }

def Residue.empty : Residue := { objMap := [], handlers := [], mgrs := [], conns := [], routerUp := false }

/-! ### dictionary helpers -/

def hasKey {β : Type} (m : List (Name × β)) (n : Name) : Bool := m.any (fun e => e.1 == n)

def lookupId (m : List (Name × Option Nat)) (n : Name) : Option Nat :=
  match m.find? (fun e => e.1 == n) with
  | some (_, some i) => some i
  | _ => none

def setKey {β : Type} (m : List (Name × β)) (n : Name) (v : β) : List (Name × β) :=
  m.map (fun e => if e.1 == n then (n, v) else e)

def delKey {β : Type} (m : List (Name × β)) (n : Name) : List (Name × β) := m.filter (fun e => e.1 != n)

def findMgr (c : Ctx) (id : Nat) : Option Obj := c.mgrs.find? (fun o => o.id == id)

def updMgr (c : Ctx) (id : Nat) (f : Obj → Obj) : Ctx :=
  { c with mgrs := c.mgrs.map (fun o => if o.id == id then f o else o) }

/-! ### the steps between lock boundaries (shared by layers A and C) -/

/-- `_internal_make_rpc_object`, first `with self._rpc_object_map_lock` block -/
def mkReserve (c : Ctx) (n : Name) : Except Exc Ctx :=
  if !c.active then .error .invalidOp
  else if hasKey c.objMap n then .error .duplicate
  else .ok { c with objMap := c.objMap ++ [(n, none)] }

/-- `RpcObjectManager(...)`, `manager.start()`, `manager.make_proxy()`: the constructor runs in the new
thread; on failure that thread stores the exception and returns (for a task the runner has already
joined the task thread), so nothing is added. -/
def mkConstruct (c : Ctx) (k : Kind) (n : Name) (ctorF relF : Bool) (runB : RunB) : Ctx × Option Obj :=
  let id := c.nextId
  let c := { c with nextId := id + 1 }
  if ctorF then (c, none)
  else
    let o : Obj := { id, name := n, kind := k, relF, runB, isOpen := false, ts := .ready, started := false }
    ({ c with mgrs := c.mgrs ++ [o] }, some o)

/-- second `with self._rpc_object_map_lock` block: re-check `_active`, publish the manager (the handler
registration that follows, `register`, happens inside the same block) -/
def mkPublish (c : Ctx) (n : Name) (o : Obj) : Except Exc Ctx :=
  if !c.active then .error .invalidOp
  else .ok { c with objMap := setKey c.objMap n (some o.id) }

/-- `MessageRouter.register_message_handler` -/
def register (c : Ctx) (n : Name) (id : Nat) : Except Exc Ctx :=
  if hasKey c.handlers n then .error .duplicate
  else .ok { c with handlers := c.handlers ++ [(n, id)], log := c.log ++ [.reg n id] }

/-- `MessageRouter.unregister_message_handler`: the registered handler must be *this* manager -/
def unregister (c : Ctx) (n : Name) (id : Nat) : Except Exc Ctx :=
  match c.handlers.find? (fun e => e.1 == n) with
  | some (_, i) =>
    if i == id then .ok { c with handlers := delKey c.handlers n, log := c.log ++ [.unreg n id] }
    else .error .unknownName
  | none => .error .unknownName

/-- what `release_rpc_object()` does, per category (`instrument.py`, `task.py`, the test classes' override):
an instrument only *warns* if it is still open; a task runner that was not joined stops its task and joins the task
thread, and that `join()` raises `QMI_TaskRunException` if the task body had raised; the object's own release code may
raise.  Every exception is caught by `_RpcThread.run` (`except BaseException`: logged, swallowed). -/
def relEvents (o : Obj) : List Ev :=
  [.rel o.id] ++
  (if o.kind == .instr && o.isOpen then [.warn o.id] else []) ++
  (if o.kind == .task && o.ts != .joined then [.tstop o.id] else []) ++
  (if o.relF || (o.kind == .task && o.ts != .joined && o.started && o.runB == .raise) then [.relExc o.id] else []) ++
  [.join o.id]

def leftOpenOf (o : Obj) : List Nat := if o.kind == .instr && o.isOpen then [o.id] else []

/-- `RpcObjectManager.stop()` of an initialised object: `_running = False`, thread shutdown, the thread rejects queued
requests (layer D: `Model/ContextCalls.lean`), runs the release step (`relEvents`), ends; `join()`. -/
def mgrStop (c : Ctx) (o : Obj) : Ctx :=
  { c with released := c.released ++ [o.id],
           leftOpen := c.leftOpen ++ leftOpenOf o,
           mgrs := c.mgrs.filter (fun x => x.id != o.id),
           log := c.log ++ relEvents o }

/-- `manager.stop()` after a failed constructor: the thread has already returned; no release step -/
def mgrStopFailed (c : Ctx) (id : Nat) : Ctx := { c with log := c.log ++ [.join id] }

/-- `del self._rpc_object_map[name]` under the lock -/
def delName (c : Ctx) (n : Name) : Ctx := { c with objMap := delKey c.objMap n }

def ctorExc (k : Kind) : Exc := if k == .task then .taskInit else .boom

/-! ### layer A: one context, atomic operations -/

/-- `make_rpc_object / make_instrument / make_task` -/
def make (c : Ctx) (k : Kind) (n : Name) (valid ctorF relF : Bool) (runB : RunB) : Ctx × Out :=
  if !valid then (c, .exc .usage)
  else match mkReserve c n with
  | .error e => (c, .exc e)
  | .ok c1 =>
    match mkConstruct c1 k n ctorF relF runB with
    | (c2, none) => (delName (mgrStopFailed c2 c1.nextId) n, .exc (ctorExc k))
    | (c2, some o) =>
      match mkPublish c2 n o with
      | .error e => (delName (mgrStop c2 o) n, .exc e)
      | .ok c3 =>
        match register c3 n o.id with
        | .error e => (c3, .exc e)       -- published, proxy exists: neither `finally` undoes anything
        | .ok c4 => (c4, .ok)

/-- `remove_rpc_object(proxy)` for a proxy whose address is `(this context, n)` -/
def remove (c : Ctx) (n : Name) : Ctx × Out :=
  match lookupId c.objMap n with
  | none => (c, .exc .unknownName)
  | some id =>
    let c1 := { c with objMap := setKey c.objMap n none }
    match unregister c1 n id with
    | .error e => (c1, .exc e)
    | .ok c2 =>
      let c3 := delName c2 n
      match findMgr c3 id with
      | some o => (mgrStop c3 o, .ok)
      | none => (c3, .exc .assertion)    -- `assert self._rpc_thread is not None`

/-- a blocking call through a proxy for name `n`: `deliver_message` → `RpcObjectManager.handle_message` -/
def reach (c : Ctx) (n : Name) : Except Out Obj :=
  match c.handlers.find? (fun e => e.1 == n) with
  | none => .error (.exc .delivery)
  | some (_, id) =>
    match findMgr c id with
    | some o => .ok o
    | none => .error .hang               -- handler registered, worker thread gone: nobody answers

def call (c : Ctx) (n : Name) : Out :=
  match reach c n with
  | .ok _ => .ok
  | .error e => e

/-- `get_rpc_object_by_name / get_instrument / get_task ("<ctx>.<n>")`: asks the `$context` object -/
def get (c : Ctx) (n : Name) : Out :=
  match reach c 0 with
  | .error e => e
  | .ok _ => if (lookupId c.objMap n).isSome then .ok else .exc .value

def iopen (c : Ctx) (n : Name) : Ctx × Out :=
  match reach c n with
  | .error e => (c, e)
  | .ok o =>
    if o.kind != .instr then (c, .exc .unknownRpc)
    else if o.isOpen then (c, .exc .invalidOp)
    else (updMgr c o.id (fun x => { x with isOpen := true }), .ok)

def iclose (c : Ctx) (n : Name) : Ctx × Out :=
  match reach c n with
  | .error e => (c, e)
  | .ok o =>
    if o.kind != .instr then (c, .exc .unknownRpc)
    else if !o.isOpen then (c, .exc .invalidOp)
    else (updMgr c o.id (fun x => { x with isOpen := false }), .ok)

/-- `proxy.start()` of a task -/
def tstart (c : Ctx) (n : Name) : Ctx × Out :=
  match reach c n with
  | .error e => (c, e)
  | .ok o =>
    if o.kind != .task then (c, .exc .unknownRpc)
    else if o.ts != .ready then (c, .exc .usage)
    else (updMgr c o.id (fun x => { x with ts := if x.runB == .loop then .running else .ended, started := true }), .ok)

/-- `proxy.stop(); proxy.join()` of a task -/
def tjoin (c : Ctx) (n : Name) : Ctx × Out :=
  match reach c n with
  | .error e => (c, e)
  | .ok o =>
    if o.kind != .task then (c, .exc .unknownRpc)
    else
      let failed := o.runB == .raise && o.started
      (updMgr c o.id (fun x => { x with ts := .joined }), if failed then .exc .taskRun else .ok)

def addH (c : Ctx) (f : HF) : Ctx × Out :=
  ({ c with stopH := c.stopH ++ [f], hcalls := c.hcalls ++ [0] }, .ok)

/-- `MessageRouter.stop()`: every socket is closed, the thread ends, the TCP server port is forgotten -/
def routerStop (c : Ctx) : Ctx := { c with conns := [], routerUp := false, tcpSet := false }

/-- `QMI_Context.start()`; `tcpF` / `udpF`: `bind` raises `OSError`.  A start step that raises is rolled back:
`except BaseException: self._message_router.stop(); raise`. -/
def start (c : Ctx) (tcpF udpF : Bool) : Ctx × Out :=
  if c.active then (c, .exc .usage)
  else if c.used then (c, .exc .usage)
  else if c.routerUp then (c, .exc .assertion)          -- `MessageRouter.start`: `assert self._thread is None`
  else
    let c1 := { c with routerUp := true }
    if c1.cfgTcp && tcpF then (routerStop c1, .exc .os)
    else
      let c2 := if c1.cfgTcp then { c1 with tcpSet := true, conns := c1.conns ++ [.tcp] } else c1
      if udpF then (routerStop c2, .exc .os)
      else ({ c2 with conns := c2.conns ++ [.udp], active := true, used := true }, .ok)

/-- index of the first stop handler that raises a non-`Exception` -/
def firstBase : List HF → Nat → Option Nat
  | [], _ => none
  | .base :: _, i => some i
  | _ :: r, i => firstBase r (i + 1)

def bumpUpTo (cs : List Nat) (k : Nat) : List Nat :=
  (cs.zipIdx).map (fun (x, i) => if i ≤ k then x + 1 else x)

/-- `stop()` up to and including `self._message_router.stop()` -/
def stopHead (c : Ctx) : Except Exc Ctx :=
  if !c.active then .error .usage
  else match firstBase c.stopH 0 with
  | some _ => .error .base
  | none => .ok { c with hcalls := c.hcalls.map (· + 1), conns := [], routerUp := false, tcpSet := false,
                         log := c.log ++ (List.range c.stopH.length).map Ev.handler }

/-- the state change of the aborted `stop()` when handler `i` raised a non-`Exception` -/
def stopAborted (c : Ctx) : Ctx :=
  match firstBase c.stopH 0 with
  | some i => { c with hcalls := bumpUpTo c.hcalls i, log := c.log ++ (List.range (i + 1)).map Ev.handler }
  | none => c

/-- managers found under the lock, in dict order -/
def collect (c : Ctx) : List (Name × Nat) :=
  c.objMap.filterMap (fun e => match e.2 with | some i => some (e.1, i) | none => none)

/-- `with self._rpc_object_map_lock: self._active = False; …; del self._rpc_object_map[name]` -/
def stopCollect (c : Ctx) : Ctx × List (Name × Nat) :=
  ({ c with active := false, objMap := c.objMap.filter (fun e => e.2.isNone) }, collect c)

/-- `for manager in managers: self.unregister_message_handler(manager); manager.stop()` -/
def stopManagers (c : Ctx) : List (Name × Nat) → Ctx × Out
  | [] => (c, .ok)
  | (n, id) :: rest =>
    match unregister c n id with
    | .error e => (c, .exc e)
    | .ok c1 =>
      match findMgr c1 id with
      | some o => stopManagers (mgrStop c1 o) rest
      | none => (c1, .exc .assertion)

/-- `QMI_Context._stop_rpc_objects()` -/
def stopRpcObjects (c : Ctx) : Ctx × Out :=
  let (c2, ms) := stopCollect c
  stopManagers c2 ms

def stop (c : Ctx) : Ctx × Out :=
  match stopHead c with
  | .error .base => (stopAborted c, .exc .base)
  | .error e => (c, .exc e)
  | .ok c1 => stopRpcObjects c1

/-- `QMI_Context._discard()` (called by `qmi.start()` when starting failed): `stop()` if the context became
active, else mark it used and stop its internal `$context` object -/
def discard (c : Ctx) : Ctx × Out :=
  if c.active then stop c
  else stopRpcObjects { c with used := true }

inductive Op
  | make (k : Kind) (n : Name) (valid ctorF relF : Bool) (runB : RunB)
  | remove (n : Name)
  | removeForeign
  | get (n : Name)
  | call (n : Name)
  | iopen (n : Name) | iclose (n : Name)
  | tstart (n : Name) | tjoin (n : Name)
  | addH (f : HF)
  | start (tcpF udpF : Bool)
  | stop
  deriving DecidableEq, Repr

def step (c0 : Ctx) (op : Op) : Ctx × Out :=
  let c := { c0 with log := [] }
  match op with
  | .make k n v cf rf rb => make c k n v cf rf rb
  | .remove n => remove c n
  | .removeForeign => (c, .exc .usage)
  | .get n => (c, get c n)
  | .call n => (c, call c n)
  | .iopen n => iopen c n
  | .iclose n => iclose c n
  | .tstart n => tstart c n
  | .tjoin n => tjoin c n
  | .addH f => addH c f
  | .start t u => start c t u
  | .stop => stop c

def run (c : Ctx) : List Op → Ctx
  | [] => c
  | op :: ops => run (step c op).1 ops

def outs (c : Ctx) : List Op → List Out
  | [] => []
  | op :: ops => (step c op).2 :: outs (step c op).1 ops

/-- "can the process start a context of the same configuration now": a fresh `QMI_Context` is started while
`old` is what the previous one left behind (its TCP listener, if still open, holds the port) -/
def freshStart (old : Ctx) : Out :=
  if old.cfgTcp && old.conns.contains .tcp then .exc .os else (start (Ctx.init old.cfgTcp) false false).2

/-! ### layer B: the process-wide singleton (`context_singleton.py`) -/

structure Proc where
  single  : Option Ctx
  dropped : List Ctx          -- contexts `qmi.start()` gave up on (after `_discard()`); nobody holds them any more
  deriving DecidableEq, Repr

def Proc.init : Proc := { single := none, dropped := [] }

/-- `_connect_to_peers`: `reach[i]` says whether peer `i` accepts; a refused connection raises -/
def connectPeers (c : Ctx) : List Bool → Nat → Ctx × Out
  | [], _ => (c, .ok)
  | true :: rest, i => connectPeers { c with conns := c.conns ++ [.peer i] } rest (i + 1)
  | false :: _, _ => (c, .exc .connRefused)

/-- the `except BaseException` branch of `qmi.start()`: forget the global, `_discard()` the context, re-raise
(an exception escaping `_discard()` replaces the original one) -/
def qstartFailed (p : Proc) (c : Ctx) (o : Out) : Proc × Out :=
  match discard c with
  | (d, .ok) => ({ single := none, dropped := p.dropped ++ [d] }, o)
  | (d, e) => ({ single := none, dropped := p.dropped ++ [d] }, e)

/-- `qmi.start(name, context_cfg=…)` -/
def qstart (p : Proc) (validName cfgTcp tcpF udpF : Bool) (peers : List Bool) (logF : Bool) : Proc × Out :=
  match p.single with
  | some _ => (p, .exc .usage)
  | none =>
    if !validName then (p, .exc .usage)           -- `QMI_Context(...)` raises before the global is assigned
    else
      let c := Ctx.init cfgTcp                      -- `_qmi_context = QMI_Context(...)`
      -- first step inside the `try`: `_init_logging()` (log directory cannot be created, unknown level name, …)
      if logF then qstartFailed p c (.exc .logging)
      else match start c tcpF udpF with
      | (c1, .ok) =>
        match connectPeers c1 peers 0 with
        | (c2, .ok) => ({ p with single := some c2 }, .ok)
        | (c2, o) => qstartFailed p c2 o
      | (c1, o) => qstartFailed p c1 o

/-- `qmi.stop()` -/
def qstop (p : Proc) : Proc × Out :=
  match p.single with
  | none => (p, .exc .noActive)
  | some c =>
    match stop { c with log := [] } with
    | (_, .ok) => ({ p with single := none }, .ok)
    | (c1, o) => ({ p with single := some c1 }, o)

inductive POp
  | qstart (validName cfgTcp tcpF udpF : Bool) (peers : List Bool) (logF : Bool)
  | qstop
  | qcontext
  | op (o : Op)                                    -- `qmi.make_rpc_object`, `qmi.get_task`, … and `qmi.context().…`
  deriving DecidableEq, Repr

/-- the per-operation event list starts empty -/
def Proc.clr (p : Proc) : Proc := { p with single := p.single.map (fun c => { c with log := [] }) }

def pstep' (p : Proc) : POp → Proc × Out
  | .qstart v t tf uf peers lf => qstart p v t tf uf peers lf
  | .qstop => qstop p
  | .qcontext => (p, match p.single with | some _ => .ok | none => .exc .noActive)
  | .op o =>
    match p.single with
    | none => (p, .exc .noActive)
    | some c => let (c1, r) := step c o; ({ p with single := some c1 }, r)

def pstep (p : Proc) (o : POp) : Proc × Out := pstep' p.clr o

def prun (p : Proc) : List POp → Proc
  | [] => p
  | o :: os => prun (pstep p o).1 os

def pouts (p : Proc) : List POp → List Out
  | [] => []
  | o :: os => (pstep p o).2 :: pouts (pstep p o).1 os

/-! ### layer C: `stop()` in the context thread ‖ `make_rpc_object` in another thread -/

inductive MPc
  | reserve
  | construct
  | publish (o : Obj)                                   -- second locked block: re-check, publish **and register**
  | failStop (e : Exc) (o : Option Obj) (id : Nat)   -- inner/outer `finally`: `manager.stop()`
  | failDel (e : Exc)                                  -- outer `finally`: release the claimed name
  | done (r : Out)
  deriving DecidableEq, Repr

inductive SPc
  | head
  | collect
  | unreg (n : Name) (id : Nat) (rest : List (Name × Nat))
  | mstop (id : Nat) (rest : List (Name × Nat))
  | done (r : Out)
  deriving DecidableEq, Repr

structure MakeArgs where
  k : Kind
  n : Name
  ctorF : Bool
  relF : Bool
  runB : RunB
  deriving DecidableEq, Repr

structure CState where
  c : Ctx
  m : MPc
  s : SPc
  deriving DecidableEq, Repr

def stepM (a : MakeArgs) (c : Ctx) : MPc → Ctx × MPc
  | .reserve =>
    match mkReserve c a.n with
    | .error e => (c, .done (.exc e))
    | .ok c1 => (c1, .construct)
  | .construct =>
    match mkConstruct c a.k a.n a.ctorF a.relF a.runB with
    | (c1, none) => (c1, .failStop (ctorExc a.k) none c.nextId)
    | (c1, some o) => (c1, .publish o)
  | .publish o =>
    match mkPublish c a.n o with
    | .error e => (c, .failStop e (some o) o.id)
    | .ok c1 =>
      match register c1 a.n o.id with
      | .error e => (c1, .done (.exc e))
      | .ok c2 => (c2, .done .ok)
  | .failStop e (some o) _ => (mgrStop c o, .failDel e)
  | .failStop e none id => (mgrStopFailed c id, .failDel e)
  | .failDel e => (delName c a.n, .done (.exc e))
  | .done r => (c, .done r)

def nextS (rest : List (Name × Nat)) : SPc :=
  match rest with
  | [] => .done .ok
  | (n, id) :: r => .unreg n id r

def stepS (c : Ctx) : SPc → Ctx × SPc
  | .head =>
    match stopHead c with
    | .error .base => (stopAborted c, .done (.exc .base))
    | .error e => (c, .done (.exc e))
    | .ok c1 => (c1, .collect)
  | .collect => let (c1, ms) := stopCollect c; (c1, nextS ms)
  | .unreg n id rest =>
    match unregister c n id with
    | .error e => (c, .done (.exc e))
    | .ok c1 => (c1, .mstop id rest)
  | .mstop id rest =>
    match findMgr c id with
    | some o => (mgrStop c o, nextS rest)
    | none => (c, .done (.exc .assertion))
  | .done r => (c, .done r)

def MPc.isDone : MPc → Bool | .done _ => true | _ => false
def SPc.isDone : SPc → Bool | .done _ => true | _ => false

/-- one scheduler decision: `pickM` asks for the maker; a finished thread never moves -/
def cstep (a : MakeArgs) (st : CState) (pickM : Bool) : CState :=
  if st.m.isDone && st.s.isDone then st
  else if (pickM && !st.m.isDone) || st.s.isDone then
    let (c, m) := stepM a st.c st.m; { st with c, m }
  else
    let (c, s) := stepS st.c st.s; { st with c, s }

/-- run `fuel` decisions; decision `i` is `sched[i]` (maker if the schedule is exhausted) -/
def crun (a : MakeArgs) (st : CState) (sched : List Bool) : Nat → CState
  | 0 => st
  | fuel + 1 => crun a (cstep a st (sched.headD true)) sched.tail fuel

def cinit (c : Ctx) : CState := { c := { c with log := [] }, m := .reserve, s := .head }

def mResult : MPc → Option Out | .done r => some r | _ => none
def sResult : SPc → Option Out | .done r => some r | _ => none

/-- what the harness can observe at the end of a `stop ‖ make` scenario -/
structure COutcome where
  make : Option Out
  stop : Option Out
  res  : Residue
  released : List Nat
  active : Bool
  deriving DecidableEq, Repr

def CState.outcome (st : CState) : COutcome :=
  { make := mResult st.m, stop := sResult st.s, res := st.c.residue,
    released := st.c.released, active := st.c.active }

def allScheds : Nat → List (List Bool)
  | 0 => [[]]
  | k + 1 => (allScheds k).flatMap (fun l => [true :: l, false :: l])

/-! ### two makers racing each other (`make ‖ make`, possibly for the same name) -/

structure C2State where
  c  : Ctx
  m1 : MPc
  m2 : MPc
  deriving DecidableEq, Repr

def c2step (a1 a2 : MakeArgs) (st : C2State) (pick1 : Bool) : C2State :=
  if st.m1.isDone && st.m2.isDone then st
  else if (pick1 && !st.m1.isDone) || st.m2.isDone then
    let (c, m) := stepM a1 st.c st.m1; { st with c, m1 := m }
  else
    let (c, m) := stepM a2 st.c st.m2; { st with c, m2 := m }

def c2run (a1 a2 : MakeArgs) (st : C2State) (sched : List Bool) : Nat → C2State
  | 0 => st
  | fuel + 1 => c2run a1 a2 (c2step a1 a2 st (sched.headD true)) sched.tail fuel

def c2init (c : Ctx) : C2State := { c := { c with log := [] }, m1 := .reserve, m2 := .reserve }

/-- an active context holding the objects made by `ops` -/
def populated (cfgTcp : Bool) (ops : List Op) : Ctx := run (Ctx.init cfgTcp) (.start false false :: ops)

end QmiModel.Context
