import QmiModel.Model.TextAttr
/-!
# DataFolder / DataStore (qmi/data/datastore.py) — property C17

The file system is a finite map from names to entries.

* `writeDataset` : `DataFolder.write_dataset` — name check, file name by format, exclusive-create
  mode `"x"`/`"xt"` unless `overwrite`, the file exists (truncated) as soon as it is opened even
  when the writer then raises.
* `readDataset`  : `DataFolder.read_dataset` — `.h5` first, then `.dat`.
* `makeFolder`   : `DataStore.make_folder` — argument checks, date directory, existence check, mkdir.
* `findLatest`   : `DataStore.find_latest_folder` — reverse-sorted listing, first match.

Regexes are re-implemented as functions (`re.fullmatch` since fix 7d3961f: no trailing-newline
quirk any more).  Core Lean only.
-/
namespace QmiModel.C17

/-! ## regex helpers -/

def isAlnum (c : Nat) : Bool := isDigit c || (65 ≤ c && c ≤ 90) || (97 ≤ c && c ≤ 122)
/-- `[-_a-zA-Z0-9(),]` -/
def nameChar (c : Nat) : Bool := c = 45 || c = 95 || isAlnum c || c = 40 || c = 41 || c = 44
/-- `[-_a-zA-Z0-9().,]` -/
def labelChar (c : Nat) : Bool := nameChar c || c = 46

/-- `re.fullmatch("[cls]+", s)` -/
def matchPlus (p : Nat → Bool) (s : Str) : Bool := !s.isEmpty && s.all p
/-- `re.fullmatch("[0-9]{n}", s)` -/
def matchDigitsN (n : Nat) (s : Str) : Bool := s.length = n && s.all isDigit

/-- `re.fullmatch(r"([0-9]{6})_(.+)", ff)`: the two groups (`.` does not match a newline) -/
def matchFolderName (ff : Str) : Option (Str × Str) :=
  let t := ff.take 6
  let r := ff.drop 6
  if t.length = 6 && t.all isDigit then
    match r with
    | 95 :: lab =>
      if !lab.isEmpty && !lab.contains 10 then some (t, lab) else none
    | _ => none
  else none

/-! ## DataFolder: a flat directory of files -/

inductive Fmt | hdf5 | text | other
  deriving DecidableEq, Repr

structure WriteOp where
  name        : Str
  fmt         : Fmt
  overwrite   : Bool
  writerFails : Bool     -- the format writer raises ValueError after the file was opened (reserved attribute name)
  content     : Nat      -- identity of what is written (≥ 1); 0 marks an empty / partial file
  deriving Repr

abbrev Folder := List (Str × Nat)

def Folder.get (fs : Folder) (p : Str) : Option Nat := (fs.find? (fun e => e.1 = p)).map (·.2)

def Folder.put (fs : Folder) (p : Str) (c : Nat) : Folder :=
  match fs with
  | [] => [(p, c)]
  | e :: rest => if e.1 = p then (p, c) :: rest else e :: Folder.put rest p c

def extH5 : Str := [46, 104, 53]          -- ".h5"
def extDat : Str := [46, 100, 97, 116]    -- ".dat"

/-- the file `write_dataset` targets (`none`: the call raises before touching the file system) -/
def WriteOp.target (op : WriteOp) : Option Str :=
  if !matchPlus nameChar op.name then none else
  match op.fmt with
  | .hdf5 => some (op.name ++ extH5)
  | .text => some (op.name ++ extDat)
  | .other => none

def writeDataset (fs : Folder) (op : WriteOp) : Folder × Except PyExc Unit :=
  if !matchPlus nameChar op.name then (fs, .error .valueError) else
  match op.fmt with
  | .other => (fs, .error .usageException)
  | _ =>
    let path := op.name ++ (if op.fmt = .hdf5 then extH5 else extDat)
    if !op.overwrite && (fs.get path).isSome then (fs, .error .fileExistsError)
    else if op.writerFails then (fs.put path 0, .error .valueError)
    else (fs.put path op.content, .ok ())

def runWrites (fs : Folder) (ops : List WriteOp) : Folder := ops.foldl (fun f op => (writeDataset f op).1) fs

/-- `read_dataset`: which stored content is returned -/
def readDataset (fs : Folder) (name : Str) : Except PyExc Nat :=
  if name.contains 47 then .error .valueError else
  match fs.get (name ++ extH5) with
  | some c => .ok c
  | none =>
    match fs.get (name ++ extDat) with
    | some c => .ok c
    | none => .error .fileNotFoundError

/-! ## DataStore: `<basedir>/<date>/<time>_<label>` -/

/-- an entry of the base directory: `none` = a plain file, `some children` = a directory whose
children are `(name, isDirectory)` -/
abbrev DStore := List (Str × Option (List (Str × Bool)))

def DStore.get (st : DStore) (d : Str) : Option (Option (List (Str × Bool))) :=
  (st.find? (fun e => e.1 = d)).map (·.2)

def DStore.put (st : DStore) (d : Str) (v : Option (List (Str × Bool))) : DStore :=
  match st with
  | [] => [(d, v)]
  | e :: rest => if e.1 = d then (d, v) :: rest else e :: DStore.put rest d v

/-- the folders (directories) of the store as (date, folder name) -/
def DStore.hasFolder (st : DStore) (d f : Str) : Bool :=
  match st.get d with
  | some (some ch) => ch.any (fun e => e.1 = f)
  | _ => false

structure MkArgs where
  label   : Str
  hasTs   : Bool                 -- `timestamp` given
  date    : Option Str           -- `date_str`
  time    : Option Str           -- `time_str`
  derived : Str × Str            -- strftime("%Y%m%d"), strftime("%H%M%S") of the timestamp / the clock
  deriving Repr

def folderName (time label : Str) : Str := time ++ 95 :: label

/-- the date / time codes `make_folder` will use (`none`: ValueError) -/
def MkArgs.codes (a : MkArgs) : Option (Str × Str) :=
  match a.date, a.time with
  | some d, some t =>
    if a.hasTs then none
    else if !matchDigitsN 8 d then none
    else if !matchDigitsN 6 t then none
    else some (d, t)
  | none, none => some a.derived
  | _, _ => none

/-- `DataStore.make_folder`; on success returns (date code, folder name) -/
def makeFolder (st : DStore) (a : MkArgs) : DStore × Except PyExc (Str × Str) :=
  match a.codes with
  | none => (st, .error .valueError)
  | some (d, t) =>
    if a.label.isEmpty || !matchPlus labelChar a.label then (st, .error .valueError)
    else
      let f := folderName t a.label
      match st.get d with
      | some none =>
        -- the date path is a plain file: mkdir -> FileExistsError is swallowed, then mkdir of the folder fails
        (st, .error .notADirectoryError)
      | some (some ch) =>
        if ch.any (fun e => e.1 = f) then (st, .error .fileExistsError)
        else (st.put d (some (ch ++ [(f, true)])), .ok (d, f))
      | none => (st.put d (some [(f, true)]), .ok (d, f))

/-! ### sorting (Python sorts `str` by code point; names in a listing are distinct) -/

def strLe : Str → Str → Bool
  | [], _ => true
  | _ :: _, [] => false
  | a :: as, b :: bs => if a < b then true else if b < a then false else strLe as bs

def insertDesc (x : Str) : List Str → List Str
  | [] => [x]
  | y :: ys => if strLe y x then x :: y :: ys else y :: insertDesc x ys

/-- `l.sort(reverse=True)` -/
def sortDesc : List Str → List Str
  | [] => []
  | x :: xs => insertDesc x (sortDesc xs)

/-- first folder of a reverse-sorted listing that carries the label and is a directory -/
def firstMatch (label : Str) (ch : List (Str × Bool)) : List Str → Option (Str × Str)
  | [] => none
  | ff :: rest =>
    match matchFolderName ff with
    | some (t, lab) =>
      if lab = label && ch.any (fun e => e.1 = ff && e.2) then some (ff, t) else firstMatch label ch rest
    | none => firstMatch label ch rest

/-- loop over the reverse-sorted date directories -/
def findIn (st : DStore) (label : Str) : List Str → Except PyExc (Option (Str × Str × Str))
  | [] => .ok none
  | dd :: rest =>
    if matchDigitsN 8 dd then
      match st.get dd with
      | none => .error .fileNotFoundError
      | some none => .error .notADirectoryError
      | some (some ch) =>
        match firstMatch label ch (sortDesc (ch.map (·.1))) with
        | some (ff, t) => .ok (some (dd, ff, t))
        | none => findIn st label rest
    else findIn st label rest

/-- `DataStore.find_latest_folder(label, date_str)` → (date code, folder name, time code) -/
def findLatest (st : DStore) (label : Str) (date : Option Str) : Except PyExc (Option (Str × Str × Str)) :=
  match date with
  | none => findIn st label (sortDesc (st.map (·.1)))
  | some d => findIn st label [d]

end QmiModel.C17
