import QmiModel.Model.TextAttr
/-!
# DataFolder / DataStore (qmi/data/datastore.py) — property C17

The file system is a finite map from names to entries.

* `writeDataset` : `DataFolder.write_dataset` — name check, file name by format, exclusive-create
  mode `"x"`/`"xt"` unless `overwrite`, the file exists (truncated) as soon as it is opened even
  when the writer then raises.
* `readDataset`  : `DataFolder.read_dataset` — `.h5` first, then `.dat`.
* `makeFolder`   : `DataStore.make_folder` — argument checks, date directory, existence check, mkdir.
* `findLatest`   : `DataStore.find_latest_folder` — reverse-sorted listing, first match.

Regexes are re-implemented as functions (`re.fullmatch` since fix 7d3961f: no trailing-newline
quirk any more).  Core Lean only.
-/
namespace QmiModel.C17

/-! ## regex helpers -/

def isAlnum (c : Nat) : Bool := isDigit c || (65 ≤ c && c ≤ 90) || (97 ≤ c && c ≤ 122)
/-- `[-_a-zA-Z0-9(),]` -/
def nameChar (c : Nat) : Bool := c = 45 || c = 95 || isAlnum c || c = 40 || c = 41 || c = 44
/-- `[-_a-zA-Z0-9().,]` -/
def labelChar (c : Nat) : Bool := nameChar c || c = 46

/-- `re.fullmatch("[cls]+", s)` -/
def matchPlus (p : Nat → Bool) (s : Str) : Bool := !s.isEmpty && s.all p
/-- `re.fullmatch("[0-9]{n}", s)` -/
def matchDigitsN (n : Nat) (s : Str) : Bool := s.length = n && s.all isDigit

/-- `re.fullmatch(r"([0-9]{6})_(.+)", ff)`: the two groups (`.` does not match a newline) -/
def matchFolderName (ff : Str) : Option (Str × Str) :=
  let t := ff.take 6
  let r := ff.drop 6
  if t.length = 6 && t.all isDigit then
    match r with
    | 95 :: lab =>
      if !lab.isEmpty && !lab.contains 10 then some (t, lab) else none
    | _ => none
  else none

/-! ## DataFolder: a flat directory of files -/

inductive Fmt | hdf5 | text | other
  deriving DecidableEq, Repr

structure WriteOp where
  name        : Str
  fmt         : Fmt
  overwrite   : Bool
  writerFails : Bool     -- the format writer raises ValueError after the file was opened (reserved attribute name)
  content     : Nat      -- identity of what is written (≥ 1); 0 marks an empty / partial file
  deriving Repr

/-- why a format writer raises after `write_dataset` has opened (created / truncated) the file -/
inductive FailCause | none | reservedName | lineBreakName | inexactInt
  deriving DecidableEq, Repr

/-- `write_dataset_to_hdf5` refuses reserved attribute names; `write_dataset_to_text` also refuses a line break
in an attribute name and integers that float64 cannot hold exactly -/
def writerRaises (fmt : Fmt) (c : FailCause) : Bool :=
  match c with
  | .none => false
  | .reservedName => true
  | .lineBreakName => fmt = .text
  | .inexactInt => fmt = .text

abbrev Folder := List (Str × Nat)

def Folder.get (fs : Folder) (p : Str) : Option Nat := (fs.find? (fun e => e.1 = p)).map (·.2)

def Folder.put (fs : Folder) (p : Str) (c : Nat) : Folder :=
  match fs with
  | [] => [(p, c)]
  | e :: rest => if e.1 = p then (p, c) :: rest else e :: Folder.put rest p c

def extH5 : Str := [46, 104, 53]          -- ".h5"
def extDat : Str := [46, 100, 97, 116]    -- ".dat"

/-- the file `write_dataset` targets (`none`: the call raises before touching the file system) -/
def WriteOp.target (op : WriteOp) : Option Str :=
  if !matchPlus nameChar op.name then none else
  match op.fmt with
  | .hdf5 => some (op.name ++ extH5)
  | .text => some (op.name ++ extDat)
  | .other => none

def writeDataset (fs : Folder) (op : WriteOp) : Folder × Except PyExc Unit :=
  if !matchPlus nameChar op.name then (fs, .error .valueError) else
  match op.fmt with
  | .other => (fs, .error .usageException)
  | _ =>
    let path := op.name ++ (if op.fmt = .hdf5 then extH5 else extDat)
    if !op.overwrite && (fs.get path).isSome then (fs, .error .fileExistsError)
    else if op.writerFails then (fs.put path 0, .error .valueError)
    else (fs.put path op.content, .ok ())

def runWrites (fs : Folder) (ops : List WriteOp) : Folder := ops.foldl (fun f op => (writeDataset f op).1) fs

/-- `read_dataset`: which stored content is returned -/
def readDataset (fs : Folder) (name : Str) : Except PyExc Nat :=
  if name.contains 47 then .error .valueError else
  match fs.get (name ++ extH5) with
  | some c => .ok c
  | none =>
    match fs.get (name ++ extDat) with
    | some c => .ok c
    | none => .error .fileNotFoundError

/-! ## DataStore: `<basedir>/<date>/<time>_<label>` -/

/-- an entry of the base directory: `none` = a plain file, `some children` = a directory whose
children are `(name, isDirectory)` -/
abbrev DStore := List (Str × Option (List (Str × Bool)))

def DStore.get (st : DStore) (d : Str) : Option (Option (List (Str × Bool))) :=
  (st.find? (fun e => e.1 = d)).map (·.2)

def DStore.put (st : DStore) (d : Str) (v : Option (List (Str × Bool))) : DStore :=
  match st with
  | [] => [(d, v)]
  | e :: rest => if e.1 = d then (d, v) :: rest else e :: DStore.put rest d v

/-- the folders (directories) of the store as (date, folder name) -/
def DStore.hasFolder (st : DStore) (d f : Str) : Bool :=
  match st.get d with
  | some (some ch) => ch.any (fun e => e.1 = f)
  | _ => false

structure MkArgs where
  label   : Str
  hasTs   : Bool                 -- `timestamp` given
  date    : Option Str           -- `date_str`
  time    : Option Str           -- `time_str`
  derived : Str × Str            -- strftime("%Y%m%d"), strftime("%H%M%S") of the timestamp / the clock
  deriving Repr

def folderName (time label : Str) : Str := time ++ 95 :: label

/-- the date / time codes `make_folder` will use (`none`: ValueError) -/
def MkArgs.codes (a : MkArgs) : Option (Str × Str) :=
  match a.date, a.time with
  | some d, some t =>
    if a.hasTs then none
    else if !matchDigitsN 8 d then none
    else if !matchDigitsN 6 t then none
    else some (d, t)
  | none, none => some a.derived
  | _, _ => none

/-- `DataStore.make_folder`; on success returns (date code, folder name) -/
def makeFolder (st : DStore) (a : MkArgs) : DStore × Except PyExc (Str × Str) :=
  match a.codes with
  | none => (st, .error .valueError)
  | some (d, t) =>
    if a.label.isEmpty || !matchPlus labelChar a.label then (st, .error .valueError)
    else
      let f := folderName t a.label
      match st.get d with
      | some none =>
        -- the date path is a plain file: mkdir -> FileExistsError is swallowed, then mkdir of the folder fails
        (st, .error .notADirectoryError)
      | some (some ch) =>
        if ch.any (fun e => e.1 = f) then (st, .error .fileExistsError)
        else (st.put d (some (ch ++ [(f, true)])), .ok (d, f))
      | none => (st.put d (some [(f, true)]), .ok (d, f))

/-! ### sorting (Python sorts `str` by code point; names in a listing are distinct) -/

def strLe : Str → Str → Bool
  | [], _ => true
  | _ :: _, [] => false
  | a :: as, b :: bs => if a < b then true else if b < a then false else strLe as bs

def insertDesc (x : Str) : List Str → List Str
  | [] => [x]
  | y :: ys => if strLe y x then x :: y :: ys else y :: insertDesc x ys

/-- `l.sort(reverse=True)` -/
def sortDesc : List Str → List Str
  | [] => []
  | x :: xs => insertDesc x (sortDesc xs)

/-- first folder of a reverse-sorted listing that carries the label and is a directory -/
def firstMatch (label : Str) (ch : List (Str × Bool)) : List Str → Option (Str × Str)
  | [] => none
  | ff :: rest =>
    match matchFolderName ff with
    | some (t, lab) =>
      if lab = label && ch.any (fun e => e.1 = ff && e.2) then some (ff, t) else firstMatch label ch rest
    | none => firstMatch label ch rest

/-- loop over the reverse-sorted date directories -/
def findIn (st : DStore) (label : Str) : List Str → Except PyExc (Option (Str × Str × Str))
  | [] => .ok none
  | dd :: rest =>
    if matchDigitsN 8 dd then
      match st.get dd with
      | none => .error .fileNotFoundError
      | some none => .error .notADirectoryError
      | some (some ch) =>
        match firstMatch label ch (sortDesc (ch.map (·.1))) with
        | some (ff, t) => .ok (some (dd, ff, t))
        | none => findIn st label rest
    else findIn st label rest

/-- `DataStore.find_latest_folder(label, date_str)` → (date code, folder name, time code) -/
def findLatest (st : DStore) (label : Str) (date : Option Str) : Except PyExc (Option (Str × Str × Str)) :=
  match date with
  | none => findIn st label (sortDesc (st.map (·.1)))
  | some d => findIn st label [d]


/-! ### `DataStore.list_folders(label)` — ascending listing of every folder (of the label) -/

/-- `l.sort()` (names in a listing are distinct) -/
def sortAsc (l : List Str) : List Str := (sortDesc l).reverse

/-- inner loop over the sorted entries of one date directory -/
def listDate (label : Option Str) (dd : Str) (ch : List (Str × Bool)) : List Str → List (Str × Str × Str)
  | [] => []
  | ff :: rest =>
    match matchFolderName ff with
    | some (t, lab) =>
      if (label = none ∨ label = some lab) ∧ ch.any (fun e => e.1 = ff && e.2) = true then
        (dd, ff, t) :: listDate label dd ch rest
      else listDate label dd ch rest
    | none => listDate label dd ch rest

/-- outer loop over the sorted entries of the base directory -/
def listIn (st : DStore) (label : Option Str) : List Str → Except PyExc (List (Str × Str × Str))
  | [] => .ok []
  | dd :: rest =>
    if matchDigitsN 8 dd then
      match st.get dd with
      | none => .error .fileNotFoundError
      | some none => .error .notADirectoryError
      | some (some ch) =>
        match listIn st label rest with
        | .error e => .error e
        | .ok l => .ok (listDate label dd ch (sortAsc (ch.map (·.1))) ++ l)
    else listIn st label rest

/-- `DataStore.list_folders(label)` → (date code, folder name, time code), oldest first -/
def listFolders (st : DStore) (label : Option Str) : Except PyExc (List (Str × Str × Str)) :=
  listIn st label (sortAsc (st.map (·.1)))

/-! ### two callers inside `make_folder` at the same time (threads or processes)

`make_folder` is not atomic: (1) ensure the date directory (`isdir` test, `mkdir`, FileExistsError
swallowed), (2) `os.path.exists(full_path)` test, (3) `os.mkdir(full_path)`.  Only the two `mkdir`
system calls are atomic test-and-set operations (trusted base: the OS).  Each caller `i` has valid
arguments that resolve to the date code `d i` and folder name `f i`. -/

inductive MkPC
  | ensure | check | mkdir | ok | failed
  deriving DecidableEq, Repr

structure Race where
  st : DStore
  pc : Bool → MkPC          -- the two callers are `false` and `true`

/-- one step of caller `i` (`none`: the caller has finished) -/
def raceStep (d f : Bool → Str) (r : Race) (i : Bool) : Option Race :=
  let setPc (st : DStore) (p : MkPC) : Race := { st := st, pc := fun j => if j = i then p else r.pc j }
  match r.pc i with
  | .ensure =>
    match r.st.get (d i) with
    | none => some (setPc (r.st.put (d i) (some [])) .check)       -- mkdir of the date directory
    | some _ => some (setPc r.st .check)                            -- exists already (or: mkdir -> FileExistsError, swallowed)
  | .check =>
    if r.st.hasFolder (d i) (f i) then some (setPc r.st .failed)    -- "already exists"
    else some (setPc r.st .mkdir)
  | .mkdir =>
    match r.st.get (d i) with
    | some (some ch) =>
      if ch.any (fun e => e.1 = f i) then some (setPc r.st .failed) -- os.mkdir raises FileExistsError
      else some (setPc (r.st.put (d i) (some (ch ++ [(f i, true)]))) .ok)
    | _ => some (setPc r.st .failed)                                -- date path is a plain file / vanished
  | .ok => none
  | .failed => none

/-- states reachable by any interleaving of the two callers' steps -/
inductive RaceReach (d f : Bool → Str) (st0 : DStore) : Race → Prop
  | init : RaceReach d f st0 { st := st0, pc := fun _ => .ensure }
  | step {r r' : Race} (i : Bool) : RaceReach d f st0 r → raceStep d f r i = some r' → RaceReach d f st0 r'

end QmiModel.C17
