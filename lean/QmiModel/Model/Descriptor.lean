/-!
# Model of transport-descriptor parsing (qmi/core/transport.py) — property C14

Mirrors, branch by branch and with Python exceptions as values:

* `TransportDescriptorParser._parse_parts`  (`regexParts`/`parseParts`: a functional
  re-implementation of `re.finditer` over the three-alternative regex, including the
  greedy bracket alternative whose closing class `[\]$]` accepts a literal `$`, the
  silent skipping of unmatched characters, and `.` not matching `\n`);
* `_parse_positional_parameters`, `_parse_keyword_parameters` (typed conversion through
  models of CPython's `int(str)`, `int(str, 16)`, `float(str)`), `_check_missing_parameters`,
  `parse_parameter_strings` (defaults dictionary, dropping of foreign defaults);
* keyword-argument binding of `Cls(**attributes)` (missing / unexpected argument → `TypeError`; cannot
  happen for tables aligned with their constructors, which the generated ones are);
* an interpreter (`Cond.holds`, `exec`) for the translated `__init__` bodies, `_is_valid_hostname`
  (the two regexes) and `_is_valid_ipaddress` (glibc `inet_pton` for AF_INET / AF_INET6;
  its `ValueError` on an embedded NUL is caught like `OSError`);
* `create_transport` (dispatch on the interface name, platform branch);
* `QMI_UsbTmcTransport._format_resources` and the renderers for the descriptor formats
  QMI itself produces.

The parser tables, the constructor signatures and the `__init__` bodies — which validator test (with its literal
bounds and constants) is applied to which parameter, in which order, and which attribute stores which parameter,
`super().__init__` chains and the `_validate_*` helpers inlined — are *parameters* (`Env`);
`Gen/TransportTables.lean` instantiates them from the current source (live objects and AST) on every run.

Strings are lists of Unicode scalar values (`List Char`); a float parameter is carried as
its validated literal (the harness compares through Python's own `float()`).

Core Lean only (the driver exe links this file).
-/
namespace QmiModel.Descriptor

abbrev Str := List Char

/-! ## Python exceptions and values -/

inductive PyExc
  | descriptor   -- QMI_TransportDescriptorException
  | valueError   -- ValueError
  | typeError    -- TypeError
  | attributeError  -- AttributeError
  deriving DecidableEq, Repr

/-- result of a Python call: a value or the exception that escaped -/
inductive Res (α : Type)
  | ok (a : α)
  | err (e : PyExc)
  deriving DecidableEq, Repr

inductive Ty | str | int | float | bool
  deriving DecidableEq, Repr

inductive PyVal
  | str (s : Str)
  | int (i : Int)
  | flt (lit : Str)     -- a float, as a literal accepted by `float()`
  | bool (b : Bool)
  | none
  deriving DecidableEq, Repr

/-! ## Dictionaries (insertion ordered, like `dict`) -/

abbrev Dict := List (Str × PyVal)

def dget : Dict → Str → Option PyVal
  | [], _ => none
  | (k', v) :: r, k => if k' = k then some v else dget r k

/-- `d[k] = v` -/
def dset : Dict → Str → PyVal → Dict
  | [], k, v => [(k, v)]
  | (k', v') :: r, k, v => if k' = k then (k, v) :: r else (k', v') :: dset r k v

/-- `d.update(e)` -/
def dupdate (d e : Dict) : Dict := e.foldl (fun acc kv => dset acc kv.1 kv.2) d

/-- `dict(pairs)` -/
def dictOf (pairs : List (Str × PyVal)) : Dict := dupdate [] pairs

def dhas (d : Dict) (k : Str) : Bool := (dget d k).isSome

/-! ## Character classes -/

def isAsciiDigit (c : Char) : Bool := 48 ≤ c.toNat && c.toNat ≤ 57
def isAsciiUpper (c : Char) : Bool := 65 ≤ c.toNat && c.toNat ≤ 90
def isAsciiLower (c : Char) : Bool := 97 ≤ c.toNat && c.toNat ≤ 122
def isAscii (c : Char) : Bool := c.toNat < 128

def asciiLower (c : Char) : Char := if isAsciiUpper c then Char.ofNat (c.toNat + 32) else c

/-- C `isspace` in the "C" locale (`Py_ISSPACE`) -/
def isCSpace (c : Char) : Bool := c.toNat == 32 || (9 ≤ c.toNat && c.toNat ≤ 13)

/-- `Py_UNICODE_ISSPACE` for code points ≥ 127 -/
def isUniSpace (n : Nat) : Bool :=
  n == 0x85 || n == 0xA0 || n == 0x1680 || (0x2000 ≤ n && n ≤ 0x200A) ||
  n == 0x2028 || n == 0x2029 || n == 0x202F || n == 0x205F || n == 0x3000

/-- first code point of every run of ten Unicode decimal digits (category Nd, Unicode 15.0;
checked against the running interpreter's `unicodedata` by the translator on every run) -/
def ndStarts : List Nat :=
  [0x660, 0x6f0, 0x7c0, 0x966, 0x9e6, 0xa66, 0xae6, 0xb66, 0xbe6, 0xc66, 0xce6, 0xd66, 0xde6,
   0xe50, 0xed0, 0xf20, 0x1040, 0x1090, 0x17e0, 0x1810, 0x1946, 0x19d0, 0x1a80, 0x1a90, 0x1b50,
   0x1bb0, 0x1c40, 0x1c50, 0xa620, 0xa8d0, 0xa900, 0xa9d0, 0xa9f0, 0xaa50, 0xabf0, 0xff10,
   0x104a0, 0x10d30, 0x11066, 0x110f0, 0x11136, 0x111d0, 0x112f0, 0x11450, 0x114d0, 0x11650,
   0x116c0, 0x11730, 0x118e0, 0x11950, 0x11c50, 0x11d50, 0x11da0, 0x11f50, 0x16a60, 0x16ac0,
   0x16b50, 0x1d7ce, 0x1d7d8, 0x1d7e2, 0x1d7ec, 0x1d7f6, 0x1e140, 0x1e2f0, 0x1e4f0, 0x1e950,
   0x1fbf0]

/-- `Py_UNICODE_TODECIMAL` for code points ≥ 127 -/
def uniDigit (n : Nat) : Option Nat :=
  (ndStarts.find? (fun s => s ≤ n && n < s + 10)).map (fun s => n - s)

/-- `_PyUnicode_TransformDecimalAndSpaceToASCII`, per character: ASCII (< 127) is kept,
Unicode spaces become `' '`, Unicode decimal digits become ASCII digits, everything else `'?'`
(CPython also truncates after the `'?'`; since `'?'` makes every numeric parse fail this is unobservable). -/
def normChar (c : Char) : Char :=
  if c.toNat < 127 then c
  else if isUniSpace c.toNat then ' '
  else match uniDigit c.toNat with
    | some d => Char.ofNat (48 + d)
    | none => '?'

def dropCSpace : Str → Str
  | [] => []
  | c :: cs => if isCSpace c then dropCSpace cs else c :: cs

/-! ## `int(str)` / `int(str, 16)` / `int(str, 0)` -/

/-- `_PyLong_DigitValue` (37 = not a digit) -/
def digitVal (c : Char) : Nat :=
  if isAsciiDigit c then c.toNat - 48
  else if isAsciiLower c then c.toNat - 87
  else if isAsciiUpper c then c.toNat - 55
  else 37

inductive Prev | start | digit | us
  deriving DecidableEq, Repr

/-- the digit/underscore scanner of `long_from_string_base`: returns (value, number of digits, rest),
`none` on a syntax error (leading / doubled / trailing underscore, no digit) -/
def scanDigits (base : Nat) : Prev → Nat → Nat → Str → Option (Nat × Nat × Str)
  | p, acc, nd, [] => if p = .digit then some (acc, nd, []) else none
  | p, acc, nd, c :: cs =>
    if c == '_' then
      (if p = .digit then scanDigits base .us acc nd cs else none)
    else if digitVal c < base then
      scanDigits base .digit (acc * base + digitVal c) (nd + 1) cs
    else
      (if p = .digit then some (acc, nd, c :: cs) else none)

/-- `sys.get_int_max_str_digits()` default (checked by the translator) -/
def maxStrDigits : Nat := 4300

/-- `PyLong_FromString` after the sign, for an explicit or detected base; `cs` already normalised -/
def intBody (base : Nat) (cs : Str) : Option (Nat × Str) :=
  -- optional prefix for the power-of-two bases
  let hasPrefix (x y : Char) : Bool :=
    match cs with
    | a :: b :: _ => a == '0' && (b == x || b == y)
    | _ => false
  let pre : Bool := (base == 16 && hasPrefix 'x' 'X') || (base == 8 && hasPrefix 'o' 'O') ||
                    (base == 2 && hasPrefix 'b' 'B')
  let body : Str :=
    if pre then
      (match cs.drop 2 with
       | c :: r => if c == '_' then r else c :: r     -- one underscore allowed after the prefix
       | [] => [])
    else cs
  match scanDigits base .start 0 0 body with
  | none => none
  | some (v, nd, rest) =>
    if base == 10 && nd > maxStrDigits then none else some (v, rest)

/-- `int(s, base)` for `base ∈ {0, 2, 8, 10, 16}`; `none` = `ValueError` -/
def pyInt (base : Nat) (s : Str) : Option Int :=
  let cs := dropCSpace (s.map normChar)
  let (neg, cs) : Bool × Str :=
    match cs with
    | c :: r => if c == '-' then (true, r) else if c == '+' then (false, r) else (false, c :: r)
    | [] => (false, [])
  -- base 0: detect the base from the prefix; a C-style octal literal ("010") is only accepted if it is zero
  let (b, zeroOnly) : Nat × Bool :=
    if base != 0 then (base, false) else
    match cs with
    | a :: r =>
      if a != '0' then (10, false) else
      (match r with
       | c :: _ =>
         if c == 'x' || c == 'X' then (16, false)
         else if c == 'o' || c == 'O' then (8, false)
         else if c == 'b' || c == 'B' then (2, false)
         else (10, true)
       | [] => (10, true))
    | [] => (10, false)
  match intBody b cs with
  | none => none
  | some (v, rest) =>
    if zeroOnly && v != 0 then none else
    match dropCSpace rest with
    | [] => some (if neg then -(Int.ofNat v) else Int.ofNat v)
    | _ => none      -- trailing junk (includes an embedded NUL: `end != buffer + len`)

/-! ## `float(str)` -/

inductive FloatLit
  | fin (neg : Bool) (mant : Nat) (ndig : Nat) (exp : Int)   -- mant · 10^exp, `ndig` mantissa digits read
  | inf (neg : Bool)
  | nan
  deriving DecidableEq, Repr

/-- `_Py_string_to_number_with_underscores`: underscores only between digits; returns the text
without them -/
def stripUnderscores : Char → Str → Option Str
  | prev, [] => if prev == '_' then none else some []
  | prev, c :: cs =>
    if c == '_' then
      (if isAsciiDigit prev then stripUnderscores c cs else none)
    else if prev == '_' && !isAsciiDigit c then none
    else (stripUnderscores c cs).map (fun r => c :: r)

def takeDigits : Nat → Nat → Str → Nat × Nat × Str
  | acc, n, [] => (acc, n, [])
  | acc, n, c :: cs => if isAsciiDigit c then takeDigits (acc * 10 + (c.toNat - 48)) (n + 1) cs else (acc, n, c :: cs)

def lowerEq (cs : Str) (lit : Str) : Bool := cs.map asciiLower == lit

/-- `_Py_dg_strtod` grammar after the sign: digits [. digits] | . digits, then an optional
exponent; the whole text must be consumed -/
def decimalBody (neg : Bool) (cs : Str) : Option FloatLit :=
  let (m1, n1, r1) := takeDigits 0 0 cs
  let (m2, n2, r2) : Nat × Nat × Str :=
    match r1 with
    | c :: r => if c == '.' then (let (m, n, r') := takeDigits m1 0 r; (m, n, r')) else (m1, 0, c :: r)
    | [] => (m1, 0, [])
  if n1 + n2 == 0 then none else
  match r2 with
  | [] => some (.fin neg m2 (n1 + n2) (-(Int.ofNat n2)))
  | c :: r =>
    if c == 'e' || c == 'E' then
      let (eneg, r') : Bool × Str :=
        match r with
        | s :: t => if s == '-' then (true, t) else if s == '+' then (false, t) else (false, s :: t)
        | [] => (false, [])
      let (ev, en, r'') := takeDigits 0 0 r'
      if en == 0 then none
      else match r'' with
        | [] => some (.fin neg m2 (n1 + n2) ((if eneg then -(Int.ofNat ev) else Int.ofNat ev) - Int.ofNat n2))
        | _ => none
    else none

/-- `float(s)`; `none` = `ValueError` (never `OverflowError`: out-of-range literals give ±inf / ±0) -/
def floatParse (s : Str) : Option FloatLit :=
  let cs := s.map normChar
  if cs.any (fun c => c.toNat == 0) then none else
  let cs? : Option Str := if cs.any (· == '_') then stripUnderscores (Char.ofNat 0) cs else some cs
  match cs? with
  | none => none
  | some cs =>
    let cs := (dropCSpace (dropCSpace cs).reverse).reverse
    match cs with
    | [] => none
    | c :: r =>
      let (neg, body) : Bool × Str := if c == '-' then (true, r) else if c == '+' then (false, r) else (false, c :: r)
      if lowerEq body ['i','n','f'] || lowerEq body ['i','n','f','i','n','i','t','y'] then some (.inf neg)
      else if lowerEq body ['n','a','n'] then some .nan
      else decimalBody neg body

/-- does the correctly rounded double of the literal lie in `[lo, hi] / 2^54`?  (`lo > 0`) -/
def FloatLit.within (f : FloatLit) (lo hi : Nat) : Bool :=
  match f with
  | .fin neg m nd e =>
    if neg || m == 0 then false
    else if e ≥ 0 then
      (if e > 1 then false      -- m ≥ 1 so the value is ≥ 100
       else let x := m * 10 ^ e.toNat * 2 ^ 54; lo ≤ x && x ≤ hi)
    else
      let k := (-e).toNat
      if k > nd + 1 then false   -- m < 10^nd so the value is < 0.1
      else lo * 10 ^ k ≤ m * 2 ^ 54 && m * 2 ^ 54 ≤ hi * 10 ^ k
  | _ => false

/-- `float(lit) in (1.0, 1.5, 2.0)` (round-half-even intervals of the three doubles, scaled by 2^54) -/
def floatIsStopbits (f : FloatLit) : Bool :=
  f.within (2 ^ 54 - 1) (2 ^ 54 + 2) ||                 -- 1.0 : [1 − 2⁻⁵⁴, 1 + 2⁻⁵³]
  f.within (3 * 2 ^ 53 - 2) (3 * 2 ^ 53 + 2) ||         -- 1.5 : [1.5 − 2⁻⁵³, 1.5 + 2⁻⁵³]
  f.within (2 ^ 55 - 2) (2 ^ 55 + 4)                    -- 2.0 : [2 − 2⁻⁵³, 2 + 2⁻⁵²]

/-! ## `_parse_parts` -/

def isCloser (c : Char) : Bool := c == ']' || c == '$'

/-- in the `\n`-free prefix of the text, split at the *last* `]`/`$`: (before, after) -/
def lastCloser : Str → Option (Str × Str)
  | [] => none
  | c :: cs =>
    if c == '\n' then none
    else match lastCloser cs with
      | some (g, r) => some (c :: g, r)
      | none => if isCloser c then some ([], cs) else none

/-- alternative 2 `:\[(.+)[\]$]` on the text after `":["`: group 3 (greedy, at least one character) -/
def bracketGroup : Str → Option Str
  | [] => none
  | c :: cs => if c == '\n' then none else (lastCloser cs).map (fun gr => c :: gr.1)

def tokOf (cs : Str) : Str := cs.takeWhile (· != ':')

/-- alternative 3 `:([^:]+)` on the text after the colon -/
def alt3 (cs : Str) : Option (Str × Nat) :=
  let t := tokOf cs
  if t.isEmpty then none else some (t, t.length)

/-- a match of alternative 2 or 3 at a `':'`; `cs` = text after the colon;
result = (part, number of characters consumed after the colon) -/
def matchAfterColon (cs : Str) : Option (Str × Nat) :=
  match cs with
  | c :: r =>
    if c == '[' then
      match bracketGroup r with
      | some g => some (g, g.length + 2)
      | none => alt3 cs
    else alt3 cs
  | [] => none

/-- `re.finditer` from a position > 0 (alternative 1 cannot match: `^`), `skip` characters still
belonging to the previous match; unmatched characters are skipped silently -/
def scan : Nat → Str → List Str
  | _, [] => []
  | skip + 1, _ :: cs => scan skip cs
  | 0, c :: cs =>
    if c == ':' then
      match matchAfterColon cs with
      | some (p, n) => p :: scan n cs
      | none => scan 0 cs
    else scan 0 cs

/-- the list `parts` built by the loop of `_parse_parts` (every match has exactly one non-empty
group, so the `else: raise` of the loop body is unreachable) -/
def regexParts (s : Str) : List Str :=
  match s with
  | [] => []
  | c :: _ =>
    if c == ':' then scan 0 s
    else tokOf s :: scan (tokOf s).length s      -- alternative 1 `^([^:]+)` at position 0

def parseParts (s : Str) : Res (List Str) :=
  let ps := regexParts s
  if ps.length < 2 then .err .descriptor else .ok ps

/-! ## Parser tables -/

structure Param where
  name : Str
  ty : Ty
  required : Bool
  deriving DecidableEq, Repr

/-- the test of a `_validate_*` helper, `if <cond>: raise QMI_TransportDescriptorException(...)`, on one value -/
inductive Cond
  | lt (k : Int)                      -- `x < k`
  | gt (k : Int)                      -- `x > k`
  | eq (k : Int)                      -- `x == k`
  | or (a b : Cond)                   -- `a or b`
  | notInStrs (l : List Str)          -- `x not in ('N', 'E', 'O')`
  | notStopbits                       -- `x not in (1.0, 1.5, 2.0)`
  | notBool                           -- `x not in (True, False)`
  | notDevice (up pre : Str)          -- `not (x.upper().startswith(up) or x.startswith(pre))`
  | badHost                           -- `(not _is_valid_hostname(x)) and (not _is_valid_ipaddress(x))`
  deriving DecidableEq, Repr

/-- one effect of an `__init__` body on the constructor parameters (translated from the AST, `super().__init__`
and the `_validate_*` helpers inlined) -/
inductive Stmt
  | validate (p : Str) (c : Cond)     -- raise the descriptor error if `c` holds of parameter `p`
  | resolveLocalhost (p : Str)        -- `p = socket.gethostbyname(p) if p == "localhost" else p`
  | store (attr : Str) (ps : List Str)   -- `self.attr = p`  /  `self.attr = (p, q)`
  deriving DecidableEq, Repr

/-- constructor: class name, keyword arguments with their defaults (`none` = required), and the `__init__` body -/
structure Ctor where
  cls : Str
  args : List (Str × Option PyVal)
  prog : List Stmt
  deriving DecidableEq, Repr

structure Iface where
  name : Str
  positionals : List Param
  keywords : List Param
  ctorLinux : Option Ctor      -- `none`: create_transport raises the descriptor error after parsing
  ctorWin : Option Ctor
  deriving DecidableEq, Repr

structure Env where
  ifaces : List Iface          -- in the order of the `if/elif` chain of create_transport
  localhostAddr : Str          -- what `socket.gethostbyname("localhost")` answers (environment)
  deriving Repr

/-! ## Typed conversion -/

def isKw (p : Str) : Bool := p.any (· == '=')

def breakEq : Str → Option (Str × Str)
  | [] => none
  | c :: cs => if c == '=' then some ([], cs) else (breakEq cs).map (fun ab => (c :: ab.1, ab.2))

/-- `s.split('=', maxsplit=1)`: one piece without `'='`, else the text before and after the *first* `'='` -/
def splitEq (p : Str) : List Str :=
  match breakEq p with
  | none => [p]
  | some (a, r) => [a, r]

/-- `ty(param)` for a positional parameter -/
def convPos (ty : Ty) (tok : Str) : Res PyVal :=
  match ty with
  | .str => .ok (.str tok)
  | .int => match pyInt 10 tok with
            | some i => .ok (.int i)
            | none => .err .valueError
  | .float => if (floatParse tok).isSome then .ok (.flt tok) else .err .valueError
  | .bool => .ok (.bool (!tok.isEmpty))

def startsWith0x (v : Str) : Bool :=
  match v with
  | a :: b :: _ => a == '0' && b == 'x'
  | _ => false

def sTrue : Str := ['T','r','u','e']
def sFalse : Str := ['F','a','l','s','e']

/-- `TransportDescriptorParser._escape`: `value.replace("%", "%25").replace(":", "%3A")` (character-wise: `%` ↦ `%25`,
`:` ↦ `%3A`) -/
def escape : Str → Str
  | [] => []
  | c :: cs =>
    if c == '%' then '%' :: '2' :: '5' :: escape cs
    else if c == ':' then '%' :: '3' :: 'A' :: escape cs
    else c :: escape cs

/-- `TransportDescriptorParser._unescape`: `re.sub("%(3A|25)", …)`, leftmost non-overlapping matches -/
def unescape : Str → Str
  | [] => []
  | [a] => [a]
  | [a, b] => [a, b]
  | a :: b :: c :: r =>
    if a == '%' && b == '3' && c == 'A' then ':' :: unescape r
    else if a == '%' && b == '2' && c == '5' then '%' :: unescape r
    else a :: unescape (b :: c :: r)

/-- the conversion inside the `try` of `_parse_keyword_parameters` -/
def convKw (ty : Ty) (v : Str) : Res PyVal :=
  match ty with
  | .int =>
    (match (if startsWith0x v then pyInt 16 v else pyInt 10 v) with
     | some i => .ok (.int i)
     | none => .err .valueError)
  | .bool =>
    if v = sTrue then .ok (.bool true)
    else if v = sFalse then .ok (.bool false)
    else .err .valueError
  | .str => .ok (.str (unescape v))
  | .float => if (floatParse v).isSome then .ok (.flt v) else .err .valueError

/-- `except ValueError: raise QMI_TransportDescriptorException(...)` -/
def catchValueError (r : Res PyVal) : Res PyVal :=
  match r with
  | .err .valueError => .err .descriptor
  | r => r

/-- the loop of `_parse_positional_parameters` (`zip` stops at the shorter list: surplus
positional tokens are ignored) -/
def parsePositional : Dict → List Param → List Str → Res Dict
  | acc, [], _ => .ok acc
  | acc, _ :: _, [] => .ok acc
  | acc, p :: ps, t :: ts =>
    match catchValueError (convPos p.ty t) with
    | .err e => .err e
    | .ok v => parsePositional (dset acc p.name v) ps ts

def findParam (ps : List Param) (k : Str) : Option Param := ps.find? (fun p => p.name = k)

/-- the loop of `_parse_keyword_parameters` -/
def parseKeywords (kws : List Param) : Dict → List Str → Res Dict
  | acc, [] => .ok acc
  | acc, t :: ts =>
    match splitEq t with
    | [k, v] =>
      (match findParam kws k with
       | some p =>
         (match catchValueError (convKw p.ty v) with
          | .err e => .err e
          | .ok x => parseKeywords kws (dset acc k x) ts)
       | none => .err .descriptor)                 -- "Unexpected keyword"
    | _ => .err .descriptor                         -- `len(q) < 2` (not reachable for a token containing '=')

def knownName (I : Iface) (k : Str) : Bool :=
  I.positionals.any (fun p => p.name = k) || I.keywords.any (fun p => p.name = k)

def requiredNames (I : Iface) : List Str :=
  ((I.positionals ++ I.keywords).filter (·.required)).map (·.name)

/-- `"…".lower() == interface` for an ASCII interface name without `'k'` (the only non-ASCII
character whose lower case is ASCII is U+212A → `'k'`; U+0130 lowers to two characters) -/
def ifaceMatches (part : Str) (name : Str) : Bool :=
  part.all isAscii && part.map asciiLower == name

/-- `isinstance(value, ty) or (ty is float and isinstance(value, int))` (`bool` is a subclass of `int`; `None` is an
instance of no declared type) -/
def pyIsInstance : PyVal → Ty → Bool
  | .str _, .str => true
  | .int _, .int => true
  | .bool _, .int => true
  | .flt _, .float => true
  | .int _, .float => true
  | .bool _, .float => true
  | .bool _, .bool => true
  | _, _ => false

/-- `expected_types[attr]`: the keyword table is merged over the positional one -/
def expectedTy (I : Iface) (k : Str) : Option Ty :=
  match findParam I.keywords k with
  | some q => some q.ty
  | none => (findParam I.positionals k).map (·.ty)

def defaultTypeOk (I : Iface) (kv : Str × PyVal) : Bool :=
  match expectedTy I kv.1 with
  | some ty => pyIsInstance kv.2 ty
  | none => true

/-- the body of `parse_parameter_strings` (the type check of the kept defaults precedes the parsing of the string in the
code; both can only raise the descriptor error) -/
def parseParams (I : Iface) (parts : List Str) (defaults : List (Str × PyVal)) : Res Dict :=
  let p0 : Dict := (dictOf defaults).filter (fun kv => knownName I kv.1)
  if !(p0.all (defaultTypeOk I)) then .err .descriptor else      -- "Default parameter … expected type … but got …"
  let args := parts.drop 1
  match parsePositional [] I.positionals (args.filter (fun a => !isKw a)) with
  | .err e => .err e
  | .ok d1 =>
    match parseKeywords I.keywords [] (args.filter isKw) with
    | .err e => .err e
    | .ok d2 =>
      let p := dupdate (dupdate p0 d1) d2
      if (requiredNames I).all (dhas p) then .ok p else .err .descriptor

/-- `TransportDescriptorParser.parse_parameter_strings` -/
def parseParameterStrings (I : Iface) (s : Str) (defaults : List (Str × PyVal)) : Res Dict :=
  match parseParts s with
  | .err e => .err e
  | .ok parts =>
    if !(ifaceMatches (parts.headD []) I.name) then .err .descriptor      -- "Unexpected interface"
    else parseParams I parts defaults

/-! ## Constructor application `Cls(**attributes)` -/

def bindEach : List (Str × Option PyVal) → Dict → Res (List (Str × PyVal))
  | [], _ => .ok []
  | (n, d) :: r, p =>
    match (match dget p n with | some v => some v | none => d) with
    | none => .err .typeError                                   -- missing required argument
    | some v =>
      match bindEach r p with
      | .ok l => .ok ((n, v) :: l)
      | .err e => .err e

def bindArgs (c : Ctor) (p : Dict) : Res (List (Str × PyVal)) :=
  if p.any (fun kv => !(c.args.any (fun a => a.1 = kv.1))) then .err .typeError   -- unexpected keyword argument
  else bindEach c.args p

/-! ## Value validation -/

def sHost : Str := ['h','o','s','t']
def sPort : Str := ['p','o','r','t']
def sVendorid : Str := ['v','e','n','d','o','r','i','d']
def sProductid : Str := ['p','r','o','d','u','c','t','i','d']
def sLocalhost : Str := ['l','o','c','a','l','h','o','s','t']

def arg (a : List (Str × PyVal)) (n : Str) : PyVal := (dget a n).getD .none

def asciiUpper (c : Char) : Char := if isAsciiLower c then Char.ofNat (c.toNat - 32) else c

/-- `x.upper().startswith(up)` for an upper-case ASCII `up` none of whose letters is produced by upper-casing a
non-ASCII character (checked by the translator) -/
def upperStartsWith : Str → Str → Bool
  | [], _ => true
  | _ :: _, [] => false
  | u :: us, c :: cs => asciiUpper c == u && upperStartsWith us cs

def startsWith : Str → Str → Bool
  | [], _ => true
  | _ :: _, [] => false
  | u :: us, c :: cs => c == u && startsWith us cs

/-! ### host syntax -/

def splitOn (sep : Char) : Str → List Str
  | [] => [[]]
  | c :: cs =>
    match splitOn sep cs with
    | [] => [[]]                                     -- unreachable
    | x :: xs => if c == sep then [] :: x :: xs else (c :: x) :: xs

/-- `$` also matches just before one trailing newline -/
def stripOneNl (x : Str) : Str := if x.getLast? = some '\n' then x.dropLast else x

/-- `[A-Z0-9-]` under `re.IGNORECASE`: the 52 letters, the digits, `-`, and the four
non-ASCII characters that case-fold into the range (İ ı ſ K) -/
def isLabelChar (c : Char) : Bool :=
  isAsciiDigit c || isAsciiUpper c || isAsciiLower c || c == '-' ||
  c.toNat == 0x130 || c.toNat == 0x131 || c.toNat == 0x17F || c.toNat == 0x212A

/-- `re.match(r"(?!-)[A-Z0-9-]{1,63}(?<!-)$", x, re.IGNORECASE)` -/
def labelOk (x : Str) : Bool :=
  let b := stripOneNl x
  1 ≤ b.length && b.length ≤ 63 && b.all isLabelChar && b.head? != some '-' && b.getLast? != some '-'

/-- `re.match(r"^[0-9]+$", x)` -/
def numericLabel (x : Str) : Bool :=
  let b := stripOneNl x
  1 ≤ b.length && b.all isAsciiDigit

/-- `_is_valid_hostname` -/
def isValidHostname (h : Str) : Bool :=
  if h.length < 1 || h.length > 255 then false else
  let h := if h.getLast? = some '.' then h.dropLast else h
  let parts := splitOn '.' h
  if numericLabel (parts.getLast?.getD []) then false
  else parts.all labelOk

/-- glibc `inet_pton4` -/
def ip4Aux : Nat → Bool → Nat → Str → Bool
  | octets, _, _, [] => octets ≥ 4
  | octets, saw, cur, c :: cs =>
    if isAsciiDigit c then
      let new := cur * 10 + (c.toNat - 48)
      if saw && cur == 0 then false
      else if new > 255 then false
      else if !saw then (if octets + 1 > 4 then false else ip4Aux (octets + 1) true new cs)
      else ip4Aux octets true new cs
    else if c == '.' && saw then
      (if octets == 4 then false else ip4Aux octets false 0 cs)
    else false

def isIp4 (s : Str) : Bool := ip4Aux 0 false 0 s

def hexVal (c : Char) : Option Nat :=
  if isAsciiDigit c then some (c.toNat - 48)
  else if 97 ≤ c.toNat && c.toNat ≤ 102 then some (c.toNat - 87)
  else if 65 ≤ c.toNat && c.toNat ≤ 70 then some (c.toNat - 55)
  else none

/-- the end of glibc `inet_pton6` -/
def ip6Finish (tp : Nat) (colonp : Option Nat) (seen : Nat) : Bool :=
  let tp1? : Option Nat := if seen > 0 then (if tp + 2 > 16 then none else some (tp + 2)) else some tp
  match tp1? with
  | none => false
  | some tp1 =>
    match colonp with
    | some _ => tp1 != 16
    | none => tp1 == 16

/-- the main loop of glibc `inet_pton6`; `tp` = bytes written, `curtok` = text from the start of
the current group -/
def ip6Loop : Nat → Option Nat → Nat → Str → Str → Bool
  | tp, colonp, seen, _, [] => ip6Finish tp colonp seen
  | tp, colonp, seen, curtok, c :: cs =>
    match hexVal c with
    | some _ => if seen == 4 then false else ip6Loop tp colonp (seen + 1) curtok cs
    | none =>
      if c == ':' then
        if seen == 0 then
          (if colonp.isSome then false else ip6Loop tp (some tp) 0 cs cs)
        else if cs.isEmpty then false
        else if tp + 2 > 16 then false
        else ip6Loop (tp + 2) colonp 0 cs cs
      else if c == '.' && tp + 4 ≤ 16 && isIp4 curtok then
        ip6Finish (tp + 4) colonp 0
      else false

def isIp6 (s : Str) : Bool :=
  match s with
  | [] => false
  | c :: r =>
    if c == ':' then
      (match r with
       | c2 :: _ => if c2 == ':' then ip6Loop 0 none 0 r r else false
       | [] => false)
    else ip6Loop 0 none 0 s s

/-- `_is_valid_ipaddress`: `inet_pton` raises `ValueError` on an embedded NUL and `OSError` on any other
non-address; both are caught -/
def isValidIp (h : Str) : Bool :=
  if h.any (fun c => c.toNat == 0) then false else isIp4 h || isIp6 h

/-- `QMI_SocketTransport._validate_host`:
`if (not _is_valid_hostname(host)) and (not _is_valid_ipaddress(host)): raise …` -/
def validateHost (h : Str) : Res Unit :=
  if isValidHostname h then .ok ()
  else if isValidIp h then .ok ()
  else .err .descriptor

/-- does the test hold of the value?  Python semantics for every kind of value a parameter can carry (the string gives
values of the declared type; a caller's defaults dictionary can hold anything): ordering comparisons with `str` / `None`
raise `TypeError`, `==` and `in` never raise, `.upper()` on a non-string raises `AttributeError`, `len()` of a
non-string `TypeError`.  A float where an int / bool is declared is rejected by the type check of the defaults before it gets here (`typeError` placeholder). -/
def Cond.holds : Cond → PyVal → Res Bool
  | .lt k, .int i => .ok (i < k)
  | .lt k, .bool b => .ok ((if b then 1 else 0) < k)
  | .lt _, _ => .err .typeError
  | .gt k, .int i => .ok (i > k)
  | .gt k, .bool b => .ok ((if b then 1 else 0) > k)
  | .gt _, _ => .err .typeError
  | .eq k, .int i => .ok (i = k)
  | .eq k, .bool b => .ok ((if b then 1 else 0) = k)
  | .eq _, .flt _ => .err .typeError
  | .eq _, _ => .ok false
  | .or a b, v =>
    (match a.holds v with
     | .err e => .err e
     | .ok true => .ok true
     | .ok false => b.holds v)
  | .notInStrs l, .str s => .ok (!(l.contains s))
  | .notInStrs _, _ => .ok true
  | .notStopbits, .flt lit =>
    (match floatParse lit with
     | some f => .ok (!(floatIsStopbits f))
     | none => .ok true)        -- a `.flt` whose literal is no float literal denotes no Python value; never produced
  | .notStopbits, .int i => .ok (!(i = 1 || i = 2))
  | .notStopbits, .bool b => .ok (!b)
  | .notStopbits, _ => .ok true
  | .notBool, .bool _ => .ok false
  | .notBool, .int i => .ok (!(i = 0 || i = 1))
  | .notBool, .flt _ => .err .typeError
  | .notBool, _ => .ok true
  | .notDevice up pre, .str d => .ok (!(upperStartsWith up d || startsWith pre d))
  | .notDevice _ _, _ => .err .attributeError
  | .badHost, .str h => .ok (!(isValidHostname h) && !(isValidIp h))
  | .badHost, _ => .err .typeError

/-- `__init__`: the statements in source order over the bound arguments; result = attribute ↦ stored value(s) -/
def exec (E : Env) : List Stmt → List (Str × PyVal) → List (Str × List PyVal) → Res (List (Str × List PyVal))
  | [], _, acc => .ok acc
  | .validate p c :: r, env, acc =>
    (match c.holds (arg env p) with
     | .err e => .err e
     | .ok true => .err .descriptor
     | .ok false => exec E r env acc)
  | .resolveLocalhost p :: r, env, acc =>
    (match arg env p with
     | .str h => exec E r (dset env p (.str (if h = sLocalhost then E.localhostAddr else h))) acc
     | _ => exec E r env acc)
  | .store a ps :: r, env, acc => exec E r env (acc ++ [(a, ps.map (arg env))])

def construct (E : Env) (c : Ctor) (a : List (Str × PyVal)) : Res (List (Str × List PyVal)) := exec E c.prog a []

/-! ## `create_transport` -/

/-- the object `create_transport` returns: its class and, per attribute the constructor assigns from its parameters,
the stored value(s) (a tuple attribute such as `_address` holds several) -/
structure Transport where
  cls : Str
  attrs : List (Str × List PyVal)
  deriving DecidableEq, Repr

def Iface.ctor (I : Iface) (win : Bool) : Option Ctor := if win then I.ctorWin else I.ctorLinux

def findIface (E : Env) (p0 : Str) : Option Iface := E.ifaces.find? (fun I => ifaceMatches p0 I.name)

def createTransport (E : Env) (win : Bool) (s : Str) (defaults : List (Str × PyVal)) : Res Transport :=
  match parseParts s with                      -- `match_interface` of the first parser already parses
  | .err e => .err e
  | .ok parts =>
    match findIface E (parts.headD []) with
    | none => .err .descriptor                 -- "Unknown type in transport descriptor"
    | some I =>
      match parseParameterStrings I s defaults with
      | .err e => .err e
      | .ok p =>
        match I.ctor win with
        | none => .err .descriptor             -- gpib on a non-Windows platform
        | some c =>
          match bindArgs c p with
          | .err e => .err e
          | .ok a =>
            match construct E c a with
            | .err e => .err e
            | .ok attrs => .ok { cls := c.cls, attrs := attrs }

/-! ## Formats QMI itself produces -/

def hexDigitChar (n : Nat) : Char := if n < 10 then Char.ofNat (48 + n) else Char.ofNat (87 + n)

/-- digits of `n` in base `b`, most significant first, at least one digit (`fuel ≥` number of digits) -/
def toDigitsAux (b : Nat) : Nat → Nat → Str → Str
  | 0, _, acc => acc
  | fuel + 1, n, acc =>
    let acc' := hexDigitChar (n % b) :: acc
    if n / b = 0 then acc' else toDigitsAux b fuel (n / b) acc'

def toHex (n : Nat) : Str := toDigitsAux 16 (n + 1) n []
def toDec (n : Nat) : Str := toDigitsAux 10 (n + 1) n []

def zfill (w : Nat) (s : Str) : Str := List.replicate (w - s.length) '0' ++ s

/-- `"{:04x}".format(i)` (the sign counts towards the width) -/
def fmt04x (i : Int) : Str :=
  if i < 0 then '-' :: zfill 3 (toHex i.natAbs) else zfill 4 (toHex i.toNat)

def sUsbtmc : Str := ['u','s','b','t','m','c']
def sVendorKw : Str := ['v','e','n','d','o','r','i','d','=','0','x']
def sProductKw : Str := ['p','r','o','d','u','c','t','i','d','=','0','x']
def sSerialKw : Str := ['s','e','r','i','a','l','n','r','=']

/-- the descriptor `_format_resources` builds -/
def renderUsbtmc (vendor product : Int) (serial : Str) : Str :=
  sUsbtmc ++ ':' :: (sVendorKw ++ fmt04x vendor) ++ ':' :: (sProductKw ++ fmt04x product) ++ ':' :: (sSerialKw ++ escape serial)

/-- split on the two-character separator `"::"` (`str.split("::")`, leftmost non-overlapping) -/
def splitDColon : Str → List Str
  | [] => [[]]
  | [c] => [[c]]
  | c :: d :: cs =>
    if c == ':' && d == ':' then [] :: splitDColon cs
    else
      match splitDColon (d :: cs) with
      | [] => [[c]]
      | x :: xs => (c :: x) :: xs

def sINSTR : Str := ['I','N','S','T','R']

/-- one resource string of `_format_resources`; `none` = skipped -/
def formatResource (res : Str) : Option Str :=
  let parts := splitDColon res
  if parts.length ≥ 5 && (parts.headD []).take 3 == ['U','S','B'] && parts.getLast? == some sINSTR then
    match pyInt 0 (parts.getD 1 []), pyInt 0 (parts.getD 2 []) with
    | some v, some p => some (renderUsbtmc v p (parts.getD 3 []))
    | _, _ => none                                   -- `except ValueError: pass`
  else none

def strLt : Str → Str → Bool
  | [], [] => false
  | [], _ :: _ => true
  | _ :: _, [] => false
  | a :: as, b :: bs => a.toNat < b.toNat || (a == b && strLt as bs)

def insertSorted (x : Str) : List Str → List Str
  | [] => [x]
  | y :: ys => if x = y then y :: ys else if strLt x y then x :: y :: ys else y :: insertSorted x ys

/-- `sorted(set(...))` of the formatted resources -/
def formatResources (rs : List Str) : List Str :=
  (rs.filterMap formatResource).foldl (fun acc x => insertSorted x acc) []

/-- a host the way a descriptor must carry it: bracketed when it contains a colon -/
def renderHost (h : Str) : Str := if h.any (· == ':') then '[' :: (h ++ [']']) else h

/-- `"<iface>:<host>:<port>"` -/
def renderHostPort (iface : Str) (h : Str) (port : Nat) : Str :=
  iface ++ ':' :: (renderHost h ++ ':' :: toDec port)

end QmiModel.Descriptor
