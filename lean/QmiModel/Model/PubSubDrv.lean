import QmiModel.Model.PubSub
/-!
# Line protocol over `QmiModel.PubSub.step` shared by the C07 and C08 drivers (core Lean only)

One output line per input line.  The harness replays the linearised event log of the real code: every line is one
model action; the driver answers with the canonical rendering of what the model did, or `disabled …` when the action
is not enabled in the model state (= the log cannot be followed), or `bad-op` for an unparsable line.

    init
    begin <c> <t> pub <ob> <sg> | sub <pc> <ob> <sg> <r> | unsub <pc> <ob> <sg> <r> | rm <ob> | mk <ob> | disc <p>
    m u <c> <t> <class> [a] [b]     micro step of a user thread;    class ∈ L M S Q R W C F E
    m s <c> <class> [a] [b]         micro step of the socket thread
    cb <c> send <peercode> <msg…> <ok 0|1>  |  cb <c> disc <peercode>
    arrive <cn> <cli 0|1> <msg…>    eof <cn> <cli>    connect <a> <p>    stop <c>
    dump <c> <keys…>                tables of context c (keys: `l:<peercode>:<ob>:<sg>` / `r:<ob>:<sg>`), pending ids
    got <c> <r>                     everything delivered to receiver r of context c
    quiet <maxctx>                  is the model state quiescent (contexts 0..maxctx-1)?
  msg:  sig <ob> <sg> <tid> <seq> | req <id> <ob> <sg> <0|1> | rep <id> <0|1> | rem <ob> <sg>
-/
namespace QmiModel.PubSub.Drv
open QmiModel.PubSub

def opClass : MOp → String
  | .snapLocal .. | .snapRemote .. | .addLocal .. | .removeLocal .. | .subRemote .. | .unsubRemote ..
  | .handleReply .. | .objRemoved .. | .addRemote .. | .removeRemote .. | .sigRemoved .. | .peerRemoved .. => "L"
  | .chkObj1 .. | .chkObj2 .. | .markObj .. | .delObj .. | .reserveObj .. | .registerObj ..
  | .reqChk1 .. | .reqChk2 .. => "M"
  | .pubSend .. | .sendChk .. | .notify .. | .popPeer .. => "S"
  | .enq .. | .enqDisc .. => "Q"
  | .deliver .. => "R"
  | .wait .. | .waitFut => "W"
  | .closeConn .. => "C"
  | .finish .. => "F"
  | .ret .. | .raise .. => "E"

def opName : MOp → String
  | .snapLocal .. => "snapLocal" | .deliver .. => "deliver" | .snapRemote .. => "snapRemote" | .pubSend .. => "pubSend"
  | .sendChk .. => "sendChk" | .enq .. => "enq" | .chkObj1 .. => "chkObj1" | .addLocal .. => "addLocal"
  | .chkObj2 .. => "chkObj2" | .removeLocal .. => "removeLocal" | .subRemote .. => "subRemote" | .wait .. => "wait"
  | .unsubRemote .. => "unsubRemote" | .handleReply .. => "handleReply" | .markObj .. => "markObj"
  | .objRemoved .. => "objRemoved" | .notify .. => "notify" | .delObj .. => "delObj" | .reserveObj .. => "reserveObj"
  | .registerObj .. => "registerObj" | .reqChk1 .. => "reqChk1" | .addRemote .. => "addRemote" | .reqChk2 .. => "reqChk2"
  | .removeRemote .. => "removeRemote" | .sigRemoved .. => "sigRemoved" | .popPeer .. => "popPeer"
  | .peerRemoved .. => "peerRemoved" | .closeConn .. => "closeConn" | .finish .. => "finish" | .enqDisc .. => "enqDisc"
  | .waitFut => "waitFut" | .ret .. => "ret" | .raise .. => "raise"

def natList (l : List Nat) : String := ",".intercalate (l.map toString)

def insertSorted (x : Nat) : List Nat → List Nat
  | [] => [x]
  | y :: ys => if x ≤ y then x :: y :: ys else y :: insertSorted x ys

def sortNat (l : List Nat) : List Nat := l.foldr insertSorted []

def keyStr (k : Key) : String := s!"{peerCode k.pc}:{k.ob}:{k.sg}"

def excStr : Exc → String
  | .subscription => "QMI_SignalSubscriptionException"
  | .unknownName => "QMI_UnknownNameException"
  | .duplicateName => "QMI_DuplicateNameException"
  | .usage => "QMI_UsageException"

def outStr : Out → String
  | .tau k => s!"ok {k}"
  | .snap k n => s!"ok {k} [{natList (sortNat n)}]"
  | .dlv r k p => s!"dlv {r} {keyStr k} {p.tid} {p.seq}"
  | .req k id => s!"ok {k} {id}"
  | .ret _ => "ret"
  | .exc e _ => s!"exc:{excStr e}"

def parsePeer (n : Nat) : Peer := if n % 2 = 0 then .name (n / 2) else .alias (n / 2)

def parseBool : String → Option Bool
  | "0" => some false
  | "1" => some true
  | _ => none

/-- `pc` = the publishing context of a signal message (the sender) -/
def parseMsg (pc : Ctx) : List String → Option Msg
  | ["sig", ob, sg, t, q] => do some (.signal (← ob.toNat?) (← sg.toNat?) ⟨pc, ← t.toNat?, ← q.toNat?⟩)
  | ["req", id, ob, sg, b] => do some (.subReq (← id.toNat?) (← ob.toNat?) (← sg.toNat?) (← parseBool b))
  | ["rep", id, b] => do some (.subReply (← id.toNat?) (← parseBool b))
  | ["rem", ob, sg] => do some (.removed (← ob.toNat?) (← sg.toNat?))
  | _ => none

def msgStr : Msg → String
  | .signal ob sg p => s!"sig {ob} {sg} {p.tid} {p.seq}"
  | .subReq id ob sg b => s!"req {id} {ob} {sg} {if b then 1 else 0}"
  | .subReply id b => s!"rep {id} {if b then 1 else 0}"
  | .removed ob sg => s!"rem {ob} {sg}"

def cbStr : Cb → String
  | .smSend d m => s!"send {peerCode d} {msgStr m}"
  | .disconnect n t => s!"disc {peerCode n} t{t}"

def parseOp : List String → Option Op
  | ["pub", ob, sg] => do some (.publish (← ob.toNat?) (← sg.toNat?))
  | ["sub", pc, ob, sg, r] => do some (.subscribe (← pc.toNat?) (← ob.toNat?) (← sg.toNat?) (← r.toNat?))
  | ["unsub", pc, ob, sg, r] => do some (.unsubscribe (← pc.toNat?) (← ob.toNat?) (← sg.toNat?) (← r.toNat?))
  | ["rm", ob] => do some (.removeObj (← ob.toNat?))
  | ["mk", ob] => do some (.makeObj (← ob.toNat?))
  | ["disc", p] => do some (.disconnect (← p.toNat?))
  | _ => none

def doAct (s : State) (a : Act) : State × String :=
  match step s a with
  | some (s', o) => (s', outStr o)
  | none => (s, "disabled")

/-- the head operation must belong to the lock class the harness observed; S/R steps must concern the observed
peer / receiver -/
def micro (s : State) (th : Th) (cls : String) (a b : Nat) : State × String :=
  match s.prog th with
  | [] => (s, "disabled idle")
  | op :: _ =>
    if opClass op ≠ cls then (s, s!"disabled head={opName op}")
    else
      let okArg : Bool := match op with
        | .sendChk d _ => peerCode d == a
        | .popPeer n => peerCode n == a
        | _ => true
      if !okArg then (s, s!"disabled arg head={opName op}")
      else match op with
        | .notify .. => doAct s (.micro th b a)       -- choice = signal, choice2 = peer
        | _ => doAct s (.micro th a b)

def parseKeyTok (t : String) : Option (Sum Key RKey) :=
  match t.splitOn ":" with
  | ["l", pc, ob, sg] => do some (.inl ⟨parsePeer (← pc.toNat?), ← ob.toNat?, ← sg.toNat?⟩)
  | ["r", ob, sg] => do some (.inr ⟨← ob.toNat?, ← sg.toNat?⟩)
  | _ => none

def dump (s : State) (c : Ctx) (toks : List String) : String :=
  let cs := s.ctx c
  let parts := toks.filterMap fun t =>
    match parseKeyTok t with
    | some (.inl k) => if cs.lsubs k = [] then none else some s!"{t}=[{natList (sortNat (cs.lsubs k))}]"
    | some (.inr k) => if cs.rsubs k = [] then none else some s!"{t}=[{natList (sortNat ((cs.rsubs k).map peerCode))}]"
    | none => some s!"{t}=?"
  let pend := (List.range cs.nextReq).filter (fun i => (cs.byId i).isSome)
  s!"tables {" ".intercalate parts} pend=[{natList pend}]"

def quietCtx (s : State) (c : Ctx) : Bool :=
  let cs := s.ctx c
  !cs.alive || (cs.loopQ.isEmpty && (s.prog (.sock c)).isEmpty
    && (List.range cs.nextReq).all (fun i => (cs.byId i).isNone))

def quietConn (s : State) (cn : ConnId) : Bool :=
  let x := s.conn cn
  let endQuiet (h o : Half) : Bool := !(s.ctx h.owner).alive || !h.isOpen || (h.inbox.isEmpty && o.isOpen)
  endQuiet x.cli x.srv && endQuiet x.srv x.cli

def quiet (s : State) (n : Nat) : Bool :=
  (List.range n).all (quietCtx s) && (List.range s.nextConn).all (quietConn s)

def stepLine (s : State) (line : String) : State × String :=
  match line.splitOn " " with
  | ["init"] => (State.init, "ok")
  | "vn" :: names =>
    -- `validName` of every name on the line; a name is its code points joined by ',' ("-" = the empty name)
    let one (w : String) : Char :=
      let cps := if w = "-" then [] else (w.splitOn ",").map (fun x => Char.ofNat (x.toNat?.getD 0))
      if validName cps then '1' else '0'
    (s, "vn " ++ String.ofList (names.map one))
  | "begin" :: c :: t :: rest =>
    match c.toNat?, t.toNat?, parseOp rest with
    | some c, some t, some o => doAct s (.begin c t o)
    | _, _, _ => (s, "bad-op")
  | "m" :: "u" :: c :: t :: cls :: args =>
    match c.toNat?, t.toNat? with
    | some c, some t =>
      let a := (args.head?.bind String.toNat?).getD 0
      let b := ((args.drop 1).head?.bind String.toNat?).getD 0
      micro s (.user c t) cls a b
    | _, _ => (s, "bad-op")
  | "m" :: "s" :: c :: cls :: args =>
    match c.toNat? with
    | some c =>
      let a := (args.head?.bind String.toNat?).getD 0
      let b := ((args.drop 1).head?.bind String.toNat?).getD 0
      micro s (.sock c) cls a b
    | none => (s, "bad-op")
  | "cb" :: c :: "send" :: d :: rest =>
    match c.toNat?, d.toNat?, rest.getLast?.bind parseBool with
    | some c, some d, some ok =>
     match parseMsg c rest.dropLast with
     | some m =>
      match (s.ctx c).loopQ with
      | hd :: _ =>
        if hd = .smSend (parsePeer d) m then doAct s (.cb c ok) else (s, s!"disabled head={cbStr hd}")
      | [] => (s, "disabled empty-queue")
     | none => (s, "bad-op")
    | _, _, _ => (s, "bad-op")
  | ["cb", c, "disc", d] =>
    match c.toNat?, d.toNat? with
    | some c, some d =>
      match (s.ctx c).loopQ with
      | .disconnect n t :: _ =>
        if n = parsePeer d then doAct s (.cb c true) else (s, s!"disabled head={cbStr (.disconnect n t)}")
      | hd :: _ => (s, s!"disabled head={cbStr hd}")
      | [] => (s, "disabled empty-queue")
    | _, _ => (s, "bad-op")
  | "arrive" :: cn :: cli :: rest =>
    match cn.toNat?, parseBool cli with
    | some cn, some cli =>
      match parseMsg ((s.conn cn).half (!cli)).owner rest with
      | some m =>
        match ((s.conn cn).half cli).inbox with
        | hd :: _ => if hd = m then doAct s (.arrive cn cli) else (s, s!"disabled head={msgStr hd}")
        | [] => (s, "disabled empty-inbox")
      | none => (s, "bad-op")
    | _, _ => (s, "bad-op")
  | ["eof", cn, cli] =>
    match cn.toNat?, parseBool cli with
    | some cn, some cli => doAct s (.eof cn cli)
    | _, _ => (s, "bad-op")
  | ["connect", a, p] =>
    match a.toNat?, p.toNat? with
    | some a, some p => doAct s (.connect a p)
    | _, _ => (s, "bad-op")
  | ["stop", c] =>
    match c.toNat? with
    | some c => doAct s (.stop c)
    | none => (s, "bad-op")
  | ["rok", "u", c, t] =>
    match c.toNat?, t.toNat? with
    | some c, some t => doAct s (.routerOk (.user c t))
    | _, _ => (s, "bad-op")
  | ["rok", "s", c] =>
    match c.toNat? with
    | some c => doAct s (.routerOk (.sock c))
    | none => (s, "bad-op")
  | ["stopreq", c] =>
    match c.toNat? with
    | some c => doAct s (.stopReq c)
    | none => (s, "bad-op")
  | "dump" :: c :: toks =>
    match c.toNat? with
    | some c => (s, dump s c toks)
    | none => (s, "bad-op")
  | ["got", c, r] =>
    match c.toNat?, r.toNat? with
    | some c, some r =>
      (s, "got " ++ " ".intercalate (((s.ctx c).got r).map fun i => s!"{keyStr i.k}/{i.p.tid}/{i.p.seq}"))
    | _, _ => (s, "bad-op")
  | ["quiet", n] =>
    match n.toNat? with
    | some n => (s, if quiet s n then "quiet" else "busy")
    | none => (s, "bad-op")
  | _ => (s, "bad-op")

end QmiModel.PubSub.Drv
