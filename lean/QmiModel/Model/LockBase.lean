/-!
# Vocabulary of the generated lock table (property C04; reused by C01)

`Gen/LockFsm.lean` is regenerated on every run by `harness/props/c04.py:translate()`:
it **executes** the real `_RpcThread._handle_lock_rpc_request` (and the token test of
`_RpcThread._handle_method_rpc_request`) on a stub thread object for every cell of the
finite abstraction below and writes down what happened.  This file only fixes the
vocabulary the table is written in; `Model/Lock.lean` interprets it on real tokens.

The abstraction is sound as long as the code only *compares* tokens (`==`, `is None`);
the translator re-runs every cell with several randomised token values (equal context
name / equal token string / both different) and fails loudly if the outcome depends on
anything but the relation.

Core Lean only.
-/
namespace QmiModel.Lock

/-- `QMI_LockRpcAction` -/
inductive Act | acquire | release | forceRelease | query
  deriving DecidableEq, Repr

/-- request token relative to the current owner token (`_locking_token`).
`same` can only occur when the object is locked. -/
inductive Rel | none | same | other
  deriving DecidableEq, Repr

/-- value of `_locking_token` after the request -/
inductive NewSt
  | unlocked   -- `None`
  | keep       -- unchanged (the old owner; `None` if it was unlocked)
  | setReq     -- the request's token
  deriving DecidableEq, Repr

/-- `lock_token` of the `QMI_LockRpcReplyMessage` -/
inductive Rep
  | none       -- `None`
  | req        -- the request's token
  | owner      -- the owner token (before the request)
  | denied     -- `(context.name, ACCESS_DENIED_TOKEN_PLACEHOLDER)`
  | lockedPh   -- `(context.name, OBJECT_LOCKED_TOKEN_PLACEHOLDER)`
  deriving DecidableEq, Repr

/-- Python exception types that were seen escaping (everything else is `other`) -/
inductive PyExc | unboundLocalError | valueError | typeError | attributeError | assertionError | nameError | keyError | other
  deriving DecidableEq, Repr

def PyExc.name : PyExc → String
  | .unboundLocalError => "UnboundLocalError"
  | .valueError => "ValueError"
  | .typeError => "TypeError"
  | .attributeError => "AttributeError"
  | .assertionError => "AssertionError"
  | .nameError => "NameError"
  | .keyError => "KeyError"
  | .other => "other"

/-- one cell of the lock table: the handler returned a reply, or an exception escaped
(which kills the object's worker thread: `_RpcThread.run` has no handler around it) -/
inductive Cell
  | ok (st : NewSt) (rep : Rep)
  | crash (e : PyExc)
  deriving DecidableEq, Repr

/-- one cell of the method-dispatch guard (`_handle_method_rpc_request`) -/
inductive GCell
  | exec       -- the method body ran, reply `RESULT_IS_VALUE`
  | refused    -- reply `OBJECT_IS_LOCKED`, body not run
  | crash (e : PyExc)
  deriving DecidableEq, Repr

end QmiModel.Lock
