/-!
# Model of the buffered byte-stream transports (qmi/core/transport.py) — property C13

Mirrors, branch by branch, `QMI_Transport.open/close/_check_is_open`,
`QMI_SocketTransport.read/read_until/read_until_timeout/discard_read/_read_from_socket`
(shared by `QMI_TcpTransport` and `QMI_UdpTransport`; the two differ in
`MIN_PACKET_SIZE`/`MAX_PACKET_SIZE`, carried as the fields `minP`/`maxP`, and in
stream vs. datagram `recv`) and `QMI_SerialTransport.read/read_until/
read_until_timeout/discard_read`.

The device is an *oracle script*: a list of receive results, each with the
virtual time that elapses before it is delivered.  The script does not depend
on the time-out the code asks for, so it covers every packetisation and every
arrival timing (including "the data arrived but the deadline has passed").
A stream-type receive (`recv` on TCP, `Serial.read`) returns at most the
requested number of bytes of the head chunk and leaves the rest at the head
(elapsed 0); a datagram receive returns the whole datagram or fails with
`OSError` (datagram lost by the OS) when it does not fit.

Time is a `Nat` tick counter (the harness maps one tick to 1/8 s, exact in
binary floating point); time-outs are `Option Int` (`none` = Python `None`).

Ghost fields (`log`) record, in stream order, every segment handed to the
caller, discarded, or lost by the OS.  Core Lean only.
-/
namespace QmiModel.Transport

abbrev Bytes := List UInt8

inductive Kind | tcp | udp | serial
  deriving DecidableEq, Repr

/-- one scripted receive result -/
inductive Res
  | data (bs : Bytes)
  | timeout
  | eof
  deriving DecidableEq, Repr

structure Ev where
  elapsed : Nat
  res     : Res
  deriving DecidableEq, Repr

abbrev Script := List Ev

/-- device interactions (what the fake socket / serial port records) -/
inductive Io
  | mk                      -- socket.socket(...) / serial.Serial(...)
  | st (v : Option Int)     -- socket.settimeout(v)
  | rf (n : Nat)            -- socket.recvfrom(n)
  | rv (n : Nat)            -- socket.recv(n)
  | cl                      -- .close()
  | iw                      -- Serial.in_waiting
  | rd (n : Nat)            -- Serial.read(n)
  | rs                      -- Serial.reset_input_buffer()
  | gh                      -- socket.gethostbyname(host)   (UDP open)
  | cn                      -- socket.connect(address)      (TCP open)
  | bd                      -- socket.bind(("", port))      (UDP open)
  | sa (n : Nat)            -- socket.sendall(data), len(data) = n
  | sd (n : Nat)            -- socket.sendto(data, address), len(data) = n
  | wr (n : Nat)            -- Serial.write(data), len(data) = n
  deriving DecidableEq, Repr

/-- ghost tag of a delivered segment -/
inductive Tag | ret | disc | lost
  deriving DecidableEq, Repr

/-- Python exceptions as values -/
inductive Exc
  | invalidOp     -- QMI_InvalidOperationException
  | timeout       -- QMI_TimeoutException
  | eof           -- QMI_EndOfInputException
  | runtime       -- QMI_RuntimeException (UDP datagram larger than the receive size)
  | valueError    -- socket.settimeout(negative)
  | assertion     -- `assert nbuf == nbytes`
  | osError       -- an OSError (sub)class raised by the OS / pyserial while opening, passed through unchanged
  | exhausted     -- the oracle script ran out (the real call would block; harness: ScriptExhausted)
  deriving DecidableEq, Repr

inductive Out
  | ret (bs : Bytes)
  | unit
  | exc (e : Exc)
  deriving DecidableEq, Repr

/-- what the next `open()` will meet (oracle): success, a connect time-out, a failure before the
device object exists (`gethostbyname` / `serial.Serial(...)` raising), a failure after it exists
(`connect` refused / `bind` failing) -/
inductive OpenRes | ok | timeout | early | late
  deriving DecidableEq, Repr

structure St where
  kind   : Kind
  minP   : Nat                      -- MIN_PACKET_SIZE
  maxP   : Nat                      -- MAX_PACKET_SIZE
  isOpen : Bool := false
  buf    : Bytes := []              -- `_read_buffer`
  clock  : Nat := 0
  dev    : Script := []             -- what the device will still deliver
  io     : List Io := []            -- device interactions so far
  log    : List (Tag × Bytes) := [] -- ghost: delivered / discarded / lost segments in stream order
  openPlan : List OpenRes := []     -- outcomes of the coming `open()` attempts (empty = success)
  wlog   : List Bytes := []         -- what `write` handed to the device, one entry per call, in order
  deriving Repr

def init (k : Kind) (minP maxP : Nat) : St := { kind := k, minP := minP, maxP := maxP }

/-- all data bytes of a script, in order -/
def devBytes : Script → Bytes
  | [] => []
  | ⟨_, .data bs⟩ :: r => bs ++ devBytes r
  | ⟨_, _⟩ :: r => devBytes r

def logBytes : List (Tag × Bytes) → Bytes
  | [] => []
  | (_, bs) :: r => bs ++ logBytes r

/-- enough fuel for any loop that consumes at least one byte or one entry per iteration -/
def fuelOf (d : Script) : Nat := d.length + (devBytes d).length + 2

/-! ## byte-string primitives -/

/-- `bytearray.find(pat)`; `none` = -1 -/
def findSub (pat : Bytes) : Bytes → Option Nat
  | [] => if pat.isEmpty then some 0 else none
  | x :: xs =>
    if pat.isPrefixOf (x :: xs) then some 0
    else match findSub pat xs with
      | some p => some (p + 1)
      | none => none

/-- `bytearray.endswith(pat)` -/
def endsWith (l pat : Bytes) : Bool := pat.isSuffixOf l

/-! ## the scripted device -/

inductive Rx
  | data (bs : Bytes)
  | timeout
  | eof
  | oserr (lost : Bytes)
  | exhausted
  deriving DecidableEq, Repr

/-- one receive of at most `size` bytes: elapsed time, result, remaining script -/
def popDev (datagram : Bool) (size : Nat) : Script → Nat × Rx × Script
  | [] => (0, .exhausted, [])
  | ⟨e, .timeout⟩ :: rest => (e, .timeout, rest)
  | ⟨e, .eof⟩ :: rest => (e, .eof, rest)
  | ⟨e, .data bs⟩ :: rest =>
    if bs.length ≤ size then (e, .data bs, rest)
    else if datagram then (e, .oserr bs, rest)
    else (e, .data (bs.take size), ⟨0, .data (bs.drop size)⟩ :: rest)

def rxBytes : Rx → Bytes
  | .data bs => bs
  | .oserr l => l
  | _ => []

/-! ## socket family -/

inductive RfOut
  | ok (b : Bytes)
  | timeout
  | eof
  | runtime
  | exhausted
  deriving DecidableEq, Repr

/-- raw `recv`/`recvfrom` on the fake socket (`viaRecvfrom` only selects the io tag) -/
def sockRecv (s : St) (size : Nat) (viaRecvfrom : Bool) : St × Rx :=
  let r := popDev (s.kind == .udp) size s.dev
  ({ s with clock := s.clock + r.1, dev := r.2.2,
            io := s.io ++ [if viaRecvfrom then Io.rf size else Io.rv size] }, r.2.1)

/-- `_read_from_socket(packet_size)` -/
def readFromSocket (s : St) (size : Nat) : St × RfOut :=
  match sockRecv s size true with
  | (s1, .data b) => if b.isEmpty then (s1, .eof) else (s1, .ok b)
  | (s1, .timeout) => (s1, .timeout)
  | (s1, .eof) => (s1, .eof)
  | (s1, .oserr l) => ({ s1 with log := s1.log ++ [(Tag.lost, l)] }, .runtime)
  | (s1, .exhausted) => (s1, .exhausted)

/-- `socket.settimeout(v)`: recorded, then `ValueError` (second component `false`) for a negative value -/
def setTimeout (s : St) (v : Option Int) : St × Bool :=
  ({ s with io := s.io ++ [Io.st v] },
   match v with
   | none => true
   | some x => decide (0 ≤ x))

/-- the tail of `read`: hand out the first `n` buffered bytes -/
def takeBuf (s : St) (n : Nat) : St × Out :=
  ({ s with buf := s.buf.drop n, log := s.log ++ [(Tag.ret, s.buf.take n)] }, .ret (s.buf.take n))

/-- hand out the whole buffer -/
def takeAll (s : St) : St × Out :=
  ({ s with buf := [], log := s.log ++ [(Tag.ret, s.buf)] }, .ret s.buf)

/-- `while nbuf < nbytes:` of `QMI_SocketTransport.read` -/
def sockReadLoop (n : Nat) (timeout : Option Int) (tstart : Nat) : Nat → Option Int → St → St × Out
  | 0, _, s => if n ≤ s.buf.length then takeBuf s n else (s, .exc .exhausted)
  | fuel + 1, tremain, s =>
    if n ≤ s.buf.length then takeBuf s n
    else
      match setTimeout s tremain with
      | (s0, false) => (s0, .exc .valueError)
      | (s0, true) =>
        match readFromSocket s0 (max (n - s.buf.length) s.minP) with
        | (s1, .timeout) => (s1, .exc .timeout)
        | (s1, .eof) => (s1, .exc .eof)
        | (s1, .runtime) => (s1, .exc .runtime)
        | (s1, .exhausted) => (s1, .exc .exhausted)
        | (s1, .ok b) =>
          let s2 := { s1 with buf := s1.buf ++ b }
          match timeout with
          | none => sockReadLoop n timeout tstart fuel none s2
          | some t =>
            let tremain' : Int := (tstart : Int) + t - (s2.clock : Int)
            if tremain' < 0 then (s2, .exc .timeout)
            else sockReadLoop n timeout tstart fuel (some tremain') s2

/-- `QMI_SocketTransport.read(nbytes, timeout)` -/
def sockRead (s : St) (n : Nat) (timeout : Option Int) : St × Out :=
  if !s.isOpen then (s, .exc .invalidOp)
  else sockReadLoop n timeout s.clock (fuelOf s.dev) timeout s

/-- the "found the terminator" exit shared by all `read_until` variants -/
def takeMsg (s : St) (p : Nat) (term : Bytes) : St × Out := takeBuf s (p + term.length)

/-- `while True:` of `QMI_SocketTransport.read_until` -/
def sockUntilLoop (term : Bytes) (timeout : Option Int) (tstart : Nat) : Nat → Option Int → St → St × Out
  | 0, _, s => (s, .exc .exhausted)
  | fuel + 1, tremain, s =>
    match setTimeout s tremain with
    | (s0, false) => (s0, .exc .valueError)
    | (s0, true) =>
      match readFromSocket s0 s.maxP with
      | (s1, .timeout) => (s1, .exc .timeout)
      | (s1, .eof) => (s1, .exc .eof)
      | (s1, .runtime) => (s1, .exc .runtime)
      | (s1, .exhausted) => (s1, .exc .exhausted)
      | (s1, .ok b) =>
        let s2 := { s1 with buf := s1.buf ++ b }
        match findSub term s2.buf with
        | some p => takeMsg s2 p term
        | none =>
          match timeout with
          | none => sockUntilLoop term timeout tstart fuel none s2
          | some t =>
            let tremain' : Int := (tstart : Int) + t - (s2.clock : Int)
            if tremain' < 0 then (s2, .exc .timeout)
            else sockUntilLoop term timeout tstart fuel (some tremain') s2

/-- `QMI_SocketTransport.read_until`: the buffer is searched *before* `_check_is_open` -/
def sockUntil (s : St) (term : Bytes) (timeout : Option Int) : St × Out :=
  match findSub term s.buf with
  | some p => takeMsg s p term
  | none =>
    if !s.isOpen then (s, .exc .invalidOp)
    else sockUntilLoop term timeout s.clock (fuelOf s.dev) timeout s

/-- `QMI_SocketTransport.read_until_timeout` -/
def sockRut (s : St) (n : Nat) (timeout : Option Int) : St × Out :=
  match sockRead s n timeout with
  | (s1, .exc .timeout) => takeBuf s1 n    -- `self._read_buffer[:nbytes]`, the rest stays buffered (fix 916a4b4)
  | (s1, .exc .eof) => if s1.buf.isEmpty then (s1, .exc .eof) else takeAll s1
  | r => r

/-- the receive loop of `QMI_SocketTransport.discard_read` -/
def sockDiscardLoop : Nat → St → St × Out
  | 0, s => (s, .exc .exhausted)
  | fuel + 1, s =>
    match sockRecv s s.maxP false with
    | (s1, .timeout) => (s1, .unit)
    | (s1, .eof) => (s1, .unit)
    | (s1, .oserr l) => ({ s1 with log := s1.log ++ [(Tag.disc, l)] }, .unit)
    | (s1, .exhausted) => (s1, .exc .exhausted)
    | (s1, .data b) =>
      if b.isEmpty then (s1, .unit)
      else sockDiscardLoop fuel { s1 with log := s1.log ++ [(Tag.disc, b)] }

def sockDiscard (s : St) : St × Out :=
  if !s.isOpen then (s, .exc .invalidOp)
  else
    let s1 := { s with buf := [], log := s.log ++ [(Tag.disc, s.buf)] }
    let s2 := (setTimeout s1 (some 0)).1
    sockDiscardLoop (fuelOf s.dev) s2

/-! ## serial -/

/-- `Serial.read(size)`: `none` = script exhausted (would block for ever) -/
def serRead (s : St) (size : Nat) : St × Option Bytes :=
  if size = 0 then ({ s with io := s.io ++ [Io.rd 0] }, some [])
  else
    let r := popDev false size s.dev
    let s1 := { s with clock := s.clock + r.1, dev := r.2.2, io := s.io ++ [Io.rd size] }
    match r.2.1 with
    | .data b => (s1, some b)
    | .exhausted => (s1, none)
    | _ => (s1, some [])

/-- `Serial.in_waiting`: the bytes of the head chunk when it is available without delay -/
def inWaitingOf : Script → Nat
  | ⟨0, .data bs⟩ :: _ => bs.length
  | _ => 0

def inWaiting (s : St) : St × Nat := ({ s with io := s.io ++ [Io.iw] }, inWaitingOf s.dev)

/-- what `reset_input_buffer()` throws away: the leading chunks available without delay -/
def flushSplit : Script → Bytes × Script
  | ⟨0, .data bs⟩ :: rest => let r := flushSplit rest; (bs ++ r.1, r.2)
  | d => ([], d)

/-- `while True:` of `QMI_SerialTransport.read`; the flag says "script exhausted" -/
def serReadLoop (n : Nat) (timeout : Option Int) (tstart : Nat) : Nat → St → St × Bool
  | 0, s => (s, true)
  | fuel + 1, s =>
    match serRead s (n - s.buf.length) with
    | (s1, none) => (s1, true)
    | (s1, some b) =>
      let s2 := { s1 with buf := s1.buf ++ b }
      if n ≤ s2.buf.length then (s2, false)
      else match timeout with
        | none => serReadLoop n timeout tstart fuel s2
        | some t =>
          if (tstart : Int) + t - (s2.clock : Int) ≤ 0 then (s2, false)
          else serReadLoop n timeout tstart fuel s2

/-- the end of `QMI_SerialTransport.read` -/
def serReadFinish (s : St) (n : Nat) : St × Out :=
  if s.buf.length < n then (s, .exc .timeout)
  else if s.buf.length ≠ n then (s, .exc .assertion)
  else takeAll s

/-- `(timeout is not None) and (timeout <= 0)` -/
def nonBlocking : Option Int → Bool
  | some t => decide (t ≤ 0)
  | none => false

/-- `QMI_SerialTransport.read(nbytes, timeout)` -/
def serialRead (s : St) (n : Nat) (timeout : Option Int) : St × Out :=
  if !s.isOpen then (s, .exc .invalidOp)
  else if n ≤ s.buf.length then takeBuf s n
  else
    if nonBlocking timeout then
      match inWaiting s with
      | (s1, avail) =>
        if n - s.buf.length ≤ avail then
          match serRead s1 (n - s.buf.length) with
          | (s2, some b) => serReadFinish { s2 with buf := s2.buf ++ b } n
          | (s2, none) => (s2, .exc .exhausted)
        else serReadFinish s1 n
    else
      match serReadLoop n timeout s.clock (fuelOf s.dev) s with
      | (s1, true) => (s1, .exc .exhausted)
      | (s1, false) => serReadFinish s1 n

/-- `(tremain is None) or (tremain > 0)` -/
def keepGoing : Option Int → Bool
  | none => true
  | some x => decide (0 < x)

/-- the single-byte loop of `QMI_SerialTransport.read_until` -/
def serUntilLoop (term : Bytes) (timeout : Option Int) (tstart : Nat) : Nat → Option Int → St → St × Out
  | 0, tremain, s =>
    if !keepGoing tremain then (s, .exc .timeout) else (s, .exc .exhausted)
  | fuel + 1, tremain, s =>
    if !keepGoing tremain then (s, .exc .timeout)
    else
      match serRead s 1 with
      | (s1, none) => (s1, .exc .exhausted)
      | (s1, some b) =>
        let s2 := { s1 with buf := s1.buf ++ b }
        if endsWith s2.buf term then takeAll s2
        else match timeout with
          | none => serUntilLoop term timeout tstart fuel none s2
          | some t => serUntilLoop term timeout tstart fuel (some ((tstart : Int) + t - (s2.clock : Int))) s2

/-- `QMI_SerialTransport.read_until` -/
def serialUntil (s : St) (term : Bytes) (timeout : Option Int) : St × Out :=
  if !s.isOpen then (s, .exc .invalidOp)
  else
    let s1 : St :=
      match findSub term s.buf with
      | some _ => s
      | none =>
        match inWaiting s with
        | (sa, navail) =>
          match serRead sa navail with
          | (sb, some b) => { sb with buf := sb.buf ++ b }
          | (sb, none) => sb       -- unreachable: navail > 0 means the head is data
    match findSub term s1.buf with
    | some p => takeMsg s1 p term
    | none => serUntilLoop term timeout s1.clock (fuelOf s1.dev) timeout s1

/-- `QMI_SerialTransport.read_until_timeout` -/
def serialRut (s : St) (n : Nat) (timeout : Option Int) : St × Out :=
  match serialRead s n timeout with
  | (s1, .exc .timeout) => takeAll s1
  | r => r

/-- `QMI_SerialTransport.discard_read` -/
def serialDiscard (s : St) : St × Out :=
  if !s.isOpen then (s, .exc .invalidOp)
  else
    let f := flushSplit s.dev
    ({ s with buf := [], dev := f.2, io := s.io ++ [Io.rs],
              log := s.log ++ [(Tag.disc, s.buf ++ f.1)] }, .unit)

/-! ## the operations -/

inductive Op
  | open
  | close
  | read (n : Nat) (t : Option Int)
  | readUntil (term : Bytes) (t : Option Int)
  | readUntilTimeout (n : Nat) (t : Option Int)
  | discardRead
  | feed (evs : Script)        -- the device sends more (environment action)
  | write (d : Bytes)
  | planOpen (r : OpenRes)     -- the environment decides how the next unplanned `open()` will go
  deriving Repr

/-- `QMI_Transport.open` + `_open_transport` of the three classes.  `_is_open` is set only after
`_open_transport` returned; every failure leaves the flag `False`.
* TCP: buffer reset, `socket()`, `connect`; `socket.timeout` → socket closed, `QMI_TimeoutException`; any
  other `OSError` → socket closed, the error passes through (fix f965cdf).
* UDP: buffer reset, `gethostbyname` (may raise before any socket exists), `socket()`, `bind`; an `OSError`
  of `bind` → socket closed, the error passes through (fix 08e4670).
* serial: `serial.Serial(...)` (a `SerialException` passes through, nothing created); buffer kept. -/
def doOpen (s : St) : St × Out :=
  if s.isOpen then (s, .exc .invalidOp)
  else
    let r := s.openPlan.headD .ok
    let s0 := { s with openPlan := s.openPlan.tail }
    match s.kind with
    | .serial =>
      match r with
      | .ok => ({ s0 with isOpen := true, io := s0.io ++ [Io.mk] }, .unit)
      | _ => (s0, .exc .osError)
    | .tcp =>
      let s1 := { s0 with buf := [], log := s0.log ++ [(Tag.disc, s0.buf)], io := s0.io ++ [Io.mk, Io.cn] }
      match r with
      | .ok => ({ s1 with isOpen := true }, .unit)
      | .timeout => ({ s1 with io := s1.io ++ [Io.cl] }, .exc .timeout)
      | _ => ({ s1 with io := s1.io ++ [Io.cl] }, .exc .osError)
    | .udp =>
      let s1 := { s0 with buf := [], log := s0.log ++ [(Tag.disc, s0.buf)], io := s0.io ++ [Io.gh] }
      match r with
      | .early => (s1, .exc .osError)
      | .ok => ({ s1 with isOpen := true, io := s1.io ++ [Io.mk, Io.bd] }, .unit)
      | _ => ({ s1 with io := s1.io ++ [Io.mk, Io.bd, Io.cl] }, .exc .osError)

/-- `write(data)` of the three classes: refused when closed, otherwise the whole `data` goes to the
device in one call (`sendall` / one datagram / `Serial.write`) -/
def doWrite (s : St) (d : Bytes) : St × Out :=
  if !s.isOpen then (s, .exc .invalidOp)
  else
    match s.kind with
    | .serial => ({ s with io := s.io ++ [Io.wr d.length], wlog := s.wlog ++ [d] }, .unit)
    | .tcp => ({ s with io := s.io ++ [Io.st none, Io.sa d.length], wlog := s.wlog ++ [d] }, .unit)
    | .udp => ({ s with io := s.io ++ [Io.st none, Io.sd d.length], wlog := s.wlog ++ [d] }, .unit)

/-- `close` -/
def doClose (s : St) : St × Out :=
  if !s.isOpen then (s, .exc .invalidOp)
  else ({ s with isOpen := false, io := s.io ++ [Io.cl] }, .unit)

def step (s : St) : Op → St × Out
  | .open => doOpen s
  | .close => doClose s
  | .read n t => if s.kind = .serial then serialRead s n t else sockRead s n t
  | .readUntil term t => if s.kind = .serial then serialUntil s term t else sockUntil s term t
  | .readUntilTimeout n t => if s.kind = .serial then serialRut s n t else sockRut s n t
  | .discardRead => if s.kind = .serial then serialDiscard s else sockDiscard s
  | .feed evs => ({ s with dev := s.dev ++ evs }, .unit)
  | .write d => doWrite s d
  | .planOpen r => ({ s with openPlan := s.openPlan ++ [r] }, .unit)

def run (s : St) : List Op → St × List Out
  | [] => (s, [])
  | o :: os =>
    let r1 := step s o
    let r2 := run r1.1 os
    (r2.1, r1.2 :: r2.2)

/-- bytes the device sends through `feed` operations -/
def fedBytes : List Op → Bytes
  | [] => []
  | .feed evs :: r => devBytes evs ++ fedBytes r
  | _ :: r => fedBytes r

end QmiModel.Transport
