/-!
# Wake — a small-step interpreter for synchronisation programs (property C11)

Generic model used for "a stop request always wakes a waiting task".  The *programs* interpreted
here are not written by hand: `harness/tr_syncprogs.py` translates the statement order of
`_TaskThread.stop_task`, `_TaskThread.wait_for_condition`, `QMI_Task.sleep`,
`pubsub._wait_for_condition`, `QMI_SignalReceiver.get_next_signal` and `QMI_LoopTask.run` into
`QmiModel/Gen/SyncProgs.lean` on every run.  This file only fixes what the primitive operations
*mean*:

* locks (`threading.Lock` / the lock of a `threading.Condition`): acquire blocks while held;
* a condition: `wait` = **atomic** release-and-park, woken by `notify_all` (under the lock) or by
  time-out, then re-acquire;
* `threading.Event`: `set`, `is_set`, `wait(timeout)`;
* the unsynchronised slot `_TaskThread._wait_cond` (read / written as plain attribute);
* Python control flow: calls, `return`, `raise`, `try/except/finally` (handler tables; `finally`
  bodies are duplicated by the translator exactly as CPython's compiler does).

Granularity: every operation on a *shared* object (lock, condition, event, `_wait_cond`) is one
interleaving step; thread-local control flow between two such operations is fused into the
preceding step (`runSilent`).  Time is abstracted: a timed wait may time out whenever its lock is
free.  Everything is written with structural recursion / `Nat` fuel so that it reduces under
`decide +kernel`.  Core Lean only.
-/
namespace QmiModel.Wake

/-- which lock / condition an operation refers to -/
inductive Ref
  | wcl                    -- `_TaskThread._wait_cond_lock`
  | sc                     -- `_TaskThread._state_cond`
  | cond                   -- the condition the task waits on (`cond` parameter = receiver `_queue_cond`)
  | viaLoc (i : Nat)       -- the condition held in local variable `i` (loaded from `_wait_cond`; `None` ⇒ error)
  deriving DecidableEq, Repr

/-- timeout argument of a wait -/
inductive TOut
  | never                  -- literally `None`
  | always                 -- a number
  | param                  -- the caller's `timeout` argument (`Optional[float]`)
  deriving DecidableEq, Repr

/-- modelled exception kinds -/
inductive Ex
  | stop                   -- QMI_TaskStopException
  | timeout                -- QMI_TimeoutException
  deriving DecidableEq, Repr

inductive Mark | prepare | iteration | finalize
  deriving DecidableEq, Repr

inductive Instr
  -- operations on shared objects (one interleaving step each)
  | lock (r : Ref) | unlock (r : Ref)
  | setFlag                              -- `_stop_requested.set()`
  | ldFlag                               -- acc := `_stop_requested.is_set()`
  | ldWc                                 -- acc := (`_wait_cond` is not None)
  | stWc (b : Bool)                      -- `_wait_cond` := cond / None
  | condWait (r : Ref) (t : TOut)        -- one `cond.wait(t)`; acc := not timed out
  | notifyAll (r : Ref)
  | notify (r : Ref) (n : Nat)           -- `cond.notify(n)`: wakes the `n` **oldest** waiters (CPython: FIFO deque)
  | evWait (t : TOut)                    -- `_stop_requested.wait(t)`; acc := result
  | tsleep                               -- `time.sleep(t)`
  | mark (m : Mark)                      -- user hook of the loop task (observable)
  | publish (r : Nat)                    -- `_receive_signal` of receiver r: the whole critical section `with cond: append; notify_all()`
  -- thread-local (fused)
  | ldStateIn (mask : Nat)               -- acc := `self._state in {members whose bit is set in mask}` (under `_state_cond`)
  | stState (v : Nat)                    -- `self._state = <member v>` (under `_state_cond`)
  | ldPred                               -- acc := predicate()   (queue non-empty; caller holds the condition's lock)
  | push | pop                           -- queue append (bounded) / popleft
  | ldLoc (i : Nat) | stLoc (i : Nat) | ldConst (b : Bool) | neg
  | ldAny                                -- acc := data/time dependent value (nondeterministic)
  | ldIsTask                             -- acc := isinstance(current_thread(), _TaskThread)
  | assertAcc                            -- `assert`: AssertionError unless acc
  | jmp (t : Nat) | jf (t : Nat) | jt (t : Nat)
  | timerStart                           -- start of `wait_for`: deadline not yet passed
  | jexp (t : Nat)                       -- jump if the deadline has passed
  | timerStop                            -- end of `wait_for`: the deadline goes out of scope
  | clrLoc (i : Nat)                     -- local `i` goes out of scope (function exit)
  | clrCond (i : Nat)                    -- the same for a local that holds a condition loaded from `_wait_cond`
  | setTimed                             -- timed := acc   (is the `timeout` argument a number?)
  | setRecv                              -- rcv := acc     (which receiver the next `get_next_signal` is called on)
  | call (f : Nat) | ret
  | raise (e : Ex) | reraise
  | halt
  deriving DecidableEq, Repr

structure Handler where
  lo : Nat
  hi : Nat                 -- protects pcs `lo ≤ pc < hi`
  target : Nat
  catches : Option Ex      -- `none` = `finally` / `with` exit (runs, then `reraise`)
  deriving DecidableEq, Repr

structure Func where
  code : List Instr
  handlers : List Handler  -- innermost first
  deriving DecidableEq, Repr

inductive Status | run | done | raised (e : Ex) | crashed
  deriving DecidableEq, Repr

inductive Park
  | no
  | cond (l : Nat) (notified : Bool)     -- parked on the condition whose lock is `l`
  | ev
  | sleep
  deriving DecidableEq, Repr

structure Th where
  fn : Nat
  pc : Nat
  stack : List (Nat × Nat)     -- call sites (fn, pc of the `call`)
  acc : Bool
  locs : Nat                   -- bit i = local i
  exc : Option Ex              -- exception being propagated through a `finally`
  park : Park
  expired : Bool
  timed : Bool
  isTask : Bool
  rcv : Nat                    -- the receiver (0 / 1) whose `get_next_signal` the thread is calling: the `cond` of this call
  cl : Nat                     -- the condition last loaded from `_wait_cond` (0 = None, c+1), held in a local
  status : Status
  deriving DecidableEq, Repr

structure St where
  flag : Bool                  -- `_stop_requested`
  wc : Nat                     -- `_wait_cond`: 0 = None, c+1 = the condition of receiver c
  qlen : Nat                   -- queue length of receiver 0
  qlen2 : Nat                  -- queue length of receiver 1
  lwcl : Option Nat            -- lock owners (thread index)
  lsc : Option Nat
  lqc : Option Nat             -- lock of receiver 0's condition (lock id 2)
  lqc2 : Option Nat            -- lock of receiver 1's condition (lock id 3)
  fin : Nat                    -- how often `loop_finalize` ran
  tstate : Nat                 -- `_TaskThread._state` (index of the member of `_TaskThread.State`)
  wq : List Nat                -- not yet notified waiters of the conditions, oldest first; entry = lock id * 16 + thread
  ths : List Th
  deriving DecidableEq, Repr

structure Sys where
  funcs : List Func
  cap : Nat                    -- receiver `max_queue_length`
  init : St
  nStop : Nat                  -- threads 1..nStop are stoppers (thread 0 is the task)
  deriving Repr

/-- labels of the interleaving steps (what the harness observes on the real primitives) -/
inductive Lbl
  | lock (l : Nat) | unlock (l : Nat)          -- 0 wcl, 1 sc, 2 condition lock
  | setFlag | ldFlag (v : Bool) | ldWc (v : Bool) | stWc (b : Bool)
  | park | reacq (byNotify : Bool) | notify (l : Nat)
  | evCheck | evPark | evWake (bySet : Bool)
  | slPark | slWake
  | mark (m : Mark)
  | publish (r : Nat)
  | crash
  deriving DecidableEq, Repr

def setNth {α} : List α → Nat → α → List α
  | [], _, _ => []
  | _ :: r, 0, a => a :: r
  | x :: r, n+1, a => x :: setNth r n a

def fetch (funcs : List Func) (fn pc : Nat) : Option Instr :=
  match funcs[fn]? with
  | some f => f.code[pc]?
  | none => none

def getLoc (locs i : Nat) : Bool := (locs >>> i) % 2 == 1
def setLoc (locs i : Nat) (b : Bool) : Nat :=
  let cleared := if getLoc locs i then locs - (1 <<< i) else locs
  if b then cleared + (1 <<< i) else cleared

def Instr.isVisible : Instr → Bool
  | .lock _ | .unlock _ | .setFlag | .ldFlag | .ldWc | .stWc _ | .condWait _ _ | .notifyAll _ | .notify _ _
  | .evWait _ | .tsleep | .mark _ | .publish _ => true
  | _ => false

/-! ## exceptions -/

def findHandler : List Handler → Nat → Ex → Option Handler
  | [], _, _ => none
  | h :: hs, pc, e =>
    if h.lo ≤ pc && pc < h.hi && (match h.catches with | none => true | some k => k == e)
    then some h else findHandler hs pc e

/-- propagate exception `e` raised at `(fn, pc)`; result: where execution continues, or `none` when it
    leaves the thread's outermost frame -/
def unwind (funcs : List Func) (e : Ex) : Nat → Nat → List (Nat × Nat) → Option (Handler × Nat × List (Nat × Nat))
  | fn, pc, stack =>
    match (match funcs[fn]? with | some f => findHandler f.handlers pc e | none => none) with
    | some h => some (h, fn, stack)
    | none =>
      match stack with
      | [] => none
      | (f', p') :: rest => unwind funcs e f' p' rest

def Th.raise (funcs : List Func) (t : Th) (e : Ex) : Th :=
  match unwind funcs e t.fn t.pc t.stack with
  | none => { t with status := .raised e, exc := none, stack := [] }
  | some (h, fn, stack) =>
    { t with fn := fn, pc := h.target, stack := stack,
             exc := match h.catches with | none => some e | some _ => none }

def Th.crash (t : Th) : Th := { t with status := .crashed }

def St.qlenOf (s : St) (r : Nat) : Nat := if r = 0 then s.qlen else s.qlen2
def St.setQlen (s : St) (r : Nat) (n : Nat) : St := if r = 0 then { s with qlen := n } else { s with qlen2 := n }

/-! ## thread-local steps (fused into the preceding interleaving step) -/

/-- one thread-local instruction; `none` when the thread is at an interleaving point (or not running) -/
def silent1 (sys : Sys) (s : St) (t : Th) : Option (List (St × Th)) :=
  match t.status, t.park with
  | .run, .no =>
    match fetch sys.funcs t.fn t.pc with
    | none => some [(s, t.crash)]
    | some i =>
      let nx : Th := { t with pc := t.pc + 1 }
      match i with
      | .ldStateIn m => some [(s, { nx with acc := (m >>> s.tstate) % 2 == 1 })]
      | .stState v => some [({ s with tstate := v }, nx)]
      | .ldPred => some [(s, { nx with acc := decide (0 < s.qlenOf t.rcv) })]
      | .push => some [(s.setQlen t.rcv (if s.qlenOf t.rcv < sys.cap then s.qlenOf t.rcv + 1 else s.qlenOf t.rcv), nx)]
      | .pop => if s.qlenOf t.rcv = 0 then some [(s, t.crash)] else some [(s.setQlen t.rcv (s.qlenOf t.rcv - 1), nx)]
      | .ldLoc k => some [(s, { nx with acc := getLoc t.locs k })]
      | .stLoc k => some [(s, { nx with locs := setLoc t.locs k t.acc })]
      | .ldConst b => some [(s, { nx with acc := b })]
      | .neg => some [(s, { nx with acc := !t.acc })]
      | .ldAny => some [(s, { nx with acc := false }), (s, { nx with acc := true })]
      | .ldIsTask => some [(s, { nx with acc := t.isTask })]
      | .assertAcc => if t.acc then some [(s, nx)] else some [(s, t.crash)]
      | .jmp k => some [(s, { t with pc := k })]
      | .jf k => some [(s, if t.acc then nx else { t with pc := k })]
      | .jt k => some [(s, if t.acc then { t with pc := k } else nx)]
      | .timerStart => some [(s, { nx with expired := false })]
      | .jexp k => some [(s, if t.expired then { t with pc := k } else nx)]
      | .timerStop => some [(s, { nx with expired := false })]
      | .clrLoc k => some [(s, { nx with locs := setLoc t.locs k false })]
      | .clrCond k => some [(s, { nx with locs := setLoc t.locs k false, cl := 0 })]
      | .setTimed => some [(s, { nx with timed := t.acc })]
      | .setRecv => some [(s, { nx with rcv := t.acc.toNat })]
      | .call f => some [(s, { t with fn := f, pc := 0, stack := (t.fn, t.pc) :: t.stack })]
      | .ret =>
        match t.stack with
        | [] => some [(s, { t with status := .done })]
        | (f, p) :: rest => some [(s, { t with fn := f, pc := p + 1, stack := rest })]
      | .raise e => some [(s, t.raise sys.funcs e)]
      | .reraise =>
        match t.exc with
        | some e => some [(s, t.raise sys.funcs e)]
        | none => some [(s, t.crash)]
      | .halt => some [(s, { t with status := .done })]
      | _ => none
  | _, _ => none

/-- run thread-local instructions until every branch sits at an interleaving point -/
def runSilent (sys : Sys) : Nat → List (St × Th) → List (St × Th) → List (St × Th)
  | 0, work, acc => acc ++ work.map (fun p => (p.1, p.2.crash))     -- thread-local divergence
  | _, [], acc => acc
  | f+1, (s, t) :: work, acc =>
    match silent1 sys s t with
    | none => runSilent sys f work ((s, t) :: acc)
    | some rs => runSilent sys f (rs ++ work) acc

def silentFuel : Nat := 600

/-! ## operations on shared objects -/

def lockId (t : Th) : Ref → Option Nat
  | .wcl => some 0
  | .sc => some 1
  | .cond => some (2 + t.rcv)
  | .viaLoc i => if getLoc t.locs i && t.cl != 0 then some (t.cl + 1) else none

def St.owner (s : St) : Nat → Option Nat
  | 0 => s.lwcl
  | 1 => s.lsc
  | 2 => s.lqc
  | _ => s.lqc2

def St.setOwner (s : St) (l : Nat) (o : Option Nat) : St :=
  match l with
  | 0 => { s with lwcl := o }
  | 1 => { s with lsc := o }
  | 2 => { s with lqc := o }
  | _ => { s with lqc2 := o }

def isTimed (t : Th) : TOut → Bool
  | .never => false
  | .always => true
  | .param => t.timed

/-- take the (at most) `n` oldest waiters of the condition with lock `l` out of the queue: (woken threads, rest) -/
def takeWaiters (l : Nat) : List Nat → Nat → List Nat × List Nat
  | [], _ => ([], [])
  | w :: q, n =>
    match n with
    | 0 => ([], w :: q)
    | m+1 =>
      if w / 16 == l then
        let r := takeWaiters l q m
        (w % 16 :: r.1, r.2)
      else
        let r := takeWaiters l q (m+1)
        (r.1, w :: r.2)

def markNotified (woken : List Nat) : Nat → List Th → List Th
  | _, [] => []
  | i, t :: r =>
    (if woken.contains i then (match t.park with | .cond l false => { t with park := .cond l true } | _ => t) else t)
      :: markNotified woken (i+1) r

/-- `notify(n)` on the condition with lock `l` -/
def St.notifyN (s : St) (l n : Nat) : St :=
  let r := takeWaiters l s.wq n
  { s with wq := r.2, ths := markNotified r.1 0 s.ths }

/-- `notify_all()` -/
def St.notifyAll (s : St) (l : Nat) : St := s.notifyN l s.wq.length

def removeWaiter (l tid : Nat) (q : List Nat) : List Nat := q.filter fun w => w != l * 16 + tid

/-- the interleaving step of thread `tid` (before thread-local fusion) -/
def visStep (sys : Sys) (s : St) (tid : Nat) (t : Th) : List (Lbl × St × Th) :=
  match t.status with
  | .run =>
    match fetch sys.funcs t.fn t.pc with
    | none => []
    | some i =>
      let nx : Th := { t with pc := t.pc + 1 }
      match i with
      | .lock r =>
        match lockId t r with
        | none => [(.crash, s, t.crash)]
        | some l =>
          match s.owner l with
          | none => [(.lock l, s.setOwner l (some tid), nx)]
          | some o => if o = tid then [(.crash, s, t.crash)] else []      -- blocked
      | .unlock r =>
        match lockId t r with
        | none => [(.crash, s, t.crash)]
        | some l => if s.owner l = some tid then [(.unlock l, s.setOwner l none, nx)] else [(.crash, s, t.crash)]
      | .setFlag => [(.setFlag, { s with flag := true }, nx)]
      | .ldFlag => [(.ldFlag s.flag, s, { nx with acc := s.flag })]
      | .ldWc => [(.ldWc (s.wc != 0), s, { nx with acc := s.wc != 0, cl := s.wc })]
      | .stWc b => [(.stWc b, { s with wc := if b then t.rcv + 1 else 0 }, nx)]
      | .notifyAll r =>
        match lockId t r with
        | none => [(.crash, s, t.crash)]
        | some l =>
          if s.owner l = some tid then [(.notify l, s.notifyAll l, nx)]
          else [(.crash, s, t.crash)]                                     -- RuntimeError: un-acquired lock
      | .notify r n =>
        match lockId t r with
        | none => [(.crash, s, t.crash)]
        | some l =>
          if s.owner l = some tid then [(.notify l, s.notifyN l n, nx)]
          else [(.crash, s, t.crash)]
      | .condWait r to =>
        match lockId t r with
        | none => [(.crash, s, t.crash)]
        | some l =>
          match t.park with
          | .no =>
            if s.owner l = some tid then
              [(.park, { s.setOwner l none with wq := s.wq ++ [l * 16 + tid] }, { t with park := .cond l false })]
            else [(.crash, s, t.crash)]
          | .cond _ n =>
            if s.owner l = none then
              (if n then [(Lbl.reacq true, s.setOwner l (some tid), { nx with park := .no, acc := true })] else []) ++
              (if isTimed t to then
                [(Lbl.reacq false, { s.setOwner l (some tid) with wq := removeWaiter l tid s.wq },
                  { nx with park := .no, acc := false, expired := true })] else [])
            else []
          | _ => []
      | .evWait to =>
        match t.park with
        | .no => if s.flag then [(.evCheck, s, { nx with acc := true })] else [(.evPark, s, { t with park := .ev })]
        | .ev =>
          (if s.flag then [(Lbl.evWake true, s, { nx with park := .no, acc := true })] else []) ++
          (if isTimed t to then [(Lbl.evWake false, s, { nx with park := .no, acc := false })] else [])
        | _ => []
      | .tsleep =>
        match t.park with
        | .no => [(.slPark, s, { t with park := .sleep })]
        | .sleep => [(.slWake, s, { nx with park := .no })]
        | _ => []
      | .publish r =>
        -- one action (DESIGN §3): a critical section under one lock that touches only state protected by that lock
        if s.owner (2 + r) = none then
          [(.publish r, (s.setQlen r (if s.qlenOf r < sys.cap then s.qlenOf r + 1 else s.qlenOf r)).notifyAll (2 + r), nx)]
        else []
      | .mark m =>
        [(.mark m, (match m with | .finalize => { s with fin := if s.fin < 2 then s.fin + 1 else s.fin } | _ => s), nx)]
      | _ => []
  | _ => []

/-- all successors of `s` by one step of thread `tid`, with labels -/
def stepThL (sys : Sys) (s : St) (tid : Nat) : List (Lbl × St) :=
  match s.ths[tid]? with
  | none => []
  | some t =>
    (visStep sys s tid t).flatMap fun r =>
      (runSilent sys silentFuel [(r.2.1, r.2.2)] []).map fun p => (r.1, { p.1 with ths := setNth p.1.ths tid p.2 })

def stepTh (sys : Sys) (s : St) (tid : Nat) : List St := (stepThL sys s tid).map (·.2)

def succsFrom (sys : Sys) (s : St) : Nat → List St
  | 0 => []
  | n+1 => stepTh sys s n ++ succsFrom sys s n

def succs (sys : Sys) (s : St) : List St := succsFrom sys s s.ths.length

/-- bring every thread of a (hand-written) initial state to its first interleaving point -/
def normFrom (sys : Sys) : Nat → List St → List St
  | 0, ss => ss
  | n+1, ss =>
    normFrom sys n (ss.flatMap fun s =>
      match s.ths[n]? with
      | none => [s]
      | some t => (runSilent sys silentFuel [(s, t)] []).map fun p => { p.1 with ths := setNth p.1.ths n p.2 })

def inits (sys : Sys) : List St := normFrom sys sys.init.ths.length [sys.init]

/-! ## reachability -/

inductive Reach (sys : Sys) : St → Prop
  | init {s} : s ∈ inits sys → Reach sys s
  | step {s t} : Reach sys s → t ∈ succs sys s → Reach sys t

/-! ## the reachable set, computed

The set is kept in `nb` buckets indexed by a hash of the state (`key`), purely to make membership cheap
for the kernel; the hash carries no proof obligation (a collision costs time, not soundness).  Equality of
states is decided by the hand-written `St.beq` (the derived `DecidableEq` instance is very slow under kernel
reduction); `Lemmas/C11.lean` proves `St.beq a b = true → a = b`. -/

def Park.code : Park → Nat
  | .no => 0 | .ev => 1 | .sleep => 2 | .cond l false => 3 + 2 * l | .cond l true => 4 + 2 * l

def Status.code : Status → Nat
  | .run => 0 | .done => 1 | .raised .stop => 2 | .raised .timeout => 3 | .crashed => 4

def exCode : Option Ex → Nat
  | none => 0 | some .stop => 1 | some .timeout => 2

def optNatBeq : Option Nat → Option Nat → Bool
  | none, none => true
  | some a, some b => a == b
  | _, _ => false

def stackBeq : List (Nat × Nat) → List (Nat × Nat) → Bool
  | [], [] => true
  | (a, b) :: r, (c, d) :: r' => a == c && b == d && stackBeq r r'
  | _, _ => false

def natListBeq : List Nat → List Nat → Bool
  | [], [] => true
  | a :: r, b :: r' => a == b && natListBeq r r'
  | _, _ => false

def boolBeq : Bool → Bool → Bool
  | true, true => true
  | false, false => true
  | _, _ => false

def Th.beq (a b : Th) : Bool :=
  a.pc == b.pc && a.fn == b.fn && a.park.code == b.park.code && a.status.code == b.status.code &&
  boolBeq a.acc b.acc && a.locs == b.locs && stackBeq a.stack b.stack && exCode a.exc == exCode b.exc &&
  boolBeq a.expired b.expired && boolBeq a.timed b.timed && boolBeq a.isTask b.isTask && a.rcv == b.rcv && a.cl == b.cl

def thsBeq : List Th → List Th → Bool
  | [], [] => true
  | a :: r, b :: r' => a.beq b && thsBeq r r'
  | _, _ => false

def St.beq (a b : St) : Bool :=
  boolBeq a.flag b.flag && a.wc == b.wc && a.qlen == b.qlen && a.qlen2 == b.qlen2 && optNatBeq a.lwcl b.lwcl &&
  optNatBeq a.lsc b.lsc && optNatBeq a.lqc b.lqc && optNatBeq a.lqc2 b.lqc2 && a.fin == b.fin && a.tstate == b.tstate && natListBeq a.wq b.wq && thsBeq a.ths b.ths

def Th.key (t : Th) : Nat :=
  (((((t.pc * 32 + t.fn) * 16 + t.park.code) * 8 + t.status.code) * 2 + t.acc.toNat) * 64 + t.locs % 64) * 8 + t.rcv * 4 + t.cl

def St.key (s : St) : Nat :=
  s.ths.foldl (fun k t => k * 16777216 + t.key)
    ((((s.wq.foldl (fun k w => k * 64 + w + 1) 0) * 8 + s.tstate) * 16 + s.qlen * 4 + s.qlen2) * 8 + s.flag.toNat * 4 + s.wc)

abbrev Buckets := List (List (Nat × St))

def nb : Nat := 61

def Buckets.empty : Buckets := List.replicate nb []

def memBucket (k : Nat) (s : St) : List (Nat × St) → Bool
  | [] => false
  | x :: r => (x.1 == k && x.2.beq s) || memBucket k s r

def Buckets.mem (b : Buckets) (s : St) : Bool :=
  let k := s.key
  match b[k % nb]? with
  | some l => memBucket k s l
  | none => false

def Buckets.insert (b : Buckets) (s : St) : Buckets :=
  let k := s.key
  match b[k % nb]? with
  | some l => setNth b (k % nb) ((k, s) :: l)
  | none => b

def Buckets.toList (b : Buckets) : List St := b.flatten.map (·.2)

/-- add the not-yet-seen states of `ts` to the set and to the work list -/
def addNew : List St → Buckets → List St → Buckets × List St
  | [], b, w => (b, w)
  | t :: ts, b, w => if b.mem t then addNew ts b w else addNew ts (b.insert t) (t :: w)

/-- worklist exploration; `(set, leftover work)` — the set is complete iff the leftover is empty -/
def exploreLoop (sys : Sys) : Nat → List St → Buckets → Buckets × List St
  | 0, w, b => (b, w)
  | _, [], b => (b, [])
  | f+1, s :: w, b =>
    let r := addNew (succs sys s) b w
    exploreLoop sys f r.2 r.1

def exploreFuel : Nat := 20000

def explore (sys : Sys) : Buckets :=
  let r := addNew (inits sys) Buckets.empty []
  (exploreLoop sys exploreFuel r.2 r.1).1

/-- `S` contains the initial states and is closed under every thread's step -/
def closedB (sys : Sys) (S : Buckets) : Bool :=
  (inits sys).all S.mem && S.toList.all fun s => (succs sys s).all S.mem

/-! ## state predicates of C11 -/

def taskTh (s : St) : Option Th := s.ths[0]?

def Th.finished (t : Th) : Bool := match t.status with | .run => false | _ => true

/-- some stopper has completed `stop_task` -/
def stopperDone (sys : Sys) (s : St) : Bool :=
  (List.range sys.nStop).any fun i => match s.ths[i+1]? with | some t => t.status == .done | none => false

def Th.isParked (t : Th) : Bool := match t.park with | .no => false | _ => true

/-- is something on its way that will wake the parked thread without a time-out? -/
def Th.wakePending (s : St) (t : Th) : Bool :=
  match t.park with
  | .no => true
  | .cond _ n => n               -- notified, only has to re-acquire
  | .ev => s.flag                -- `Event.set` wakes waiters of the event itself
  | .sleep => false

/-- **lost wake-up**: a stop request has completed, the flag is set, the task is parked (with or without
    timeout) and no notification is pending — it will wait out its timeout, or for ever. -/
def lostWakeup (sys : Sys) (s : St) : Bool :=
  match taskTh s with
  | some t => stopperDone sys s && s.flag && t.isParked && !t.wakePending s
  | none => false

/-- is the thread inside `_TaskThread.wait_for_condition` (function 1 of the generated table)? -/
def Th.inWaitFn (t : Th) : Bool := t.fn == 1 || t.stack.any fun f => f.1 == 1

/-- **registration discipline** of `wait_for_condition`: every wait registers *its own* condition — whenever the task is
    parked on the condition of receiver c, `_wait_cond` holds exactly that condition — and unregisters it on every exit
    path — whenever the task thread is outside `wait_for_condition`, `_wait_cond` is None. -/
def registrationDiscipline (s : St) : Bool :=
  match taskTh s with
  | some t =>
    (match t.park with | .cond l _ => l < 2 || s.wc == l - 1 | _ => true) &&
    (t.inWaitFn || s.wc == 0)
  | none => true

def anyCrashed (s : St) : Bool := s.ths.any fun t => t.status == .crashed

/-- a completed stop request has set the flag -/
def stopSetsFlag (sys : Sys) (s : St) : Bool := !stopperDone sys s || s.flag

/-- once a stop request has completed, a task that is not parked does not park any more -/
def noParkAfterStop (sys : Sys) (s : St) : Bool :=
  match taskTh s with
  | some t => !(stopperDone sys s) || t.isParked ||
      (stepTh sys s 0).all fun s' => match taskTh s' with | some t' => !t'.isParked | none => true
  | none => true

/-- no deadlock: as long as the task thread has not ended, some thread of the system can take a step -/
def progress (sys : Sys) (s : St) : Bool :=
  (match taskTh s with | some t => t.finished | none => false) || !(succs sys s).isEmpty

/-- a generic (non-loop) task only ever leaves its waiting loop through QMI_TaskStopException -/
def exitOnlyByStop (s : St) : Bool :=
  match taskTh s with
  | some t => match t.status with | .run => true | .raised .stop => s.flag | _ => false
  | none => false

/-- the loop task: `run()` returns normally, and only after `loop_finalize` ran exactly once -/
def loopExit (s : St) : Bool :=
  match taskTh s with
  | some t => match t.status with | .run => s.fin ≤ 1 | .done => s.flag && s.fin == 1 | _ => false
  | none => false

/-- all other threads are at rest: finished, or at the head of their loop holding no lock -/
def envQuiet (s : St) : Bool :=
  (s.lwcl == none || s.lwcl == some 0) && (s.lsc == none || s.lsc == some 0) && (s.lqc == none || s.lqc == some 0) &&
  (s.lqc2 == none || s.lqc2 == some 0)

/-- labels of the steps by which a timed wait ends through its time-out -/
def isTimeoutLbl : Lbl → Bool
  | .reacq false => true
  | .evWake false => true
  | .slWake => true
  | _ => false

/-- the steps the task thread can take without any time-out firing -/
def taskMoves (sys : Sys) (s : St) : List (Lbl × St) := (stepThL sys s 0).filter fun p => !isTimeoutLbl p.1

/-- does the step keep the task from parking anew? (`t` before, the task thread of the successor after) -/
def noNewPark (t : Th) (s' : St) : Bool :=
  match taskTh s' with | some t' => t.isParked || !t'.isParked | none => false

/-- **the task settles**: running only the task thread and never letting a time-out fire, every branch ends — without
    parking anew on the way — with the task thread finished in a state satisfying `good`.  No bound on the number of
    steps: the height of the derivation is the measure. -/
inductive Settles (sys : Sys) (good : St → Bool) : St → Prop
  | done {s t} : taskTh s = some t → t.finished = true → good s = true → Settles sys good s
  | step {s t} : taskTh s = some t → t.finished = false → taskMoves sys s ≠ [] →
      (∀ p ∈ taskMoves sys s, noNewPark t p.2 = true) →
      (∀ p ∈ taskMoves sys s, Settles sys good p.2) → Settles sys good s

/-- executable form of `Settles` with fuel (only a proof device: `Lemmas/C11.lean` shows `settles … = true → Settles`) -/
def settles (sys : Sys) (good : St → Bool) : Nat → St → Bool
  | 0, _ => false
  | f+1, s =>
    match taskTh s with
    | none => false
    | some t =>
      if t.finished then good s
      else
        let nexts := taskMoves sys s
        !nexts.isEmpty && nexts.all fun p => noNewPark t p.2 && settles sys good f p.2

/-- fuel for `settles`, taken from the program: the total number of instructions of the system -/
def Sys.settleFuel (sys : Sys) : Nat := (sys.funcs.map fun f => f.code.length).foldl (· + ·) 0

/-- `released_with_stop_exception`, executable form: after the stop request completed and with the other
    threads at rest, the task's own steps lead — with no time-out and no further parking — to its end -/
def releasedB (sys : Sys) (good : St → Bool) (s : St) : Bool :=
  !(stopperDone sys s && envQuiet s) || settles sys good sys.settleFuel s

end QmiModel.Wake
