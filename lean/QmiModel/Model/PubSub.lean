/-!
# Model of QMI publish/subscribe (qmi/core/pubsub.py `SignalManager`, with the parts of
context.py / messaging.py it relies on) — properties C07 and C08

An interleaving transition system `step : State → Act → Option (State × Out)`.

* Unbounded numbers of contexts, objects, signal names, receivers, threads, connections (all `Nat` ids).
* Atomicity follows the locks of the code: one critical section under one lock = one micro-operation (`MOp`);
  code outside a lock is split at each shared read/write.  The lock that guards a micro-operation is noted as
  `L` (`SignalManager._lock`), `M` (`QMI_Context._rpc_object_map_lock`), `S` (`_SocketManager._lock`),
  `Q` (`call_soon_threadsafe` on the event loop of the own context), `R` (the receiver's own lock).
* Every thread (user thread of a context, or the socket-manager thread of a context) executes a *program*:
  a stack of micro-operations; `Act.micro th choice` runs the head of `th`'s program.  `choice` resolves what the
  code leaves to set-iteration order (which receiver / peer comes next).
* Tables are total functions with `[]` / `none` meaning "absent" (the code never stores an empty set: see
  `_remove_local_subscriber`, `_unsubscribe_remote`, `_remove_remote_subscriber`, `_handle_subscription_reply`).
* The network is one FIFO inbox per connection end, carrying whole messages (framing is property C06).
* `got` (the receivers' queues, append-only: capacity is large) and `snaps` are ghost observations.

Core Lean only (the drivers link this file).
-/
namespace QmiModel.PubSub

abbrev Ctx := Nat
abbrev Obj := Nat
abbrev Sg := Nat
abbrev Rcv := Nat
abbrev Tid := Nat
abbrev ReqId := Nat
abbrev ConnId := Nat

/-- pointwise update of a total table -/
def upd {α : Type} {β : Type} [DecidableEq α] (f : α → β) (a : α) (b : β) : α → β :=
  fun x => if x = a then b else f x

/-- set insertion on lists-as-sets (`set.add`) -/
def ins (l : List Nat) (x : Nat) : List Nat := if x ∈ l then l else l ++ [x]

/-- set union (`set.update`) -/
def uni (l m : List Nat) : List Nat := m.foldl ins l

/-- The name under which a context knows a peer: the real context name for an outgoing connection, the local
alias `$client_<n>` for an incoming one (`_SocketManager.add_incoming_connection`).  The model uses the connection
id as alias number. -/
inductive Peer
  | name (c : Ctx)
  | alias (n : ConnId)
  deriving DecidableEq, Repr

/-- key of `_local_subscriptions`: `"<context>.<publisher>.<signal>"` -/
structure Key where
  pc : Peer
  ob : Obj
  sg : Sg
  deriving DecidableEq, Repr

/-- key of `_remote_subscriptions`: `"<publisher>.<signal>"` -/
structure RKey where
  ob : Obj
  sg : Sg
  deriving DecidableEq, Repr

/-- identity of one publication: the publishing thread (context, thread id) and its per-thread sequence number -/
structure Pub where
  c : Ctx
  tid : Tid
  seq : Nat
  deriving DecidableEq, Repr

inductive Msg
  | signal (ob : Obj) (sg : Sg) (p : Pub)                      -- QMI_SignalMessage
  | subReq (id : ReqId) (ob : Obj) (sg : Sg) (sub : Bool)      -- QMI_SignalSubscriptionRequest
  | subReply (id : ReqId) (ok : Bool)                          -- QMI_SignalSubscriptionReply
  | removed (ob : Obj) (sg : Sg)                               -- QMI_SignalRemovedMessage
  deriving DecidableEq, Repr

inductive ObjSt
  | absent      -- name not in `_rpc_object_map`
  | reserved    -- name maps to `None` (being created or being removed)
  | present     -- name maps to a manager
  deriving DecidableEq, Repr

inductive Exc
  | subscription   -- QMI_SignalSubscriptionException
  | unknownName    -- QMI_UnknownNameException
  | duplicateName  -- QMI_DuplicateNameException
  | usage          -- QMI_UsageException
  deriving DecidableEq, Repr

/-- what a user-level call was (carried by its final `ret`) -/
inductive OpTag
  | pub (k : Key) (p : Pub)
  | sub (k : Key) (r : Rcv)
  | unsub (k : Key) (r : Rcv)
  | rm (ob : Obj)
  | mk (ob : Obj)
  | disc (n : Peer)
  deriving DecidableEq, Repr

/-- `_PendingSubscriptionRequest` (object identity = the id of the request that created it) -/
structure PObj where
  key : Key
  sub : Bool
  rcvs : List Rcv
  done : Option Bool      -- `_completed` / `_success`
  cancelled : Bool        -- `publisher_removed`: a removal notice arrived while this *subscribe* request was pending
  cur : ReqId             -- id of the request message that is currently outstanding for this object
  deriving DecidableEq, Repr

/-- `pending_request.publisher_removed = True` if `b` -/
def PObj.cancelIf (po : PObj) (b : Bool) : PObj := if b then { po with cancelled := true } else po

@[simp] theorem PObj.cancelIf_key (po : PObj) (b : Bool) : (po.cancelIf b).key = po.key := by cases b <;> rfl
@[simp] theorem PObj.cancelIf_sub (po : PObj) (b : Bool) : (po.cancelIf b).sub = po.sub := by cases b <;> rfl
@[simp] theorem PObj.cancelIf_rcvs (po : PObj) (b : Bool) : (po.cancelIf b).rcvs = po.rcvs := by cases b <;> rfl
@[simp] theorem PObj.cancelIf_done (po : PObj) (b : Bool) : (po.cancelIf b).done = po.done := by cases b <;> rfl
@[simp] theorem PObj.cancelIf_cur (po : PObj) (b : Bool) : (po.cancelIf b).cur = po.cur := by cases b <;> rfl

/-- callbacks queued on a context's event loop (`run_in_thread_arg`, `run_in_thread_wait`) -/
inductive Cb
  | smSend (d : Peer) (m : Msg)           -- `_SocketManager.send_message(message)`
  | disconnect (n : Peer) (t : Tid)       -- `_SocketManager.disconnect_from_peer(name)` + future of thread t
  deriving DecidableEq, Repr

/-- micro-operations; the letter is the lock held (see header) -/
inductive MOp
  -- publish_signal / _deliver_local
  | snapLocal (k : Key) (p : Pub)                       -- L: snapshot of the receiver set
  | deliver (sid : Nat) (rs : List Rcv) (k : Key) (p : Pub)  -- R: one `receiver._receive_signal`; `rs` = receivers still to do,
                                                        --    `sid` = (ghost) index of the snapshot in `State.snaps`
  | snapRemote (ob : Obj) (sg : Sg) (p : Pub)           -- L: snapshot of the remote subscriber set
  | pubSend (ps : List Peer) (ob : Obj) (sg : Sg) (p : Pub)  -- S: `has_peer_context` for the chosen subscriber
  -- generic send of one message: MessageRouter.send_message
  | sendChk (d : Peer) (m : Msg)                        -- S: `has_peer_context`; absent ⇒ QMI_MessageDeliveryException
  | enq (d : Peer) (m : Msg)                            -- Q: `run_in_thread_arg(socket_manager.send_message, m)`
  -- _subscribe_local / _remove_local_subscriber
  | chkObj1 (k : Key) (r : Rcv)                         -- M
  | addLocal (k : Key) (r : Rcv)                        -- L
  | chkObj2 (k : Key) (r : Rcv)                         -- M
  | removeLocal (k : Key) (r : Rcv)                     -- L
  -- _subscribe_remote / _unsubscribe_remote / _handle_subscription_reply
  | subRemote (k : Key) (r : Rcv)                       -- L
  | wait (pid : ReqId)                                  -- `pending_request.wait()`
  | unsubRemote (k : Key) (r : Rcv)                     -- L
  | handleReply (id : ReqId) (ok : Bool)                -- L
  -- remove_rpc_object / handle_object_removed / make_rpc_object
  | markObj (ob : Obj)                                  -- M
  | objRemoved (ob : Obj)                               -- L
  | notify (ns : List (Sg × Peer)) (ob : Obj)           -- S: `has_peer_context` for the chosen notification
  | delObj (ob : Obj)                                   -- M
  | reserveObj (ob : Obj)                               -- M
  | registerObj (ob : Obj)                              -- M
  -- _handle_subscription_request
  | reqChk1 (src : Peer) (id : ReqId) (ob : Obj) (sg : Sg)   -- M
  | addRemote (src : Peer) (ob : Obj) (sg : Sg)              -- L
  | reqChk2 (src : Peer) (id : ReqId) (ob : Obj) (sg : Sg)   -- M
  | removeRemote (src : Peer) (ob : Obj) (sg : Sg)           -- L
  -- _handle_remote_signal_removed
  | sigRemoved (k : Key)                                -- L
  -- connection teardown in the socket thread
  | popPeer (n : Peer)                                  -- S: `remove_peer_connection`
  | peerRemoved (n : Peer)                              -- L: `handle_peer_context_removed`
  | closeConn (c : ConnId) (cli : Bool)                 -- `_PeerTcpConnection.close` (socket + `_clear_pending_requests`)
  | finish (t : Tid) (ok : Bool)                        -- future of `run_in_thread_wait` completes
  -- disconnect_from_peer in the calling thread
  | enqDisc (n : Peer)                                  -- Q
  | waitFut                                             -- `future.wait()`
  -- end of a user-level call
  | ret (o : OpTag)
  | raise (e : Exc) (o : OpTag)
  deriving DecidableEq, Repr

/-- threads: user threads belong to one context; every context has one socket-manager thread -/
inductive Th
  | user (c : Ctx) (t : Tid)
  | sock (c : Ctx)
  deriving DecidableEq, Repr

def Th.ctx : Th → Ctx
  | .user c _ => c
  | .sock c => c

/-- a queued signal as the receiver sees it: (publisher context as named locally, publisher, signal), publication -/
structure Item where
  k : Key
  p : Pub
  sid : Nat            -- ghost: index in `State.snaps` of the snapshot this delivery came from
  deriving DecidableEq, Repr

structure CtxSt where
  alive : Bool
  routerDown : Bool                  -- `MessageRouter.stop` has begun: `_socket_manager is None`, every send raises at once
  objs : Obj → ObjSt                 -- `_rpc_object_map`
  lsubs : Key → List Rcv             -- `_local_subscriptions`
  rsubs : RKey → List Peer           -- `_remote_subscriptions`
  rdom : List RKey                   -- finite support of `rsubs` (dict keys ever used; for iteration)
  pobj : ReqId → Option PObj         -- `_PendingSubscriptionRequest` objects
  byId : ReqId → Option ReqId        -- `_pending_subscription_request_by_request_id` (value: object id)
  byKey : Key → Option ReqId         -- `_pending_subscription_request_by_signal_name`
  nextReq : Nat
  peers : Peer → Option ConnId       -- `_SocketManager._peer_context_map`
  loopQ : List Cb                    -- ready queue of the event loop
  got : Rcv → List Item              -- ghost: everything ever put in receiver r's queue, in order
  fut : Tid → Option Bool            -- completed `run_in_thread_wait` futures

/-- one end of a TCP connection -/
structure Half where
  owner : Ctx
  isOpen : Bool
  inbox : List Msg                   -- sent by the other end, not yet read by this end
  pend : List ReqId                  -- `_PeerTcpConnection._pending_requests`
  deriving Repr

structure Conn where
  cli : Half
  srv : Half
  deriving Repr

def Conn.half (c : Conn) (cli : Bool) : Half := if cli then c.cli else c.srv
def Conn.setHalf (c : Conn) (cli : Bool) (h : Half) : Conn := if cli then { c with cli := h } else { c with srv := h }

/-- ghost: one snapshot taken by `_deliver_local` -/
structure Snap where
  c : Ctx
  k : Key
  p : Pub
  rs : List Rcv
  taker : Th          -- the thread that took it (the publishing thread itself, or the socket thread of `c`)
  deriving DecidableEq, Repr

structure State where
  ctx : Ctx → CtxSt
  conn : ConnId → Conn
  nextConn : Nat
  prog : Th → List MOp
  nextSeq : Tid → Nat
  snaps : List Snap
  passed : Th → Bool        -- the thread has read `_socket_manager` (not None) in `MessageRouter.send_message` and is on
                            --   its way to `has_peer_context`: a `MessageRouter.stop` that begins now no longer stops this send

def CtxSt.init : CtxSt :=
  { alive := true, routerDown := false, objs := fun _ => .absent, lsubs := fun _ => [], rsubs := fun _ => [], rdom := [],
    pobj := fun _ => none, byId := fun _ => none, byKey := fun _ => none, nextReq := 0,
    peers := fun _ => none, loopQ := [], got := fun _ => [], fut := fun _ => none }

def Half.init (o : Ctx) : Half := { owner := o, isOpen := false, inbox := [], pend := [] }

def State.init : State :=
  { ctx := fun _ => CtxSt.init, conn := fun _ => { cli := Half.init 0, srv := Half.init 0 }, nextConn := 0,
    prog := fun _ => [], nextSeq := fun _ => 0, snaps := [], passed := fun _ => false }

/-- user-level calls -/
inductive Op
  | publish (ob : Obj) (sg : Sg)
  | subscribe (pc : Ctx) (ob : Obj) (sg : Sg) (r : Rcv)
  | unsubscribe (pc : Ctx) (ob : Obj) (sg : Sg) (r : Rcv)
  | removeObj (ob : Obj)
  | makeObj (ob : Obj)
  | disconnect (p : Ctx)
  deriving DecidableEq, Repr

inductive Act
  | begin (c : Ctx) (t : Tid) (o : Op)        -- a user thread enters a SignalManager / context method
  | micro (th : Th) (choice choice2 : Nat)    -- the head micro-operation of `th`'s program
  | cb (c : Ctx) (ok : Bool)                  -- socket thread of c runs the next queued callback (`ok`: sendall outcome)
  | arrive (cn : ConnId) (cli : Bool)         -- socket thread reads the next whole message at that end
  | eof (cn : ConnId) (cli : Bool)            -- socket thread sees end-of-stream at that end
  | connect (a : Ctx) (p : Ctx)               -- `connect_to_peer` (handshake + both registrations, atomic)
  | routerOk (th : Th)                        -- `send_message` found the router active (read outside any lock)
  | stopReq (c : Ctx)                         -- `MessageRouter.stop` begins: `close_all` queued, router marked inactive
  | stop (c : Ctx)                            -- `QMI_Context.stop`: `close_all` runs, the context is gone
  deriving DecidableEq, Repr

/-- what a step lets an observer see -/
inductive Out
  | tau (kind : String)                          -- internal step of that kind
  | snap (kind : String) (n : List Nat)          -- a snapshot / table read, canonical content
  | dlv (r : Rcv) (k : Key) (p : Pub)            -- a delivery
  | req (kind : String) (id : ReqId)             -- a new request id was allocated
  | ret (o : OpTag)
  | exc (e : Exc) (o : OpTag)
  deriving DecidableEq, Repr

/-! ### helpers -/

def State.setCtx (s : State) (c : Ctx) (cs : CtxSt) : State := { s with ctx := upd s.ctx c cs }
def State.setProg (s : State) (th : Th) (p : List MOp) : State := { s with prog := upd s.prog th p }

def Msg.reqId? : Msg → Option ReqId
  | .subReq id _ _ _ => some id
  | _ => none

/-- the program that follows a failed send of `m` (the `except QMI_MessageDeliveryException` of each call site) -/
def onSendFail (m : Msg) : List MOp :=
  match m with
  | .subReq id _ _ _ => [.handleReply id false]     -- `_send_subscription_request`
  | _ => []                                         -- publish / reply / removal notice: ignored

def Peer.isName : Peer → Bool
  | .name _ => true
  | .alias _ => false

/-- the name under which the end `cli` of connection `cn` knows its peer -/
def srcName (s : State) (cn : ConnId) (cli : Bool) : Peer :=
  if cli then .name (s.conn cn).srv.owner else .alias cn

def peerCode : Peer → Nat
  | .name c => 2 * c
  | .alias n => 2 * n + 1

/-! ### the transition function -/

/-- first micro-operations of a user-level call -/
def beginProg (c : Ctx) (t : Tid) (seq : Nat) : Op → List MOp
  | .publish ob sg =>
    let k : Key := ⟨.name c, ob, sg⟩
    [.snapLocal k ⟨c, t, seq⟩, .snapRemote ob sg ⟨c, t, seq⟩, .ret (.pub k ⟨c, t, seq⟩)]
  | .subscribe pc ob sg r =>
    let k : Key := ⟨.name pc, ob, sg⟩
    if pc = c then [.chkObj1 k r, .addLocal k r, .chkObj2 k r, .ret (.sub k r)]
    else [.subRemote k r, .ret (.sub k r)]
  | .unsubscribe pc ob sg r =>
    let k : Key := ⟨.name pc, ob, sg⟩
    if pc = c then [.removeLocal k r, .ret (.unsub k r)]
    else [.unsubRemote k r, .ret (.unsub k r)]
  | .removeObj ob => [.markObj ob, .objRemoved ob, .delObj ob, .ret (.rm ob)]
  | .makeObj ob => [.reserveObj ob, .registerObj ob, .ret (.mk ob)]
  | .disconnect p => [.enqDisc (.name p), .waitFut, .ret (.disc (.name p))]

/-- the last element of a user program is its `ret`; an exception replaces the whole program by `raise` with that tag -/
def progTag (l : List MOp) : OpTag :=
  match l.getLast? with
  | some (.ret o) => o
  | some (.raise _ o) => o
  | _ => .mk 0

/-- `_handle_subscription_reply` under the lock -/
def handleReplyStep (cs : CtxSt) (id : ReqId) (ok : Bool) : Option (CtxSt × List MOp × Out) :=
  match cs.byId id with
  | none => some (cs, [], .tau "unknown-request")  -- `.pop(request_id)` raises KeyError: contained by the caller in the
                                                   --   socket thread (`_process_message`, `_clear_pending_requests`)
  | some pid =>
    match cs.pobj pid with
    | none => some (cs, [], .tau "unknown-request")
    | some po =>
      if po.sub = true ∧ ¬ (ok = true ∧ po.cancelled = true) then
        -- a subscribe request completed: on success the waiting receivers become local subscribers; wake the waiters.
        some ({ cs with byId := upd cs.byId id none, byKey := upd cs.byKey po.key none,
                        lsubs := upd cs.lsubs po.key
                          (if ok && !po.cancelled then uni (cs.lsubs po.key) po.rcvs else cs.lsubs po.key),
                        pobj := upd cs.pobj pid (some { po with done := some (ok && !po.cancelled) }) }, [], .tau "reply")
      else if po.sub = true ∨ po.rcvs ≠ [] then
        -- send a new subscribe request at once: an unsubscribe request completed while new subscribers are waiting, or
        -- a subscribe request was accepted while a removal notice for the signal arrived (it may have overtaken the reply,
        -- or belong to a subscription already given up: the next reply decides)
        some ({ cs with byId := upd (upd cs.byId id none) cs.nextReq (some pid),
                        byKey := upd cs.byKey po.key (some pid),
                        pobj := upd cs.pobj pid (some { po with sub := true, cancelled := false, cur := cs.nextReq }),
                        nextReq := cs.nextReq + 1 },
              [.sendChk po.key.pc (.subReq cs.nextReq po.key.ob po.key.sg true)], .req "resub" cs.nextReq)
      else
        some ({ cs with byId := upd cs.byId id none, byKey := upd cs.byKey po.key none }, [], .tau "reply")

/-- `handle_peer_context_removed` under the lock -/
def peerRemovedStep (cs : CtxSt) (n : Peer) : CtxSt :=
  { cs with rsubs := fun k => (cs.rsubs k).filter (· ≠ n),
            lsubs := fun k => if k.pc = n then [] else cs.lsubs k }

/-- the notifications of `handle_object_removed` -/
def notifyList (cs : CtxSt) (ob : Obj) : List (Sg × Peer) :=
  (cs.rdom.filter (fun k => k.ob = ob)).flatMap (fun k => (cs.rsubs k).map (fun d => (k.sg, d)))

/-- what the socket thread does with a message read from a connection (`_process_message` → `handle_message`) -/
def dispatch (src : Peer) : Msg → List MOp
  | .signal ob sg p => [.snapLocal ⟨src, ob, sg⟩ p]
  | .subReq id ob sg true => [.reqChk1 src id ob sg]
  | .subReq id ob sg false => [.removeRemote src ob sg, .sendChk src (.subReply id true)]
  | .subReply id ok => [.handleReply id ok]
  | .removed ob sg => [.sigRemoved ⟨src, ob, sg⟩]

/-- `_SocketManager.send_message` in the socket thread of `c` -/
def smSendStep (s : State) (c : Ctx) (d : Peer) (m : Msg) (ok : Bool) : Option (State × List MOp) :=
  let cs := s.ctx c
  match cs.peers d with
  | none => some (s, onSendFail m)                 -- "Unknown message destination context"
  | some cn =>
    let cli := d.isName
    let cnn := s.conn cn
    let other := cnn.half (!cli)
    if ok then
      -- sendall succeeded (into the void if the other end is already closed)
      let mine := cnn.half cli
      let mine' := match m.reqId? with
        | some id => { mine with pend := mine.pend ++ [id] }
        | none => mine
      let cnn1 := cnn.setHalf cli mine'
      let cnn2 := if other.isOpen then cnn1.setHalf (!cli) { (cnn1.half (!cli)) with inbox := (cnn1.half (!cli)).inbox ++ [m] } else cnn1
      some ({ s with conn := upd s.conn cn cnn2 }, [])
    else if other.isOpen then none                 -- a send on a healthy connection does not fail
    else some (s, onSendFail m)                    -- OSError from sendall

/-- one micro-operation of thread `th` (context `c`), program tail `rest` -/
def microStep (s : State) (th : Th) (choice choice2 : Nat) (op : MOp) (rest : List MOp) : Option (State × Out) :=
  let c := th.ctx
  let cs := s.ctx c
  let fin (cs' : CtxSt) (pr : List MOp) (o : Out) : Option (State × Out) :=
    some ((s.setCtx c cs').setProg th pr, o)
  -- the router was active when this thread read it, or is active now
  let routerUp : Bool := s.passed th || !cs.routerDown
  let finS (pr : List MOp) (o : Out) : Option (State × Out) :=
    some ({ (s.setProg th pr) with passed := upd s.passed th false }, o)
  match op with
  | .snapLocal k p =>
    let rs := cs.lsubs k
    some ({ (s.setProg th (if rs = [] then rest else .deliver s.snaps.length rs k p :: rest)) with
              snaps := s.snaps ++ [⟨c, k, p, rs, th⟩] }, .snap "local" rs)
  | .deliver sid rs k p =>
    if choice ∈ rs then
      let rs' := rs.erase choice
      fin { cs with got := upd cs.got choice (cs.got choice ++ [⟨k, p, sid⟩]) }
          (if rs' = [] then rest else .deliver sid rs' k p :: rest) (.dlv choice k p)
    else none
  | .snapRemote ob sg p =>
    let ps := cs.rsubs ⟨ob, sg⟩
    fin cs (if ps = [] then rest else .pubSend ps ob sg p :: rest) (.snap "remote" (ps.map peerCode))
  | .pubSend ps ob sg p =>
    match ps.find? (fun d => peerCode d = choice) with
    | none => none
    | some d =>
      let ps' := ps.erase d
      let tail := if ps' = [] then rest else .pubSend ps' ob sg p :: rest
      if (cs.peers d).isSome && routerUp then finS (.enq d (.signal ob sg p) :: tail) (.tau "peer-ok")
      else finS tail (.tau "peer-unknown")
  | .sendChk d m =>
    if (cs.peers d).isSome && routerUp then finS (.enq d m :: rest) (.tau "peer-ok")
    else finS (onSendFail m ++ rest) (.tau "peer-unknown")
  | .enq d m => fin { cs with loopQ := cs.loopQ ++ [.smSend d m] } rest (.tau "enq")
  | .chkObj1 _k _r =>
    if cs.objs _k.ob = .present then fin cs rest (.tau "obj-present")
    else fin cs [.raise .subscription (progTag rest)] (.tau "obj-missing")
  | .addLocal k r => fin { cs with lsubs := upd cs.lsubs k (ins (cs.lsubs k) r) } rest (.tau "add-local")
  | .chkObj2 k r =>
    if cs.objs k.ob = .present then fin cs rest (.tau "obj-present")
    else fin cs (.removeLocal k r :: rest) (.tau "obj-missing")
  | .removeLocal k r => fin { cs with lsubs := upd cs.lsubs k ((cs.lsubs k).erase r) } rest (.tau "remove-local")
  | .subRemote k r =>
    if cs.lsubs k ≠ [] then
      fin { cs with lsubs := upd cs.lsubs k (ins (cs.lsubs k) r) } rest (.tau "sub-joined")
    else match cs.byKey k with
      | some pid =>
        match cs.pobj pid with
        | none => none
        | some po =>
          fin { cs with pobj := upd cs.pobj pid (some { po with rcvs := ins po.rcvs r }) }
              (.wait pid :: rest) (.req "sub-pending" pid)
      | none =>
        let id := cs.nextReq
        fin { cs with pobj := upd cs.pobj id (some ⟨k, true, [r], none, false, id⟩),
                      byId := upd cs.byId id (some id), byKey := upd cs.byKey k (some id), nextReq := id + 1 }
            (.sendChk k.pc (.subReq id k.ob k.sg true) :: .wait id :: rest) (.req "sub-request" id)
  | .wait pid =>
    match cs.pobj pid with
    | some po =>
      match po.done with
      | some true => fin cs rest (.tau "wait-ok")
      | some false => fin cs [.raise .subscription (progTag rest)] (.tau "wait-failed")
      | none => none
    | none => none
  | .unsubRemote k r =>
    if cs.lsubs k = [] then fin cs rest (.tau "unsub-absent")
    else
      let l' := (cs.lsubs k).erase r
      let cs1 := { cs with lsubs := upd cs.lsubs k l' }
      if l' ≠ [] then fin cs1 rest (.tau "unsub-others-remain")
      else match cs.byKey k with
        | some _ => fin cs1 rest (.tau "unsub-last-pending")
        | none =>
          let id := cs.nextReq
          fin { cs1 with pobj := upd cs.pobj id (some ⟨k, false, [], none, false, id⟩),
                         byId := upd cs.byId id (some id), byKey := upd cs.byKey k (some id), nextReq := id + 1 }
              (.sendChk k.pc (.subReq id k.ob k.sg false) :: rest) (.req "unsub-request" id)
  | .handleReply id ok =>
    match handleReplyStep cs id ok with
    | none => none
    | some (cs', more, o) => fin cs' (more ++ rest) o
  | .markObj ob =>
    if cs.objs ob = .present then fin { cs with objs := upd cs.objs ob .reserved } rest (.tau "marked")
    else fin cs [.raise .unknownName (progTag rest)] (.tau "obj-missing")
  | .objRemoved ob =>
    let ns := notifyList cs ob
    fin { cs with lsubs := fun k => if k.pc = .name c ∧ k.ob = ob then [] else cs.lsubs k,
                  rsubs := fun k => if k.ob = ob then [] else cs.rsubs k }
        (if ns = [] then rest else .notify ns ob :: rest) (.snap "notify" (ns.map (fun x => peerCode x.2)))
  | .notify ns ob =>
    match ns.find? (fun x => x.1 = choice ∧ peerCode x.2 = choice2) with
    | none => none
    | some x =>
      let ns' := ns.erase x
      let tail := if ns' = [] then rest else .notify ns' ob :: rest
      if (cs.peers x.2).isSome && routerUp then finS (.enq x.2 (.removed ob x.1) :: tail) (.tau "peer-ok")
      else finS tail (.tau "peer-unknown")
  | .delObj ob => fin { cs with objs := upd cs.objs ob .absent } rest (.tau "deleted")
  | .reserveObj ob =>
    if cs.objs ob = .absent then fin { cs with objs := upd cs.objs ob .reserved } rest (.tau "reserved")
    else fin cs [.raise .duplicateName (progTag rest)] (.tau "duplicate")
  | .registerObj ob => fin { cs with objs := upd cs.objs ob .present } rest (.tau "registered")
  | .reqChk1 src id ob sg =>
    if cs.objs ob = .present then fin cs (.addRemote src ob sg :: .reqChk2 src id ob sg :: rest) (.tau "obj-present")
    else fin cs (.sendChk src (.subReply id false) :: rest) (.tau "obj-missing")
  | .addRemote src ob sg =>
    let k : RKey := ⟨ob, sg⟩
    fin { cs with rsubs := upd cs.rsubs k (if src ∈ cs.rsubs k then cs.rsubs k else cs.rsubs k ++ [src]),
                  rdom := if k ∈ cs.rdom then cs.rdom else cs.rdom ++ [k] } rest (.tau "add-remote")
  | .reqChk2 src id ob sg =>
    if cs.objs ob = .present then fin cs (.sendChk src (.subReply id true) :: rest) (.tau "obj-present")
    else fin cs (.removeRemote src ob sg :: .sendChk src (.subReply id false) :: rest) (.tau "obj-missing")
  | .removeRemote src ob sg =>
    fin { cs with rsubs := upd cs.rsubs ⟨ob, sg⟩ ((cs.rsubs ⟨ob, sg⟩).filter (· ≠ src)) } rest (.tau "remove-remote")
  | .sigRemoved k =>
    -- drop the local subscribers; remember the removal in a subscribe request of that signal that still waits for its reply
    fin { cs with lsubs := upd cs.lsubs k [],
                  pobj := fun pid => (cs.pobj pid).map (fun po => po.cancelIf (decide (cs.byKey k = some pid) && po.sub)) }
        rest (.tau "signal-removed")
  | .popPeer n => fin { cs with peers := upd cs.peers n none } rest (.tau "pop-peer")
  | .peerRemoved n => fin (peerRemovedStep cs n) rest (.tau "peer-removed")
  | .closeConn cn cli =>
    let cnn := s.conn cn
    let h := cnn.half cli
    let s1 := { s with conn := upd s.conn cn (cnn.setHalf cli { h with isOpen := false, inbox := [], pend := [] }) }
    some (s1.setProg th (h.pend.map (fun id => MOp.handleReply id false) ++ rest), .snap "close" h.pend)
  | .finish t ok => fin { cs with fut := upd cs.fut t (some ok) } rest (.tau "finish")
  | .enqDisc n =>
    match th with
    | .user _ t => fin { cs with loopQ := cs.loopQ ++ [.disconnect n t] } rest (.tau "enq")
    | .sock _ => none
  | .waitFut =>
    match th with
    | .user _ t =>
      match cs.fut t with
      | some true => fin { cs with fut := upd cs.fut t none } rest (.tau "wait-ok")
      | some false => fin { cs with fut := upd cs.fut t none } [.raise .unknownName (progTag rest)] (.tau "wait-failed")
      | none => none
    | .sock _ => none
  | .ret o => if rest = [] then fin cs [] (.ret o) else none
  | .raise e o => fin cs [] (.exc e o)

def step (s : State) : Act → Option (State × Out)
  | .begin c t o =>
    if (s.ctx c).alive ∧ s.prog (.user c t) = [] then
      match o with
      | .publish _ _ =>
        some ({ (s.setProg (.user c t) (beginProg c t (s.nextSeq t) o)) with nextSeq := upd s.nextSeq t (s.nextSeq t + 1) },
              .req "begin" (s.nextSeq t))
      | _ => some (s.setProg (.user c t) (beginProg c t 0 o), .tau "begin")
    else none
  | .micro th choice choice2 =>
    if (s.ctx th.ctx).alive then
      match s.prog th with
      | [] => none
      | op :: rest => microStep s th choice choice2 op rest
    else none
  | .cb c ok =>
    let cs := s.ctx c
    if cs.alive ∧ s.prog (.sock c) = [] then
      match cs.loopQ with
      | [] => none
      | .smSend d m :: q =>
        let s0 := s.setCtx c { cs with loopQ := q }
        match smSendStep s0 c d m ok with
        | none => none
        | some (s1, pr) => some (s1.setProg (.sock c) pr, .tau (if (cs.peers d).isSome ∧ ok then "sent" else "send-failed"))
      | .disconnect n t :: q =>
        let s0 := s.setCtx c { cs with loopQ := q }
        match cs.peers n with
        | none => some (s0.setProg (.sock c) [.finish t false], .tau "disc-unknown")
        | some cn => some (s0.setProg (.sock c) [.popPeer n, .peerRemoved n, .closeConn cn n.isName, .finish t true], .tau "disc")
    else none
  | .arrive cn cli =>
    let cnn := s.conn cn
    let h := cnn.half cli
    let c := h.owner
    if cn < s.nextConn ∧ (s.ctx c).alive ∧ s.prog (.sock c) = [] ∧ h.isOpen then
      match h.inbox with
      | [] => none
      | m :: ms =>
        let h' : Half := match m with
          | .subReply id _ => { h with inbox := ms, pend := h.pend.erase id }
          | _ => { h with inbox := ms }
        let s1 := { s with conn := upd s.conn cn (cnn.setHalf cli h') }
        some (s1.setProg (.sock c) (dispatch (srcName s cn cli) m), .tau "arrive")
    else none
  | .eof cn cli =>
    let cnn := s.conn cn
    let h := cnn.half cli
    let c := h.owner
    if cn < s.nextConn ∧ (s.ctx c).alive ∧ s.prog (.sock c) = [] ∧ h.isOpen ∧ h.inbox = [] ∧ (cnn.half (!cli)).isOpen = false then
      let n := srcName s cn cli
      some (s.setProg (.sock c) [.popPeer n, .peerRemoved n, .closeConn cn cli], .tau "eof")
    else none
  | .connect a p =>
    if a ≠ p ∧ (s.ctx a).alive ∧ (s.ctx p).alive ∧ (s.ctx a).peers (.name p) = none then
      let cn := s.nextConn
      let ca := s.ctx a
      let s1 := s.setCtx a { ca with peers := upd ca.peers (.name p) (some cn) }
      let cp := s1.ctx p
      let s2 := s1.setCtx p { cp with peers := upd cp.peers (.alias cn) (some cn) }
      some ({ s2 with conn := upd s2.conn cn { cli := { owner := a, isOpen := true, inbox := [], pend := [] },
                                               srv := { owner := p, isOpen := true, inbox := [], pend := [] } },
                      nextConn := cn + 1 }, .req "connect" cn)
    else none
  | .routerOk th =>
    if (s.ctx th.ctx).alive ∧ (s.ctx th.ctx).routerDown = false then
      some ({ s with passed := upd s.passed th true }, .tau "router-ok")
    else none
  | .stopReq c =>
    if (s.ctx c).alive then
      some (s.setCtx c { (s.ctx c) with routerDown := true }, .tau "stop-requested")
    else none
  | .stop c =>
    if (s.ctx c).alive then
      let cs := s.ctx c
      some ({ (s.setCtx c { cs with alive := false, loopQ := [] }) with
                conn := fun cn =>
                  let x := s.conn cn
                  let x1 := if x.cli.owner = c then { x with cli := { x.cli with isOpen := false, inbox := [] } } else x
                  if x1.srv.owner = c then { x1 with srv := { x1.srv with isOpen := false, inbox := [] } } else x1 },
            .tau "stop")
    else none

/-- run a list of actions; `none` as soon as one is not enabled -/
def run (s : State) : List Act → Option State
  | [] => some s
  | a :: as => match step s a with
    | some (s', _) => run s' as
    | none => none

/-- reachable states -/
inductive Reach : State → Prop
  | init : Reach State.init
  | step {s s' : State} {a : Act} {o : Out} : Reach s → step s a = some (s', o) → Reach s'

end QmiModel.PubSub

namespace QmiModel.PubSub

/-! ### how the code builds its table keys (strings); `'.'` never occurs in a valid name (`is_valid_object_name`) -/

/-- `publisher_context + "." + publisher_name + "." + signal_name` (`_local_subscriptions`) -/
def fullName (ctx pub sig : List Char) : List Char := ctx ++ '.' :: (pub ++ '.' :: sig)

/-- `publisher_name + "." + signal_name` (`_remote_subscriptions`) -/
def remoteName (pub sig : List Char) : List Char := pub ++ '.' :: sig

/-- the character class of `is_valid_object_name`: `[-_a-zA-Z0-9()]` -/
def validChar (c : Char) : Bool :=
  c.isAlphanum || c == '-' || c == '_' || c == '(' || c == ')'

/-- what the pattern `^[-_a-zA-Z0-9()]+$` looks at: `$` also matches before one trailing newline -/
def nameBody (n : List Char) : List Char := if n.getLast? = some '\n' then n.dropLast else n

/-- `is_valid_object_name`: at most 63 characters; one or more characters of the class, then the end of the string or
a single trailing newline (`re.match` with `$`) -/
def validName (n : List Char) : Bool := nameBody n ≠ [] && n.length ≤ 63 && (nameBody n).all validChar

end QmiModel.PubSub
