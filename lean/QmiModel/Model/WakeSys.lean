import QmiModel.Model.Wake
import QmiModel.Gen.SyncProgs
/-!
# The systems of C11: generated programs + hand-written thread bodies

Function table: indices 0–7 are the **generated** programs (`Gen/SyncProgs.lean`, regenerated from the
QMI sources on every run); the rest are the bodies of the scenario's threads, written here:

* the first *stopper* executes the generated `QMI_TaskRunner.stop` (what the proxy's `stop()` runs on the RPC worker),
  a second one the generated `_TaskThread._request_shutdown`; both reach the generated `stop_task`, which is translated
  for every value of `_TaskThread._state` (`St.tstate`);
* the *publisher* does what `QMI_SignalReceiver._receive_signal` does, again and again: `with cond: append (bounded
  queue); notify_all()` — a critical section under one lock that touches only state protected by that lock, hence one
  action (DESIGN §3);
* the *waiting tasks* wait again and again: `self.sleep(d)`, `rx.get_next_signal(None)`,
  `try: rx.get_next_signal(t) except QMI_TimeoutException: pass`, or a free choice between the three each time;
* the *loop task* runs `QMI_LoopTask.run`.
-/
namespace QmiModel.Wake.Systems
open QmiModel.Wake

def fStop : Nat := 0
def fSleep : Nat := 2
def fGet : Nat := 4
def fLoop : Nat := 5
def fRunnerStop : Nat := 6
def fRequestShutdown : Nat := 7
def fHookPrepare : Nat := 8
def fHookIteration : Nat := 9
def fHookFinalize : Nat := 10
def fHookSettings : Nat := 11
def fHookPublish : Nat := 12
def fMainStopper : Nat := 13
def fMainPublisher : Nat := 14
def fMainAny : Nat := 15
def fMainLoop : Nat := 16
def fMainSleep : Nat := 17
def fMainRecvN : Nat := 18
def fMainRecvT : Nat := 19
def fMainShutdown : Nat := 20
def fMainIdle : Nat := 21
def fMainReader : Nat := 22
def fMainAny2 : Nat := 23
def fMainPublisher2 : Nat := 24
def fMainRecv2 : Nat := 25

/-! ### user hooks of the loop task (functions 8–12, called by the generated `QMI_LoopTask.run`) -/

/-- a hook that does not wait -/
def hookPlain (pre : List Instr) : Func := { code := pre ++ [.ret], handlers := [] }

/-- a hook that may itself wait: nothing | `self.sleep(d)` | `rx.get_next_signal(None)` |
    `try: rx.get_next_signal(t) except QMI_TimeoutException: pass` — the stop exception propagates into `run()` -/
def hookWaiting (pre : List Instr) : Func :=
  let p := pre.length
  { code := pre ++ [ /- p+0 -/ .ldAny, .jf (p+4), .call fSleep, .ret,
                     /- p+4 -/ .ldAny, .jf (p+10), .ldAny, .setTimed, /- p+8 -/ .call fGet, .ret,
                     /- p+10 -/ .ret ],
    handlers := [⟨p+8, p+9, p+9, some .timeout⟩] }

/-- `loop_prepare`, `loop_iteration`, `loop_finalize`, `process_new_settings`, `publish_signals` -/
def hooks (waiting : Bool) : List Func :=
  if waiting then [hookPlain [.mark .prepare], hookWaiting [.mark .iteration], hookPlain [.mark .finalize], hookWaiting [], hookWaiting []]
  else [hookPlain [.mark .prepare], hookPlain [.mark .iteration], hookPlain [.mark .finalize], hookPlain [], hookPlain []]

/-- `proxy.stop()` as executed by the RPC worker: `QMI_TaskRunner.stop()` -/
def mainStopper : Func := { code := [.call fRunnerStop, .halt], handlers := [] }

/-- interpreter shutdown: `_TaskThread._request_shutdown()` -/
def mainShutdown : Func := { code := [.call fRequestShutdown, .halt], handlers := [] }

/-- a task thread that is not inside `task.run()` (not started yet, or already finished) -/
def mainIdle : Func := { code := [.halt], handlers := [] }

def mainPublisher : Func := { code := [.publish 0, .jmp 0], handlers := [] }

/-- a publisher for two receivers: each time it serves one of them -/
def mainPublisher2 : Func := { code := [.ldAny, .jf 4, .publish 0, .jmp 0, .publish 1, .jmp 0], handlers := [] }

/-- a task that waits on **several conditions in sequence**: each time `self.sleep(d)` or `get_next_signal(None | t)` on
    receiver 0 or 1 -/
def mainAny2 : Func :=
  { code := [ /- 0 -/ .ldAny, .jf 4, .call fSleep, .jmp 0,
              /- 4 -/ .ldAny, .setRecv, .ldAny, .setTimed, /- 8 -/ .call fGet, .jmp 0 ],
    handlers := [⟨8, 9, 9, some .timeout⟩] }

/-- `while True: rx[i].get_next_signal(None)` with a free choice of the receiver each time -/
def mainRecv2 : Func :=
  { code := [.ldAny, .setRecv, .ldConst false, .setTimed, /- 4 -/ .call fGet, .jmp 0], handlers := [⟨4, 5, 5, some .timeout⟩] }

/-- `while True:` choose `self.sleep(d)` | `rx.get_next_signal(None)` | `try: rx.get_next_signal(t) except QMI_TimeoutException: pass` -/
def mainAny : Func :=
  { code := [ /- 0 -/ .ldAny, /- 1 -/ .jf 4, /- 2 -/ .call fSleep, /- 3 -/ .jmp 0,
              /- 4 -/ .ldAny, /- 5 -/ .setTimed, /- 6 -/ .call fGet, /- 7 -/ .jmp 0 ],
    handlers := [⟨6, 7, 7, some .timeout⟩] }

def mainLoop : Func := { code := [.call fLoop, .halt], handlers := [] }

/-- `while True: self.sleep(d)` -/
def mainSleep : Func := { code := [.call fSleep, .jmp 0], handlers := [] }

/-- `while True: rx.get_next_signal(None)` -/
def mainRecvN : Func :=
  { code := [.ldConst false, .setTimed, .call fGet, .jmp 2], handlers := [⟨2, 3, 3, some .timeout⟩] }

/-- `while True: try: rx.get_next_signal(t) except QMI_TimeoutException: pass` -/
def mainRecvT : Func :=
  { code := [.ldConst true, .setTimed, .call fGet, .jmp 2], handlers := [⟨2, 3, 3, some .timeout⟩] }

/-- a **bystander** blocked on the *same* receiver condition as the task: a plain thread (or another task that is not
    being stopped — towards the shared condition it performs the same operations) calling `rx.get_next_signal(None)`
    again and again -/
def mainReader : Func :=
  { code := [.ldConst false, .setTimed, .call fGet, .jmp 2], handlers := [⟨2, 3, 3, some .timeout⟩] }

def mains : List Func :=
  [mainStopper, mainPublisher, mainAny, mainLoop, mainSleep, mainRecvN, mainRecvT, mainShutdown, mainIdle, mainReader,
   mainAny2, mainPublisher2, mainRecv2]

def th0 (fn : Nat) (isTask : Bool) : Th :=
  { fn := fn, pc := 0, stack := [], acc := false, locs := 0, exc := none, park := .no, expired := false,
    timed := false, isTask := isTask, rcv := 0, cl := 0, status := .run }

def st0 (tstate : Nat) (ths : List Th) : St :=
  { flag := false, wc := 0, qlen := 0, qlen2 := 0, lwcl := none, lsc := none, lqc := none, lqc2 := none, fin := 0,
    tstate := tstate, wq := [], ths := ths }

/-- the stoppers: the first is `stop()`, every further one `_request_shutdown` -/
def stoppers : Nat → List Th
  | 0 => []
  | n+1 => th0 fMainStopper false :: List.replicate n (th0 fMainShutdown false)

/-- `mkWith gen taskMain nStop publisher`: task thread 0, stoppers 1..nStop, then (optionally) the publisher -/
def mkWith (gen : List Func) (taskMain : Nat) (nStop : Nat) (publisher : Bool) (cap : Nat := 1)
    (tstate : Nat := Gen.SyncProgs.stRunning) (reader : Bool := false) (hooksWait : Bool := false)
    (twoReceivers : Bool := false) : Sys :=
  { funcs := gen ++ hooks hooksWait ++ mains, cap := cap, nStop := nStop,
    init := st0 tstate ([th0 taskMain true] ++ stoppers nStop
                 ++ (if publisher then [th0 (if twoReceivers then fMainPublisher2 else fMainPublisher) false] else [])
                 ++ (if reader then [th0 fMainReader false] else [])) }

def mk (taskMain : Nat) (nStop : Nat) (publisher : Bool) (cap : Nat := 1) (tstate : Nat := Gen.SyncProgs.stRunning)
    (reader : Bool := false) (hooksWait : Bool := false) (twoReceivers : Bool := false) : Sys :=
  mkWith Gen.SyncProgs.funcs taskMain nStop publisher cap tstate reader hooksWait twoReceivers

/-- stop request(s) reaching a task thread that is **not** running `task.run()`: `_state = tstate` -/
def sysEarly (tstate : Nat) (nStop : Nat) : Sys := mk fMainIdle nStop false 1 tstate

/-- the task thread has ended by QMI_TaskStopException -/
def endedByStop (s : St) : Bool := match taskTh s with | some t => t.status == .raised .stop | none => false

/-- the loop task's `run()` has returned normally after exactly one `loop_finalize` -/
def endedFinalised (s : St) : Bool := match taskTh s with | some t => t.status == .done && s.fin == 1 | none => false

/-- everything C11 asks of one state of a system with a generic waiting task -/
def goodWaiter (sys : Sys) (s : St) : Bool :=
  !lostWakeup sys s && !anyCrashed s && stopSetsFlag sys s && noParkAfterStop sys s && exitOnlyByStop s &&
  releasedB sys endedByStop s && progress sys s && registrationDiscipline s

/-- the same for the loop task -/
def goodLoop (sys : Sys) (s : St) : Bool :=
  !lostWakeup sys s && !anyCrashed s && stopSetsFlag sys s && noParkAfterStop sys s && loopExit s &&
  releasedB sys endedFinalised s && progress sys s && registrationDiscipline s

/-- every stop request of the system has returned -/
def allStoppersDone (sys : Sys) (s : St) : Bool :=
  (List.range sys.nStop).all fun i => match s.ths[i+1]? with | some t => t.status == .done | none => false

/-- what `_state` must be once every stop request issued in state `init` has returned: a task that had not been
    started is marked "stopped before start" (its `run()` will never be called, so it never waits); every other state
    is left alone -/
def expectedFinal (init : Nat) : Nat :=
  if init == Gen.SyncProgs.stInitial || init == Gen.SyncProgs.stReady then Gen.SyncProgs.stStoppedBeforeStart else init

/-- obligations of `stop_task` for a task thread that is not inside `task.run()`: no error of the primitives or
    assertion, the stop requests never block each other for ever, `_state` ends as expected, and unless the task was
    never started (or failed to be constructed) a completed stop request has set the flag -/
def earlyGood (sys : Sys) (init : Nat) (s : St) : Bool :=
  !anyCrashed s && (allStoppersDone sys s || !(succs sys s).isEmpty) &&
  (!allStoppersDone sys s || s.tstate == expectedFinal init) &&
  (init == Gen.SyncProgs.stInitial || init == Gen.SyncProgs.stReady || init == Gen.SyncProgs.stExcInit ||
    stopSetsFlag sys s) &&
  (init != Gen.SyncProgs.stExcInit || !s.flag)

/-- `sleep()` in a loop, one stop request -/
def sysSleep : Sys := mk fMainSleep 1 false
/-- `get_next_signal(None)` in a loop, one stop request, a signal publisher -/
def sysRecvN : Sys := mk fMainRecvN 1 true
/-- `get_next_signal(t)` in a loop, one stop request, a signal publisher -/
def sysRecvT : Sys := mk fMainRecvT 1 true
/-- the loop task and one stop request -/
def sysLoop : Sys := mk fMainLoop 1 false
/-- two concurrent stop requests (`stop()` and `_request_shutdown`) against `sleep()` -/
def sysSleep2 : Sys := mk fMainSleep 2 false
/-- two concurrent stop requests against `get_next_signal(None)` -/
def sysTwo : Sys := mk fMainRecvN 2 false
/-- the loop task and two concurrent stop requests -/
def sysLoop2 : Sys := mk fMainLoop 2 false
/-- `get_next_signal(None)`, one stop request, and a bystander waiting on the same condition (either FIFO order) -/
def sysShareN : Sys := mk fMainRecvN 1 false 1 Gen.SyncProgs.stRunning true
/-- `get_next_signal(t)`, one stop request, a bystander on the same condition and a publisher -/
def sysShareT : Sys := mk fMainRecvT 1 true 1 Gen.SyncProgs.stRunning true
/-- a task that waits on two receivers in sequence (free choice each time), one stop request, a publisher serving both -/
def sysRecv2 : Sys := mk fMainRecv2 1 true 1 Gen.SyncProgs.stRunning false false true
/-- the loop task whose `loop_iteration` / `process_new_settings` / `publish_signals` may themselves wait -/
def sysLoopW : Sys := mk fMainLoop 1 false 1 Gen.SyncProgs.stRunning false true
/-- free mixture of the three waits, one stop request, a publisher -/
def sysAny : Sys := mk fMainAny 1 true
/-- free mixture, two stop requests, a publisher -/
def sysAnyTwo : Sys := mk fMainAny 2 true

/-! A deliberately wrong stopper, used only to show that the obligations are not vacuous: the hand-made variant
of `stop_task` that looks up `_wait_cond` *before* setting the flag. -/
def stopTaskLookupFirst : Func := {
  code := [
    /-  0 -/ .lock .sc, .unlock .sc,
    /-  2 -/ .lock .wcl, .ldWc, .stLoc 0, .unlock .wcl,
    /-  6 -/ .setFlag,
    /-  7 -/ .ldLoc 0, .jf 12,
    /-  9 -/ .lock (.viaLoc 0), .notifyAll (.viaLoc 0), .unlock (.viaLoc 0),
    /- 12 -/ .clrCond 0, .ret ],
  handlers := [] }

def sysLookupFirst : Sys :=
  mkWith (stopTaskLookupFirst :: Gen.SyncProgs.funcs.drop 1) fMainRecvN 1 false

end QmiModel.Wake.Systems
