import QmiModel.Model.Wake
import QmiModel.Gen.SyncProgs
/-!
# The systems of C11: generated programs + hand-written thread bodies

Function table: indices 0–5 are the **generated** programs (`Gen/SyncProgs.lean`, regenerated from the
QMI sources on every run); the rest are the bodies of the scenario's threads, written here:

* a *stopper* calls `stop_task` once (`stop()` through the RPC worker, or `_request_shutdown`);
* the *publisher* does what `QMI_SignalReceiver._receive_signal` does, again and again: `with cond: append (bounded
  queue); notify_all()` — a critical section under one lock that touches only state protected by that lock, hence one
  action (DESIGN §3);
* the *waiting tasks* wait again and again: `self.sleep(d)`, `rx.get_next_signal(None)`,
  `try: rx.get_next_signal(t) except QMI_TimeoutException: pass`, or a free choice between the three each time;
* the *loop task* runs `QMI_LoopTask.run`.
-/
namespace QmiModel.Wake.Systems
open QmiModel.Wake

def fStop : Nat := 0
def fSleep : Nat := 2
def fGet : Nat := 4
def fLoop : Nat := 5
def fMainStopper : Nat := 6
def fMainPublisher : Nat := 7
def fMainAny : Nat := 8
def fMainLoop : Nat := 9
def fMainSleep : Nat := 10
def fMainRecvN : Nat := 11
def fMainRecvT : Nat := 12

def mainStopper : Func := { code := [.call fStop, .halt], handlers := [] }

def mainPublisher : Func := { code := [.publish, .jmp 0], handlers := [] }

/-- `while True:` choose `self.sleep(d)` | `rx.get_next_signal(None)` | `try: rx.get_next_signal(t) except QMI_TimeoutException: pass` -/
def mainAny : Func :=
  { code := [ /- 0 -/ .ldAny, /- 1 -/ .jf 4, /- 2 -/ .call fSleep, /- 3 -/ .jmp 0,
              /- 4 -/ .ldAny, /- 5 -/ .setTimed, /- 6 -/ .call fGet, /- 7 -/ .jmp 0 ],
    handlers := [⟨6, 7, 7, some .timeout⟩] }

def mainLoop : Func := { code := [.call fLoop, .halt], handlers := [] }

/-- `while True: self.sleep(d)` -/
def mainSleep : Func := { code := [.call fSleep, .jmp 0], handlers := [] }

/-- `while True: rx.get_next_signal(None)` -/
def mainRecvN : Func :=
  { code := [.ldConst false, .setTimed, .call fGet, .jmp 2], handlers := [⟨2, 3, 3, some .timeout⟩] }

/-- `while True: try: rx.get_next_signal(t) except QMI_TimeoutException: pass` -/
def mainRecvT : Func :=
  { code := [.ldConst true, .setTimed, .call fGet, .jmp 2], handlers := [⟨2, 3, 3, some .timeout⟩] }

def mains : List Func := [mainStopper, mainPublisher, mainAny, mainLoop, mainSleep, mainRecvN, mainRecvT]

def funcs : List Func := Gen.SyncProgs.funcs ++ mains

def th0 (fn : Nat) (isTask : Bool) : Th :=
  { fn := fn, pc := 0, stack := [], acc := false, locs := 0, exc := none, park := .no, expired := false,
    timed := false, isTask := isTask, status := .run }

def st0 (ths : List Th) : St :=
  { flag := false, wc := false, qlen := 0, lwcl := none, lsc := none, lqc := none, fin := 0, ths := ths }

/-- `mkWith gen taskMain nStop publisher`: task thread 0, stoppers 1..nStop, then (optionally) the publisher -/
def mkWith (gen : List Func) (taskMain : Nat) (nStop : Nat) (publisher : Bool) (cap : Nat := 1) : Sys :=
  { funcs := gen ++ mains, cap := cap, nStop := nStop,
    init := st0 ([th0 taskMain true] ++ List.replicate nStop (th0 fMainStopper false)
                 ++ (if publisher then [th0 fMainPublisher false] else [])) }

def mk (taskMain : Nat) (nStop : Nat) (publisher : Bool) (cap : Nat := 1) : Sys :=
  mkWith Gen.SyncProgs.funcs taskMain nStop publisher cap

/-- `sleep()` in a loop, one stop request -/
def sysSleep : Sys := mk fMainSleep 1 false
/-- `get_next_signal(None)` in a loop, one stop request, a signal publisher -/
def sysRecvN : Sys := mk fMainRecvN 1 true
/-- `get_next_signal(t)` in a loop, one stop request, a signal publisher -/
def sysRecvT : Sys := mk fMainRecvT 1 true
/-- the loop task and one stop request -/
def sysLoop : Sys := mk fMainLoop 1 false
/-- two concurrent stop requests (`stop()` and `_request_shutdown`) against `sleep()` -/
def sysSleep2 : Sys := mk fMainSleep 2 false
/-- two concurrent stop requests against `get_next_signal(None)` (explored by the driver on every run) -/
def sysTwo : Sys := mk fMainRecvN 2 false
/-- free mixture of the three waits, one stop request, a publisher (explored by the driver on every run) -/
def sysAny : Sys := mk fMainAny 1 true
/-- free mixture, two stop requests, a publisher (explored by the driver on every run) -/
def sysAnyTwo : Sys := mk fMainAny 2 true

/-! A deliberately wrong stopper, used only to show that the obligations are not vacuous: the hand-made variant
of `stop_task` that looks up `_wait_cond` *before* setting the flag. -/
def stopTaskLookupFirst : Func := {
  code := [
    /-  0 -/ .lock .sc, .unlock .sc,
    /-  2 -/ .lock .wcl, .ldWc, .stLoc 0, .unlock .wcl,
    /-  6 -/ .setFlag,
    /-  7 -/ .ldLoc 0, .jf 12,
    /-  9 -/ .lock (.viaLoc 0), .notifyAll (.viaLoc 0), .unlock (.viaLoc 0),
    /- 12 -/ .clrLoc 0, .ret ],
  handlers := [] }

def sysLookupFirst : Sys :=
  mkWith (stopTaskLookupFirst :: Gen.SyncProgs.funcs.drop 1) fMainRecvN 1 false

end QmiModel.Wake.Systems
