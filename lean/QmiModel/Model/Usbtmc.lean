/-!
# Model of the USBTMC bulk message framing (qmi/core/usbtmc.py) — property C15, part A

Mirrors `Instrument.pack_bulk_out_header`, `pack_dev_dep_msg_out_header`,
`pack_dev_dep_msg_in_header`, `unpack_dev_dep_resp_header`, `write_raw` and
`read_raw` (including the `num` argument, the RIGOL quirk with its IEEE-block
sub-quirk, and the Advantest quirk) statement by statement.  Python exceptions
are values.  The two bulk endpoints are the environment:

* Bulk-OUT: every `bulk_out_ep.write(req)` is recorded; an optional fault makes the
  k-th write raise `usb.core.USBError` (errno 110 = time-out, which triggers
  `_abort_bulk_out`, or another errno);
* Bulk-IN: a script of outcomes of successive `bulk_in_ep.read()` calls; an exhausted
  script is a time-out (errno 110, triggers `_abort_bulk_in`).  The abort sequences
  themselves are answered by the fake device with "transfer not in progress", so all
  the model keeps of them is the bTag they name.

Also in this file: `Dev`, a reference *device* decoder written from the USBTMC 1.0
specification (§3.2, Bulk-OUT), used to state `device_decodes_write`.

Core Lean only (the driver exe links this file).
-/
namespace QmiModel.Usbtmc

abbrev Bytes := List UInt8

inductive PyExc
  | structError     -- struct.error (value out of range / buffer too short)
  | usbTimeout      -- usb.core.USBError errno 110, re-raised after the abort sequence
  | usbError        -- usb.core.USBError, any other errno, re-raised
  | usbtmcMismatch  -- UsbtmcException("Bulk-IN header does not match request") — only in a tree that checks the header
  | indexError      -- IndexError  (`data[1]` in the RIGOL IEEE-block sub-quirk)
  | valueError      -- ValueError  (`int(...)` in the RIGOL IEEE-block sub-quirk)
  | hang            -- the call never returns
  deriving DecidableEq, Repr

def MSGID_DEV_DEP_MSG_OUT : Nat := 1
def MSGID_REQUEST_DEV_DEP_MSG_IN : Nat := 2
def HEADER_SIZE : Nat := 12

/-- `(self.last_btag % 255) + 1` -/
def nextTag (last : Nat) : Nat := last % 255 + 1

/-- `~btag & 0xFF` for a non-negative `btag` -/
def invTag (tag : Nat) : Nat := 255 - tag % 256

/-- `struct.pack('BBBx', msgid, btag, ~btag & 0xFF)` -/
def bulkOutHeader (msgid tag : Nat) : Bytes :=
  [UInt8.ofNat msgid, UInt8.ofNat tag, UInt8.ofNat (invTag tag), 0]

/-- `struct.pack('<L', n)`, defined for `n < 2^32` -/
def le32 (n : Nat) : Bytes :=
  [UInt8.ofNat n, UInt8.ofNat (n / 256), UInt8.ofNat (n / 65536), UInt8.ofNat (n / 16777216)]

/-- `struct.unpack('<L', …)` -/
def unLe32 (a b c d : UInt8) : Nat :=
  a.toNat + 256 * b.toNat + 65536 * c.toNat + 16777216 * d.toNat

/-- `pack_dev_dep_msg_out_header(size, eom)`: returns the new `last_btag` (updated even when packing fails) -/
def packOut (last size : Nat) (eom : Bool) : Nat × Except PyExc Bytes :=
  let tag := nextTag last
  if size < 4294967296 then
    (tag, .ok (bulkOutHeader MSGID_DEV_DEP_MSG_OUT tag ++ le32 size ++ [if eom then 1 else 0, 0, 0, 0]))
  else (tag, .error .structError)

/-- `pack_dev_dep_msg_in_header(size, term_char)` (argument `term_char` is `self.term_char`) -/
def packIn (last size : Nat) (termChar : Option UInt8) : Nat × Except PyExc Bytes :=
  let tag := nextTag last
  if size < 4294967296 then
    (tag, .ok (bulkOutHeader MSGID_REQUEST_DEV_DEP_MSG_IN tag ++ le32 size ++
      (match termChar with
       | none => [0, 0, 0, 0]
       | some c => [2, c, 0, 0])))
  else (tag, .error .structError)

/-- `(4 - (size % 4)) % 4` -/
def pad4 (size : Nat) : Nat := (4 - size % 4) % 4

/-- the bytes of one Bulk-OUT transfer as `write_raw` builds them -/
def outTransfer (tag : Nat) (block : Bytes) (eom : Bool) : Bytes :=
  bulkOutHeader MSGID_DEV_DEP_MSG_OUT tag ++ le32 block.length ++ [if eom then 1 else 0, 0, 0, 0]
    ++ block ++ List.replicate (pad4 block.length) 0

/-- what `write_raw` leaves behind -/
structure WOut where
  last     : Nat                    -- `last_btag` afterwards
  sent     : List Bytes             -- every `bulk_out_ep.write(req)` call, in order (a failing call included)
  exc      : Option PyExc := none
  abortTag : Option Nat := none     -- wValue of INITIATE_ABORT_BULK_OUT, if the abort sequence ran
  deriving Repr

/-- the `while num > 0` loop of `write_raw`.  `rest` = `data[offset:]`, `idx` = number of writes done,
`fault = some (k, isTimeout)`: the k-th write raises.  `fuel` bounds the iterations (each one consumes
at least one byte when `mts ≥ 1`). -/
def writeLoop (mts : Nat) (fault : Option (Nat × Bool)) : Nat → Nat → Nat → Bytes → WOut
  | 0, _, last, rest => { last, sent := [], exc := if rest.isEmpty then none else some .hang }
  | fuel + 1, idx, last, rest =>
    if rest.isEmpty then { last, sent := [] }                 -- while num > 0
    else
      let eom := decide (rest.length ≤ mts)                   -- if num <= self.max_transfer_size: eom = True
      let block := rest.take mts                              -- data[offset:offset+max_transfer_size]
      match packOut last block.length eom with
      | (last, .error e) => { last, sent := [], exc := some e }
      | (last, .ok hdr) =>
        let req := hdr ++ block ++ List.replicate (pad4 block.length) 0
        match fault with
        | some (k, isTimeout) =>
          if k = idx then
            if isTimeout then { last, sent := [req], exc := some .usbTimeout, abortTag := some last }
            else { last, sent := [req], exc := some .usbError }
          else
            let r := writeLoop mts fault fuel (idx + 1) last (rest.drop block.length)
            { r with sent := req :: r.sent }
        | none =>
          let r := writeLoop mts fault fuel (idx + 1) last (rest.drop block.length)
          { r with sent := req :: r.sent }

/-- `Instrument.write_raw(data)` on a connected instrument.
`max_transfer_size = 0` with a non-empty payload never terminates (the block is empty, `num` never shrinks). -/
def writeRaw (mts : Nat) (fault : Option (Nat × Bool)) (last : Nat) (data : Bytes) : WOut :=
  if mts = 0 ∧ !data.isEmpty then { last, sent := [], exc := some .hang }
  else writeLoop mts fault data.length 0 last data

/-! ### read side -/

/-- outcome of one `bulk_in_ep.read()` -/
inductive Ev
  | data (b : Bytes)
  | ioErr               -- USBError with errno ≠ 110
  | timeout             -- USBError with errno 110 although more is scripted (the device answers late)
  deriving DecidableEq, Repr

structure Cfg where
  mts       : Nat                    -- max_transfer_size
  termChar  : Option UInt8 := none   -- self.term_char
  rigol     : Bool := false          -- rigol_quirk
  advantest : Bool := false          -- advantest_quirk
  rigolIeee : Bool := false          -- rigol_quirk_ieee_block
  checkHdr  : Bool := false          -- does this tree validate MsgID / bTag / bTagInverse of a Bulk-IN header?
                                     -- (probed on the code under test on every run; the pinned tree does not)
  deriving Repr

/-- `unpack_dev_dep_resp_header(resp)`: `(msgid, btag, btaginverse, transfer_size, transfer_attributes, data)`;
`none` = `struct.error` (fewer than 12 bytes) -/
def unpackResp : Bytes → Option (UInt8 × UInt8 × UInt8 × Nat × UInt8 × Bytes)
  | m :: t :: ti :: _ :: s0 :: s1 :: s2 :: s3 :: a :: _ :: _ :: _ :: body =>
    let ts := unLe32 s0 s1 s2 s3
    some (m, t, ti, ts, a, body.take ts)          -- data[12 : transfer_size + 12]
  | _ => none

/-- the local variables of `read_raw` that live across loop iterations, and what was done on the endpoints -/
structure RS where
  last     : Nat                 -- last_btag
  readData : Bytes := []
  num      : Int
  readLen  : Nat
  ts       : Nat := 0            -- transfer_size of the last parsed header
  data     : Bytes := []         -- data of the last parsed header
  reqs     : List Bytes := []    -- requests written to Bulk-OUT
  sizes    : List Nat := []      -- sizes asked from Bulk-IN
  deriving Repr

structure ROut where
  rs       : RS
  left     : List Ev                -- unread part of the script
  res      : Except PyExc Bytes
  abortTag : Option Nat := none
  deriving Repr

/-- first half of a loop iteration: send REQUEST_DEV_DEP_MSG_IN unless the RIGOL quirk suppresses it,
then ask the Bulk-IN endpoint for `read_len + 12 + 3` bytes -/
def reqStep (cfg : Cfg) (rs : RS) : RS × Option PyExc :=
  if !cfg.rigol || rs.readData.isEmpty then
    match packIn rs.last rs.readLen cfg.termChar with
    | (last, .error e) => ({ rs with last }, some e)
    | (last, .ok req) =>
      ({ rs with last, reqs := rs.reqs ++ [req], sizes := rs.sizes ++ [rs.readLen + HEADER_SIZE + 3] }, none)
  else ({ rs with sizes := rs.sizes ++ [rs.readLen + HEADER_SIZE + 3] }, none)

def isSpace (b : UInt8) : Bool := b == 32 || (9 ≤ b.toNat && b.toNat ≤ 13)

def isDigit (b : UInt8) : Bool := 48 ≤ b.toNat && b.toNat ≤ 57

/-- digits with single underscores between them (CPython `PyLong_FromString`, base 10) -/
def digitsU : Nat → Bool → Bytes → Option Nat
  | acc, prev, [] => if prev then some acc else none
  | acc, prev, c :: r =>
    if isDigit c then digitsU (acc * 10 + (c.toNat - 48)) true r
    else if c == 95 && prev then digitsU acc false r
    else none

/-- `int(b)` for a `bytes` object: surrounding ASCII white space, an optional sign, digits with single underscores;
`none` = `ValueError` -/
def pyIntBytes (b : Bytes) : Option Int :=
  let b := b.dropWhile isSpace
  let b := (b.reverse.dropWhile isSpace).reverse
  match b with
  | 45 :: r => (digitsU 0 false r).map (fun n => -(n : Int))
  | 43 :: r => (digitsU 0 false r).map (fun n => (n : Int))
  | _ => (digitsU 0 false b).map (fun n => (n : Int))

/-- `x[:k]` for a possibly negative `k` -/
def sliceTo (x : Bytes) (k : Int) : Bytes :=
  if k ≥ 0 then x.take k.toNat else x.take (x.length - (-k).toNat)

/-- RIGOL IEEE-block sub-quirk: the transfer size is taken from a `#<l><n>` block header at the start of the data -/
def ieeeSize (cfg : Cfg) (data : Bytes) (ts : Nat) : Except PyExc Int :=
  if cfg.rigolIeee && data.head? == some 35 then          -- data.startswith(b"#")
    match data with
    | _ :: x :: _ =>
      if isDigit x then                                    -- l = int(chr(data[1]))
        let l := x.toNat - 48
        match pyIntBytes ((data.drop 2).take l) with       -- n = int(data[2:l+2])
        | some n => .ok (n + l + 2)
        | none => .error .valueError
      else .error .valueError
    | _ => .error .indexError
  else .ok ts

/-- what `read_raw` does with one received packet: header parse (not for the 2nd.. packet of a RIGOL device), quirks;
yields the new `read_data`, `eom`, and the loop variables `transfer_size`, `data` -/
def absorb (cfg : Cfg) (rs : RS) (resp : Bytes) : Except PyExc (Bytes × Bool × Nat × Bytes) :=
  if cfg.rigol && !rs.readData.isEmpty then
    let rd := rs.readData ++ resp
    if rd.length ≥ rs.ts then .ok (rd.take rs.ts, true, rs.ts, rs.data) else .ok (rd, false, rs.ts, rs.data)
  else
    match unpackResp resp with
    | none => .error .structError
    | some (m, t, ti, ts, a, d) =>
      if cfg.checkHdr && !cfg.advantest
          && (m.toNat != MSGID_REQUEST_DEV_DEP_MSG_IN || t.toNat != rs.last || ti.toNat != invTag t.toNat) then
        .error .usbtmcMismatch
      else if cfg.rigol then
        match ieeeSize cfg d ts with
        | .error e => .error e
        | .ok tsI =>
          let rd := rs.readData ++ d
          if (rd.length : Int) ≥ tsI then .ok (sliceTo rd tsI, true, tsI.toNat, d) else .ok (rd, false, tsI.toNat, d)
      else
        -- only consider the EOM flag when transfer_size bytes were received
        .ok (rs.readData ++ d, (if d.length ≥ ts then a.toNat % 2 == 1 else false), ts, d)

/-- the `while not eom` loop of `read_raw`, one script entry per iteration -/
def readLoop (cfg : Cfg) : RS → List Ev → ROut
  | rs, [] =>
    match reqStep cfg rs with
    | (rs, some e) => { rs, left := [], res := .error e }
    | (rs, none) => { rs, left := [], res := .error .usbTimeout, abortTag := some rs.last }
  | rs, ev :: script =>
    match reqStep cfg rs with
    | (rs, some e) => { rs, left := ev :: script, res := .error e }
    | (rs, none) =>
      match ev with
      | .ioErr => { rs, left := script, res := .error .usbError }
      | .timeout => { rs, left := script, res := .error .usbTimeout, abortTag := some rs.last }
      | .data resp =>
        match absorb cfg rs resp with
        | .error e => { rs, left := script, res := .error e }
        | .ok (readData, eom, ts, data) =>
          let rs := { rs with readData, ts, data }
          if cfg.advantest then { rs, left := script, res := .ok readData }
          else
            -- `if num > 0: num -= len(data); if num <= 0: break; if num < read_len: read_len = num`
            let num' : Int := if rs.num > 0 then rs.num - data.length else rs.num
            if rs.num > 0 ∧ num' ≤ 0 then { rs := { rs with num := num' }, left := script, res := .ok readData }
            else
              let readLen := if rs.num > 0 ∧ num' < rs.readLen then num'.toNat else rs.readLen
              let rs := { rs with num := num', readLen }
              if eom then { rs, left := script, res := .ok readData }
              else readLoop cfg rs script

/-- `Instrument.read_raw(num)` on a connected instrument -/
def readRaw (cfg : Cfg) (last : Nat) (num : Int) (script : List Ev) : ROut :=
  let readLen := if 0 < num ∧ num < cfg.mts then num.toNat else cfg.mts
  readLoop cfg { last, num, readLen } script

/-! ### Abort sequences, `ask_raw`, `trigger` — what else moves the bTag or talks on the endpoints

Control requests are answered from a script of status bytes (`ctrl`); an exhausted script answers
STATUS_TRANSFER_NOT_IN_PROGRESS (0x81).  Logged: `(bRequest, wValue)` of every control request. -/

def STATUS_SUCCESS : Nat := 1
def STATUS_PENDING : Nat := 2
def USB488_MSGID_TRIGGER : Nat := 128

def popStatus : List Nat → Nat × List Nat
  | [] => (129, [])
  | s :: r => (s, r)

/-- `while True: b = ctrl_transfer(CHECK_…_STATUS); sleep; if b[0] != PENDING: break` → (number of polls, last status, rest) -/
def poll : List Nat → Nat × Nat × List Nat
  | [] => (1, 129, [])
  | s :: r => if s = STATUS_PENDING then ((poll r).1 + 1, (poll r).2.1, (poll r).2.2) else (1, s, r)

structure AbortLog where
  ctrl      : List (Nat × Nat) := []     -- (bRequest, wValue)
  clearHalt : Bool := false              -- bulk_out_ep.clear_halt() called
  bulkRead  : Option Nat := none         -- size of the Bulk-IN read done inside _abort_bulk_in
  exc       : Option PyExc := none       -- exception raised *inside* the abort sequence (replaces the original one)
  deriving Repr, DecidableEq

/-- `_abort_bulk_out()` with `btag = self.last_btag` -/
def abortOut (tag : Nat) (ctrl : List Nat) : AbortLog × List Nat :=
  match popStatus ctrl with
  | (s0, c1) =>
    if s0 = STATUS_SUCCESS then
      match poll c1 with
      | (n, f, c2) =>
        ({ ctrl := (1, tag) :: List.replicate n (2, 0), clearHalt := f = STATUS_SUCCESS }, c2)
    else ({ ctrl := [(1, tag)] }, c1)

/-- `_abort_bulk_in()` with `btag = self.last_btag`; `inScript` = what the Bulk-IN endpoint still has to say -/
def abortIn (tag mts : Nat) (ctrl : List Nat) (inScript : List Ev) : AbortLog × List Nat × List Ev :=
  match popStatus ctrl with
  | (s0, c1) =>
    if s0 = STATUS_SUCCESS then
      match inScript with
      | [] => ({ ctrl := [(3, tag)], bulkRead := some mts, exc := some .usbTimeout }, c1, [])
      | .timeout :: r => ({ ctrl := [(3, tag)], bulkRead := some mts, exc := some .usbTimeout }, c1, r)
      | .ioErr :: r => ({ ctrl := [(3, tag)], bulkRead := some mts, exc := some .usbError }, c1, r)
      | .data _ :: r =>
        match poll c1 with
        | (n, _, c2) => ({ ctrl := (3, tag) :: List.replicate n (4, 0), bulkRead := some mts }, c2, r)
    else ({ ctrl := [(3, tag)] }, c1, inScript)

/-- `write_raw` including the abort sequence it runs after a time-out -/
def writeRawA (mts : Nat) (fault : Option (Nat × Bool)) (last : Nat) (data : Bytes) (ctrl : List Nat) :
    WOut × AbortLog × List Nat :=
  let r := writeRaw mts fault last data
  match r.abortTag with
  | none => (r, {}, ctrl)
  | some t => match abortOut t ctrl with
    | (a, c) => (r, a, c)

/-- `read_raw` including the abort sequence it runs after a time-out; an exception inside the abort sequence replaces
the time-out -/
def readRawA (cfg : Cfg) (last : Nat) (num : Int) (script : List Ev) (ctrl : List Nat) : ROut × AbortLog × List Nat :=
  let r := readRaw cfg last num script
  match r.abortTag with
  | none => (r, {}, ctrl)
  | some t => match abortIn t cfg.mts ctrl r.left with
    | (a, c, left) =>
      ({ r with left, res := match a.exc with | some e => .error e | none => r.res }, a, c)

/-- `pack_usb488_trigger()` -/
def packTrigger (last : Nat) : Nat × Bytes :=
  (nextTag last, bulkOutHeader USB488_MSGID_TRIGGER (nextTag last) ++ List.replicate 8 0)

/-- `trigger()`: the USB488 trigger message, or `*TRG` as an ordinary message -/
def trigger (supportTrigger : Bool) (mts last : Nat) : WOut :=
  if supportTrigger then { last := (packTrigger last).1, sent := [(packTrigger last).2] }
  else writeRaw mts none last [42, 84, 82, 71]

/-- `ask_raw(data, num)`: write, then read — the read is not attempted when the write raised.  (The Advantest
lock()/unlock() control requests around it do not touch the bulk endpoints or the bTag.) -/
def askRaw (cfg : Cfg) (last : Nat) (data : Bytes) (num : Int) (fault : Option (Nat × Bool)) (script : List Ev)
    (ctrl : List Nat) : (WOut × AbortLog) × Option (ROut × AbortLog) :=
  match writeRawA cfg.mts fault last data ctrl with
  | (w, wa, c1) =>
    match w.exc with
    | some _ => ((w, wa), none)
    | none =>
      match readRawA cfg w.last num script c1 with
      | (r, ra, _) => ((w, wa), some (r, ra))

/-! ### `read_stb()` (USB488 READ_STATUS_BYTE) and `clear()` -/

/-- `rstb_btag = (self.last_rstb_btag % 128) + 1; if rstb_btag < 2: rstb_btag = 2` -/
def nextRstbTag (last : Nat) : Nat := if last % 128 + 1 < 2 then 2 else last % 128 + 1

structure StbOut where
  lastRstb : Nat
  wValue   : Nat                   -- the bTag sent in the control request
  readIntr : Bool := false         -- the interrupt endpoint was read
  res      : Except PyExc Nat
  deriving Repr

/-- `read_stb()` on a USB488 interface.  `b0 b1 b2` = the three bytes the control request returns; `intr` = the two
bytes the interrupt-IN endpoint delivers, `none` if the interface has no such endpoint. -/
def readStb (lastRstb b0 b1 b2 : Nat) (intr : Option (Nat × Nat)) : StbOut :=
  let tag := nextRstbTag lastRstb
  if b0 = STATUS_SUCCESS then
    if tag ≠ b1 then { lastRstb := tag, wValue := tag, res := .error .usbtmcMismatch }
    else match intr with
      | none => { lastRstb := tag, wValue := tag, res := .ok b2 }
      | some (r0, r1) =>
        if r0 ≠ tag + 128 then { lastRstb := tag, wValue := tag, readIntr := true, res := .error .usbtmcMismatch }
        else { lastRstb := tag, wValue := tag, readIntr := true, res := .ok r1 }
  else { lastRstb := tag, wValue := tag, res := .error .usbtmcMismatch }

structure ClearOut where
  ctrl       : List (Nat × Nat)
  clearedOut : Bool := false
  clearedIn  : Bool := false
  exc        : Option PyExc := none
  deriving Repr, DecidableEq

/-- `clear()`: INITIATE_CLEAR, poll CHECK_CLEAR_STATUS while pending, clear both halts — or "Clear failed" -/
def clearSeq (forceClearIn : Bool) (ctrl : List Nat) : ClearOut :=
  match popStatus ctrl with
  | (s0, c1) =>
    if s0 = STATUS_SUCCESS then
      { ctrl := (5, 0) :: List.replicate (poll c1).1 (6, 0), clearedOut := true, clearedIn := forceClearIn }
    else { ctrl := [(5, 0)], exc := some .usbtmcMismatch }

/-! ### Reference device (USBTMC 1.0 §3.2, Table 1–3): what a conforming device makes of Bulk-OUT transfers

Each transfer: 12-byte header — MsgID, bTag (1..255, different from the previous Bulk-OUT header's),
bTagInverse (one's complement of bTag), reserved 0x00; for DEV_DEP_MSG_OUT: TransferSize (32-bit little
endian, > 0), bmTransferAttributes (bit 0 = EOM, all other bits 0), three reserved 0x00 bytes — then
exactly TransferSize message bytes, then 0–3 alignment bytes so that the total is a multiple of 4.
A message is the concatenation of the data of consecutive transfers up to and including the one with EOM. -/

structure Dev where
  prev : Option Nat := none    -- bTag of the previous Bulk-OUT header
  acc  : Bytes := []           -- message bytes received so far (no EOM yet)
  msgs : List Bytes := []      -- complete messages, oldest first
  deriving Repr, DecidableEq

def Dev.step (d : Dev) : Bytes → Option Dev
  | m :: t :: ti :: r0 :: s0 :: s1 :: s2 :: s3 :: a :: r1 :: r2 :: r3 :: body =>
    let size := unLe32 s0 s1 s2 s3
    if m.toNat = MSGID_DEV_DEP_MSG_OUT
        ∧ t.toNat ≠ 0 ∧ some t.toNat ≠ d.prev ∧ ti.toNat = 255 - t.toNat
        ∧ r0 = 0 ∧ r1 = 0 ∧ r2 = 0 ∧ r3 = 0
        ∧ a.toNat ≤ 1
        ∧ 0 < size
        ∧ body.length = size + pad4 size then
      let acc := d.acc ++ body.take size
      if a.toNat = 1 then some { prev := some t.toNat, acc := [], msgs := d.msgs ++ [acc] }
      else some { prev := some t.toNat, acc, msgs := d.msgs }
    else none
  | _ => none

def Dev.run (d : Dev) : List Bytes → Option Dev
  | [] => some d
  | t :: ts => match d.step t with
    | some d' => d'.run ts
    | none => none

/-- Host side of USBTMC 1.0 §3.3 as a plain function of the Bulk-IN transfers: the data of a transfer are the bytes after
the 12-byte header, at most TransferSize of them; the message is complete at the first transfer that carries all of its
TransferSize bytes and has EOM set; a transfer shorter than a header, an endpoint error or running out of transfers is
an error (`none`).  With `check`, a header whose MsgID is not DEV_DEP_MSG_IN, whose bTag is not the tag of the request it
answers (`last` = tag before that request) or whose bTagInverse is not the complement is an error too (Table 8). -/
def hostSpec (check : Bool) : Nat → List Ev → Bytes → Option Bytes
  | _, [], _ => none
  | _, .ioErr :: _, _ => none
  | _, .timeout :: _, _ => none
  | last, .data t :: rest, acc =>
    match unpackResp t with
    | none => none
    | some (m, tg, ti, ts, a, d) =>
      if check && (m.toNat != MSGID_REQUEST_DEV_DEP_MSG_IN || tg.toNat != nextTag last || ti.toNat != invTag tg.toNat) then none
      else if d.length ≥ ts ∧ a.toNat % 2 = 1 then some (acc ++ d)
      else hostSpec check (nextTag last) rest (acc ++ d)

end QmiModel.Usbtmc
