/-!
# The RPC request path as a pipeline of FIFO stages — property C03

Anchors: `qmi/core/rpc.py` (`blocking_rpc_method_call`, `non_blocking_rpc_method_call`,
`QMI_RpcFuture.send_method_rpc_request_message / send_lock_rpc_request_message`,
`RpcObjectManager.start/stop/handle_message`, `_RpcThread.push_rpc_request/run/_reject_remaining_requests`),
`qmi/core/messaging.py` (`MessageRouter.send_message/deliver_message/unregister_message_handler`,
`_EventDrivenThread.run_in_thread_arg`, `_SocketManager.send_message`,
`_PeerTcpConnection.send_message/_receive_data/_process_message`) and `qmi/core/context.py`
(`remove_rpc_object`, `_stop_rpc_objects`).

An interleaving transition system over an unbounded number of caller threads, contexts, objects and
requests.  One action = one critical section of the code (DESIGN §3, *Atomicity*):

| action               | code                                                                                   |
|----------------------|----------------------------------------------------------------------------------------|
| `start o w`          | `RpcObjectManager.start`: `assert self._rpc_thread is None`; create + start ONE `_RpcThread` (shape checked on the source: `Gen/RpcShape.lean`) |
| `issue c k o r`      | caller thread `c` enters a proxy call for object `o` **through a proxy of context `k`** (method call or lock-protocol request; program order: a thread has at most one call "in hand") |
| `lookupLocal c`      | `MessageRouter.send_message`, destination context = `k`: `deliver_message` looks the handler up under `_address_to_messagehandler_map_lock`, in the caller's thread; not registered (any more) ⇒ `QMI_MessageDeliveryException`: the request is *refused* |
| `pushLocal c`        | `RpcObjectManager.handle_message` under `_stop_lock`: `_running` ⇒ `push_rpc_request` (`_fifo.append` under `_cv`), else refused ("already stopped") |
| `enqRemote c`        | destination is a peer context: `socket_thread.run_in_thread_arg(socket_manager.send_message, message)` = `call_soon_threadsafe` under the thread's `_cv`: append to the ready queue of context `k` |
| `loopRun k`          | the event loop of `k` runs the oldest ready callback: `_SocketManager.send_message` → `_PeerTcpConnection.send_message` → `sock.sendall`: bytes appended to the TCP stream `k → home o` |
| `lookupWire k d`     | the event loop of `d` reads the stream from `k`, cuts the oldest complete message, `_process_message` → `deliver_message`: handler lookup (the loop thread handles one message at a time); unknown ⇒ refused (error reply) |
| `pushWire d`         | as `pushLocal`, in the loop thread of `d` |
| `workerPop w o`      | `_RpcThread.run`: under `_cv`, shutdown not requested, `request = self._fifo.popleft()` — the loop body is sequential, so the worker pops only when it holds no request |
| `workerFinish w o`   | `_handle_method_rpc_request` / `_handle_lock_rpc_request` returned, the reply is sent, `del request` |
| `unregister o`       | `remove_rpc_object` / `_stop_rpc_objects`: `unregister_message_handler(manager)` |
| `stopMark o`         | `RpcObjectManager.stop`: `_running = False` under `_stop_lock` |
| `shutdownReq o`      | `self._rpc_thread.shutdown()`: `_shutdown_requested = True`, notify |
| `workerLeave w o`    | the worker sees the shutdown flag at the top of its loop and `break`s |
| `rejectOne w o`      | `_reject_remaining_requests`: `popleft` + error reply, in the worker thread after the loop |

Ghost state: `issued` (global issue log), `executed o` / `execBy o`, `rejected o`, `refused o`.

What is *not* here: the content of replies (C01/C02: a future receives the reply of its own request id; the model
has no action for waiting at all, so the order of executions cannot depend on whether or in which order futures are
waited for), connection loss (C01/C06), the lock state machine (C04: a lock request is just one more request here).
The ready queue of a context also holds callbacks other than requests; they are abstracted away.

Core Lean only (the driver exe links this file).
-/
namespace QmiModel.Pipeline

/-- a request: the calling thread, the context whose proxy it used, the target object, an id chosen by the caller -/
structure Req where
  caller : Nat
  via    : Nat
  obj    : Nat
  id     : Nat
  deriving DecidableEq, Repr

/-- the (fixed) placement: home context of each object -/
structure Topo where
  home : Nat → Nat

structure State where
  issued   : List Req               -- ghost: all calls in the order they were issued
  hand     : Nat → Option Req       -- per caller thread: the call it is currently issuing
  heldC    : Nat → Option Req       -- per caller thread: local call whose handler was found, not yet pushed
  ready    : Nat → List Req         -- per context: event-loop ready queue, oldest first
  wire     : Nat → Nat → List Req   -- per (source context, destination context): TCP stream, oldest first
  heldL    : Nat → Option Req       -- per context: message its loop thread is delivering (handler found, not yet pushed)
  fifo     : Nat → List Req         -- per object: `_RpcThread._fifo`, oldest first
  worker   : Nat → Option Nat       -- per object: the thread created by `RpcObjectManager.start`
  cur      : Nat → Option Req       -- per object: the request its worker is executing
  executed : Nat → List Req         -- ghost: per object, executed requests, oldest first
  execBy   : Nat → List Nat         -- ghost: per object, the executing thread of each entry of `executed`
  unreg    : Nat → Bool             -- per object: manager no longer registered as message handler
  stopped  : Nat → Bool             -- per object: `_running = False`
  shutdown : Nat → Bool             -- per object: worker's `_shutdown_requested`
  left     : Nat → Bool             -- per object: the worker has left its request loop
  rejected : Nat → List Req         -- ghost: per object, requests answered by `_reject_remaining_requests`
  refused  : Nat → List Req         -- ghost: per object, requests refused at delivery (unknown destination / stopped)

def init : State :=
  { issued := [], hand := fun _ => none, heldC := fun _ => none, ready := fun _ => [], wire := fun _ _ => [],
    heldL := fun _ => none, fifo := fun _ => [], worker := fun _ => none, cur := fun _ => none,
    executed := fun _ => [], execBy := fun _ => [], unreg := fun _ => false, stopped := fun _ => false,
    shutdown := fun _ => false, left := fun _ => false, rejected := fun _ => [], refused := fun _ => [] }

def upd {α : Type} (f : Nat → α) (k : Nat) (v : α) : Nat → α := fun j => if j = k then v else f j

def upd2 {α : Type} (f : Nat → Nat → α) (k d : Nat) (v : α) : Nat → Nat → α :=
  fun i j => if i = k ∧ j = d then v else f i j

inductive Act
  | start (o w : Nat)
  | issue (c k o r : Nat)
  | lookupLocal (c : Nat)
  | pushLocal (c : Nat)
  | enqRemote (c : Nat)
  | loopRun (k : Nat)
  | lookupWire (k d : Nat)
  | pushWire (d : Nat)
  | workerPop (w o : Nat)
  | workerFinish (w o : Nat)
  | unregister (o : Nat)
  | stopMark (o : Nat)
  | shutdownReq (o : Nat)
  | workerLeave (w o : Nat)
  | rejectOne (w o : Nat)
  deriving DecidableEq, Repr

/-- `step T s a = some s'` iff action `a` is enabled in `s` and leads to `s'` -/
def step (T : Topo) (s : State) : Act → Option State
  | .start o w =>
      if s.worker o = none then some { s with worker := upd s.worker o (some w) } else none
  | .issue c k o r =>
      if s.hand c = none ∧ s.heldC c = none ∧ (⟨c, k, o, r⟩ : Req) ∉ s.issued then
        some { s with issued := s.issued ++ [⟨c, k, o, r⟩], hand := upd s.hand c (some ⟨c, k, o, r⟩) }
      else none
  | .lookupLocal c =>
      match s.hand c with
      | some x =>
          if T.home x.obj = x.via ∧ s.heldC c = none then
            if s.unreg x.obj then
              some { s with hand := upd s.hand c none, refused := upd s.refused x.obj (s.refused x.obj ++ [x]) }
            else
              some { s with hand := upd s.hand c none, heldC := upd s.heldC c (some x) }
          else none
      | none => none
  | .pushLocal c =>
      match s.heldC c with
      | some x =>
          if s.stopped x.obj then
            some { s with heldC := upd s.heldC c none, refused := upd s.refused x.obj (s.refused x.obj ++ [x]) }
          else
            some { s with heldC := upd s.heldC c none, fifo := upd s.fifo x.obj (s.fifo x.obj ++ [x]) }
      | none => none
  | .enqRemote c =>
      match s.hand c with
      | some x =>
          if T.home x.obj = x.via ∨ s.heldC c ≠ none then none
          else some { s with hand := upd s.hand c none, ready := upd s.ready x.via (s.ready x.via ++ [x]) }
      | none => none
  | .loopRun k =>
      match s.ready k with
      | x :: rest =>
          some { s with ready := upd s.ready k rest,
                        wire := upd2 s.wire k (T.home x.obj) (s.wire k (T.home x.obj) ++ [x]) }
      | [] => none
  | .lookupWire k d =>
      match s.wire k d with
      | x :: rest =>
          if s.heldL d = none then
            if s.unreg x.obj then
              some { s with wire := upd2 s.wire k d rest, refused := upd s.refused x.obj (s.refused x.obj ++ [x]) }
            else
              some { s with wire := upd2 s.wire k d rest, heldL := upd s.heldL d (some x) }
          else none
      | [] => none
  | .pushWire d =>
      match s.heldL d with
      | some x =>
          if s.stopped x.obj then
            some { s with heldL := upd s.heldL d none, refused := upd s.refused x.obj (s.refused x.obj ++ [x]) }
          else
            some { s with heldL := upd s.heldL d none, fifo := upd s.fifo x.obj (s.fifo x.obj ++ [x]) }
      | none => none
  | .workerPop w o =>
      if s.worker o = some w ∧ s.cur o = none ∧ s.shutdown o = false then
        match s.fifo o with
        | x :: rest => some { s with fifo := upd s.fifo o rest, cur := upd s.cur o (some x) }
        | [] => none
      else none
  | .workerFinish w o =>
      if s.worker o = some w then
        match s.cur o with
        | some x =>
            some { s with cur := upd s.cur o none,
                          executed := upd s.executed o (s.executed o ++ [x]),
                          execBy := upd s.execBy o (s.execBy o ++ [w]) }
        | none => none
      else none
  | .unregister o => some { s with unreg := upd s.unreg o true }
  | .stopMark o => some { s with stopped := upd s.stopped o true }
  | .shutdownReq o =>
      if s.stopped o then some { s with shutdown := upd s.shutdown o true } else none
  | .workerLeave w o =>
      if s.worker o = some w ∧ s.shutdown o = true ∧ s.cur o = none then
        some { s with left := upd s.left o true }
      else none
  | .rejectOne w o =>
      if s.worker o = some w ∧ s.left o = true then
        match s.fifo o with
        | x :: rest => some { s with fifo := upd s.fifo o rest, rejected := upd s.rejected o (s.rejected o ++ [x]) }
        | [] => none
      else none

/-- run a list of actions; `none` as soon as one is not enabled -/
def run (T : Topo) (s : State) : List Act → Option State
  | [] => some s
  | a :: as => match step T s a with
               | some s' => run T s' as
               | none => none

/-- states reachable from `init` by enabled actions: all interleavings, any number of everything -/
inductive Reach (T : Topo) : State → Prop
  | init : Reach T init
  | step {s s' a} : Reach T s → step T s a = some s' → Reach T s'

/-- the request belongs to the route (caller thread `c`, proxy context `k`, object `o`) -/
def sel (c k o : Nat) (x : Req) : Bool := x.caller == c && x.via == k && x.obj == o

/-- all places a request of caller `c` to object `o` through context `k` can be in, **oldest first** -/
def stages (T : Topo) (s : State) (c k o : Nat) : List Req :=
  s.executed o ++ (s.cur o).toList ++ s.rejected o ++ s.fifo o ++ s.refused o ++ (s.heldL (T.home o)).toList
    ++ s.wire k (T.home o) ++ s.ready k ++ (s.heldC c).toList ++ (s.hand c).toList

/-- the calls `c` issued to `o` through `k`, in issue order -/
def issuedBy (s : State) (c k o : Nat) : List Req := s.issued.filter (sel c k o)

/-- number of places (counted with multiplicity) in which request `x` currently is -/
def occurrences (T : Topo) (s : State) (x : Req) : Nat :=
  (stages T s x.caller x.via x.obj).count x

/-- 1 if the action is a pop by (any thread claiming to be) the worker of `o` -/
def isPop (o : Nat) : Act → Nat
  | .workerPop _ o' => if o' = o then 1 else 0
  | _ => 0

def isFinish (o : Nat) : Act → Nat
  | .workerFinish _ o' => if o' = o then 1 else 0
  | _ => 0

/-- number of executions started / completed on `o` in an action sequence -/
def pops (o : Nat) (as : List Act) : Nat := (as.map (isPop o)).sum
def finishes (o : Nat) (as : List Act) : Nat := (as.map (isFinish o)).sum

/-- executions in progress on `o` -/
def busy (s : State) (o : Nat) : Nat := (s.cur o).toList.length

end QmiModel.Pipeline
