/-!
# The RPC request path as a pipeline of FIFO stages — property C03

Anchors: `qmi/core/rpc.py` (`blocking_rpc_method_call`, `non_blocking_rpc_method_call`,
`QMI_RpcFuture.send_method_rpc_request_message`, `RpcObjectManager.start/handle_message`,
`_RpcThread.push_rpc_request/run`) and `qmi/core/messaging.py` (`MessageRouter.send_message`,
`_EventDrivenThread.run_in_thread_arg`, `_SocketManager.send_message`,
`_PeerTcpConnection.send_message/_receive_data/_process_message`, `MessageRouter.deliver_message`).

An interleaving transition system over an unbounded number of caller threads, contexts, objects and
requests.  One action = one critical section of the code (DESIGN §3, *Atomicity*):

| action               | code                                                                                   |
|----------------------|----------------------------------------------------------------------------------------|
| `start o w`          | `RpcObjectManager.start`: `assert self._rpc_thread is None`; create + start ONE `_RpcThread` |
| `issue c o r`        | caller thread `c` enters `(non_)blocking_rpc_method_call` for object `o` (program order: a thread has at most one call "in hand": it leaves the call path only after the request is enqueued) |
| `enqLocal c`         | `MessageRouter.send_message`, destination context = own context: `deliver_message` → `RpcObjectManager.handle_message` → `_RpcThread.push_rpc_request`: `_fifo.append` under `_cv`, **in the caller's thread** |
| `enqRemote c`        | destination is a peer context: `socket_thread.run_in_thread_arg(socket_manager.send_message, message)` = `event_loop.call_soon_threadsafe` under the thread's `_cv`: append to the ready queue of the caller's context |
| `loopRun k`          | the event loop of context `k` runs the oldest ready callback: `_SocketManager.send_message` → `_PeerTcpConnection.send_message` → `sock.sendall`: bytes appended to the TCP stream `k → home o` |
| `wireDeliver k d`    | the event loop of context `d` reads the stream from `k` (`_receive_data`), cuts the oldest complete message, `_process_message` → `deliver_message` → `handle_message` → `push_rpc_request`: `_fifo.append` under `_cv` |
| `workerPop w o`      | `_RpcThread.run`: `request = self._fifo.popleft()` under `_cv` — the loop body is sequential, so the worker pops only when it holds no request |
| `workerFinish w o`   | `_handle_method_rpc_request` returned (the method of the object has run), the reply is sent, `del request` |

Ghost state: `issued` (global issue log), `executed o` (requests whose method has run on `o`, in order)
and `execBy o` (which thread ran each of them).

Not modelled here (C01's model covers them): replies, object removal/`_running = False`, connection loss,
lock requests.  The ready queue of a context also holds callbacks other than method requests (replies,
socket bookkeeping); they are abstracted away — only the relative order of the requests matters.

Core Lean only (the driver exe links this file).
-/
namespace QmiModel.Pipeline

/-- a method request: the calling thread, the target object, and an id chosen by the caller -/
structure Req where
  caller : Nat
  obj    : Nat
  id     : Nat
  deriving DecidableEq, Repr

/-- the (fixed) placement: context of each caller thread, home context of each object -/
structure Topo where
  ctxOf : Nat → Nat
  home  : Nat → Nat

structure State where
  issued   : List Req               -- ghost: all calls in the order they were issued
  hand     : Nat → Option Req       -- per caller thread: the call it is currently issuing
  ready    : Nat → List Req         -- per context: event-loop ready queue, oldest first
  wire     : Nat → Nat → List Req   -- per (source context, destination context): TCP stream, oldest first
  fifo     : Nat → List Req         -- per object: `_RpcThread._fifo`, oldest first
  worker   : Nat → Option Nat       -- per object: the thread created by `RpcObjectManager.start`
  cur      : Nat → Option Req       -- per object: the request its worker is executing
  executed : Nat → List Req         -- ghost: per object, executed requests, oldest first
  execBy   : Nat → List Nat         -- ghost: per object, the executing thread of each entry of `executed`

def init : State :=
  { issued := [], hand := fun _ => none, ready := fun _ => [], wire := fun _ _ => [],
    fifo := fun _ => [], worker := fun _ => none, cur := fun _ => none,
    executed := fun _ => [], execBy := fun _ => [] }

def upd {α : Type} (f : Nat → α) (k : Nat) (v : α) : Nat → α := fun j => if j = k then v else f j

def upd2 {α : Type} (f : Nat → Nat → α) (k d : Nat) (v : α) : Nat → Nat → α :=
  fun i j => if i = k ∧ j = d then v else f i j

inductive Act
  | start (o w : Nat)
  | issue (c o r : Nat)
  | enqLocal (c : Nat)
  | enqRemote (c : Nat)
  | loopRun (k : Nat)
  | wireDeliver (k d : Nat)
  | workerPop (w o : Nat)
  | workerFinish (w o : Nat)
  deriving DecidableEq, Repr

/-- `step T s a = some s'` iff action `a` is enabled in `s` and leads to `s'` -/
def step (T : Topo) (s : State) : Act → Option State
  | .start o w =>
      if s.worker o = none then some { s with worker := upd s.worker o (some w) } else none
  | .issue c o r =>
      if s.hand c = none ∧ (⟨c, o, r⟩ : Req) ∉ s.issued then
        some { s with issued := s.issued ++ [⟨c, o, r⟩], hand := upd s.hand c (some ⟨c, o, r⟩) }
      else none
  | .enqLocal c =>
      match s.hand c with
      | some x =>
          if T.home x.obj = T.ctxOf c then
            some { s with hand := upd s.hand c none, fifo := upd s.fifo x.obj (s.fifo x.obj ++ [x]) }
          else none
      | none => none
  | .enqRemote c =>
      match s.hand c with
      | some x =>
          if T.home x.obj = T.ctxOf c then none
          else some { s with hand := upd s.hand c none,
                             ready := upd s.ready (T.ctxOf c) (s.ready (T.ctxOf c) ++ [x]) }
      | none => none
  | .loopRun k =>
      match s.ready k with
      | x :: rest =>
          some { s with ready := upd s.ready k rest,
                        wire := upd2 s.wire k (T.home x.obj) (s.wire k (T.home x.obj) ++ [x]) }
      | [] => none
  | .wireDeliver k d =>
      match s.wire k d with
      | x :: rest =>
          some { s with wire := upd2 s.wire k d rest, fifo := upd s.fifo x.obj (s.fifo x.obj ++ [x]) }
      | [] => none
  | .workerPop w o =>
      if s.worker o = some w ∧ s.cur o = none then
        match s.fifo o with
        | x :: rest => some { s with fifo := upd s.fifo o rest, cur := upd s.cur o (some x) }
        | [] => none
      else none
  | .workerFinish w o =>
      if s.worker o = some w then
        match s.cur o with
        | some x =>
            some { s with cur := upd s.cur o none,
                          executed := upd s.executed o (s.executed o ++ [x]),
                          execBy := upd s.execBy o (s.execBy o ++ [w]) }
        | none => none
      else none

/-- run a list of actions; `none` as soon as one is not enabled -/
def run (T : Topo) (s : State) : List Act → Option State
  | [] => some s
  | a :: as => match step T s a with
               | some s' => run T s' as
               | none => none

/-- states reachable from `init` by enabled actions: all interleavings, any number of everything -/
inductive Reach (T : Topo) : State → Prop
  | init : Reach T init
  | step {s s' a} : Reach T s → step T s a = some s' → Reach T s'

/-- the request belongs to the pair (caller thread `c`, object `o`) -/
def sel (c o : Nat) (x : Req) : Bool := x.caller == c && x.obj == o

/-- all stages a request of caller `c` to object `o` can be in, **oldest first** -/
def stages (T : Topo) (s : State) (c o : Nat) : List Req :=
  s.executed o ++ (s.cur o).toList ++ s.fifo o ++ s.wire (T.ctxOf c) (T.home o)
    ++ s.ready (T.ctxOf c) ++ (s.hand c).toList

/-- the calls `c` issued to `o`, in issue order -/
def issuedBy (s : State) (c o : Nat) : List Req := s.issued.filter (sel c o)

/-- number of places (counted with multiplicity) in which request `x` currently is -/
def occurrences (T : Topo) (s : State) (x : Req) : Nat :=
  (stages T s x.caller x.obj).count x

/-- 1 if the action is a pop by (any thread claiming to be) the worker of `o` -/
def isPop (o : Nat) : Act → Nat
  | .workerPop _ o' => if o' = o then 1 else 0
  | _ => 0

def isFinish (o : Nat) : Act → Nat
  | .workerFinish _ o' => if o' = o then 1 else 0
  | _ => 0

/-- number of executions started / completed on `o` in an action sequence -/
def pops (o : Nat) (as : List Act) : Nat := (as.map (isPop o)).sum
def finishes (o : Nat) (as : List Act) : Nat := (as.map (isFinish o)).sum

/-- executions in progress on `o` -/
def busy (s : State) (o : Nat) : Nat := (s.cur o).toList.length

end QmiModel.Pipeline
