/-!
# Model of the PicoQuant T2 event-stream decoder — property C15 (part B)

Mirrors `_T2EventDecoder.process_data` of
`qmi/instruments/picoquant/support/_decoders.py`.  The vectorised numpy code
(`>>`, `&`, `cumsum`, boolean masks) is written as one left-to-right pass with
the carried overflow counter `EventDecoder._overflow_counter`:

* `record_types = fifo_data >> typeShift`, `record_tags = fifo_data & tagMask`
* an *overflow record* (`type == overflowType`) adds its tag to the counter and
  produces no event;
* every other record produces `(type, counter * period + tag)` where `counter`
  is the carried value plus the sum of the overflow tags before it in the batch
  (the inclusive `cumsum` at a non-overflow position adds 0 for the position itself).

uint64 wrap-around is out of scope (unbounded `Nat`).  The literal constants are
fields of `Params`, regenerated into `QmiModel/Gen/Layouts.lean`.

Core Lean only.
-/
namespace QmiModel.T2

structure Params where
  typeShift : Nat       -- `fifo_data >> 25`
  tagMask : Nat         -- `fifo_data & 0x01ffffff`
  overflowType : Nat    -- `overflow_type = 0x7f`
  period : Nat          -- `overflow_period = (1 << 25)`
  deriving DecidableEq, Repr

/-- one decoded event: (`type`, `timestamp`) of `EventDataType` -/
structure Event where
  typ : Nat
  ts : Nat
  deriving DecidableEq, Repr

def recType (p : Params) (r : Nat) : Nat := (r >>> p.typeShift) % 256   -- `.astype(np.uint8)`
def recTag (p : Params) (r : Nat) : Nat := r &&& p.tagMask
def isOverflow (p : Params) (r : Nat) : Bool := recType p r == p.overflowType

/-- one record: new counter and the event it yields (if any) -/
def step (p : Params) (c : Nat) (r : Nat) : Nat × Option Event :=
  if isOverflow p r then (c + recTag p r, none)
  else (c, some ⟨recType p r, c * p.period + recTag p r⟩)

/-- `process_data(fifo_data)` with `_overflow_counter = c`: new counter and the returned events -/
def process (p : Params) : Nat → List Nat → Nat × List Event
  | c, [] => (c, [])
  | c, r :: rs =>
    match step p c r with
    | (c1, none) => process p c1 rs
    | (c1, some e) => let (c2, es) := process p c1 rs; (c2, e :: es)

/-- a decoder fed batch after batch (`process_data` called once per batch) -/
def processBatches (p : Params) : Nat → List (List Nat) → Nat × List Event
  | c, [] => (c, [])
  | c, b :: bs =>
    let (c1, es) := process p c b
    let (c2, es') := processBatches p c1 bs
    (c2, es ++ es')

/-- sum of the overflow tags of a batch -/
def overflowSum (p : Params) (rs : List Nat) : Nat :=
  (rs.map (fun r => if isOverflow p r then recTag p r else 0)).sum

end QmiModel.T2
