/-!
# Model of the PicoQuant T2 event-stream decoder — property C15 (part B)

Mirrors `_T2EventDecoder.process_data` of
`qmi/instruments/picoquant/support/_decoders.py`.  The vectorised numpy code
(`>>`, `&`, `cumsum`, boolean masks) is written as one left-to-right pass with
the carried overflow counter `EventDecoder._overflow_counter`:

* `record_types = fifo_data >> typeShift`, `record_tags = fifo_data & tagMask`
* an *overflow record* (`type == overflowType`) adds its tag to the counter and
  produces no event;
* every other record produces `(type, counter * period + tag)` where `counter`
  is the carried value plus the sum of the overflow tags before it in the batch
  (the inclusive `cumsum` at a non-overflow position adds 0 for the position itself).

`process` is the unbounded (`Nat`) reading; `processU64` is what numpy computes: the running count, the product with the
period and the sum with the tag are uint64 operations that wrap silently modulo 2^64.  The two agree as long as the
counter stays below 2^64 / period (theorem `processU64_eq_process` in `Props/C15B.lean`).  The literal constants are
fields of `Params`, regenerated into `QmiModel/Gen/Layouts.lean`.

Core Lean only.
-/
namespace QmiModel.T2

structure Params where
  typeShift : Nat       -- `fifo_data >> 25`
  tagMask : Nat         -- `fifo_data & 0x01ffffff`
  overflowType : Nat    -- `overflow_type = 0x7f`
  period : Nat          -- `overflow_period = (1 << 25)`
  deriving DecidableEq, Repr

/-- one decoded event: (`type`, `timestamp`) of `EventDataType` -/
structure Event where
  typ : Nat
  ts : Nat
  deriving DecidableEq, Repr

def recType (p : Params) (r : Nat) : Nat := (r >>> p.typeShift) % 256   -- `.astype(np.uint8)`
def recTag (p : Params) (r : Nat) : Nat := r &&& p.tagMask
def isOverflow (p : Params) (r : Nat) : Bool := recType p r == p.overflowType

/-- one record: new counter and the event it yields (if any) -/
def step (p : Params) (c : Nat) (r : Nat) : Nat × Option Event :=
  if isOverflow p r then (c + recTag p r, none)
  else (c, some ⟨recType p r, c * p.period + recTag p r⟩)

/-- `process_data(fifo_data)` with `_overflow_counter = c`: new counter and the returned events -/
def process (p : Params) : Nat → List Nat → Nat × List Event
  | c, [] => (c, [])
  | c, r :: rs =>
    match step p c r with
    | (c1, none) => process p c1 rs
    | (c1, some e) => let (c2, es) := process p c1 rs; (c2, e :: es)

/-- numpy's uint64 arithmetic: `overflow_counts` (cumsum + carried counter), `* overflow_period`, `+ record_tags` all wrap -/
def word : Nat := 2 ^ 64

def stepU64 (p : Params) (c : Nat) (r : Nat) : Nat × Option Event :=
  if isOverflow p r then ((c + recTag p r) % word, none)
  else (c, some ⟨recType p r, (c * p.period + recTag p r) % word⟩)

/-- `process_data` exactly as numpy evaluates it (carried counter `c < 2^64`) -/
def processU64 (p : Params) : Nat → List Nat → Nat × List Event
  | c, [] => (c, [])
  | c, r :: rs =>
    match stepU64 p c r with
    | (c1, none) => processU64 p c1 rs
    | (c1, some e) => let (c2, es) := processU64 p c1 rs; (c2, e :: es)

/-- a decoder fed batch after batch (`process_data` called once per batch) -/
def processBatches (p : Params) : Nat → List (List Nat) → Nat × List Event
  | c, [] => (c, [])
  | c, b :: bs =>
    let (c1, es) := process p c b
    let (c2, es') := processBatches p c1 bs
    (c2, es ++ es')

/-- sum of the overflow tags of a batch -/
def overflowSum (p : Params) (rs : List Nat) : Nat :=
  (rs.map (fun r => if isOverflow p r then recTag p r else 0)).sum


/-! ## T3 mode (`_T3EventDecoder.process_data`), same file, same carried counter

Records carry `d_time` (bits 24..10) and `n_sync` (bits 9..0); an overflow record adds its `n_sync` to the carried
counter.  Every other record yields `(type, (counter·wrap + n_sync)·P + d_time·R)`; in addition **one SYNC event per
distinct sync timestamp of the batch** (`np.unique`) is inserted and the batch is sorted by (timestamp, type descending)
(`np.lexsort`).  `P` = sync period in ps, `R` = resolution in ps: the code computes in float64; the model is exact for
integer `P`, `R` while every timestamp stays below 2^53 (the harness stays far below). -/

structure Params3 where
  typeShift : Nat      -- `fifo_data >> 25`
  dShift : Nat         -- `fifo_data >> 10 & 0x07fff`
  dMask : Nat
  nMask : Nat          -- `fifo_data & 0x03ff`
  overflowType : Nat   -- 0x7f
  wrap : Nat           -- `(1 << 10)` of `overflow_period`
  syncType : Nat       -- the literal 64
  deriving DecidableEq, Repr

def t3Type (p : Params3) (r : Nat) : Nat := (r >>> p.typeShift) % 256
def t3D (p : Params3) (r : Nat) : Nat := (r >>> p.dShift) &&& p.dMask
def t3N (p : Params3) (r : Nat) : Nat := r &&& p.nMask
def t3IsOverflow (p : Params3) (r : Nat) : Bool := t3Type p r == p.overflowType

/-- the pass before `unique`/`lexsort`: carried counter, and per non-overflow record (event, its sync timestamp) -/
def t3Scan (p : Params3) (P R : Nat) : Nat → List Nat → Nat × List (Event × Nat)
  | c, [] => (c, [])
  | c, r :: rs =>
    if t3IsOverflow p r then t3Scan p P R ((c + t3N p r) % word) rs
    else
      let sync := (c * p.wrap + t3N p r) * P
      let (c2, xs) := t3Scan p P R c rs
      (c2, (⟨t3Type p r, sync + t3D p r * R⟩, sync) :: xs)

/-- insertion into a list sorted by (timestamp ascending, type descending) -/
def insertEv (e : Event) : List Event → List Event
  | [] => [e]
  | x :: xs => if x.ts < e.ts ∨ (x.ts = e.ts ∧ x.typ ≥ e.typ) then x :: insertEv e xs else e :: x :: xs

def sortEv (es : List Event) : List Event := es.foldl (fun acc e => insertEv e acc) []

/-- insertion into a strictly increasing list (`np.unique`) -/
def insertUniq (v : Nat) : List Nat → List Nat
  | [] => [v]
  | x :: xs => if x < v then x :: insertUniq v xs else if x = v then x :: xs else v :: x :: xs

def uniqSorted (vs : List Nat) : List Nat := vs.foldl (fun acc v => insertUniq v acc) []

/-- `_T3EventDecoder.process_data` with `_overflow_counter = c` -/
def processT3 (p : Params3) (P R : Nat) (c : Nat) (rs : List Nat) : Nat × List Event :=
  let (c', xs) := t3Scan p P R c rs
  (c', sortEv (xs.map (·.1) ++ (uniqSorted (xs.map (·.2))).map (fun s => ⟨p.syncType, s⟩)))

end QmiModel.T2
