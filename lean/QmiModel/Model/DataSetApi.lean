import QmiModel.Model.TextLayout
/-!
# `DataSet` construction and setters (qmi/data/dataset.py) — property C17

What the constructor and the `set_axis_*` / `set_column_*` methods accept.  The round-trip theorems about the
text layout assume a well-formed dataset (≥ 2 axes, every size ≥ 1, a scale as long as its axis); this file
models where that comes from.  Scale values are abstract (only their count and finiteness matter).  Core Lean only.
-/
namespace QmiModel.C17

structure DSApi where
  dims   : List Nat                 -- shape[:-1]
  ncol   : Nat                      -- shape[-1]
  scales : List (Option Nat)        -- per axis: length of the scale that was set
  deriving DecidableEq, Repr

/-- `DataSet(name, shape=shape)` / `DataSet(name, data=array of that shape)`:
fewer than 2 axes or a size < 1 is a ValueError (numpy itself refuses negative sizes with ValueError) -/
def DSApi.new (shape : List Int) : Except PyExc DSApi :=
  if shape.length < 2 then .error .valueError
  else if shape.any (fun n => n < 1) then .error .valueError
  else
    let nat := shape.map Int.toNat
    .ok { dims := nat.dropLast, ncol := nat.getLastD 0, scales := List.replicate (nat.length - 1) none }

/-- `set_axis_scale(axis, scale)` with `len(scale) = len`, `finite` = all values finite -/
def DSApi.setScale (d : DSApi) (axis : Int) (len : Nat) (finite : Bool) : Except PyExc DSApi :=
  if axis < 0 ∨ axis ≥ d.dims.length then .error .valueError
  else if len ≠ d.dims.getD axis.toNat 0 then .error .valueError
  else if !finite then .error .valueError
  else .ok { d with scales := d.scales.set axis.toNat (some len) }

/-- `set_axis_label` / `set_axis_unit`: only the index is checked -/
def DSApi.axisIndexOk (d : DSApi) (axis : Int) : Bool := decide (0 ≤ axis ∧ axis < d.dims.length)

/-- `set_column_label` / `set_column_unit` -/
def DSApi.colIndexOk (d : DSApi) (col : Int) : Bool := decide (0 ≤ col ∧ col < d.ncol)

/-- what the layout theorems assume of a dataset -/
structure DSApi.Valid (d : DSApi) : Prop where
  dims_ne    : d.dims ≠ []
  dims_pos   : ∀ n ∈ d.dims, 1 ≤ n
  ncol_pos   : 1 ≤ d.ncol
  scales_len : d.scales.length = d.dims.length
  scale_len  : ∀ ax n, d.scales[ax]? = some (some n) → n = d.dims.getD ax 0

end QmiModel.C17
