/-!
# `QMI_Context.make_unique_token` at statement granularity, any number of threads — property C04

`Gen/TokenProg.lean` is regenerated on every run from the AST of `make_unique_token` (qmi/core/context.py) by
`harness/props/c04.py:translate()`: the function body as a list of `Instr` (the `with self._unique_counters_lock:` block
becomes `acquire … release`), the shape of the token string as a list of `TokPart`, and the sources of the per-instance
identifier `_instance_id` (from its assignment in `QMI_Context.__init__`) as a list of `IdSource`.

`tstep prog s i` lets thread `i` execute its next statement (a blocked `acquire` leaves the state unchanged); a schedule
is any `List Nat` of thread ids.  Thread ids are unbounded: any number of threads, each performing one call (a thread
calling twice is two ids).  Python's GIL makes each of these statements' shared accesses (one dict read, one dict
write) atomic; everything between statements can interleave.

Core Lean only.
-/
namespace QmiModel.TokenProg

inductive Instr
  | acquire    -- enter `with self._unique_counters_lock:`
  | read       -- `nr = self._unique_counters.get(prefix, 0) + 1`
  | write      -- `self._unique_counters[prefix] = nr`
  | release    -- leave the `with` block
  | ret        -- `return QMI_LockTokenDescriptor(…)` (uses the local `nr` only)
  deriving DecidableEq, Repr

/-- parts of the token string expression `prefix + self._instance_id + "_" + str(nr)` -/
inductive TokPart
  | pfx | instanceId | lit (s : String)
  | counter                       -- `str(nr)`: the counter in decimal, unbounded
  | counterOther (how : String)   -- any other rendering of the counter (masked, fixed width, other base …), as written
  deriving DecidableEq, Repr

/-- the string a part contributes for counter value `n`; a rendering the model does not know contributes nothing -/
def renderPart (pfx instanceId : String) (n : Nat) : TokPart → Option String
  | .pfx => some pfx
  | .instanceId => some instanceId
  | .lit s => some s
  | .counter => some (toString n)
  | .counterOther _ => none

/-- the token string for counter value `n` -/
def render (shape : List TokPart) (pfx instanceId : String) (n : Nat) : Option String :=
  shape.foldl (fun acc p => match acc, renderPart pfx instanceId n p with
                            | some a, some b => some (a ++ b)
                            | _, _ => none) (some "")

/-- where the value of `QMI_Context._instance_id` comes from (classified from the AST of its single assignment) -/
inductive IdSource
  | osEntropy (bytes : Nat)   -- `os.urandom(n)`, `secrets.*`, `uuid.uuid4()`, `random.SystemRandom()`: the OS entropy pool
  | globalPrng                -- the `random` module's (or numpy's) global generator: a program can put it into a repeated state
  | clock                     -- `time.*`, `datetime.*`, `uuid.uuid1()`
  | pid                       -- `os.getpid()`, thread ids
  | objectId                  -- `id(...)`
  | clientState               -- attributes of the context (its name, configuration …) or other program-controlled values
  deriving DecidableEq, Repr

/-- the identifier contains at least 48 bits drawn from the OS entropy source (whatever else is mixed in) -/
def fromOsEntropy (l : List IdSource) : Bool :=
  l.any (fun x => match x with | .osEntropy b => decide (6 ≤ b) | _ => false)

structure TS where
  counter : Nat            -- `_unique_counters[prefix]` (0 = absent)
  lock : Option Nat        -- holder of `_unique_counters_lock`
  pc : Nat → Nat           -- per thread: index of the next statement
  nr : Nat → Nat           -- per thread: the local variable `nr`
  done : Nat → Bool        -- per thread: returned

def TS.init : TS := { counter := 0, lock := none, pc := fun _ => 0, nr := fun _ => 0, done := fun _ => false }

def upd (f : Nat → α) (i : Nat) (v : α) : Nat → α := fun j => if j = i then v else f j

/-- thread `i` executes its next statement -/
def tstep (prog : List Instr) (s : TS) (i : Nat) : TS :=
  if s.done i then s else
  match prog[s.pc i]? with
  | none => s
  | some .acquire =>
    match s.lock with
    | none => { s with lock := some i, pc := upd s.pc i (s.pc i + 1) }
    | some _ => s                                   -- blocked
  | some .read => { s with nr := upd s.nr i (s.counter + 1), pc := upd s.pc i (s.pc i + 1) }
  | some .write => { s with counter := s.nr i, pc := upd s.pc i (s.pc i + 1) }
  | some .release => { s with lock := if s.lock = some i then none else s.lock, pc := upd s.pc i (s.pc i + 1) }
  | some .ret => { s with done := upd s.done i true }

def trun (prog : List Instr) (s : TS) (sched : List Nat) : TS := sched.foldl (tstep prog) s

/-- the program the property needs: counter read and write-back both inside the lock -/
def atomicProg : List Instr := [.acquire, .read, .write, .release, .ret]

/-- the token string shape the model's `mkToken` implements -/
def tokenShape : List TokPart := [.pfx, .instanceId, .lit "_", .counter]

end QmiModel.TokenProg
