import QmiModel.Model.Task
/-!
# Model of `QMI_LoopTask.run` (qmi/core/task.py) — property C10

`QMI_LoopTask.run()` is one particular body of `task.run()`; the lifecycle model (`Model/Task.lean`) leaves the
body unconstrained (at `pc = inRun` the actions `updCheck`, `setStatus`, `extStopRegion`, `runEnd o` are always
enabled), so every theorem about the lifecycle covers the loop task.  This file models the loop itself, statement
by statement, as a sequential program whose inputs come from the environment:

    loop_prepare()                                  -- outside the try: if it raises, loop_finalize does not run
    next_time = monotonic() + period
    try:
        while not stop_requested():
            if update_settings(): process_new_settings()
            loop_iteration()
            if update_status(): sig_status_updated.publish(status)
            publish_signals()
            tts = next_time - monotonic()
            if tts > 0: sleep(tts); next_time += period
            else: IMMEDIATE: next_time = monotonic() + period
                  SKIP:      next_time += period * int((period - tts) / period)
                  TERMINATE: self._task_runner.stop()
    except QMI_TaskStopException: pass
    finally: loop_finalize()

Environment inputs: what `stop_requested()` / `update_settings()` / `update_status()` returned, the clock values
read, whether `sleep` ended by a stop request, and how each hook ended (`Outcome`: returned / raised
`QMI_TaskStopException` / raised something else).  Time is counted in integer ticks (floats are opaque; the harness
uses periods and sleeps that are exact binary fractions).  Core Lean only.
-/
namespace QmiModel.LoopTask
open QmiModel.Task (Outcome)

inductive Policy
  | immediate | skip | terminate
  deriving DecidableEq, Repr

/-- the overridable methods and the one publication `run()` calls -/
inductive Hook
  | prepare | process | iteration | status | pubStatus | pubSignals | finalize
  deriving DecidableEq, Repr

inductive LPc
  | start                   -- about to call `loop_prepare`
  | clock0                  -- `next_time = time.monotonic() + period`
  | top                     -- `while not self.stop_requested()`
  | upd                     -- calling `update_settings()`
  | process                 -- it returned True: calling `process_new_settings()`
  | iter                    -- calling `loop_iteration()`
  | status                  -- calling `update_status()`
  | pubStatus               -- it returned True: `sig_status_updated.publish(self.status)`
  | pubSignals              -- calling `publish_signals()`
  | timing                  -- `time_to_sleep = next_time - time.monotonic()`
  | sleeping                -- inside `self.sleep(time_to_sleep)` (deadline = `next_time`)
  | immClock                -- missed, IMMEDIATE: `next_time = time.monotonic() + period`
  | selfStop                -- missed, TERMINATE: `self._task_runner.stop()`
  | finalize (o : Outcome)  -- in `finally`; `o` = how the try block ended (stop exception already swallowed)
  | done (o : Outcome)      -- `run()` ended with `o`
  deriving DecidableEq, Repr

structure LState where
  lpc     : LPc
  period  : Nat
  policy  : Policy
  next    : Nat              -- `next_time`
  -- ghost
  prepared   : Bool          -- `loop_prepare` returned normally
  finalizes  : Nat           -- calls of `loop_finalize`
  nUpd       : Nat           -- calls of `update_settings`
  updTrue    : Nat           -- … that returned True
  nProc      : Nat           -- calls of `process_new_settings`
  nIter      : Nat           -- calls of `loop_iteration`
  statusTrue : Nat           -- calls of `update_status` that returned True
  nPubStatus : Nat           -- publications of `sig_status_updated`
  tryOther   : Bool          -- a hook inside the try block raised something other than the task-stop exception
  tryStop    : Bool          -- the try block was left by a task-stop exception (swallowed)
  deriving DecidableEq, Repr

def linit (period : Nat) (policy : Policy) : LState :=
  { lpc := .start, period, policy, next := 0, prepared := false, finalizes := 0, nUpd := 0, updTrue := 0, nProc := 0,
    nIter := 0, statusTrue := 0, nPubStatus := 0, tryOther := false, tryStop := false }

inductive LAct
  | hook (h : Hook) (r : Outcome)     -- hook `h` ended with `r` (for `status`: only raising outcomes)
  | clock (now : Nat)                 -- `time.monotonic()` returned `now`
  | testStop (b : Bool)               -- `stop_requested()` returned `b`
  | updDone (b : Bool)                -- `update_settings()` returned `b`
  | statusDone (b : Bool)             -- `update_status()` returned `b`
  | wake (stopped : Bool)             -- `sleep` ended: by a stop request (raises the task-stop exception) or by time
  | selfStopDone                      -- `self._task_runner.stop()` returned
  deriving DecidableEq, Repr

/-- leaving the try block with outcome `r` of the statement that raised -/
def leaveTry (s : LState) (r : Outcome) : LState :=
  match r with
  | .ret      => s                                                   -- (not used: `ret` does not leave)
  | .stopExc  => { s with lpc := .finalize .ret, tryStop := true }   -- `except QMI_TaskStopException: pass`
  | .otherExc => { s with lpc := .finalize .otherExc, tryOther := true }

/-- a hook inside the try block ended with `r`; on `ret` continue at `k` -/
def afterHook (s : LState) (r : Outcome) (k : LPc) : LState :=
  match r with
  | .ret => { s with lpc := k }
  | r    => leaveTry s r

/-- `int((period - tts) / period)` for `tts = next - now ≤ 0` -/
def periodsMissed (period next now : Nat) : Nat := (period + (now - next)) / period

def lstep (s : LState) : LAct → Option LState
  | .hook .prepare r =>
    if s.lpc = .start then
      match r with
      | .ret => some { s with lpc := .clock0, prepared := true }
      | r    => some { s with lpc := .done r }                       -- outside the try: no finalize
    else none
  | .hook .process r =>
    if s.lpc = .process then some (afterHook { s with nProc := s.nProc + 1 } r .iter) else none
  | .hook .iteration r =>
    if s.lpc = .iter then some (afterHook { s with nIter := s.nIter + 1 } r .status) else none
  | .hook .status r =>
    -- `update_status()` raised
    if s.lpc = .status ∧ r ≠ .ret then some (leaveTry s r) else none
  | .hook .pubStatus r =>
    if s.lpc = .pubStatus then some (afterHook { s with nPubStatus := s.nPubStatus + 1 } r .pubSignals) else none
  | .hook .pubSignals r =>
    if s.lpc = .pubSignals then some (afterHook s r .timing) else none
  | .hook .finalize r =>
    match s.lpc with
    | .finalize o =>
      match r with
      | .ret => some { s with lpc := .done o, finalizes := s.finalizes + 1 }
      | r    => some { s with lpc := .done r, finalizes := s.finalizes + 1 }   -- its exception replaces `o`
    | _ => none
  | .clock now =>
    match s.lpc with
    | .clock0   => some { s with lpc := .top, next := now + s.period }
    | .immClock => some { s with lpc := .top, next := now + s.period }
    | .timing   =>
      if now < s.next then some { s with lpc := .sleeping }
      else match s.policy with
        | .immediate => some { s with lpc := .immClock }
        | .skip      => some { s with lpc := .top, next := s.next + s.period * periodsMissed s.period s.next now }
        | .terminate => some { s with lpc := .selfStop }
    | _ => none
  | .testStop b =>
    if s.lpc = .top then
      if b then some { s with lpc := .finalize .ret } else some { s with lpc := .upd }
    else none
  | .updDone b =>
    if s.lpc = .upd then
      if b then some { s with lpc := .process, nUpd := s.nUpd + 1, updTrue := s.updTrue + 1 }
      else some { s with lpc := .iter, nUpd := s.nUpd + 1 }
    else none
  | .statusDone b =>
    if s.lpc = .status then
      if b then some { s with lpc := .pubStatus, statusTrue := s.statusTrue + 1 }
      else some { s with lpc := .pubSignals }
    else none
  | .wake stopped =>
    if s.lpc = .sleeping then
      if stopped then some (leaveTry s .stopExc) else some { s with lpc := .top, next := s.next + s.period }
    else none
  | .selfStopDone =>
    if s.lpc = .selfStop then some { s with lpc := .top } else none

def lexec (s : LState) : List LAct → Option LState
  | []      => some s
  | a :: as => match lstep s a with
               | some s' => lexec s' as
               | none    => none

end QmiModel.LoopTask
