import QmiModel.Model.Wake
/-!
# Certificates for the larger C11 systems: states packed into numbers

For systems of a few thousand states the kernel cannot afford to *compute* the reachable set; instead the compiled
driver computes it, `harness/props/c11.py` writes it to `Gen/WakeCert.lean` as a table of packed states, and the kernel
only *checks* the table, a chunk (≤ ~256 states) per theorem:

* every initial state is in the table;
* for every packed state `c` of the chunk and every successor `t` of `dec c`: `enc t` is in the table and
  `dec (enc t) = t` (so nothing is lost by packing — an overflow of a field would be caught here), and `dec c` satisfies
  the obligations.

`Lemmas/C11.lean` glues the chunks: the set `{ dec c | c in the table }` contains the initial states and is closed
under every thread's step, hence (closure_sound) contains every reachable state.  No property of `enc`/`dec` is
assumed: the table is untrusted input, everything is re-checked.
-/
namespace QmiModel.Wake

def exOf : Nat → Option Ex
  | 1 => some .stop | 2 => some .timeout | _ => none

def parkOf (n : Nat) : Park :=
  if n = 0 then .no else if n = 1 then .ev else if n = 2 then .sleep
  else if n % 2 = 1 then .cond ((n - 3) / 2) false else .cond ((n - 4) / 2) true

def statusOf : Nat → Status
  | 1 => .done | 2 => .raised .stop | 3 => .raised .timeout | 4 => .crashed | _ => .run

def ownCode : Option Nat → Nat
  | none => 0 | some i => i + 1

def ownOf : Nat → Option Nat
  | 0 => none | n+1 => some n

/-- call stack, innermost first; each frame one base-4096 digit (fn < 32, pc < 128), +1 so that no digit is 0 -/
def encStack : List (Nat × Nat) → Nat
  | [] => 0
  | (f, p) :: r => encStack r * 4096 + (f * 128 + p + 1)

def decStack : Nat → Nat → List (Nat × Nat)
  | 0, _ => []
  | fuel+1, n =>
    if n = 0 then [] else
      let d := n % 4096 - 1
      (d / 128, d % 128) :: decStack fuel (n / 4096)

def encTh (t : Th) : Nat :=
  ((((((((((((encStack t.stack * 32 + t.fn) * 128 + t.pc) * 4 + t.cl) * 2 + t.rcv) * 64 + t.locs) * 4 + exCode t.exc) * 2 + t.isTask.toNat) * 2
    + t.timed.toNat) * 2 + t.expired.toNat) * 2 + t.acc.toNat) * 16 + t.park.code) * 8 + t.status.code)

def decTh (n : Nat) : Th :=
  let status := n % 8; let n := n / 8
  let park := n % 16; let n := n / 16
  let acc := n % 2; let n := n / 2
  let expired := n % 2; let n := n / 2
  let timed := n % 2; let n := n / 2
  let isTask := n % 2; let n := n / 2
  let exc := n % 4; let n := n / 4
  let locs := n % 64; let n := n / 64
  let rcv := n % 2; let n := n / 2
  let cl := n % 4; let n := n / 4
  let pc := n % 128; let n := n / 128
  let fn := n % 32; let n := n / 32
  { fn := fn, pc := pc, stack := decStack 8 n, acc := acc == 1, locs := locs, exc := exOf exc, park := parkOf park,
    expired := expired == 1, timed := timed == 1, isTask := isTask == 1, rcv := rcv, cl := cl, status := statusOf status }

/-- width of one packed thread -/
def thW : Nat := 2 ^ 96

def encThs : List Th → Nat
  | [] => 0
  | t :: r => encThs r * thW + encTh t

def decThs : Nat → Nat → List Th
  | 0, _ => []
  | k+1, n => decTh (n % thW) :: decThs k (n / thW)

/-- waiter queue, oldest first; each entry one base-64 digit (+1 so that no digit is 0) -/
def encWq : List Nat → Nat
  | [] => 0
  | w :: r => encWq r * 64 + (w + 1)

def decWq : Nat → Nat → List Nat
  | 0, _ => []
  | fuel+1, n => if n = 0 then [] else (n % 64 - 1) :: decWq fuel (n / 64)

/-- width of the packed waiter queue (up to 6 waiters) -/
def wqW : Nat := 2 ^ 36

def enc (s : St) : Nat :=
  (((((((((((encThs s.ths * wqW + encWq s.wq) * 8 + s.ths.length) * 8 + s.tstate) * 4 + s.fin) * 8 + ownCode s.lqc) * 8 + ownCode s.lsc) * 8
    + ownCode s.lwcl) * 8 + ownCode s.lqc2) * 4 + s.qlen2) * 4 + s.qlen) * 4 + s.wc) * 2 + s.flag.toNat

def dec (n : Nat) : St :=
  let flag := n % 2; let n := n / 2
  let wc := n % 4; let n := n / 4
  let qlen := n % 4; let n := n / 4
  let qlen2 := n % 4; let n := n / 4
  let lqc2 := n % 8; let n := n / 8
  let lwcl := n % 8; let n := n / 8
  let lsc := n % 8; let n := n / 8
  let lqc := n % 8; let n := n / 8
  let fin := n % 4; let n := n / 4
  let tstate := n % 8; let n := n / 8
  let k := n % 8; let n := n / 8
  let wq := n % wqW; let n := n / wqW
  { flag := flag == 1, wc := wc, qlen := qlen, qlen2 := qlen2, lwcl := ownOf lwcl, lsc := ownOf lsc, lqc := ownOf lqc,
    lqc2 := ownOf lqc2, fin := fin,
    tstate := tstate, wq := decWq 6 wq, ths := decThs k n }

/-- a certificate: groups (one per chunk theorem) of buckets of packed states; a packed state `c` lives in bucket number
    `bucketOf nbk c`, buckets are numbered through the groups -/
abbrev Cert := List (List (List Nat))

def Cert.nBuckets (cert : Cert) : Nat := (cert.map List.length).foldl (· + ·) 0

/-- bucket number `i`, walking through the groups -/
def Cert.bucket : Cert → Nat → List Nat
  | [], _ => []
  | g :: gs, i => if i < g.length then g.getD i [] else Cert.bucket gs (i - g.length)

def natMem (c : Nat) : List Nat → Bool
  | [] => false
  | x :: r => x == c || natMem c r

/-- bucket number of a packed state (any function would do: the table is re-checked entry by entry) -/
def bucketOf (nbk c : Nat) : Nat := (c % 1000003) % nbk

def Cert.mem (cert : Cert) (nbk : Nat) (c : Nat) : Bool := natMem c (cert.bucket (bucketOf nbk c))

/-- the packed successor is in the table and unpacks to the successor itself -/
def Cert.has (cert : Cert) (nbk : Nat) (t : St) : Bool :=
  let c := enc t
  cert.mem nbk c && (dec c).beq t

def okCode (sys : Sys) (good : St → Bool) (cert : Cert) (nbk : Nat) (c : Nat) : Bool :=
  let s := dec c
  good s && (succs sys s).all (cert.has nbk)

/-- the obligations of chunk `j` -/
def chunkOk (sys : Sys) (good : St → Bool) (cert : Cert) (nbk : Nat) (j : Nat) : Bool :=
  match cert[j]? with
  | some g => g.all fun b => b.all (okCode sys good cert nbk)
  | none => true

def initOk (sys : Sys) (cert : Cert) (nbk : Nat) : Bool := (inits sys).all (cert.has nbk)

end QmiModel.Wake
