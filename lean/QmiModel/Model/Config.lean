/-!
# Model of QMI configuration loading — property C16

Mirrors, branch by branch and with Python exceptions as values:

* `qmi/core/config.py`: `_strip_comments` (`stripLine`, `splitLines`, `stripComments`),
  `config_pairs_hook` + the top-level check of `load_config_string` (`loadTree`),
  `dump_config_string` = `json.dumps(cfg, indent=4)` at the token level (`render`);
* `qmi/core/config_struct.py`: `_parse_config_value` / `_parse_config_dict` /
  `_parse_config_struct` (`parseValue`, `mapKV`, `parseFields`, `firstUnknown`),
  `config_struct_to_dict` (`toDict`), the keyword-only constructor installed by
  `@configstruct` (`construct`).

Strings are lists of code points (`Str`), so lone surrogates are representable.
Floats are opaque: `flt lit` is a float identified by its Python `repr`,
`fltOfInt n` is `float(n)` for an integer inside the float range.

All recursive functions are structurally recursive (mutual recursion over the
nested inductives `Ty`/`PV`), so they reduce in the kernel (`rfl`, `decide`).

Core Lean only (the driver exe links this file).
-/
namespace QmiModel.Config

abbrev Str := List Nat

/-! ## Values -/

/-- Python values that occur as configuration data and as parse results. -/
inductive PV where
  | none
  | bool (b : Bool)
  | int (n : Int)
  | flt (lit : Str)                       -- a `float`, identified by its `repr`
  | fltOfInt (n : Int)                    -- `float(n)`
  | str (s : Str)
  | list (xs : List PV)
  | tuple (xs : List PV)
  | dict (kvs : List (Str × PV))          -- `dict` / `OrderedDict` with `str` keys, insertion order
  | inst (cls : Str) (fs : List (Str × PV))  -- instance of a `@configstruct` dataclass

inductive PathItem where
  | elem                 -- `"[]"` (element type of a container, in `_check_config_struct_type`)
  | idx (i : Nat)        -- `"[{}]".format(i)`
  | key (k : Str)        -- `"[{!r}]".format(k)`
  | field (f : Str)      -- the field name / the unknown key itself
  deriving DecidableEq, Repr

abbrev Path := List PathItem

inductive CfgKind where
  | mismatch | missing | unknown | toplevel
  | badUnion | badKey | badType     -- `_check_config_struct_type`: unsupported Union / non-string-key dict / data type
  deriving DecidableEq, Repr

/-- the exception types that can leave the modelled functions -/
inductive PyExc where
  | config (k : CfgKind) (p : Path)   -- `QMI_ConfigurationException`, message names `".".join(path)`
  | typeError
  | attributeError
  | osError
  | valueError
  deriving DecidableEq, Repr

abbrev R (α : Type) := Except PyExc α

/-! ## Type descriptors -/

/-- Field types accepted by `_check_config_struct_type`. `listAny`/`tupleAny`/`dictAny` are the untyped
aggregates (`list`/`List`, `Tuple`, `dict`/`Dict`: the container is checked, its content is not). A struct
field is `(name, type, default?)`; the default is the *value* of `f.default` / `f.default_factory()`. -/
inductive Ty where
  | int | float | str | bool | any
  | listAny | tupleAny | dictAny
  | never                          -- a field type no branch of `_parse_config_value` recognises: every value is a mismatch
  | opt (t : Ty)
  | list (t : Ty)
  | tupleVar (t : Ty)
  | tupleFix (ts : List Ty)
  | dict (t : Ty)
  | struct (name : Str) (fields : List (Str × Ty × Option PV))

abbrev Field := Str × Ty × Option PV

/-! ## `_strip_comments`

`re_comment = ^(?:[^"#]|"(?:[^\\"]|\\.)*")*#` is a deterministic scanner: outside a string
a `#` ends the match, a `"` opens a string; inside a string `\` escapes the next character
(`.` does not match a newline), `"` closes it. No match (no `#` outside strings, or an
unterminated string before it) leaves the line unchanged. -/

inductive SS where
  | out | str | esc
  deriving DecidableEq, Repr

/-- `some kept` when the regex matches (`kept = line[:m.end()-1]`), `none` when it does not. -/
def scan : SS → List Nat → Option (List Nat)
  | _, [] => none
  | .out, c :: cs =>
    if c = 35 then some []
    else if c = 34 then (scan .str cs).map (c :: ·)
    else (scan .out cs).map (c :: ·)
  | .str, c :: cs =>
    if c = 34 then (scan .out cs).map (c :: ·)
    else if c = 92 then (scan .esc cs).map (c :: ·)
    else (scan .str cs).map (c :: ·)
  | .esc, c :: cs =>
    if c = 10 then none else (scan .str cs).map (c :: ·)

def stripLine (l : List Nat) : List Nat := (scan .out l).getD l

/-- `re.split(r'[\r\n]', s)` -/
def splitLines : List Nat → List (List Nat)
  | [] => [[]]
  | c :: cs =>
    if c = 10 ∨ c = 13 then [] :: splitLines cs
    else match splitLines cs with
      | l :: ls => (c :: l) :: ls
      | [] => [[c]]

/-- `"\n".join(lines)` -/
def joinLines : List (List Nat) → List Nat
  | [] => []
  | [l] => l
  | l :: ls => l ++ 10 :: joinLines ls

def stripComments (s : List Nat) : List Nat := joinLines ((splitLines s).map stripLine)

/-! ## `config_pairs_hook` and the top-level check

The input is the raw parse tree of `json.loads` (objects as pair lists, duplicates possible). -/

def hasDup : List Str → Bool
  | [] => false
  | k :: ks => ks.contains k || hasDup ks

def keysOf : List (Str × PV) → List Str
  | [] => []
  | (k, _) :: kvs => k :: keysOf kvs

mutual
/-- no object anywhere in the tree has a duplicate key -/
def hookOk : PV → Bool
  | .list xs => hookOkL xs
  | .tuple xs => hookOkL xs
  | .dict kvs => !hasDup (keysOf kvs) && hookOkK kvs
  | .inst _ fs => hookOkK fs
  | _ => true
def hookOkL : List PV → Bool
  | [] => true
  | x :: xs => hookOk x && hookOkL xs
def hookOkK : List (Str × PV) → Bool
  | [] => true
  | (_, v) :: kvs => hookOk v && hookOkK kvs
end

/-- `load_config_string` after `json.loads` produced the raw tree -/
def loadTree (raw : PV) : R PV :=
  if hookOk raw then
    match raw with
    | .dict _ => .ok raw
    | _ => .error (.config .toplevel [])
  else .error .valueError

/-- `load_config_string`; `json.loads` (the decoder proper, before the pairs hook) is a parameter that
returns the raw tree, `none` = `json.JSONDecodeError` (a `ValueError`) -/
def loadString (jsonLoads : List Nat → Option PV) (s : List Nat) : R PV :=
  match jsonLoads (stripComments s) with
  | .none => .error .valueError
  | some raw => loadTree raw

/-! ## `config_struct_to_dict` and `dataclasses.asdict` -/

mutual
def toDict : PV → PV
  | .list xs => .list (toDictL xs)
  | .tuple xs => .list (toDictL xs)
  | .dict kvs => .dict (toDictK kvs)
  | .inst _ fs => .dict (toDictK fs)
  | v => v
def toDictL : List PV → List PV
  | [] => []
  | x :: xs => toDict x :: toDictL xs
def toDictK : List (Str × PV) → List (Str × PV)
  | [] => []
  | (k, v) :: kvs => (k, toDict v) :: toDictK kvs
end

mutual
/-- `dataclasses.asdict` applied below an instance: instances become dicts, tuples stay tuples
(no longer used by `parseValue` since commit f3ca37f; kept for the lemmas about the old route) -/
def asdict : PV → PV
  | .list xs => .list (asdictL xs)
  | .tuple xs => .tuple (asdictL xs)
  | .dict kvs => .dict (asdictK kvs)
  | .inst _ fs => .dict (asdictK fs)
  | v => v
def asdictL : List PV → List PV
  | [] => []
  | x :: xs => asdict x :: asdictL xs
def asdictK : List (Str × PV) → List (Str × PV)
  | [] => []
  | (k, v) :: kvs => (k, asdict v) :: asdictK kvs
end

/-! ## `_parse_config_value` -/

def mismatch {α : Type} (p : Path) : R α := .error (.config .mismatch p)

/-- `float(n)` raises `OverflowError` iff `|n| ≥ 2^1024 − 2^970` (round-half-even to binary64) -/
def floatOverflow (n : Int) : Bool := decide (2 ^ 1024 - 2 ^ 970 ≤ n.natAbs)

def assoc (k : Str) : List (Str × PV) → Option PV
  | [] => none
  | (k', v) :: kvs => if k' = k then some v else assoc k kvs

/-- the `for (i, elem) in enumerate(val)` loops -/
def mapIdx (f : Nat → PV → R PV) : Nat → List PV → R (List PV)
  | _, [] => .ok []
  | i, x :: xs =>
    match f i x with
    | .error e => .error e
    | .ok y =>
      match mapIdx f (i + 1) xs with
      | .error e => .error e
      | .ok ys => .ok (y :: ys)

/-- `_parse_config_dict` (keys are strings in this model, so the non-string-key branch is unreachable) -/
def mapKV (f : Str → PV → R PV) : List (Str × PV) → R (List (Str × PV))
  | [] => .ok []
  | (k, v) :: kvs =>
    match f k v with
    | .error e => .error e
    | .ok y =>
      match mapKV f kvs with
      | .error e => .error e
      | .ok ys => .ok ((k, y) :: ys)

def fieldNames : List Field → List Str
  | [] => []
  | (n, _, _) :: fs => n :: fieldNames fs

/-- "Check for left-over fields": the first key of `data` that is not a (present) field -/
def firstUnknown (names : List Str) : List (Str × PV) → Option Str
  | [] => none
  | (k, _) :: kvs => if names.contains k then firstUnknown names kvs else some k

def okMap {α β : Type} (f : α → β) : R α → R β
  | .ok a => .ok (f a)
  | .error e => .error e

/-- the tail of `_parse_config_struct`: "Check for left-over fields", then `cls(**items)` -/
def structResult (name : Str) (names : List Str) (kvs : List (Str × PV)) (p : Path)
    (r : R (List (Str × PV))) : R PV :=
  match r with
  | .error e => .error e
  | .ok items =>
    match firstUnknown names kvs with
    | some k => .error (.config .unknown (p ++ [.field k]))
    | .none => .ok (.inst name items)

mutual
/-- `_parse_config_value(val, field_type, path)` -/
def parseValue : Ty → PV → Path → R PV
  -- `field_type == Any`: pass the value without conversion
  | .any, v, _ => .ok v
  -- `Optional[T]`: `None` passes, anything else is treated as `T`
  | .opt t, v, p =>
    match v with
    | .none => .ok .none
    | v => parseValue t v p
  -- scalars: `isinstance(val, field_type)` (`bool` is an `int`)
  | .int, v, p =>
    match v with
    | .int n => .ok (.int n)
    | .bool b => .ok (.bool b)
    | _ => mismatch p
  | .float, v, p =>
    match v with
    | .flt l => .ok (.flt l)
    | .fltOfInt n => .ok (.fltOfInt n)
    -- `field_type is float and isinstance(val, int)`: `try: return float(val)`; on `OverflowError` fall
    -- through to the type-mismatch error at the end
    | .int n => if floatOverflow n then mismatch p else .ok (.fltOfInt n)
    | .bool b => .ok (.fltOfInt (if b then 1 else 0))
    | _ => mismatch p
  | .str, v, p =>
    match v with
    | .str s => .ok (.str s)
    | _ => mismatch p
  | .bool, v, p =>
    match v with
    | .bool b => .ok (.bool b)
    | _ => mismatch p
  -- an unsupported field type (`set`, a string annotation, …) falls through every test to the final error
  | .never, _, p => mismatch p
  -- untyped `list` / `List`: `isinstance(val, list)` → the value itself
  | .listAny, v, p =>
    match v with
    | .list xs => .ok (.list xs)
    | _ => mismatch p
  -- untyped `Tuple`: a tuple passes, a list becomes `tuple(val)` (elements untouched)
  | .tupleAny, v, p =>
    match v with
    | .tuple xs => .ok (.tuple xs)
    | .list xs => .ok (.tuple xs)
    | _ => mismatch p
  -- untyped `dict` / `Dict`: `isinstance(val, dict)` → the value itself
  | .dictAny, v, p =>
    match v with
    | .dict kvs => .ok (.dict kvs)
    | _ => mismatch p
  -- `List[T]`
  | .list t, v, p =>
    match v with
    | .list xs => okMap .list (mapIdx (fun i x => parseValue t x (p ++ [.idx i])) 0 xs)
    | _ => mismatch p
  -- `Tuple[T, ...]`
  | .tupleVar t, v, p =>
    match v with
    | .list xs => okMap .tuple (mapIdx (fun i x => parseValue t x (p ++ [.idx i])) 0 xs)
    | .tuple xs => okMap .tuple (mapIdx (fun i x => parseValue t x (p ++ [.idx i])) 0 xs)
    | _ => mismatch p
  -- `Tuple[T1, …, Tn]`: `isinstance(val, (list, tuple)) and len(val) == len(field_type.__args__)`
  | .tupleFix ts, v, p =>
    match v with
    | .list xs => if xs.length = ts.length then okMap .tuple (parseTuple ts xs 0 p) else mismatch p
    | .tuple xs => if xs.length = ts.length then okMap .tuple (parseTuple ts xs 0 p) else mismatch p
    | _ => mismatch p
  -- `Dict[str, T]`
  | .dict t, v, p =>
    match v with
    | .dict kvs => okMap .dict (mapKV (fun k x => parseValue t x (p ++ [.key k])) kvs)
    | _ => mismatch p
  -- data class
  | .struct name fs, v, p =>
    match v with
    | .dict kvs => structResult name (fieldNames fs) kvs p (parseFields fs kvs p)
    -- `dataclasses.is_dataclass(val)`: parse `{f.name: getattr(val, f.name) for f in fields(val) if f.init}` — the
    -- instance's own items, unconverted (nested instances are handled when their own field is parsed)
    | .inst _ ifs => structResult name (fieldNames fs) ifs p (parseFields fs ifs p)
    | _ => mismatch p
/-- the element loop of a fixed-length tuple (lengths are equal when this is called) -/
def parseTuple : List Ty → List PV → Nat → Path → R (List PV)
  | t :: ts, x :: xs, i, p =>
    match parseValue t x (p ++ [.idx i]) with
    | .error e => .error e
    | .ok y =>
      match parseTuple ts xs (i + 1) p with
      | .error e => .error e
      | .ok ys => .ok (y :: ys)
  | _, _, _, _ => .ok []
/-- the field loop of `_parse_config_struct` followed by `cls(**items)`: one entry per field,
parsed value or default, in field order -/
def parseFields : List Field → List (Str × PV) → Path → R (List (Str × PV))
  | [], _, _ => .ok []
  | (n, t, d) :: fs, kvs, p =>
    match assoc n kvs with
    | some v =>
      match parseValue t v (p ++ [.field n]) with
      | .error e => .error e
      | .ok y =>
        match parseFields fs kvs p with
        | .error e => .error e
        | .ok ys => .ok ((n, y) :: ys)
    | .none =>
      match d with
      | some dv =>
        match parseFields fs kvs p with
        | .error e => .error e
        | .ok ys => .ok ((n, dv) :: ys)
      | .none => .error (.config .missing (p ++ [.field n]))
end

/-- `config_struct_from_dict(data, cls)` for a dict `data` -/
def fromDict (τ : Ty) (data : PV) : R PV := parseValue τ data []

/-! ## the constructor installed by `@configstruct` (`initfn`)

Values given as keyword arguments are validated with `_parse_config_value(value, f.type, [])`
and then stored *unconverted*; missing/unexpected arguments raise `TypeError`. -/

def ctorFields : List Field → List (Str × PV) → R (List (Str × PV))
  | [], _ => .ok []
  | (n, t, d) :: fs, kw =>
    match assoc n kw with
    | some v =>
      match parseValue t v [] with
      | .error e => .error e
      | .ok _ =>
        match ctorFields fs kw with
        | .error e => .error e
        | .ok ys => .ok ((n, v) :: ys)
    | .none =>
      match d with
      | some dv =>
        match ctorFields fs kw with
        | .error e => .error e
        | .ok ys => .ok ((n, dv) :: ys)
      | .none => .error .typeError

def construct (τ : Ty) (kw : List (Str × PV)) : R PV :=
  match τ with
  | .struct name fs =>
    match ctorFields fs kw with
    | .error e => .error e
    | .ok items =>
      match firstUnknown (fieldNames fs) kw with
      | some _ => .error .typeError
      | .none => .ok (.inst name items)
  | _ => .error .typeError

/-! ## `json.dumps(cfg, indent=4)` at the token level

`render` produces the *lines* of the output; the text is `joinLines` of them. -/

def hexDigit (n : Nat) : Nat := if n < 10 then 48 + n else 87 + n   -- lower-case

def u4 (n : Nat) : List Nat :=   -- `\uXXXX`
  [92, 117, hexDigit (n / 4096 % 16), hexDigit (n / 256 % 16), hexDigit (n / 16 % 16), hexDigit (n % 16)]

/-- `json.encoder.py_encode_basestring_ascii` for one code point -/
def escChar (c : Nat) : List Nat :=
  if c = 34 then [92, 34]
  else if c = 92 then [92, 92]
  else if c = 10 then [92, 110]
  else if c = 13 then [92, 114]
  else if c = 9 then [92, 116]
  else if c = 8 then [92, 98]
  else if c = 12 then [92, 102]
  else if 32 ≤ c ∧ c ≤ 126 then [c]
  else if c < 65536 then u4 c
  else u4 (55296 + ((c - 65536) / 1024) % 1024) ++ u4 (56320 + (c - 65536) % 1024)

def escBody : Str → List Nat
  | [] => []
  | c :: cs => escChar c ++ escBody cs

def strLit (s : Str) : List Nat := 34 :: (escBody s ++ [34])

def natDigits (fuel n : Nat) (acc : List Nat) : List Nat :=
  match fuel with
  | 0 => acc
  | fuel + 1 => if n < 10 then (48 + n) :: acc else natDigits fuel (n / 10) ((48 + n % 10) :: acc)

def intLit (n : Int) : List Nat :=
  if n < 0 then 45 :: natDigits (n.natAbs + 1) n.natAbs [] else natDigits (n.natAbs + 1) n.natAbs []

/-- `float.__repr__` with the three non-finite spellings of `json` -/
def floatLit (l : Str) : List Nat :=
  if l = [110, 97, 110] then [78, 97, 78]                                        -- nan → NaN
  else if l = [105, 110, 102] then [73, 110, 102, 105, 110, 105, 116, 121]       -- inf → Infinity
  else if l = [45, 105, 110, 102] then [45, 73, 110, 102, 105, 110, 105, 116, 121]
  else l

def indent (lvl : Nat) : List Nat := List.replicate (4 * lvl) 32

/-- append `suffix` to the last line -/
def suffixLast (suffix : List Nat) : List (List Nat) → List (List Nat)
  | [] => [suffix]
  | [l] => [l ++ suffix]
  | l :: ls => l :: suffixLast suffix ls

/-- prepend `pre` to the first line -/
def prefixFirst (pre : List Nat) : List (List Nat) → List (List Nat)
  | [] => [pre]
  | l :: ls => (pre ++ l) :: ls

mutual
/-- lines of the rendering of a value whose first line starts at the current column -/
def render : Nat → PV → List (List Nat)
  | _, .none => [[110, 117, 108, 108]]
  | _, .bool true => [[116, 114, 117, 101]]
  | _, .bool false => [[102, 97, 108, 115, 101]]
  | _, .int n => [intLit n]
  | _, .flt l => [floatLit l]
  -- placeholder U+E000 n U+E001 for `repr(float(n))`, resolved by the harness (floats are opaque);
  -- the two private-use code points cannot come out of a string literal (non-ASCII is escaped)
  | _, .fltOfInt n => [57344 :: (intLit n ++ [57345])]
  | _, .str s => [strLit s]
  | lvl, .list xs =>
    match xs with
    | [] => [[91, 93]]
    | _ => [91] :: (renderItems (lvl + 1) xs ++ [indent lvl ++ [93]])
  | lvl, .tuple xs =>
    match xs with
    | [] => [[91, 93]]
    | _ => [91] :: (renderItems (lvl + 1) xs ++ [indent lvl ++ [93]])
  | lvl, .dict kvs =>
    match kvs with
    | [] => [[123, 125]]
    | _ => [123] :: (renderPairs (lvl + 1) kvs ++ [indent lvl ++ [125]])
  | _, .inst _ _ => [[63]]    -- not JSON serialisable (`dumpString` rejects it before rendering)
def renderItems : Nat → List PV → List (List Nat)
  | _, [] => []
  | lvl, [x] => prefixFirst (indent lvl) (render lvl x)
  | lvl, x :: xs => suffixLast [44] (prefixFirst (indent lvl) (render lvl x)) ++ renderItems lvl xs
def renderPairs : Nat → List (Str × PV) → List (List Nat)
  | _, [] => []
  | lvl, [(k, v)] => prefixFirst (indent lvl ++ strLit k ++ [58, 32]) (render lvl v)
  | lvl, (k, v) :: kvs =>
    suffixLast [44] (prefixFirst (indent lvl ++ strLit k ++ [58, 32]) (render lvl v)) ++ renderPairs lvl kvs
end

mutual
/-- JSON data: no tuples, no instances (what `load_config_string` can return) -/
def isJson : PV → Bool
  | .list xs => isJsonL xs
  | .tuple _ => false
  | .dict kvs => isJsonK kvs
  | .inst _ _ => false
  | _ => true
def isJsonL : List PV → Bool
  | [] => true
  | x :: xs => isJson x && isJsonL xs
def isJsonK : List (Str × PV) → Bool
  | [] => true
  | (_, v) :: kvs => isJson v && isJsonK kvs
end

mutual
/-- serialisable by `json.dumps`: everything but instances -/
def dumpable : PV → Bool
  | .list xs => dumpableL xs
  | .tuple xs => dumpableL xs
  | .dict kvs => dumpableK kvs
  | .inst _ _ => false
  | _ => true
def dumpableL : List PV → Bool
  | [] => true
  | x :: xs => dumpable x && dumpableL xs
def dumpableK : List (Str × PV) → Bool
  | [] => true
  | (_, v) :: kvs => dumpable v && dumpableK kvs
end

/-- `dump_config_string` -/
def dumpString (cfg : PV) : R (List Nat) :=
  match cfg with
  | .dict _ => if dumpable cfg then .ok (joinLines (render 0 cfg)) else .error .typeError
  | _ => .error (.config .toplevel [])

/-! ## structural equality as a Boolean (no `DecidableEq` for the nested inductive) -/

mutual
def PV.beq : PV → PV → Bool
  | .none, .none => true
  | .bool a, .bool b => a == b
  | .int a, .int b => a == b
  | .flt a, .flt b => a == b
  | .fltOfInt a, .fltOfInt b => a == b
  | .str a, .str b => a == b
  | .list a, .list b => beqL a b
  | .tuple a, .tuple b => beqL a b
  | .dict a, .dict b => beqK a b
  | .inst c a, .inst d b => c == d && beqK a b
  | _, _ => false
def beqL : List PV → List PV → Bool
  | [], [] => true
  | x :: xs, y :: ys => PV.beq x y && beqL xs ys
  | _, _ => false
def beqK : List (Str × PV) → List (Str × PV) → Bool
  | [], [] => true
  | (k, x) :: xs, (l, y) :: ys => k == l && PV.beq x y && beqK xs ys
  | _, _ => false
end

/-! ## well-formed type descriptors

Field names are distinct and every default is a fixed point of the round trip
(`parseValue τ (toDict d) = ok d`): this is what `dataclasses` plus sensible defaults give and
what the generated descriptors (`Gen/CfgDefs.lean`) are checked for. -/

def defaultOk (pv : R PV) (d : PV) : Bool :=
  match pv with
  | .ok v => PV.beq v d
  | .error _ => false

mutual
def wf : Ty → Bool
  | .opt t => wf t
  | .list t => wf t
  | .tupleVar t => wf t
  | .tupleFix ts => wfL ts
  | .dict t => wf t
  | .struct _ fs => !hasDup (fieldNames fs) && wfF fs
  | _ => true
def wfL : List Ty → Bool
  | [] => true
  | t :: ts => wf t && wfL ts
def wfF : List Field → Bool
  | [] => true
  | (_, t, d) :: fs =>
    wf t && wfF fs &&
    match d with
    | .none => true
    | some dv => defaultOk (parseValue t (toDict dv) []) dv
end

end QmiModel.Config
