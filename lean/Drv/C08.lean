import QmiModel.Model.PubSubDrv
import Drv.Common
/-! C08 driver: replays subscription / removal / disconnect histories on `QmiModel.PubSub.step` and dumps the tables -/
def main : IO Unit := Drv.main' QmiModel.PubSub.Drv.stepLine QmiModel.PubSub.State.init
