import QmiModel.Model.Frame
import Drv.Common
/-! Line-protocol driver for the C06 model (`QmiModel.Frame`).  One output line per input line.

```
init <ctx> <max> <ver>                         -> ok          (new world: own context name, MAX_MESSAGE_SIZE, own version)
esz <payloadhex> <ud|rf|nl> <size>             -> ok          (pickled size of the error reply for that request / failure kind)
hadd <obj> <accept|refuse|crash|crashOnErr|refuseReq> / hdel <obj>   -> ok
def <payloadhex> hs <name|-> <ver> <0|1> | msg <q|p|e|o> <rid> <sctx> <sobj> <dctx> <dobj> <tag> | notmsg | undec -> ok
accept <id> <sendOk>                           -> <events> | <state>
recv <id> <hex|->                              -> <events> | <state>       ("-" = recv returned b"")
send <q|p|e|o> <rid> <sobj> <dctx> <dobj> <tag> <payloadhex> <sendOk>     -> <events>
disc <name>                                    -> <events> | exc:QMI_UnknownNameException
connect <id> <name> (<asked>:<chunkhex>)*       -> <events> | ok|exc:<err> | <state> | reqs=ok|<model's request sizes>
closeall                                       -> <events>     (_SocketManager.close_all)
state <id> / peers / frame <hex>
```
-/
open QmiModel.Frame

namespace C06

def parseName (s : String) : Option (Option Name) :=
  if s == "-" then some none
  else match s.toList with
    | 'n' :: ds => (String.ofList ds).toNat?.map (fun k => some (Name.ctx k))
    | 'c' :: ds => (String.ofList ds).toNat?.map (fun k => some (Name.client k))
    | 'd' :: ds => (String.ofList ds).toNat?.map (fun k => some (Name.dollar k))
    | _ => none

def parseName1 (s : String) : Option Name :=
  match parseName s with
  | some (some n) => some n
  | _ => none

def showName : Name → String
  | .ctx k => s!"n{k}"
  | .client k => s!"c{k}"
  | .dollar k => s!"d{k}"

def showOName : Option Name → String
  | none => "-"
  | some n => showName n

def parseKind : String → Option Kind
  | "q" => some .request | "p" => some .reply | "e" => some .errReply | "o" => some .other | _ => none

def showKind : Kind → String
  | .request => "q" | .reply => "p" | .errReply => "e" | .other => "o"

def parseHKind : String → Option HKind
  | "accept" => some .accept | "refuse" => some .refuse | "crash" => some .crash
  | "crashOnErr" => some .crashOnErr | "refuseReq" => some .refuseReq | _ => none

def parseBool : String → Option Bool
  | "0" => some false | "1" => some true | _ => none

def showBody : Body → String
  | .tag n => s!"t{n}"
  | .closedWaiting p => s!"cw{showOName p}"
  | .unknownDest => "ud" | .nonLocal => "nl" | .refused => "rf" | .unknownCtx => "uc" | .sendFailed => "sf"

def parseBody : String → Option Body
  | "ud" => some .unknownDest | "nl" => some .nonLocal | "rf" => some .refused | _ => none

def showMsg (m : Msg) : String :=
  s!"{showKind m.kind},{m.rid},{showName m.src.ctx},{m.src.obj},{showName m.dst.ctx},{m.dst.obj},{showBody m.body}"

def showWhy : Why → String
  | .marker => "marker" | .oversize => "oversize" | .undecodable => "undecodable" | .notMessage => "notmsg"
  | .expectedHandshake => "nohs" | .serverHsFromClient => "hsdir-server" | .clientHsAsClient => "hsdir-client"
  | .secondHandshake => "hs2" | .badDestination => "baddst" | .badSource => "badsrc"
  | .badHandshakeName => "hsname"

def showBeh : Behaviour → String
  | .accept => "a" | .refuse => "r" | .crash => "c"

def showEv : Ev → String
  | .deliver m b => s!"D:{showMsg m}:{showBeh b}"
  | .undeliverable m b => s!"U:{showMsg m}:{showBody b}"
  | .sentErr m => s!"E:{showMsg m}"
  | .sent f => s!"S:{Drv.hex f}"
  | .sentHs sv => s!"H:{if sv then 1 else 0}"
  | .versionWarning => "V"
  | .violation w => s!"X:{showWhy w}"
  | .eof => "Z"
  | .removed a => s!"R:{showName a}"
  | .escaped => "!"

def showEvs (es : List Ev) : String :=
  if es.isEmpty then "-" else " ".intercalate (es.map showEv)

def showPend (l : List (Nat × Addr × Addr)) : String :=
  if l.isEmpty then "-" else
  ",".intercalate (l.map fun e => s!"{e.1}/{e.2.1.obj}/{showName e.2.2.ctx}/{e.2.2.obj}")

def showState (w : World) (id : Nat) : String :=
  match w.conns.lookup id with
  | none => "noconn"
  | some c =>
    let known := (w.peers.lookup c.st.alias) == some id
    let ver := match c.st.ver with | none => "-" | some v => toString v
    s!"closed={if c.closed then 1 else 0} buf={c.buf.length} alias={showName c.st.alias} peer={showOName c.st.peer} ver={ver} pend={showPend c.st.pending} known={if known then 1 else 0}"

def showHsErr : HsErr → String
  | .marker => "marker" | .oversize => "oversize" | .eofBeforeHandshake => "eof"
  | .proc w => showWhy w | .peerNone => "peernone" | .needMore => "needmore"

def showConnectErr : ConnectErr → String
  | .invalidName => "invalidname" | .duplicate => "duplicate" | .hs e => showHsErr e | .wrongName => "wrongname"

def parseDecoded : List String → Option Decoded
  | ["hs", n, v, sv] => do
    let n ← parseName n; let v ← v.toNat?; let sv ← parseBool sv
    pure (.handshake n v sv)
  | ["msg", k, rid, sc, so, dc, dobj, tag] => do
    let k ← parseKind k; let rid ← rid.toNat?; let sc ← parseName1 sc; let so ← so.toNat?
    let dc ← parseName1 dc; let dobj ← dobj.toNat?; let tag ← tag.toNat?
    pure (.msg { kind := k, rid, src := ⟨sc, so⟩, dst := ⟨dc, dobj⟩, body := .tag tag })
  | ["notmsg"] => some .notMessage
  | ["undec"] => some .undecodable
  | _ => none

def unhexAll : List String → Option (List Bytes)
  | [] => some []
  | s :: rest => do
    let b ← Drv.unhex s
    let bs ← unhexAll rest
    pure (b :: bs)

def parseReqChunks : List String → Option (List (Nat × Bytes))
  | [] => some []
  | s :: rest => do
    match s.splitOn ":" with
    | [n, hx] =>
      let n ← n.toNat?
      let b ← Drv.unhex hx
      let bs ← parseReqChunks rest
      pure ((n, b) :: bs)
    | _ => none

def stepLine (w : World) (line : String) : World × String :=
  match line.splitOn " " with
  | ["init", n, mx, ver] =>
    match parseName1 n, mx.toNat?, ver.toNat? with
    | some n, some mx, some ver => (World.init n mx ver, "ok")
    | _, _, _ => (w, "bad-op")
  | ["esz", hx, b, sz] =>
    match Drv.unhex hx, parseBody b, sz.toNat? with
    | some p, some b, some sz =>
      let old := w.env.errSize
      ({ w with env := { w.env with errSize := fun q c => if q == p && c == b then sz else old q c } }, "ok")
    | _, _, _ => (w, "bad-op")
  | ["hadd", obj, hk] =>
    match obj.toNat?, parseHKind hk with
    | some o, some h =>
      ({ w with env := { w.env with handlers := (o, h) :: w.env.handlers.filter (fun e => e.1 != o) } }, "ok")
    | _, _ => (w, "bad-op")
  | ["hdel", obj] =>
    match obj.toNat? with
    | some o => ({ w with env := { w.env with handlers := w.env.handlers.filter (fun e => e.1 != o) } }, "ok")
    | none => (w, "bad-op")
  | "def" :: hx :: rest =>
    match Drv.unhex hx, parseDecoded rest with
    | some p, some d =>
      let old := w.env.decode
      ({ w with env := { w.env with decode := fun q => if q == p then d else old q } }, "ok")
    | _, _ => (w, "bad-op")
  | ["accept", id, ok] =>
    match id.toNat?, parseBool ok with
    | some id, some ok =>
      let r := w.accept id ok
      (r.1, s!"{showEvs r.2} | {showState r.1 id}")
    | _, _ => (w, "bad-op")
  | ["recv", id, hx] =>
    match id.toNat?, Drv.unhex hx with
    | some id, some d =>
      let r := w.recv id d
      (r.1, s!"{showEvs r.2} | {showState r.1 id}")
    | _, _ => (w, "bad-op")
  | ["send", k, rid, so, dc, dobj, tag, hx, ok] =>
    match parseKind k, rid.toNat?, so.toNat?, parseName1 dc, dobj.toNat?, tag.toNat?, Drv.unhex hx, parseBool ok with
    | some k, some rid, some so, some dc, some dobj, some tag, some p, some ok =>
      let m : Msg := { kind := k, rid, src := ⟨w.env.ctxName, so⟩, dst := ⟨dc, dobj⟩, body := .tag tag }
      let r := w.send m p ok
      (r.1, showEvs r.2)
    | _, _, _, _, _, _, _, _ => (w, "bad-op")
  | ["disc", n] =>
    match parseName1 n with
    | some n =>
      match w.disconnect n with
      | some r => (r.1, showEvs r.2)
      | none => (w, "exc:QMI_UnknownNameException")
    | none => (w, "bad-op")
  | "connect" :: id :: n :: chunks =>
    match id.toNat?, parseName1 n, parseReqChunks chunks with
    | some id, some n, some rc =>
      let chunks := rc.map (·.2)
      let r := w.connect id n chunks
      let res := match r.2.2 with | none => "ok" | some e => s!"exc:{showConnectErr e}"
      -- the byte counts the real code asked recv for must be the model's
      let reqs := if r.2.2 == some .invalidName || r.2.2 == some .duplicate then []
                  else recvHsReqs w.env [] chunks
      let rq := if reqs == rc.map (·.1) then "reqs=ok" else s!"reqs={reqs}"
      (r.1, s!"{showEvs r.2.1} | {res} | {showState r.1 id} | {rq}")
    | _, _, _ => (w, "bad-op")
  | ["closeall"] =>
    let r := w.closeAll
    (r.1, showEvs r.2)
  | ["state", id] =>
    match id.toNat? with
    | some id => (w, showState w id)
    | none => (w, "bad-op")
  | ["peers"] => (w, if w.peers.isEmpty then "-" else " ".intercalate (w.peers.map fun e => s!"{showName e.1}={e.2}"))
  | ["frame", hx] =>
    match Drv.unhex hx with
    | some p => (w, Drv.hex (frame p))
    | none => (w, "bad-op")
  | _ => (w, "bad-op")

end C06

def main : IO Unit := Drv.main' C06.stepLine (World.init (.ctx 0) 0 0)
