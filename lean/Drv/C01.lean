import QmiModel.Model.Rpc
import Drv.Common
import Std.Data.HashSet
/-!
Driver for the C01 model.

Two services, one line each:

* `run <cfg> <attrs> <acts>` — replay a history of model actions; answer `ok <results>` or `disabled <index>`.
* `explore <cfg> <attrs> <threads>` — exhaustive exploration of the model for a small scenario given as
  program-ordered threads (callers and a fault thread) interleaved with all internal actions; answers the sorted
  set of reachable terminal outcome vectors (`v` value, `e` exception, `l` locked, `d` delivery error, `-` no
  outcome: the call hangs or was never issued).  Used by the harness to validate the model against the outcome
  vectors the real code produces under the deterministic scheduler (bounded exploration = validation of the
  model, never a substitute for the theorems).

`<cfg>` = three bits `lockCrash pickleEscapes oversizeReplyDropped` + optionally a fourth `sendLocked` (explore only); `<attrs>` = `r:place:argsOk:resOk:resBig:crash,…`.
-/
open QmiModel.Rpc

inductive TStep
  | call (r : ReqId)        -- issue + send (blocking callers follow with `wait`)
  | wait (r : ReqId)        -- blocks until the future of r is set
  | act (a : Act)           -- an environment action
  | joinW                   -- RpcObjectManager.stop: join the worker thread
  | joinB | joinA           -- MessageRouter.stop: join the event-loop thread
  | waitDisc                -- run_in_thread_wait(disconnect): until A's closeAll has been processed
  deriving Repr

structure Key where
  flags : List Bool
  phase : Phase
  fifo : List ReqId
  bSock : Sock
  bQ : List Cb
  aSock : Sock
  aQ : List Cb
  pendA : List ReqId
  wireAB : List Msg
  wireBA : List Msg
  unsent : List ReqId
  checked : List ReqId
  res : List (Option Outcome)
  progs : List (List Nat)     -- remaining length of each thread program
  deriving BEq, Hashable

def parseBool (s : String) : Bool := s == "1"

def parseCfg (s : String) : Cfg :=
  match s.toList with
  | a :: b :: c :: _ => ⟨a == '1', b == '1', c == '1'⟩
  | _ => Cfg.pinned

/-- fourth configuration character: the router's send/stop lock is present (`ReachL`): `stopA` waits while a sender
    is between its check and its hand-over -/
def parseLocked (s : String) : Bool :=
  match s.toList with
  | [_, _, _, d] => d == '1'
  | _ => false

def parseAttrs (s : String) : ReqId → Attr :=
  let ents := (s.splitOn ",").filterMap fun e =>
    match e.splitOn ":" with
    | [r, p, a, b, c, d] =>
      match r.toNat? with
      | some rn => some (rn, (⟨if p == "loc" then .loc else .rem, parseBool a, parseBool b, parseBool c, parseBool d⟩ : Attr))
      | none => none
    | _ => none
  fun r => match ents.find? (fun e => e.1 == r) with
    | some e => e.2
    | none => ⟨.loc, true, true, false, false⟩

def parseOutcome : String → Option Outcome
  | "value" => some .value | "exc" => some .exc | "locked" => some .locked | "deliveryErr" => some .deliveryErr
  | _ => none

def parseAct (w : String) : Option Act :=
  match w.splitOn ":" with
  | ["issue", r] => r.toNat?.map .issue
  | ["send", r] => r.toNat?.map .send
  | ["enq", r] => r.toNat?.map .enq
  | ["finish", o] => (parseOutcome o).map .finish
  | ["unregister"] => some .unregister | ["stop1"] => some .stop1 | ["stop2"] => some .stop2
  | ["stopB"] => some .stopB | ["stopA"] => some .stopA | ["discA"] => some .discA
  | ["loopA"] => some .loopA | ["loopExitA"] => some .loopExitA | ["recvA"] => some .recvA | ["eofA"] => some .eofA
  | ["loopB"] => some .loopB | ["loopExitB"] => some .loopExitB | ["recvB"] => some .recvB | ["eofB"] => some .eofB
  | ["pop"] => some .pop | ["drain"] => some .drain
  | _ => none

def parseTStep (w : String) : Option TStep :=
  match w.splitOn ":" with
  | ["call", r] => r.toNat?.map .call
  | ["wait", r] => r.toNat?.map .wait
  | ["joinW"] => some .joinW | ["joinB"] => some .joinB | ["joinA"] => some .joinA | ["waitDisc"] => some .waitDisc
  | _ => (parseAct w).map .act

def outChar : Option Outcome → String
  | some .value => "v" | some .exc => "e" | some .locked => "l" | some .deliveryErr => "d" | none => "-"

def resVec (s : State) (n : Nat) : String :=
  String.join ((List.range n).map fun r => outChar (s.result r))

/-- one thread step: `none` = blocked/disabled -/
def tstep (cfg : Cfg) (locked : Bool) (attr : ReqId → Attr) (s : State) : TStep → Option State
  | .call r => match step cfg attr s (.issue r) with
    | some s1 => step cfg attr s1 (.send r)
    | none => none
  | .wait r => if (s.result r).isSome then some s else none
  | .act a => if locked && a == .stopA && !s.checked.isEmpty then none else step cfg attr s a
  | .joinW => match s.phase with
    | .drained => some s
    | .crashed => some s
    | _ => none
  | .joinB => if s.bSock == .down then some s else none
  | .joinA => if s.aSock == .down then some s else none
  | .waitDisc => if s.connA then none else some s

def internalActs (s : State) : List Act :=
  [.loopA, .loopExitA, .recvA, .eofA, .loopB, .loopExitB, .recvB, .eofB, .pop, .drain,
   .finish .value] ++ s.checked.map .enq

def mkKey (s : State) (n : Nat) (progs : List (List TStep)) : Key :=
  { flags := [s.registered, s.running, s.shutdown, s.bRouter, s.aRouter, s.connA, s.connB],
    phase := s.phase, fifo := s.fifo, bSock := s.bSock, bQ := s.bQ, aSock := s.aSock, aQ := s.aQ, pendA := s.pendA,
    wireAB := s.wireAB, wireBA := s.wireBA, unsent := s.unsent, checked := s.checked,
    res := (List.range n).map s.result, progs := progs.map (fun p => [p.length]) }

/-- the outcome the worker produces for request r is fixed by the scenario (`outs`), so `finish` is deterministic -/
def finishAct (outs : List Outcome) (s : State) : Act :=
  match s.phase with
  | .busy r => .finish (outs.getD r .value)
  | _ => .finish .value

partial def explore (cfg : Cfg) (locked : Bool) (attr : ReqId → Attr) (n : Nat) (outs : List Outcome)
    (todo : List (State × List (List TStep))) (seen : Std.HashSet Key) (term : Std.HashSet String)
    (budget : Nat) : Std.HashSet String × Nat :=
  match todo with
  | [] => (term, seen.size)
  | (s, progs) :: rest =>
    if budget == 0 then (term.insert "BUDGET", seen.size) else
    let k := mkKey s n progs
    if seen.contains k then explore cfg locked attr n outs rest seen term budget else
    let seen := seen.insert k
    -- successors by internal actions
    let acts := (internalActs s).map (fun a => match a with | .finish _ => finishAct outs s | a => a)
    let succI := acts.filterMap (fun a => (step cfg attr s a).map (fun s' => (s', progs)))
    -- successors by thread steps
    let idxs := List.range progs.length
    let succT := idxs.filterMap fun i =>
      match progs[i]? with
      | some (t :: ts) => (tstep cfg locked attr s t).map (fun s' => (s', progs.set i ts))
      | _ => none
    let succ := succI ++ succT
    if succ.isEmpty then
      explore cfg locked attr n outs rest seen (term.insert (resVec s n)) (budget - 1)
    else
      explore cfg locked attr n outs (succ ++ rest) seen term (budget - 1)

def insertSorted (x : String) : List String → List String
  | [] => [x]
  | y :: ys => if x ≤ y then x :: y :: ys else y :: insertSorted x ys

def sortStrings (l : List String) : List String := l.foldl (fun acc x => insertSorted x acc) []

def stepLine (_ : Unit) (line : String) : Unit × String :=
  match line.splitOn " " with
  | "run" :: cfgS :: attrS :: acts =>
    let cfg := parseCfg cfgS
    let attr := parseAttrs attrS
    let rec go (s : State) (i : Nat) : List String → String
      | [] => s!"ok {resVec s 8} quiet={quietStr s}"
      | w :: ws => match parseAct w with
        | none => s!"bad-op {i}"
        | some a => match step cfg attr s a with
          | some s' => go s' (i + 1) ws
          | none => s!"disabled {i}"
    ((), go init 0 acts)
  | ["explore", cfgS, attrS, nS, outS, thrS] =>
    let cfg := parseCfg cfgS
    let attr := parseAttrs attrS
    let n := nS.toNat?.getD 0
    let outs := (outS.splitOn ",").filterMap parseOutcome
    let progsO := (thrS.splitOn "|").map fun t => (t.splitOn ",").filter (· ≠ "") |>.map parseTStep
    if progsO.any (fun p => p.any Option.isNone) then ((), "bad-op") else
    let progs := progsO.map (fun p => p.filterMap id)
    let (term, states) := explore cfg (parseLocked cfgS) attr n outs [(init, progs)] {} {} 2000000
    ((), s!"{String.intercalate ";" (sortStrings term.toList)} states={states}")
  | _ => ((), "bad-op")
where
  quietStr (s : State) : String :=
    -- same decidable condition as Props.C01.quietB (kept textual here: the driver must not import proof files)
    toString (s.unsent.isEmpty && s.checked.isEmpty)

def main : IO Unit := Drv.main' stepLine ()
