import QmiModel.Model.Lock
import Drv.Common
/-!
Line protocol of the C04 model driver (one output line per input line):

  init <srvname> <nonce>    -> ok                (fresh system; instance 0 = owning context; nonce = its `_instance_id`)
  ctx <name> <nonce>        -> <idx>             (new context instance)
  proxy <ctxidx>            -> <idx> | bad-op    (new proxy in that context)
  lock <p> -|=<custom>      -> true|false|hang|exc:QMI_UsageException
  unlock <p> -|=<custom>    -> true|false|hang
  force <p>                 -> ok|hang
  islocked <p>              -> true|false|hang
  call <p> b|n              -> ran <count>|locked|hang     (b = blocking proxy, n = rpc_nonblocking + wait)
  burn <ctxidx>             -> ok                (make_unique_token() used up for another object)
  lockretry <p> -|=<custom> <timeout_ms> <release_ms> <q>
                            -> <result> <requests sent>   (lock(timeout>0) with a 100 ms period while proxy q calls
                               unlock() after release_ms; release_ms must not be a multiple of 100)
  mktoken <name> <nonce> <n> -> ctx/token         (the automatic token for counter value n)
  burnto <ctxidx> <n>       -> ok | bad-op       (shorthand for n - counter consecutive `burn`s; never decreases)
  recreate                  -> ok                (object removed and created again under the same name)
  stopctx <ctxidx>          -> ok                (client context stopped)
  tok <p>                   -> <tok> <nbtok>     (the proxy's two remembered tokens, `-` or ctx/token)
  owner                     -> - | ctx/token     (`_locking_token`)
  counter <ctxidx>          -> <n>
  probe                     -> alive <count> | dead:<PyExc>
  req <act> <tok>           -> <reply tok> <owner after> | hang    (one raw lock request delivered to the worker;
                               act = acquire|release|force|query, tok = - or ctx/token; used by the schedule family)
  mreq <tok>                -> ran <count>|locked|hang             (one raw method request delivered to the worker)
-/
open QmiModel.Lock

def showTok : Option Token → String
  | none => "-"
  | some t => t.ctx ++ "/" ++ t.tok

def parseCustom (s : String) : Option (Option String) :=
  if s == "-" then some none
  else match s.toList with
    | '=' :: rest => some (some (String.ofList rest))
    | _ => none

def parseTok (s : String) : Option (Option Token) :=
  if s == "-" then some none
  else match s.splitOn "/" with
    | c :: t :: rest => some (some ⟨c, "/".intercalate (t :: rest)⟩)
    | _ => none

def parseAct : String → Option Act
  | "acquire" => some .acquire
  | "release" => some .release
  | "force" => some .forceRelease
  | "query" => some .query
  | _ => none

def showOut : Out → String
  | .idx n => toString n
  | .unit => "ok"
  | .bool b => toString b
  | .ran n => s!"ran {n}"
  | .locked => "locked"
  | .hang => "hang"
  | .usage => "exc:QMI_UsageException"
  | .bad => "bad-op"

def doOp (s : Sys) (o : Op) : Sys × String :=
  let (s', out) := step s o
  (s', showOut out)

def stepLine (s : Sys) (line : String) : Sys × String :=
  match line.splitOn " " with
  | ["init", srv, nonce] => (init srv nonce, "ok")
  | ["ctx", name, nonce] => doOp s (.newCtx name nonce)
  | ["proxy", c] => match c.toNat? with | some c => doOp s (.newProxy c) | none => (s, "bad-op")
  | ["lock", p, t] =>
    match p.toNat?, parseCustom t with
    | some p, some c => doOp s (.lock p c)
    | _, _ => (s, "bad-op")
  | ["unlock", p, t] =>
    match p.toNat?, parseCustom t with
    | some p, some c => doOp s (.unlock p c)
    | _, _ => (s, "bad-op")
  | ["force", p] => match p.toNat? with | some p => doOp s (.forceUnlock p) | none => (s, "bad-op")
  | ["islocked", p] => match p.toNat? with | some p => doOp s (.isLocked p) | none => (s, "bad-op")
  | ["call", p, k] =>
    match p.toNat?, k with
    | some p, "b" => doOp s (.call p false)
    | some p, "n" => doOp s (.call p true)
    | _, _ => (s, "bad-op")
  | ["lockretry", p, t, tmo, rel, q] =>
    match p.toNat?, parseCustom t, tmo.toNat?, rel.toNat?, q.toNat? with
    | some p, some c, some tmo, some rel, some q =>
      let k := iters tmo 100 (fun _ => 0) (tmo + 1) 0 0
      let j := rel / 100 + 1
      let envs : List (List Op) := (List.range k).map (fun i => if i + 1 = j then [Op.unlock q none] else [])
      let r := proxyLockRetry s p c envs
      (r.1, showOut r.2.1 ++ " " ++ toString r.2.2)
    | _, _, _, _, _ => (s, "bad-op")
  | ["mktoken", name, nonce, n] =>
    match n.toNat? with
    | some n => (s, showTok (some (mkToken name (if nonce == "-" then "" else nonce) n)))
    | none => (s, "bad-op")
  | ["burnto", c, n] =>
    -- the counter of context c after (n - counter) further `burn`s (e.g. that many denied lock() calls on another object)
    match c.toNat?, n.toNat? with
    | some c, some n =>
      match s.ctxs[c]? with
      | some cx => if cx.counter ≤ n then ({ s with ctxs := s.ctxs.set c { cx with counter := n } }, "ok") else (s, "bad-op")
      | none => (s, "bad-op")
    | _, _ => (s, "bad-op")
  | ["recreate"] => doOp s .recreate
  | ["stopctx", c] => match c.toNat? with | some c => doOp s (.stopCtx c) | none => (s, "bad-op")
  | ["burn", c] => match c.toNat? with | some c => doOp s (.burn c) | none => (s, "bad-op")
  | ["tok", p] =>
    match p.toNat? with
    | some p => match s.proxies[p]? with
      | some px => (s, showTok px.tok ++ " " ++ showTok px.nbTok)
      | none => (s, "bad-op")
    | none => (s, "bad-op")
  | ["req", a, t] =>
    match parseAct a, parseTok t with
    | some a, some t =>
      match lockRequest s a t with
      | (s', none) => (s', "hang")
      | (s', some rep) => (s', showTok rep ++ " " ++ showTok s'.owner)
    | _, _ => (s, "bad-op")
  | ["mreq", t] =>
    match parseTok t with
    | some t => let r := callRequest s t; (r.1, showOut r.2)
    | none => (s, "bad-op")
  | ["owner"] => (s, showTok s.owner)
  | ["counter", c] =>
    match c.toNat? with
    | some c => match s.ctxs[c]? with
      | some cx => (s, toString cx.counter)
      | none => (s, "bad-op")
    | none => (s, "bad-op")
  | ["probe"] =>
    match s.dead with
    | none => (s, s!"alive {s.count}")
    | some e => (s, "dead:" ++ e.name)
  | _ => (s, "bad-op")

def main : IO Unit := Drv.main' stepLine (init "srv" "0")
