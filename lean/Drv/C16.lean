import QmiModel.Model.Config
import QmiModel.Model.ConfigCheck
import Drv.Common
/-!
Line-protocol driver for the C16 model (configuration loading).

Tokens are separated by single spaces.

values  `N` None | `T`/`F` bool | `I<int>` | `D<repr>` float | `X<int>` float(int) | `S<cp,cp,…>` str |
        `L<n> v…` list | `U<n> v…` tuple | `M<n> (S<key> v)…` dict | `O<n> S<cls> (S<name> v)…` instance
types   `i f s b a` | `x y z` (untyped list / Tuple / dict) | `o τ` | `l τ` | `v τ` (Tuple[τ, ...]) | `t<n> τ…` | `d τ` |
        `c<n> S<name> (S<field> τ (`-` | `= v`))…`
raw     `i f s b a` | `N` NoneType | `x y z` | `Y` builtin tuple | `?` anything else | `u<n> ρ…` Union |
        `l ρ` | `v ρ` | `t<n> ρ…` | `d ρkey ρ` | `c<n> S<name> (S<field> ρ (`-` | `= v`) (`+` | `!`))…`  (`!` = init=False)
ops     `rty ρ` (select the raw type) · `rcheck` · `rparse v` · `rfrom v` · `choose (S…|-) (S…|-)` · `setkey S… v v` · `applyctx contexts cfg`
        `ty τ` (select the type) · `wf` · `parse v` · `ctor v` · `todict v` · `strip S…` · `line S…` ·
        `hook v` · `dump v`
-/
open QmiModel.Config

namespace Drv.C16

def tail (s : String) : String := String.ofList (s.toList.drop 1)

def head? (s : String) : Option Char := s.toList.head?

def pStr (tok : String) : Option Str :=
  match tok.toList with
  | 'S' :: rest =>
    if rest.isEmpty then some []
    else ((String.ofList rest).splitOn ",").mapM (fun t => t.toNat?)
  | _ => none

mutual
partial def pVal : List String → Option (PV × List String)
  | [] => none
  | tok :: rest =>
    match tok.toList with
    | ['N'] => some (.none, rest)
    | ['T'] => some (.bool true, rest)
    | ['F'] => some (.bool false, rest)
    | 'I' :: ds => (String.ofList ds).toInt?.map (fun n => (.int n, rest))
    | 'X' :: ds => (String.ofList ds).toInt?.map (fun n => (.fltOfInt n, rest))
    | 'D' :: ds => if ds.isEmpty then none else some (.flt (ds.map Char.toNat), rest)
    | 'S' :: _ => (pStr tok).map (fun s => (.str s, rest))
    | 'L' :: ds => do
      let n ← (String.ofList ds).toNat?
      let (xs, r) ← pVals n rest
      pure (.list xs, r)
    | 'U' :: ds => do
      let n ← (String.ofList ds).toNat?
      let (xs, r) ← pVals n rest
      pure (.tuple xs, r)
    | 'M' :: ds => do
      let n ← (String.ofList ds).toNat?
      let (kvs, r) ← pPairs n rest
      pure (.dict kvs, r)
    | 'O' :: ds => do
      let n ← (String.ofList ds).toNat?
      match rest with
      | nameTok :: rest' =>
        let name ← pStr nameTok
        let (kvs, r) ← pPairs n rest'
        pure (.inst name kvs, r)
      | [] => none
    | _ => none
partial def pVals : Nat → List String → Option (List PV × List String)
  | 0, r => some ([], r)
  | n + 1, r => do
    let (x, r1) ← pVal r
    let (xs, r2) ← pVals n r1
    pure (x :: xs, r2)
partial def pPairs : Nat → List String → Option (List (Str × PV) × List String)
  | 0, r => some ([], r)
  | n + 1, r =>
    match r with
    | kTok :: r0 => do
      let k ← pStr kTok
      let (x, r1) ← pVal r0
      let (xs, r2) ← pPairs n r1
      pure ((k, x) :: xs, r2)
    | [] => none
end

mutual
partial def pTy : List String → Option (Ty × List String)
  | [] => none
  | tok :: rest =>
    match tok.toList with
    | ['i'] => some (.int, rest)
    | ['f'] => some (.float, rest)
    | ['s'] => some (.str, rest)
    | ['b'] => some (.bool, rest)
    | ['a'] => some (.any, rest)
    | ['x'] => some (.listAny, rest)
    | ['y'] => some (.tupleAny, rest)
    | ['z'] => some (.dictAny, rest)
    | ['n'] => some (.never, rest)
    | ['o'] => (pTy rest).map (fun (t, r) => (.opt t, r))
    | ['l'] => (pTy rest).map (fun (t, r) => (.list t, r))
    | ['v'] => (pTy rest).map (fun (t, r) => (.tupleVar t, r))
    | ['d'] => (pTy rest).map (fun (t, r) => (.dict t, r))
    | 't' :: ds => do
      let n ← (String.ofList ds).toNat?
      let (ts, r) ← pTys n rest
      pure (.tupleFix ts, r)
    | 'c' :: ds => do
      let n ← (String.ofList ds).toNat?
      match rest with
      | nameTok :: rest' =>
        let name ← pStr nameTok
        let (fs, r) ← pFields n rest'
        pure (.struct name fs, r)
      | [] => none
    | _ => none
partial def pTys : Nat → List String → Option (List Ty × List String)
  | 0, r => some ([], r)
  | n + 1, r => do
    let (t, r1) ← pTy r
    let (ts, r2) ← pTys n r1
    pure (t :: ts, r2)
partial def pFields : Nat → List String → Option (List Field × List String)
  | 0, r => some ([], r)
  | n + 1, r =>
    match r with
    | fTok :: r0 => do
      let f ← pStr fTok
      let (t, r1) ← pTy r0
      match r1 with
      | "-" :: r2 =>
        let (fs, r3) ← pFields n r2
        pure ((f, t, none) :: fs, r3)
      | "=" :: r2 =>
        let (d, r3) ← pVal r2
        let (fs, r4) ← pFields n r3
        pure ((f, t, some d) :: fs, r4)
      | _ => none
    | [] => none
end

mutual
partial def pRaw : List String → Option (RawTy × List String)
  | [] => none
  | tok :: rest =>
    match tok.toList with
    | ['i'] => some (.int, rest)
    | ['f'] => some (.float, rest)
    | ['s'] => some (.str, rest)
    | ['b'] => some (.bool, rest)
    | ['a'] => some (.any, rest)
    | ['N'] => some (.noneType, rest)
    | ['x'] => some (.bareList, rest)
    | ['y'] => some (.bareTuple, rest)
    | ['z'] => some (.bareDict, rest)
    | ['Y'] => some (.builtinTuple, rest)
    | ['?'] => some (.other, rest)
    | ['l'] => (pRaw rest).map (fun (t, r) => (.listOf t, r))
    | ['v'] => (pRaw rest).map (fun (t, r) => (.tupleVar t, r))
    | ['d'] => do
      let (k, r1) ← pRaw rest
      let (t, r2) ← pRaw r1
      pure (.dictOf k t, r2)
    | 'u' :: ds => do
      let n ← (String.ofList ds).toNat?
      let (ts, r) ← pRaws n rest
      pure (.union ts, r)
    | 't' :: ds => do
      let n ← (String.ofList ds).toNat?
      let (ts, r) ← pRaws n rest
      pure (.tupleFix ts, r)
    | 'c' :: ds => do
      let n ← (String.ofList ds).toNat?
      match rest with
      | nameTok :: rest' =>
        let name ← pStr nameTok
        let (fs, r) ← pRawFields n rest'
        pure (.struct name fs, r)
      | [] => none
    | _ => none
partial def pRaws : Nat → List String → Option (List RawTy × List String)
  | 0, r => some ([], r)
  | n + 1, r => do
    let (t, r1) ← pRaw r
    let (ts, r2) ← pRaws n r1
    pure (t :: ts, r2)
partial def pRawFields : Nat → List String → Option (List RawField × List String)
  | 0, r => some ([], r)
  | n + 1, r =>
    match r with
    | fTok :: r0 => do
      let f ← pStr fTok
      let (t, r1) ← pRaw r0
      let (d, r2) ← (match r1 with
        | "-" :: r2 => some (none, r2)
        | "=" :: r2 => (pVal r2).map (fun (d, r3) => (some d, r3))
        | _ => none)
      match r2 with
      | "+" :: r3 =>
        let (fs, r4) ← pRawFields n r3
        pure ((f, t, d, true) :: fs, r4)
      | "!" :: r3 =>
        let (fs, r4) ← pRawFields n r3
        pure ((f, t, d, false) :: fs, r4)
      | _ => none
    | [] => none
end

def encStr (s : Str) : String := "S" ++ ",".intercalate (s.map toString)

mutual
partial def encVal : PV → String
  | .none => "N"
  | .bool true => "T"
  | .bool false => "F"
  | .int n => s!"I{n}"
  | .flt l => "D" ++ String.ofList (l.map Char.ofNat)
  | .fltOfInt n => s!"X{n}"
  | .str s => encStr s
  | .list xs => " ".intercalate (s!"L{xs.length}" :: xs.map encVal)
  | .tuple xs => " ".intercalate (s!"U{xs.length}" :: xs.map encVal)
  | .dict kvs => " ".intercalate (s!"M{kvs.length}" :: kvs.map encPair)
  | .inst c kvs => " ".intercalate (s!"O{kvs.length}" :: encStr c :: kvs.map encPair)
partial def encPair : Str × PV → String
  | (k, v) => encStr k ++ " " ++ encVal v
end

def encItem : PathItem → String
  | .elem => "e"
  | .idx i => s!"i{i}"
  | .key k => "k" ++ ",".intercalate (k.map toString)
  | .field f => "f" ++ ",".intercalate (f.map toString)

def encPath (p : Path) : String :=
  if p.isEmpty then "-" else "/".intercalate (p.map encItem)

def encKind : CfgKind → String
  | .mismatch => "mismatch"
  | .missing => "missing"
  | .unknown => "unknown"
  | .toplevel => "toplevel"
  | .badUnion => "badUnion"
  | .badKey => "badKey"
  | .badType => "badType"

def encExc : PyExc → String
  | .config k p => s!"exc:QMI_ConfigurationException {encKind k} {encPath p}"
  | .typeError => "exc:TypeError"
  | .attributeError => "exc:AttributeError"
  | .osError => "exc:OSError"
  | .valueError => "exc:ValueError"

def whole {α : Type} (r : Option (α × List String)) : Option α :=
  match r with
  | some (a, []) => some a
  | _ => none

def encR (r : R PV) : String :=
  match r with
  | .ok v => s!"ok {encVal v}"
  | .error e => encExc e

def pOptStr (tok : String) : Option (Option Str) :=
  if tok == "-" then some none else (pStr tok).map some

def stepRaw (ρ : RawTy) (line : String) : Option (RawTy × String) :=
  match line.splitOn " " with
  | "rty" :: rest =>
    match whole (pRaw rest) with
    | some r => some (r, "ok")
    | none => some (ρ, "bad-op")
  | ["rcheck"] =>
    match checkType ρ [] with
    | .ok _ => some (ρ, "ok")
    | .error e => some (ρ, encExc e)
  | "rparse" :: rest =>
    match whole (pVal rest) with
    | some v =>
      match parseRaw ρ v [] with
      | some r => some (ρ, encR r)
      | none => some (ρ, "unmodelled")
    | none => some (ρ, "bad-op")
  | "rfrom" :: rest =>
    match whole (pVal rest) with
    | some v =>
      match fromDictFull ρ v with
      | some r => some (ρ, encR r)
      | none => some (ρ, "unmodelled")
    | none => some (ρ, "bad-op")
  | ["choose", a, e] =>
    match pOptStr a, pOptStr e with
    | some a, some e =>
      match chooseFile a e with
      | some f => some (ρ, encStr f)
      | none => some (ρ, "-")
    | _, _ => some (ρ, "bad-op")
  | "applyctx" :: rest =>
    match pVals 2 rest with
    | some ([.dict ctxs, .dict cfg], []) =>
      match applyContextCfg ρ ctxs cfg with
      | some (.ok out) => some (ρ, s!"ok {encVal (.dict out)}")
      | some (.error e) => some (ρ, encExc e)
      | none => some (ρ, "unmodelled")
    | _ => some (ρ, "bad-op")
  | "setkey" :: kTok :: rest =>
    match pStr kTok, pVals 2 rest with
    | some k, some ([v, .dict kvs], []) => some (ρ, encVal (.dict (setKey k v kvs)))
    | _, _ => some (ρ, "bad-op")
  | _ => none

def stepLine (τ : Ty) (line : String) : Ty × String :=
  match line.splitOn " " with
  | "ty" :: rest =>
    match whole (pTy rest) with
    | some t => (t, "ok")
    | none => (τ, "bad-op")
  | ["wf"] => (τ, toString (wf τ))
  | "parse" :: rest =>
    match whole (pVal rest) with
    | some v =>
      match parseValue τ v [] with
      | .ok r =>
        let d := toDict r
        let again := match parseValue τ d [] with
          | .ok r2 => if PV.beq r2 r then "same" else "diff " ++ encVal r2
          | .error e => encExc e
        (τ, s!"ok {encVal r} | {encVal d} | {again}")
      | .error e => (τ, encExc e)
    | none => (τ, "bad-op")
  | "ctor" :: rest =>
    match whole (pVal rest) with
    | some (.dict kw) =>
      match construct τ kw with
      | .ok r => (τ, s!"ok {encVal r}")
      | .error e => (τ, encExc e)
    | _ => (τ, "bad-op")
  | "todict" :: rest =>
    match whole (pVal rest) with
    | some v => (τ, encVal (toDict v))
    | none => (τ, "bad-op")
  | ["strip", tok] =>
    match pStr tok with
    | some s => (τ, encStr (stripComments s))
    | none => (τ, "bad-op")
  | ["line", tok] =>
    match pStr tok with
    | some s => (τ, encStr (stripLine s))
    | none => (τ, "bad-op")
  | "hook" :: rest =>
    match whole (pVal rest) with
    | some v =>
      match loadTree v with
      | .ok _ => (τ, "ok")
      | .error e => (τ, encExc e)
    | none => (τ, "bad-op")
  | "dump" :: rest =>
    match whole (pVal rest) with
    | some v =>
      match dumpString v with
      | .ok s => (τ, "ok " ++ encStr s)
      | .error e => (τ, encExc e)
    | none => (τ, "bad-op")
  | _ => (τ, "bad-op")

end Drv.C16

def step2 (σ : Ty × RawTy) (line : String) : (Ty × RawTy) × String :=
  match Drv.C16.stepRaw σ.2 line with
  | some (ρ, out) => ((σ.1, ρ), out)
  | none =>
    let (τ, out) := Drv.C16.stepLine σ.1 line
    ((τ, σ.2), out)

def main : IO Unit := Drv.main' step2 (Ty.any, RawTy.any)
