/-! Shared stdin/stdout loop for the model drivers (core Lean only). -/
namespace Drv

/-- read stdin line by line, thread a state through `step`, print one output line per input line -/
partial def loop {σ : Type} (h : IO.FS.Stream) (out : IO.FS.Stream) (step : σ → String → σ × String) (s : σ) : IO Unit := do
  let line ← h.getLine
  if line.isEmpty then
    out.flush
    return ()
  let l := String.ofList (line.toList.filter (fun c => c != '\n' && c != '\r'))
  let (s', o) := step s l
  out.putStrLn o
  loop h out step s'

def main' {σ : Type} (step : σ → String → σ × String) (s : σ) : IO Unit := do
  let stdin ← IO.getStdin
  let stdout ← IO.getStdout
  loop stdin stdout step s

/-- hex string → bytes (`none` on odd length / non-hex) -/
def hexVal (c : Char) : Option Nat :=
  if '0' ≤ c ∧ c ≤ '9' then some (c.toNat - '0'.toNat)
  else if 'a' ≤ c ∧ c ≤ 'f' then some (c.toNat - 'a'.toNat + 10)
  else if 'A' ≤ c ∧ c ≤ 'F' then some (c.toNat - 'A'.toNat + 10)
  else none

def unhexAux : List Char → List UInt8 → Option (List UInt8)
  | [], acc => some acc.reverse
  | [_], _ => none
  | a :: b :: rest, acc =>
    match hexVal a, hexVal b with
    | some x, some y => unhexAux rest (UInt8.ofNat (16 * x + y) :: acc)
    | _, _ => none

def unhex (s : String) : Option (List UInt8) :=
  if s == "-" then some [] else unhexAux s.toList []

def hexDigit (n : Nat) : Char :=
  if n < 10 then Char.ofNat (n + '0'.toNat) else Char.ofNat (n - 10 + 'a'.toNat)

def hex (bs : List UInt8) : String :=
  if bs.isEmpty then "-" else
  String.ofList (bs.foldr (fun b acc => hexDigit (b.toNat / 16) :: hexDigit (b.toNat % 16) :: acc) [])

end Drv
