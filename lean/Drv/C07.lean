import QmiModel.Model.PubSubDrv
import Drv.Common
/-! C07 driver: replays the linearised publish/subscribe event log on `QmiModel.PubSub.step` -/
def main : IO Unit := Drv.main' QmiModel.PubSub.Drv.stepLine QmiModel.PubSub.State.init
